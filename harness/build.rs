//! Detects, from /repo's current sources, which contracts export a `reply` entry point, so that the
//! minichain can honour `SubMsg::reply_on` (the unchanged repository has none: every sub-message is
//! `ReplyOn::Never`). Emits `--cfg has_reply_<contract>` when `pub fn reply(` is found in the
//! contract's `contract.rs`.
use std::fs;

fn main() {
    println!("cargo:rustc-check-cfg=cfg(has_reply_hub, has_reply_bsei, has_reply_stsei, has_reply_reward, has_reply_disp, has_reply_reg, has_migrate_hub, has_migrate_bsei, has_migrate_stsei, has_migrate_reward, has_migrate_disp, has_migrate_reg)");
    let contracts = [
        ("hub", "basset_sei_hub"),
        ("bsei", "basset_sei_token_bsei"),
        ("stsei", "basset_sei_token_stsei"),
        ("reward", "basset_sei_reward"),
        ("disp", "basset_sei_rewards_dispatcher"),
        ("reg", "basset_sei_validators_registry"),
    ];
    for (short, dir) in contracts.iter() {
        let path = format!("/repo/contracts/{}/src/contract.rs", dir);
        println!("cargo:rerun-if-changed={}", path);
        if let Ok(src) = fs::read_to_string(&path) {
            // strip line comments before looking for the definition
            let code: String = src.lines().map(|l| l.split("//").next().unwrap_or("")).collect::<Vec<_>>().join("\n");
            if code.contains("pub fn reply(") || code.contains("pub fn reply (") {
                println!("cargo:rustc-cfg=has_reply_{}", short);
            }
            if code.contains("pub fn migrate(") || code.contains("pub fn migrate (") {
                println!("cargo:rustc-cfg=has_migrate_{}", short);
            }
            // the entry points the contract defines (for the alphabet check)
            let mut eps: Vec<&str> = vec![];
            for ep in ["instantiate", "execute", "query", "migrate", "reply", "sudo"] {
                if code.contains(&format!("pub fn {}(", ep)) || code.contains(&format!("pub fn {} (", ep)) {
                    eps.push(ep);
                }
            }
            println!("cargo:rustc-env=KRP_ENTRY_{}={}", short, eps.join(","));
        } else {
            println!("cargo:rustc-env=KRP_ENTRY_{}=", short);
        }
    }
}
