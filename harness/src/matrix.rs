//! exhaustive matrices for C10 (message × sender × state class), C11 (paused hub; pause/unpause
//! cycles inserted into histories) and C20 (every present/absent combination of every update
//! message with in-range, boundary and out-of-range values).

use crate::chain::*;
use crate::gen::*;
use crate::ops::*;
use crate::Runner;
use std::io::Write;

fn tx(sender: Id, target: Id, call: Call) -> Op {
    Op::Tx { sender, target, call, funds: vec![] }
}
fn txf(sender: Id, target: Id, call: Call, amt: u128) -> Op {
    Op::Tx { sender, target, call, funds: vec![(0, amt)] }
}

pub const SENDERS: [Id; 14] = [OWNER, NOMINEE, UPDATER, AIRDROP, 5, 6, HUB, BSEI, STSEI, REWARD, DISP, REG, KEEPER, SWAP];

/// one representative payload per execute variant of every contract
pub fn all_messages() -> Vec<(Id, Call, u128)> {
    let mut v: Vec<(Id, Call, u128)> = vec![];
    let h = |m: HubMsg| (HUB, Call::Hub(m), 0u128);
    v.push(h(HubMsg::UConfig([None, None, None, None, Some(AIRDROP), None, Some(UPDATER)])));
    v.push(h(HubMsg::UConfig([None, None, Some(BSEI), None, None, None, None])));
    v.push(h(HubMsg::UParams(Some(30), None, None, None, Some(false), None)));
    v.push(h(HubMsg::SetOwner(NOMINEE)));
    v.push(h(HubMsg::SetOwner(OWNER)));
    v.push(h(HubMsg::Accept));
    v.push((HUB, Call::Hub(HubMsg::Bond), 7));
    v.push((HUB, Call::Hub(HubMsg::BondSt), 7));
    v.push((HUB, Call::Hub(HubMsg::BondRw), 7));
    v.push(h(HubMsg::Ugi));
    v.push(h(HubMsg::Withdraw));
    v.push(h(HubMsg::Check));
    v.push(h(HubMsg::Receive(5, 3, Hook::Unbond)));
    v.push(h(HubMsg::Receive(5, 3, Hook::Convert)));
    v.push(h(HubMsg::ClaimAirdrop));
    v.push(h(HubMsg::SwapHook));
    v.push(h(HubMsg::Redel(201, vec![(202, 1)])));
    v.push(h(HubMsg::Migrate(None)));
    for t in [BSEI, STSEI] {
        let k = |m: TokMsg| (t, Call::Tok(m), 0u128);
        v.push(k(TokMsg::Transfer(6, 1)));
        v.push(k(TokMsg::Burn(1)));
        v.push(k(TokMsg::Send(SINK, 1, Hook::Other)));
        v.push(k(TokMsg::Mint(5, 1)));
        v.push(k(TokMsg::IncAllow(7, 5, None)));
        v.push(k(TokMsg::DecAllow(7, 1, None)));
        v.push(k(TokMsg::TransferFrom(5, 6, 1)));
        v.push(k(TokMsg::BurnFrom(5, 1)));
        v.push(k(TokMsg::SendFrom(5, SINK, 1, Hook::Other)));
    }
    v.push((STSEI, Call::Tok(TokMsg::UMinter(Some(5))), 0));
    v.push((STSEI, Call::Tok(TokMsg::UMarketing), 0));
    let r = |m: RewMsg| (REWARD, Call::Reward(m), 0u128);
    v.push(r(RewMsg::Claim(None)));
    v.push(r(RewMsg::UConfig(None, None, Some(SWAP))));
    v.push(r(RewMsg::SetOwner(NOMINEE)));
    v.push(r(RewMsg::SetOwner(OWNER)));
    v.push(r(RewMsg::Accept));
    v.push(r(RewMsg::Swap));
    v.push(r(RewMsg::Ugi));
    v.push(r(RewMsg::Inc(5, 1)));
    v.push(r(RewMsg::Dec(5, 1)));
    v.push(r(RewMsg::USwapDenom(2, true)));
    let d = |m: DispMsg| (DISP, Call::Disp(m), 0u128);
    v.push(d(DispMsg::Swap(1, 1)));
    v.push(d(DispMsg::Dispatch));
    v.push(d(DispMsg::UConfig(None, None, None, None, Some(KEEPER), None)));
    v.push(d(DispMsg::SetOwner(NOMINEE)));
    v.push(d(DispMsg::SetOwner(OWNER)));
    v.push(d(DispMsg::Accept));
    v.push(d(DispMsg::USwap(SWAP)));
    v.push(d(DispMsg::USwapDenom(2, true)));
    v.push(d(DispMsg::UOracle(ORACLE)));
    let g = |m: RegMsg| (REG, Call::Reg(m), 0u128);
    v.push(g(RegMsg::Add(204)));
    v.push(g(RegMsg::Remove(202)));
    v.push(g(RegMsg::UConfig(Some(HUB))));
    v.push(g(RegMsg::Redelegations(205)));
    v.push(g(RegMsg::SetOwner(NOMINEE)));
    v.push(g(RegMsg::SetOwner(OWNER)));
    v.push(g(RegMsg::Accept));
    v
}

fn genesis(vals: &[Id]) -> Vec<Op> {
    let mut ops = vec![
        Op::Reset,
        Op::Inst(Inst::Hub { sender: OWNER, epoch: 30, unbonding: 100, fee: 50_000_000_000_000_000, thr: D, rd: 1, updater: UPDATER }),
        Op::Inst(Inst::Bsei { sender: OWNER, hub: HUB, bals: vec![] }),
        Op::Inst(Inst::Stsei { sender: OWNER, hub: HUB, bals: vec![] }),
        Op::Inst(Inst::Reward { sender: OWNER, hub: HUB, denom: 1, swap: SWAP, denoms: vec![0, 1] }),
        Op::Inst(Inst::Disp { sender: OWNER, hub: HUB, reward: REWARD, sd: 0, bd: 1, keeper: KEEPER, rate: 50_000_000_000_000_000, swap: SWAP, oracle: ORACLE, denoms: vec![0, 1, 2] }),
        Op::Inst(Inst::Reg { sender: OWNER, hub: HUB, vals: vals.to_vec() }),
        tx(OWNER, HUB, Call::Hub(HubMsg::UConfig([Some(DISP), Some(REG), Some(BSEI), Some(STSEI), Some(AIRDROP), Some(REWARD), None]))),
        Op::Env(EnvOp::UnbondingTime(100)),
    ];
    for u in SENDERS.iter() {
        ops.push(Op::Env(EnvOp::Donate(*u, 0, 1_000_000)));
    }
    ops
}

fn evolve() -> Vec<Op> {
    vec![
        txf(5, HUB, Call::Hub(HubMsg::Bond), 100_000),
        txf(5, HUB, Call::Hub(HubMsg::BondSt), 50_000),
        txf(6, HUB, Call::Hub(HubMsg::Bond), 30_000),
        tx(5, BSEI, Call::Tok(TokMsg::IncAllow(6, 500, None))),
        tx(5, STSEI, Call::Tok(TokMsg::IncAllow(6, 500, None))),
        tx(5, BSEI, Call::Tok(TokMsg::Transfer(HUB, 10))),
        tx(5, STSEI, Call::Tok(TokMsg::Transfer(HUB, 10))),
        tx(5, BSEI, Call::Tok(TokMsg::Send(HUB, 1000, Hook::Unbond))),
        Op::Env(EnvOp::Advance(31)),
        tx(5, STSEI, Call::Tok(TokMsg::Send(HUB, 1000, Hook::Unbond))),
        Op::Env(EnvOp::Slash(201, 1, 50)),
        Op::Env(EnvOp::Accrue(201, 0, 5_000)),
        Op::Env(EnvOp::Accrue(202, 1, 3_000)),
        tx(UPDATER, HUB, Call::Hub(HubMsg::Ugi)),
        Op::Env(EnvOp::Accrue(201, 0, 5_000)),
        Op::Env(EnvOp::Advance(101)),
    ]
}

fn transfer_ownership(complete: bool) -> Vec<Op> {
    let mut v = vec![
        tx(OWNER, HUB, Call::Hub(HubMsg::SetOwner(NOMINEE))),
        tx(OWNER, REWARD, Call::Reward(RewMsg::SetOwner(NOMINEE))),
        tx(OWNER, DISP, Call::Disp(DispMsg::SetOwner(NOMINEE))),
        tx(OWNER, REG, Call::Reg(RegMsg::SetOwner(NOMINEE))),
    ];
    if complete {
        v.push(tx(NOMINEE, HUB, Call::Hub(HubMsg::Accept)));
        v.push(tx(NOMINEE, REWARD, Call::Reward(RewMsg::Accept)));
        v.push(tx(NOMINEE, DISP, Call::Disp(DispMsg::Accept)));
        v.push(tx(NOMINEE, REG, Call::Reg(RegMsg::Accept)));
    }
    v
}

struct Out {
    ops: std::io::BufWriter<std::fs::File>,
    obs: std::io::BufWriter<std::fs::File>,
    r: Runner,
    cells: u64,
    cells_ok: u64,
    extra_viol: Vec<(usize, String, String, String)>,
}
impl Out {
    fn step(&mut self, op: &Op) -> String {
        writeln!(self.ops, "{}", op.to_line()).unwrap();
        let o = self.r.step(op);
        writeln!(self.obs, "{}", o).unwrap();
        o
    }
    fn cell(&mut self, op: &Op) -> bool {
        let o = self.step(op);
        self.step(&Op::Restore);
        self.cells += 1;
        let ok = o.starts_with("ok");
        if ok {
            self.cells_ok += 1;
        }
        ok
    }
}

/// matrix <kind> <seed> <ops_out> <obs_out> <report>
pub fn cmd_matrix(a: &[String]) {
    let kind = a[0].as_str();
    let seed: u64 = a[1].parse().unwrap();
    let mut out = Out {
        ops: std::io::BufWriter::new(std::fs::File::create(&a[2]).unwrap()),
        obs: std::io::BufWriter::new(std::fs::File::create(&a[3]).unwrap()),
        r: Runner::new(),
        cells: 0,
        cells_ok: 0,
        extra_viol: vec![],
    };
    let mut rng = Rng::new(seed ^ 0xA11CE);
    match kind {
        "c10" => {
            for class in 0..12 {
                // classes 5..8: partly configured hubs (the owner registers the other contracts in
                // separate transactions): no registry / no dispatcher / no tokens / no airdrop+reward
                let partial: Option<[Option<Id>; 7]> = match class {
                    5 => Some([Some(DISP), None, Some(BSEI), Some(STSEI), Some(AIRDROP), Some(REWARD), None]),
                    6 => Some([None, Some(REG), Some(BSEI), Some(STSEI), Some(AIRDROP), Some(REWARD), None]),
                    7 => Some([Some(DISP), Some(REG), None, None, Some(AIRDROP), Some(REWARD), None]),
                    8 => Some([Some(DISP), Some(REG), Some(BSEI), Some(STSEI), None, None, None]),
                    _ => None,
                };
                for op in genesis(&[201, 202, 203]) {
                    let op = match (&op, &partial) {
                        (Op::Tx { call: Call::Hub(HubMsg::UConfig(_)), .. }, Some(f)) => tx(OWNER, HUB, Call::Hub(HubMsg::UConfig(*f))),
                        _ => op,
                    };
                    out.step(&op);
                }
                if class >= 1 {
                    for op in evolve() {
                        out.step(&op);
                    }
                }
                // classes 9..11: after the system has been in use the owner re-points a sibling
                // address: the reward contract to an address that is no hub, the dispatcher and
                // the registry to another account
                if class == 9 {
                    out.step(&tx(OWNER, REWARD, Call::Reward(RewMsg::UConfig(Some(SINK), None, None))));
                }
                if class == 10 {
                    out.step(&tx(OWNER, DISP, Call::Disp(DispMsg::UConfig(Some(6), None, None, None, None, None))));
                }
                if class == 11 {
                    out.step(&tx(OWNER, REG, Call::Reg(RegMsg::UConfig(Some(6)))));
                }
                if class == 2 {
                    for op in transfer_ownership(true) {
                        out.step(&op);
                    }
                }
                if class == 3 || class == 4 {
                    for op in transfer_ownership(false) {
                        out.step(&op);
                    }
                }
                if class == 4 {
                    // the nomination is withdrawn again: the owner names itself
                    out.step(&tx(OWNER, HUB, Call::Hub(HubMsg::SetOwner(OWNER))));
                    out.step(&tx(OWNER, REWARD, Call::Reward(RewMsg::SetOwner(OWNER))));
                    out.step(&tx(OWNER, DISP, Call::Disp(DispMsg::SetOwner(OWNER))));
                    out.step(&tx(OWNER, REG, Call::Reg(RegMsg::SetOwner(OWNER))));
                }
                out.step(&Op::Save);
                for (target, call, funds) in all_messages() {
                    for s in SENDERS.iter() {
                        let op = if funds > 0 { txf(*s, target, call.clone(), funds) } else { tx(*s, target, call.clone()) };
                        out.cell(&op);
                    }
                }
            }
        }
        "c11" => {
            // (a) every hub message × sender while paused, with and without legacy entries, and with
            // an ownership nomination pending (AcceptOwnership is itself blocked by the pause)
            // legacy: 0 = none, 1 = three entries, 2 = the same with empty (amount 0) entries first in key order
            for (legacy, pending) in [(0, false), (1, false), (0, true), (1, true), (2, false)] {
                for op in genesis(&[201, 202, 203]) {
                    out.step(&op);
                }
                for op in evolve() {
                    out.step(&op);
                }
                if pending {
                    out.step(&tx(OWNER, HUB, Call::Hub(HubMsg::SetOwner(NOMINEE))));
                }
                out.step(&tx(OWNER, HUB, Call::Hub(HubMsg::UParams(None, None, None, None, Some(true), None))));
                if pending {
                    // refused (the nominee has no authority yet); if it were not, the cells below
                    // still run against a paused hub
                    out.step(&tx(NOMINEE, HUB, Call::Hub(HubMsg::UParams(None, None, None, None, Some(true), None))));
                }
                if legacy == 1 {
                    out.step(&Op::Env(EnvOp::Legacy(5, 1, 42)));
                    out.step(&Op::Env(EnvOp::Legacy(6, 1, 17)));
                    out.step(&Op::Env(EnvOp::Legacy(7, 2, 5)));
                }
                if legacy == 2 {
                    out.step(&Op::Env(EnvOp::Legacy(5, 1, 0)));
                    out.step(&Op::Env(EnvOp::Legacy(6, 1, 0)));
                    out.step(&Op::Env(EnvOp::Legacy(7, 1, 17)));
                    out.step(&Op::Env(EnvOp::Legacy(8, 2, 5)));
                }
                out.step(&Op::Save);
                for (target, call, funds) in all_messages() {
                    if target != HUB {
                        continue;
                    }
                    for s in SENDERS.iter() {
                        let op = if funds > 0 { txf(*s, target, call.clone(), funds) } else { tx(*s, target, call.clone()) };
                        out.cell(&op);
                    }
                }
                // un-pause attempts and migration steps
                for p in [None, Some(false), Some(true)] {
                    out.cell(&tx(OWNER, HUB, Call::Hub(HubMsg::UParams(None, None, None, None, p, None))));
                    out.cell(&tx(NOMINEE, HUB, Call::Hub(HubMsg::UParams(None, None, None, None, p, None))));
                }
                for l in [Some(1u32), Some(2), None] {
                    out.step(&tx(5, HUB, Call::Hub(HubMsg::Migrate(l))));
                    out.step(&tx(OWNER, HUB, Call::Hub(HubMsg::UParams(None, None, None, None, Some(false), None))));
                }
            }
            // (b) pause/unpause cycles inserted into histories: same final state
            for hidx in 0..12u64 {
                let mut g = Gen::new(seed.wrapping_mul(7919).wrapping_add(hidx), "mixed");
                for op in g.genesis() {
                    out.step(&op);
                }
                out.step(&Op::Save);
                // generate the history once, adaptively
                let mut hist: Vec<Op> = vec![];
                for _ in 0..40 {
                    let op = g.next_op(&out.r.chain);
                    out.step(&op);
                    hist.push(op);
                }
                let base = normalise_pause(&out.r.chain.observe());
                out.step(&Op::Restore);
                let k = rng.below(hist.len() as u64) as usize;
                let mut inserted = false;
                for (i, op) in hist.iter().enumerate() {
                    // the identity is about a cycle around an *unpaused* hub: if the history itself
                    // has the owner pause it, the cycle is inserted at the next unpaused point
                    let paused_now = crate::oracle::snap(&out.r.chain).paused;
                    if i >= k && !inserted && !paused_now {
                        inserted = true;
                        out.step(&tx(OWNER, HUB, Call::Hub(HubMsg::UParams(None, None, None, None, Some(true), None))));
                        out.step(&tx(5, HUB, Call::Hub(HubMsg::Check))); // blocked
                        out.step(&tx(OWNER, HUB, Call::Hub(HubMsg::UParams(None, None, None, None, Some(false), None))));
                    }
                    out.step(op);
                }
                let with_cycle = normalise_pause(&out.r.chain.observe());
                out.cells += 1;
                if base != with_cycle {
                    let l = out.r.line_no;
                    out.extra_viol.push((l, "C11".into(), "pause-cycle-changed-outcome".into(),
                        format!("history {} with a pause/unpause cycle inserted at {} ends in a different state", hidx, k)));
                } else {
                    out.cells_ok += 1;
                }
            }
        }
        // peg boundary: states in which the bSei rate sits exactly on er_threshold (and a hair
        // below / above it), then every fee-charging operation from there
        "c05" => {
            for (thr, sn, sd) in [(9 * D / 10, 1u128, 10u128), (D / 2, 1, 2), (3 * D / 4, 1, 4), (D, 1, 10)] {
                for fee in [D / 20, D / 5, D] {
                    for both in [false, true] {
                        for op in genesis(&[201, 202, 203]) {
                            out.step(&op);
                        }
                        out.step(&tx(OWNER, HUB, Call::Hub(HubMsg::UParams(None, None, Some(fee), Some(thr), None, None))));
                        out.step(&txf(5, HUB, Call::Hub(HubMsg::Bond), 900_000));
                        if both {
                            out.step(&txf(6, HUB, Call::Hub(HubMsg::BondSt), 450_000));
                        }
                        out.step(&tx(5, BSEI, Call::Tok(TokMsg::IncAllow(6, 500_000, None))));
                        for val in [201, 202, 203] {
                            out.step(&Op::Env(EnvOp::Slash(val, sn, sd)));
                        }
                        out.step(&tx(7, HUB, Call::Hub(HubMsg::Check)));
                        for variant in 0..3 {
                            match variant {
                                1 => {
                                    out.step(&Op::Env(EnvOp::Slash(201, 1, 1000)));
                                    out.step(&tx(7, HUB, Call::Hub(HubMsg::Check)));
                                }
                                2 => {
                                    // burning bSei lifts the rate (past the values of variants 0 and 1)
                                    out.step(&tx(6, BSEI, Call::Tok(TokMsg::BurnFrom(5, 2_000))));
                                }
                                _ => {}
                            }
                            out.step(&Op::Save);
                            for a in [1u128, 1_000, 10_001, 400_000] {
                                out.cell(&tx(5, BSEI, Call::Tok(TokMsg::Send(HUB, a, Hook::Unbond))));
                                out.cell(&tx(6, BSEI, Call::Tok(TokMsg::SendFrom(5, HUB, a, Hook::Unbond))));
                                out.cell(&txf(7, HUB, Call::Hub(HubMsg::Bond), a));
                                out.cell(&tx(5, BSEI, Call::Tok(TokMsg::Send(HUB, a, Hook::Convert))));
                                if both {
                                    out.cell(&tx(6, STSEI, Call::Tok(TokMsg::Send(HUB, a, Hook::Convert))));
                                }
                            }
                        }
                    }
                }
            }
        }
        "c20" => {
            for op in genesis(&[201, 202, 203]) {
                out.step(&op);
            }
            for op in evolve() {
                out.step(&op);
            }
            out.step(&Op::Save);
            let decs: [u128; 5] = [0, 1, D, D + 1, 3 * D];
            // hub UpdateParams: 2^6 presence patterns × value classes, from the genesis parameters
            // and from a state where every parameter has been moved off its default
            for base in 0..2 {
            if base == 1 {
                out.step(&tx(OWNER, HUB, Call::Hub(HubMsg::UParams(Some(77), Some(333), Some(D / 3), Some(D / 2), None, Some(2)))));
                out.step(&tx(OWNER, DISP, Call::Disp(DispMsg::UConfig(None, None, None, Some(2), Some(8), Some(D / 7)))));
                out.step(&Op::Save);
            }
            for mask in 0..64u32 {
                for vi in 0..decs.len() {
                    let e = if mask & 1 != 0 { Some(10 + vi as u64) } else { None };
                    let u = if mask & 2 != 0 { Some(100u64) } else { None };
                    let f = if mask & 4 != 0 { Some(decs[vi]) } else { None };
                    let t = if mask & 8 != 0 { Some(decs[(vi + 1) % decs.len()]) } else { None };
                    let p = if mask & 16 != 0 { Some(vi % 2 == 0) } else { None };
                    let rd = if mask & 32 != 0 { Some(1u8 + (vi % 2) as u8) } else { None };
                    let op = tx(OWNER, HUB, Call::Hub(HubMsg::UParams(e, u, f, t, p, rd)));
                    let pre = out.r.chain.clone();
                    let o = out.step(&op);
                    let post = out.r.chain.clone();
                    check_hub_params(&mut out, &pre, &post, &op, o.starts_with("ok"), (e, u, f, t, p, rd));
                    out.step(&Op::Restore);
                    out.cells += 1;
                    if o.starts_with("ok") {
                        out.cells_ok += 1;
                    }
                }
            }
            // dispatcher UpdateConfig: 2^6 × value classes
            for mask in 0..64u32 {
                for vi in 0..decs.len() {
                    let h = if mask & 1 != 0 { Some(HUB) } else { None };
                    let r = if mask & 2 != 0 { Some(REWARD) } else { None };
                    let sd = if mask & 4 != 0 { Some((vi % 2) as u8) } else { None };
                    let bd = if mask & 8 != 0 { Some(1u8 + (vi % 2) as u8) } else { None };
                    let k = if mask & 16 != 0 { Some(9) } else { None };
                    let kr = if mask & 32 != 0 { Some(decs[vi]) } else { None };
                    out.cell(&tx(OWNER, DISP, Call::Disp(DispMsg::UConfig(h, r, sd, bd, k, kr))));
                }
            }
            }
            // hub UpdateConfig: 2^7 presence patterns
            for mask in 0..128u32 {
                let mut f = [None; 7];
                let vals = [DISP, REG, BSEI, STSEI, 9, 8, 7];
                for i in 0..7 {
                    if mask & (1 << i) != 0 {
                        f[i] = Some(vals[i]);
                    }
                }
                out.cell(&tx(OWNER, HUB, Call::Hub(HubMsg::UConfig(f))));
            }
            for mask in 0..8u32 {
                let h = if mask & 1 != 0 { Some(HUB) } else { None };
                let d = if mask & 2 != 0 { Some(2u8) } else { None };
                let s = if mask & 4 != 0 { Some(SINK) } else { None };
                out.cell(&tx(OWNER, REWARD, Call::Reward(RewMsg::UConfig(h, d, s))));
            }
            for h in [None, Some(HUB), Some(9)] {
                out.cell(&tx(OWNER, REG, Call::Reg(RegMsg::UConfig(h))));
            }
            for (d, b) in [(2u8, true), (0, false), (1, true)] {
                out.cell(&tx(OWNER, DISP, Call::Disp(DispMsg::USwapDenom(d, b))));
                out.cell(&tx(OWNER, REWARD, Call::Reward(RewMsg::USwapDenom(d, b))));
            }
            out.cell(&tx(OWNER, DISP, Call::Disp(DispMsg::USwap(9))));
            out.cell(&tx(OWNER, DISP, Call::Disp(DispMsg::UOracle(9))));
            // instantiate messages with out-of-range values (re-instantiation on a saved state)
            for fee in decs.iter() {
                for thr in decs.iter() {
                    out.cell(&Op::Inst(Inst::Hub { sender: OWNER, epoch: 30, unbonding: 100, fee: *fee, thr: *thr, rd: 1, updater: UPDATER }));
                }
                out.cell(&Op::Inst(Inst::Disp { sender: OWNER, hub: HUB, reward: REWARD, sd: 0, bd: 1, keeper: KEEPER, rate: *fee, swap: SWAP, oracle: ORACLE, denoms: vec![0, 1] }));
            }
            // a dispatcher instantiated with an *empty* stSei reward denomination (instantiate only
            // validates the keeper rate): whatever it was instantiated with, the denomination stays
            out.step(&Op::Inst(Inst::Disp { sender: OWNER, hub: HUB, reward: REWARD, sd: 3, bd: 1, keeper: KEEPER, rate: D / 20, swap: SWAP, oracle: ORACLE, denoms: vec![0, 1] }));
            out.step(&Op::Save);
            for sd in [0u8, 1, 3] {
                for kr in [None, Some(D / 10)] {
                    out.cell(&tx(OWNER, DISP, Call::Disp(DispMsg::UConfig(None, None, Some(sd), None, None, kr))));
                }
            }
        }
        _ => panic!("unknown matrix kind"),
    }
    let mut extra = String::new();
    extra.push_str(&format!(
        ",\"family\":\"matrix-{}\",\"seed\":{},\"histories\":1,\"ops\":{},\"cells\":{},\"cells_ok\":{}",
        kind, seed, out.cells, out.cells, out.cells_ok
    ));
    let mut r = out.r;
    for (l, p, c, d) in out.extra_viol {
        let prop: &'static str = match p.as_str() {
            "C11" => "C11",
            "C20" => "C20",
            "C05" => "C05",
            _ => "C10",
        };
        r.violations.push((0, l, crate::oracle::Violation { prop, class: c, detail: d }));
    }
    r.stats.insert("matrix_cells", out.cells);
    r.stats.insert("matrix_cells_succeeded", out.cells_ok);
    std::fs::write(&a[4], r.report_json(&extra)).unwrap();
}

fn normalise_pause(obs: &str) -> String {
    // params=<epoch>,<unb>,<fee>,<thr>,<rd>,<paused>: the flag's representation (n/f) is not compared
    obs.split(' ')
        .map(|t| {
            if t.starts_with("params=") {
                let mut s = t.to_string();
                if s.ends_with(",n") || s.ends_with(",f") {
                    s.truncate(s.len() - 1);
                    s.push('_');
                }
                s
            } else {
                t.to_string()
            }
        })
        .collect::<Vec<_>>()
        .join(" ")
}

#[allow(clippy::type_complexity)]
fn check_hub_params(out: &mut Out, pre: &Chain, post: &Chain, op: &Op, ok: bool, f: (Option<u64>, Option<u64>, Option<u128>, Option<u128>, Option<bool>, Option<u8>)) {
    let p0: Option<basset::hub::Parameters> = pre.q(HUB, &basset::hub::QueryMsg::Parameters {}).ok();
    let p1: Option<basset::hub::Parameters> = post.q(HUB, &basset::hub::QueryMsg::Parameters {}).ok();
    let (p0, p1) = match (p0, p1) {
        (Some(a), Some(b)) => (a, b),
        _ => return,
    };
    let l = out.r.line_no;
    let mut bad = |c: &str, d: String| out.extra_viol.push((l, "C20".into(), c.to_string(), format!("{}: {}", op.to_line(), d)));
    if p1.underlying_coin_denom != p0.underlying_coin_denom {
        bad("coin-denom-changed", format!("{} → {}", p0.underlying_coin_denom, p1.underlying_coin_denom));
    }
    if !ok {
        return;
    }
    if f.0.is_none() && p1.epoch_period != p0.epoch_period {
        bad("omitted-field-changed", "epoch_period".into());
    }
    if f.1.is_none() && p1.unbonding_period != p0.unbonding_period {
        bad("omitted-field-changed", "unbonding_period".into());
    }
    if f.2.is_none() && p1.peg_recovery_fee != p0.peg_recovery_fee {
        bad("omitted-field-changed", "peg_recovery_fee".into());
    }
    if f.3.is_none() && p1.er_threshold != p0.er_threshold {
        bad("omitted-field-changed", "er_threshold".into());
    }
    if f.5.is_none() && p1.reward_denom != p0.reward_denom {
        bad("omitted-field-changed", "reward_denom".into());
    }
    if let Some(e) = f.0 {
        if p1.epoch_period != e {
            bad("field-not-applied", "epoch_period".into());
        }
    }
    if let Some(x) = f.2 {
        if p1.peg_recovery_fee.atomics().u128() != x {
            bad("field-not-applied", "peg_recovery_fee".into());
        }
    }
    if p1.paused != f.4 {
        bad("pause-flag-not-as-sent", format!("{:?} vs {:?}", p1.paused, f.4));
    }
}
