//! function-level correspondence: the pure cores reachable through public items.

use crate::chain::*;
use crate::gen::Rng;
use crate::ops::*;
use basset_sei_validators_registry::common::{calculate_delegations, calculate_undelegations};
use basset_sei_validators_registry::registry::ValidatorResponse;
use cosmwasm_std::Uint128;
use std::io::Write;
use std::panic::{catch_unwind, AssertUnwindSafe};

fn vals(ds: &[u128]) -> Vec<ValidatorResponse> {
    ds.iter()
        .enumerate()
        .map(|(i, d)| ValidatorResponse { total_delegated: Uint128::new(*d), address: format!("v{:04}", i) })
        .collect()
}

pub fn eval_deleg(amount: u128, ds: &[u128]) -> String {
    let v = vals(ds);
    let r = catch_unwind(AssertUnwindSafe(|| calculate_delegations(Uint128::new(amount), v.as_slice())));
    match r {
        Ok(Ok((rem, plan))) => format!(
            "ok {} [{}]",
            rem.u128(),
            plan.iter().map(|x| x.u128().to_string()).collect::<Vec<_>>().join(",")
        ),
        _ => "err".to_string(),
    }
}

pub fn eval_undeleg(amount: u128, ds: &[u128]) -> String {
    let v = vals(ds);
    let r = catch_unwind(AssertUnwindSafe(|| calculate_undelegations(Uint128::new(amount), v)));
    match r {
        Ok(Ok(plan)) => format!("ok [{}]", plan.iter().map(|x| x.u128().to_string()).collect::<Vec<_>>().join(",")),
        _ => "err".to_string(),
    }
}

/// drive the dispatcher's real `SwapToRewardDenom` with fixed balances and read the swap it asks for
pub fn eval_swapinfo(st: u128, b: u128, sa: u128, ba: u128, r: u128) -> String {
    let mut c = Chain::new();
    let inst = Op::Inst(Inst::Disp {
        sender: 1,
        hub: HUB,
        reward: REWARD,
        sd: 0,
        bd: 1,
        keeper: KEEPER,
        rate: 0,
        swap: SWAP,
        oracle: ORACLE,
        denoms: vec![0, 1],
    });
    if !c.apply(&inst).ok {
        return "err".into();
    }
    c.apply(&Op::Env(EnvOp::Donate(DISP, 0, sa)));
    c.apply(&Op::Env(EnvOp::Donate(DISP, 1, ba)));
    c.apply(&Op::Env(EnvOp::Oracle(true, r)));
    let o = c.apply(&Op::Tx { sender: HUB, target: DISP, call: Call::Disp(DispMsg::Swap(b, st)), funds: vec![] });
    if !o.ok {
        return "err".into();
    }
    for e in c.effects.iter() {
        if let Effect::Bank { from, to, denom, amt } = e {
            if *from == DISP && *to == SWAP {
                return format!("ok {} {}", denom, amt);
            }
        }
    }
    "ok - 0".into()
}

pub fn eval_line(line: &str) -> String {
    let t: Vec<&str> = line.split_whitespace().collect();
    let nums = |xs: &[&str]| -> Option<Vec<u128>> { xs.iter().map(|x| x.parse::<u128>().ok()).collect() };
    match t.as_slice() {
        ["f", "deleg", rest @ ..] => match nums(rest) {
            Some(n) if !n.is_empty() => eval_deleg(n[0], &n[1..]),
            _ => "bad-op".into(),
        },
        ["f", "undeleg", rest @ ..] => match nums(rest) {
            Some(n) if !n.is_empty() => eval_undeleg(n[0], &n[1..]),
            _ => "bad-op".into(),
        },
        ["f", "swapinfo", rest @ ..] => match nums(rest) {
            Some(n) if n.len() == 5 => eval_swapinfo(n[0], n[1], n[2], n[3], n[4]),
            _ => "bad-op".into(),
        },
        _ => "bad-op".into(),
    }
}

fn gen_list(r: &mut Rng) -> Vec<u128> {
    let n = match r.below(10) {
        0 => 0,
        1 => 1,
        2 => 2,
        3 => 64,
        _ => 1 + r.below(12) as usize,
    };
    let scale: u128 = match r.below(6) {
        0 => 3,
        1 => 1000,
        2 => 1_000_000_000_000_000_000,
        3 => u128::MAX / 64,
        4 => 10,
        _ => 1_000_000_000,
    };
    let mut v: Vec<u128> = (0..n)
        .map(|_| match r.below(8) {
            0 => 0,
            1 => scale,
            _ => r.below128(scale + 1),
        })
        .collect();
    match r.below(4) {
        0 => v.sort(),
        1 => {
            v.sort();
            v.reverse()
        }
        _ => {}
    }
    if r.chance(1, 5) && v.len() > 1 {
        let x = v[0];
        let k = r.below(v.len() as u64) as usize;
        v[k] = x; // ties
    }
    v
}

/// pure <kind> <seed> <count> <ops_out> <obs_out> <report>
pub fn cmd_pure(a: &[String]) {
    let kind = a[0].as_str();
    let seed: u64 = a[1].parse().unwrap();
    let count: usize = a[2].parse().unwrap();
    let mut ops = std::io::BufWriter::new(std::fs::File::create(&a[3]).unwrap());
    let mut obs = std::io::BufWriter::new(std::fs::File::create(&a[4]).unwrap());
    let mut r = Rng::new(seed ^ 0xC12);
    let mut viol: Vec<(usize, String, String, String)> = vec![];
    let mut n_ok = 0u64;
    let mut n_err = 0u64;
    let mut distinct = std::collections::BTreeSet::new();
    let mut max_len = 0usize;
    for i in 0..count {
        let line;
        match kind {
            "deleg" | "undeleg" => {
                let ds = gen_list(&mut r);
                max_len = max_len.max(ds.len());
                let total: u128 = ds.iter().fold(0u128, |a, b| a.saturating_add(*b));
                let amount = match r.below(10) {
                    0 => 0,
                    1 => 1,
                    2 => total,
                    3 => total.saturating_add(1),
                    4 => total / 2,
                    5 => u128::MAX / 2,
                    6 => (ds.len() as u128).saturating_sub(1),
                    _ => r.below128(total.saturating_add(2).max(10)),
                };
                line = format!(
                    "f {} {}{}",
                    kind,
                    amount,
                    ds.iter().map(|d| format!(" {}", d)).collect::<String>()
                );
                let out = if kind == "deleg" { eval_deleg(amount, &ds) } else { eval_undeleg(amount, &ds) };
                // property oracle, independent of the model
                if kind == "deleg" {
                    if let Some(rest) = out.strip_prefix("ok ") {
                        let rem: u128 = rest.split(' ').next().unwrap().parse().unwrap();
                        let plan: Vec<u128> = rest.split('[').nth(1).unwrap().trim_end_matches(']').split(',').filter(|x| !x.is_empty()).map(|x| x.parse().unwrap()).collect();
                        let n = ds.len() as u128;
                        let t = total + amount;
                        let ceil = (t + n - 1) / n;
                        if rem != 0 || plan.iter().sum::<u128>() != amount {
                            viol.push((i, "C12".into(), "deleg-not-conserved".into(), line.clone()));
                        }
                        for (j, p) in plan.iter().enumerate() {
                            let extra = if (j as u128 + 1) <= t % n { 1 } else { 0 };
                            if ds[j] > t / n + extra && *p != 0 {
                                viol.push((i, "C12".into(), "deleg-to-above-share".into(), line.clone()));
                            }
                            if *p > 0 && ds[j] + p > ceil {
                                viol.push((i, "C12".into(), "deleg-lifts-above-ceil".into(), line.clone()));
                            }
                        }
                    } else if !ds.is_empty() && total.checked_add(amount).is_some() {
                        viol.push((i, "C12".into(), "deleg-failed".into(), line.clone()));
                    }
                } else if let Some(rest) = out.strip_prefix("ok ") {
                    let plan: Vec<u128> = rest.trim_start_matches('[').trim_end_matches(']').split(',').filter(|x| !x.is_empty()).map(|x| x.parse().unwrap()).collect();
                    let n = ds.len() as u128;
                    let floor = (total - amount) / n;
                    if plan.iter().sum::<u128>() != amount {
                        viol.push((i, "C12".into(), "undeleg-not-conserved".into(), line.clone()));
                    }
                    for (j, p) in plan.iter().enumerate() {
                        if *p > ds[j] {
                            viol.push((i, "C12".into(), "undeleg-more-than-held".into(), line.clone()));
                        } else if *p > 0 && ds[j] - p < floor {
                            viol.push((i, "C12".into(), "undeleg-below-floor".into(), line.clone()));
                        }
                    }
                } else if !ds.is_empty() && amount <= total && ds.iter().try_fold(0u128, |a, b| a.checked_add(*b)).is_some() {
                    viol.push((i, "C12".into(), "undeleg-failed".into(), line.clone()));
                }
                if out.starts_with("ok") {
                    n_ok += 1
                } else {
                    n_err += 1
                }
                if ds.len() > 1 && amount > 0 {
                    distinct.insert(line.clone());
                }
                writeln!(ops, "{}", line).unwrap();
                writeln!(obs, "{}", out).unwrap();
            }
            "swapinfo" => {
                let e18: u128 = 1_000_000_000_000_000_000;
                let amt = |r: &mut Rng| -> u128 {
                    match r.below(8) {
                        0 => 0,
                        1 => 1,
                        2 => e18,
                        _ => r.log_amount(e18),
                    }
                };
                let st = amt(&mut r);
                let b = amt(&mut r);
                let sa = amt(&mut r);
                let ba = amt(&mut r);
                // price in [1e-18, 1e18]
                let price = match r.below(6) {
                    0 => 1,
                    1 => e18 * e18,
                    2 => e18,
                    _ => r.log_amount(e18 * e18),
                };
                line = format!("f swapinfo {} {} {} {} {}", st, b, sa, ba, price);
                let out = eval_swapinfo(st, b, sa, ba, price);
                // oracle: never offers more than it holds; share check
                if let Some(rest) = out.strip_prefix("ok ") {
                    let mut it = rest.split(' ');
                    let dn = it.next().unwrap();
                    let a: u128 = it.next().unwrap().parse().unwrap();
                    if dn == "0" && a > sa {
                        viol.push((i, "C17".into(), "offer-above-balance".into(), line.clone()));
                    }
                    if dn == "1" && a > ba {
                        viol.push((i, "C17".into(), "offer-above-balance".into(), line.clone()));
                    }
                    // the stSei side is left with its share of the total (C17_share): total rewards in
                    // stSei-reward coin (the bSei-reward balance valued at the inverse oracle price)
                    // times stSei bonded over total bonded; whatever it holds above that is sold,
                    // exactly — also when only one of the two tokens is bonded
                    if st + b > 0 && price > 0 {
                        use cosmwasm_std::Uint256;
                        let u = |x: u128| Uint256::from(x);
                        let rinv = u(e18) * u(e18) / u(price);
                        let total = u(sa) + u(ba) * rinv / u(e18);
                        let share = total * u(st) / (u(st) + u(b));
                        if u(sa) > share {
                            let want = u(sa) - share;
                            if !(dn == "0" && u(a) == want) {
                                viol.push((i, "C17".into(), "stsei-side-not-left-with-its-share".into(), format!("{} -> offered {} {} but the stSei side holds {} above its share", line, dn, a, want)));
                            }
                        } else if dn == "0" && a > 0 {
                            viol.push((i, "C17".into(), "stsei-side-sold-below-its-share".into(), line.clone()));
                        }
                    }
                    n_ok += 1;
                    if a > 0 {
                        distinct.insert(line.clone());
                    }
                } else {
                    n_err += 1;
                }
                writeln!(ops, "{}", line).unwrap();
                writeln!(obs, "{}", out).unwrap();
            }
            _ => panic!("unknown pure kind"),
        }
    }
    let mut s = String::from("{\"violations\":[");
    for (i, (idx, p, c, l)) in viol.iter().enumerate() {
        if i > 0 {
            s.push(',');
        }
        s.push_str(&format!("{{\"history\":0,\"line\":{},\"prop\":\"{}\",\"class\":\"{}\",\"detail\":\"{}\"}}", idx + 1, p, c, crate::jesc(l)));
    }
    s.push_str(&format!(
        "],\"kinds\":{{\"f.{}\":[{},{}]}},\"stats\":{{\"distinct_nontrivial\":{},\"max_list_len\":{}}},\"family\":\"pure-{}\",\"seed\":{},\"histories\":1,\"ops\":{}}}",
        kind,
        n_ok,
        n_err,
        distinct.len(),
        max_len,
        kind,
        seed,
        count
    ));
    std::fs::write(&a[5], s).unwrap();
}

