//! minichain: the six real contracts of /repo on an in-process chain (bank, staking,
//! distribution, wasm routing, all-or-nothing transactions). A-CHAIN of DESIGN.md §3.

use cosmwasm_std::testing::MockApi;
use cosmwasm_std::{
    from_json, to_json_binary, Addr, BankMsg, BankQuery, Binary, BlockInfo, Coin, ContractInfo,
    ContractResult, CosmosMsg, Deps, DepsMut, DistributionMsg, Empty, Env, MessageInfo, Order,
    Querier, QuerierResult, QuerierWrapper, QueryRequest, Record, Response, StakingMsg,
    StakingQuery, Storage, SystemError, SystemResult, Timestamp, Uint128, WasmMsg, WasmQuery,
};
use serde::Serialize;
use std::collections::{BTreeMap, BTreeSet};
use std::panic::{catch_unwind, AssertUnwindSafe};

pub type Id = u32;

pub const HUB: Id = 100;
pub const BSEI: Id = 101;
pub const STSEI: Id = 102;
pub const REWARD: Id = 103;
pub const DISP: Id = 104;
pub const REG: Id = 105;
pub const SWAP: Id = 106;
pub const ORACLE: Id = 107;
pub const KEEPER: Id = 108;
pub const SINK: Id = 109;
pub const VALS: [Id; 12] = [201, 202, 203, 204, 205, 206, 207, 208, 209, 210, 211, 212];
pub const CAST: [Id; 24] = [
    1, 2, 3, 4, 5, 6, 7, 8, 9, 100, 101, 102, 103, 104, 105, 106, 107, 108, 109, 201, 202, 203, 204,
    205,
];
/// the crowd: 45 more holder addresses (used by the `crowd` generator profile), observed like the cast
pub const CROWD_FIRST: Id = 301;
pub const CROWD_LEN: Id = 45;
/// cast followed by the crowd: every address whose balances, holder records and requests are observed
pub fn cast_all() -> Vec<Id> {
    let mut v: Vec<Id> = CAST.to_vec();
    v.extend(CROWD_FIRST..CROWD_FIRST + CROWD_LEN);
    v
}
pub const D: u128 = 1_000_000_000_000_000_000;

/// ids 1000..1999 are the upper-case spelling of the address `id - 1000` (one account, two spellings)
pub fn name(id: Id) -> String {
    if (1000..2000).contains(&id) {
        format!("A{:04}", id - 1000)
    } else {
        format!("a{:04}", id)
    }
}
pub fn id_of(s: &str) -> Id {
    s.trim_start_matches(|c| c == 'a' || c == 'A').parse::<Id>().unwrap_or(0)
}
pub fn denom(d: u8) -> &'static str {
    match d {
        0 => "usei",
        1 => "uusd",
        // the empty denomination (an instantiate message may carry it; no coin has it)
        3 => "",
        // a third denomination in the spelling of an IBC voucher: bank denoms are case sensitive
        _ => "ibc/27394FB092D2ECCD56123C74F36E4C1F926001CEADA9CA97EA622B25F41E5EB2",
    }
}
pub fn denom_id(s: &str) -> u8 {
    match s {
        "usei" => 0,
        "uusd" => 1,
        "" => 3,
        "ibc/27394FB092D2ECCD56123C74F36E4C1F926001CEADA9CA97EA622B25F41E5EB2" => 2,
        // any other spelling is another denomination
        _ => 9,
    }
}

#[derive(Clone, Default)]
pub struct Store {
    pub data: BTreeMap<Vec<u8>, Vec<u8>>,
}

impl Storage for Store {
    fn get(&self, key: &[u8]) -> Option<Vec<u8>> {
        self.data.get(key).cloned()
    }
    fn range<'a>(
        &'a self,
        start: Option<&[u8]>,
        end: Option<&[u8]>,
        order: Order,
    ) -> Box<dyn Iterator<Item = Record> + 'a> {
        use std::ops::Bound;
        let lo = match start {
            Some(s) => Bound::Included(s.to_vec()),
            None => Bound::Unbounded,
        };
        let hi = match end {
            Some(e) => Bound::Excluded(e.to_vec()),
            None => Bound::Unbounded,
        };
        if let (Bound::Included(a), Bound::Excluded(b)) = (&lo, &hi) {
            if a >= b {
                return Box::new(std::iter::empty());
            }
        }
        let it = self.data.range((lo, hi)).map(|(k, v)| (k.clone(), v.clone()));
        match order {
            Order::Ascending => Box::new(it),
            Order::Descending => Box::new(it.rev()),
        }
    }
    fn set(&mut self, key: &[u8], value: &[u8]) {
        self.data.insert(key.to_vec(), value.to_vec());
    }
    fn remove(&mut self, key: &[u8]) {
        self.data.remove(key);
    }
}

#[derive(Clone, Debug, PartialEq)]
pub enum Effect {
    Bank { from: Id, to: Id, denom: u8, amt: u128 },
    Delegate { v: Id, amt: u128 },
    Undelegate { v: Id, amt: u128 },
    Redelegate { src: Id, dst: Id, amt: u128 },
    WithdrawReward { v: Id },
    SetWithdrawAddr { a: Id },
    Wasm { sender: Id, target: Id, variant: String },
    Query { from: Id, target: Id },
}

#[derive(Clone)]
pub struct Chain {
    pub time: u64,
    pub height: u64,
    pub bank: BTreeMap<(Id, u8), u128>,
    pub deleg: BTreeMap<Id, u128>,
    pub unbonding: Vec<(Id, u128, u64)>,
    pub pending: BTreeMap<(Id, u8), u128>,
    pub withdraw_addr: Id,
    pub no_redelegate: BTreeSet<Id>,
    /// validators whose undelegations the staking module refuses (unbonding-entry limit reached)
    pub no_undelegate: BTreeSet<Id>,
    /// validators that have left the active (bonded) set: the validator queries no longer list
    /// them; staking messages to them keep working, as on a real chain
    pub inactive: BTreeSet<Id>,
    pub unbonding_time: u64,
    pub oracle_ok: bool,
    pub oracle_price: u128,
    pub swap_ok: bool,
    pub swap_p2: u128,
    pub stores: BTreeMap<Id, Store>,
    pub effects: Vec<Effect>,
    /// pre-order list of the messages handled in the last transaction (the failing one marked `!`)
    pub trace: Vec<String>,
    pub fuel: u32,
}

fn sys_err(msg: &str) -> QuerierResult {
    SystemResult::Err(SystemError::InvalidRequest {
        error: msg.to_string(),
        request: Binary::default(),
    })
}

fn ok_bin<T: Serialize>(v: &T) -> QuerierResult {
    SystemResult::Ok(ContractResult::Ok(to_json_binary(v).unwrap()))
}

fn contract_err(msg: String) -> QuerierResult {
    SystemResult::Ok(ContractResult::Err(msg))
}

#[derive(Serialize)]
struct BalResp {
    amount: Coin,
}
#[derive(Serialize)]
struct AllBalResp {
    amount: Vec<Coin>,
}
#[derive(Serialize)]
struct DelegationJ {
    delegator: String,
    validator: String,
    amount: Coin,
}
#[derive(Serialize)]
struct AllDelegResp {
    delegations: Vec<DelegationJ>,
}
#[derive(Serialize)]
struct FullDelegJ {
    delegator: String,
    validator: String,
    amount: Coin,
    can_redelegate: Coin,
    accumulated_rewards: Vec<Coin>,
}
#[derive(Serialize)]
struct DelegResp {
    delegation: Option<FullDelegJ>,
}
#[derive(Serialize)]
struct SimResp {
    return_amount: Uint128,
    spread_amount: Uint128,
    commission_amount: Uint128,
}
#[derive(Serialize)]
struct SinkBal {
    balance: Uint128,
}

pub struct ChainQuerier<'a> {
    pub chain: &'a Chain,
    pub from: Id,
}

impl<'a> Querier for ChainQuerier<'a> {
    fn raw_query(&self, bin_request: &[u8]) -> QuerierResult {
        let req: QueryRequest<Empty> = match from_json(bin_request) {
            Ok(r) => r,
            Err(e) => return sys_err(&format!("bad request: {}", e)),
        };
        self.chain.query(self.from, &req)
    }
}

pub fn mul_floor(a: u128, num: u128, den: u128) -> u128 {
    // floor(a * num / den) with 256-bit intermediate
    let r = Uint128::new(a).multiply_ratio(num, den);
    r.u128()
}

impl Chain {
    pub fn new() -> Chain {
        let mut bank = BTreeMap::new();
        for d in 0..3u8 {
            bank.insert((SWAP, d), 10_000_000_000_000_000_000_000_000_000_000_000_000u128);
        }
        Chain {
            time: 1_000_000,
            height: 1,
            bank,
            deleg: BTreeMap::new(),
            unbonding: vec![],
            pending: BTreeMap::new(),
            withdraw_addr: HUB,
            no_redelegate: BTreeSet::new(),
            no_undelegate: BTreeSet::new(),
            inactive: BTreeSet::new(),
            unbonding_time: 0,
            oracle_ok: true,
            oracle_price: D,
            swap_ok: true,
            swap_p2: D,
            stores: BTreeMap::new(),
            effects: vec![],
            trace: vec![],
            fuel: 0,
        }
    }

    pub fn bal(&self, a: Id, d: u8) -> u128 {
        *self.bank.get(&(a, d)).unwrap_or(&0)
    }
    pub fn deleg_of(&self, v: Id) -> u128 {
        *self.deleg.get(&v).unwrap_or(&0)
    }
    pub fn total_delegated(&self) -> u128 {
        self.deleg.values().sum()
    }
    pub fn pending_of(&self, v: Id, d: u8) -> u128 {
        *self.pending.get(&(v, d)).unwrap_or(&0)
    }

    pub fn env(&self, contract: Id) -> Env {
        Env {
            block: BlockInfo {
                height: self.height,
                time: Timestamp::from_seconds(self.time),
                chain_id: "minichain".to_string(),
            },
            transaction: None,
            contract: ContractInfo { address: Addr::unchecked(name(contract)) },
        }
    }

    pub fn swap_price(&self, src: u8, dst: u8) -> Option<u128> {
        if src == dst {
            Some(D)
        } else if src == 0 && dst == 1 {
            Some(self.oracle_price)
        } else if src == 1 && dst == 0 {
            if self.oracle_price == 0 {
                None
            } else {
                // Decimal::inv: 10^36 / r
                Some(mul_floor(D, D, self.oracle_price))
            }
        } else {
            Some(self.swap_p2)
        }
    }

    // ---------------------------------------------------------------- queries
    pub fn query(&self, from: Id, req: &QueryRequest<Empty>) -> QuerierResult {
        match req {
            QueryRequest::Bank(BankQuery::Balance { address, denom: dn }) => {
                let a = id_of(address);
                ok_bin(&BalResp {
                    amount: Coin::new(self.bal(a, denom_id(dn)), dn.as_str()),
                })
            }
            QueryRequest::Bank(BankQuery::AllBalances { address }) => {
                let a = id_of(address);
                let mut v = vec![];
                for d in 0..3u8 {
                    let b = self.bal(a, d);
                    if b > 0 {
                        v.push(Coin::new(b, denom(d)));
                    }
                }
                ok_bin(&AllBalResp { amount: v })
            }
            QueryRequest::Staking(StakingQuery::AllDelegations { delegator }) => {
                let mut v = vec![];
                if id_of(delegator) == HUB {
                    for val in VALS.iter() {
                        let amt = self.deleg_of(*val);
                        if self.deleg.contains_key(val) {
                            v.push(DelegationJ {
                                delegator: delegator.clone(),
                                validator: name(*val),
                                amount: Coin::new(amt, "usei"),
                            });
                        }
                    }
                }
                ok_bin(&AllDelegResp { delegations: v })
            }
            QueryRequest::Staking(StakingQuery::Delegation { delegator, validator }) => {
                let v = id_of(validator);
                let amt = if id_of(delegator) == HUB { self.deleg_of(v) } else { 0 };
                let d = if !(id_of(delegator) == HUB && self.deleg.contains_key(&v)) {
                    None
                } else {
                    let can = if self.no_redelegate.contains(&v) { 0 } else { amt };
                    Some(FullDelegJ {
                        delegator: delegator.clone(),
                        validator: validator.clone(),
                        amount: Coin::new(amt, "usei"),
                        can_redelegate: Coin::new(can, "usei"),
                        accumulated_rewards: vec![],
                    })
                };
                ok_bin(&DelegResp { delegation: d })
            }
            QueryRequest::Wasm(WasmQuery::Smart { contract_addr, msg }) => {
                let target = id_of(contract_addr);
                self.smart_query(from, target, msg)
            }
            // the chain's active validator set (no contract of the unchanged repository asks for it)
            QueryRequest::Staking(StakingQuery::AllValidators {}) => {
                let mk = |v: &Id| cosmwasm_std::Validator {
                    address: name(*v),
                    commission: cosmwasm_std::Decimal::percent(5),
                    max_commission: cosmwasm_std::Decimal::percent(20),
                    max_change_rate: cosmwasm_std::Decimal::percent(1),
                };
                ok_bin(&cosmwasm_std::AllValidatorsResponse { validators: VALS.iter().filter(|v| !self.inactive.contains(v)).map(mk).collect() })
            }
            QueryRequest::Staking(StakingQuery::Validator { address }) => {
                let v = id_of(address);
                let val = if VALS.contains(&v) && !self.inactive.contains(&v) {
                    Some(cosmwasm_std::Validator {
                        address: name(v),
                        commission: cosmwasm_std::Decimal::percent(5),
                        max_commission: cosmwasm_std::Decimal::percent(20),
                        max_change_rate: cosmwasm_std::Decimal::percent(1),
                    })
                } else {
                    None
                };
                ok_bin(&cosmwasm_std::ValidatorResponse { validator: val })
            }
            QueryRequest::Staking(StakingQuery::BondedDenom {}) => ok_bin(&cosmwasm_std::BondedDenomResponse { denom: "usei".into() }),
            _ => sys_err("unsupported query"),
        }
    }

    pub fn smart_query(&self, from: Id, target: Id, msg: &Binary) -> QuerierResult {
        let _ = from;
        let api = MockApi::default();
        match target {
            SWAP => {
                if !self.swap_ok {
                    return contract_err("swap stub failing".into());
                }
                let q: basset::swap_ext::SwapQueryMsg = match from_json(msg) {
                    Ok(q) => q,
                    Err(e) => return contract_err(e.to_string()),
                };
                match q {
                    basset::swap_ext::SwapQueryMsg::QuerySimulation { asset_infos, offer_asset } => {
                        let src = denom_id(&asset_infos[0].to_string());
                        let dst = denom_id(&asset_infos[1].to_string());
                        match self.swap_price(src, dst) {
                            Some(p) => ok_bin(&SimResp {
                                return_amount: Uint128::new(mul_floor(offer_asset.amount.u128(), p, D)),
                                spread_amount: Uint128::zero(),
                                commission_amount: Uint128::zero(),
                            }),
                            None => contract_err("no price".into()),
                        }
                    }
                    _ => contract_err("unsupported".into()),
                }
            }
            ORACLE => {
                if !self.oracle_ok {
                    return contract_err("oracle stub failing".into());
                }
                let dec = cosmwasm_std::Decimal::from_atomics(Uint128::new(self.oracle_price), 18)
                    .unwrap();
                ok_bin(&dec)
            }
            SINK => ok_bin(&SinkBal { balance: Uint128::new(5) }),
            _ => {
                let store = match self.stores.get(&target) {
                    Some(s) => s,
                    None => {
                        return SystemResult::Err(SystemError::NoSuchContract {
                            addr: name(target),
                        })
                    }
                };
                let querier = ChainQuerier { chain: self, from: target };
                let deps = Deps {
                    storage: store,
                    api: &api,
                    querier: QuerierWrapper::new(&querier),
                };
                let env = self.env(target);
                let r = catch_unwind(AssertUnwindSafe(|| match target {
                    HUB => basset_sei_hub::contract::query(deps, env, from_json(msg)?),
                    BSEI => basset_sei_token_bsei::contract::query(deps, env, from_json(msg)?),
                    STSEI => basset_sei_token_stsei::contract::query(deps, env, from_json(msg)?),
                    REWARD => basset_sei_reward::contract::query(deps, env, from_json(msg)?),
                    DISP => basset_sei_rewards_dispatcher::contract::query(deps, env, from_json(msg)?),
                    REG => basset_sei_validators_registry::contract::query(deps, env, from_json(msg)?),
                    _ => Err(cosmwasm_std::StdError::generic_err("no such contract")),
                }));
                match r {
                    Ok(Ok(b)) => SystemResult::Ok(ContractResult::Ok(b)),
                    Ok(Err(e)) => contract_err(e.to_string()),
                    Err(_) => contract_err("panic in query".into()),
                }
            }
        }
    }

    /// typed smart query from outside (observation)
    pub fn q<T: serde::de::DeserializeOwned, M: Serialize>(&self, target: Id, msg: &M) -> Result<T, String> {
        match self.smart_query(0, target, &to_json_binary(msg).unwrap()) {
            SystemResult::Ok(ContractResult::Ok(b)) => from_json(&b).map_err(|e| e.to_string()),
            SystemResult::Ok(ContractResult::Err(e)) => Err(e),
            SystemResult::Err(e) => Err(e.to_string()),
        }
    }

    // ---------------------------------------------------------------- execution
    fn bank_move(&mut self, from: Id, to: Id, d: u8, amt: u128) -> Result<(), String> {
        if amt == 0 {
            return Err("zero coin".into());
        }
        let b = self.bal(from, d);
        if b < amt {
            return Err(format!("insufficient funds: {} < {}", b, amt));
        }
        self.bank.insert((from, d), b - amt);
        let t = self.bal(to, d);
        self.bank.insert((to, d), t + amt);
        self.effects.push(Effect::Bank { from, to, denom: d, amt });
        Ok(())
    }

    fn run_contract(
        &mut self,
        target: Id,
        sender: Id,
        funds: &[Coin],
        msg: &Binary,
        instantiate: bool,
    ) -> Result<Response, String> {
        let api = MockApi::default();
        let env = self.env(target);
        let info = MessageInfo { sender: Addr::unchecked(name(sender)), funds: funds.to_vec() };
        // stubs
        match target {
            SWAP => {
                if !self.swap_ok {
                    return Err("swap stub failing".into());
                }
                let m: basset::swap_ext::SwapExecteMsg = from_json(msg).map_err(|e| e.to_string())?;
                let basset::swap_ext::SwapExecteMsg::SwapDenom { from_coin, target_denom, to_address } = m;
                let src = denom_id(&from_coin.denom);
                let dst = denom_id(&target_denom);
                let p = self.swap_price(src, dst).ok_or("no price")?;
                let out = mul_floor(from_coin.amount.u128(), p, D);
                let to = to_address.unwrap_or_else(|| name(sender));
                let mut r = Response::new();
                if out > 0 {
                    r = r.add_message(BankMsg::Send {
                        to_address: to,
                        amount: vec![Coin::new(out, target_denom)],
                    });
                }
                return Ok(r);
            }
            SINK => return Ok(Response::new()),
            ORACLE | KEEPER => return Err("not a contract".into()),
            HUB | BSEI | STSEI | REWARD | DISP | REG => {}
            _ => return Err("no such contract".into()),
        }
        let mut store = if instantiate {
            Store::default()
        } else {
            match self.stores.remove(&target) {
                Some(s) => s,
                None => return Err("contract not instantiated".into()),
            }
        };
        let result = {
            let querier = ChainQuerier { chain: &*self, from: target };
            let deps = DepsMut { storage: &mut store, api: &api, querier: QuerierWrapper::new(&querier) };
            catch_unwind(AssertUnwindSafe(|| -> Result<Response, String> {
                if instantiate {
                    match target {
                        HUB => basset_sei_hub::contract::instantiate(deps, env, info, from_json(msg).map_err(|e| e.to_string())?).map_err(|e| e.to_string()),
                        BSEI => basset_sei_token_bsei::contract::instantiate(deps, env, info, from_json(msg).map_err(|e| e.to_string())?).map_err(|e| e.to_string()),
                        STSEI => basset_sei_token_stsei::contract::instantiate(deps, env, info, from_json(msg).map_err(|e| e.to_string())?).map_err(|e| e.to_string()),
                        REWARD => basset_sei_reward::contract::instantiate(deps, env, info, from_json(msg).map_err(|e| e.to_string())?).map_err(|e| e.to_string()),
                        DISP => basset_sei_rewards_dispatcher::contract::instantiate(deps, env, info, from_json(msg).map_err(|e| e.to_string())?).map_err(|e| e.to_string()),
                        REG => basset_sei_validators_registry::contract::instantiate(deps, env, info, from_json(msg).map_err(|e| e.to_string())?).map_err(|e| e.to_string()),
                        _ => Err("no such contract".into()),
                    }
                } else {
                    match target {
                        HUB => basset_sei_hub::contract::execute(deps, env, info, from_json(msg).map_err(|e| e.to_string())?).map_err(|e| e.to_string()),
                        BSEI => basset_sei_token_bsei::contract::execute(deps, env, info, from_json(msg).map_err(|e| e.to_string())?).map_err(|e| e.to_string()),
                        STSEI => basset_sei_token_stsei::contract::execute(deps, env, info, from_json(msg).map_err(|e| e.to_string())?).map_err(|e| e.to_string()),
                        REWARD => basset_sei_reward::contract::execute(deps, env, info, from_json(msg).map_err(|e| e.to_string())?).map_err(|e| e.to_string()),
                        DISP => basset_sei_rewards_dispatcher::contract::execute(deps, env, info, from_json(msg).map_err(|e| e.to_string())?).map_err(|e| e.to_string()),
                        REG => basset_sei_validators_registry::contract::execute(deps, env, info, from_json(msg).map_err(|e| e.to_string())?).map_err(|e| e.to_string()),
                        _ => Err("no such contract".into()),
                    }
                }
            }))
        };
        match result {
            Ok(Ok(resp)) => {
                self.stores.insert(target, store);
                Ok(resp)
            }
            Ok(Err(e)) => {
                if !instantiate {
                    self.stores.insert(target, store);
                }
                Err(e)
            }
            Err(p) => {
                if !instantiate {
                    self.stores.insert(target, store);
                }
                let s = if let Some(s) = p.downcast_ref::<String>() {
                    s.clone()
                } else if let Some(s) = p.downcast_ref::<&str>() {
                    s.to_string()
                } else {
                    "panic".to_string()
                };
                Err(format!("panic: {}", s))
            }
        }
    }

    fn variant_of(msg: &Binary) -> String {
        // first JSON key, for the effects log
        let s = String::from_utf8_lossy(msg.as_slice()).to_string();
        s.split('"').nth(1).unwrap_or("?").to_string()
    }

    /// execute a wasm message and everything it triggers, depth-first
    pub fn exec_wasm(&mut self, sender: Id, target: Id, msg: &Binary, funds: &[Coin]) -> Result<(), String> {
        if self.fuel == 0 {
            return Err("out of fuel".into());
        }
        self.fuel -= 1;
        // (the sink stub accepts anything: its messages are traced without their variant)
        let tok = if target == SINK { format!("X{}.*", target) } else { format!("X{}.{}", target, Self::variant_of(msg)) };
        let mut moved: Result<(), String> = Ok(());
        for c in funds {
            moved = self.bank_move(sender, target, denom_id(&c.denom), c.amount.u128());
            if moved.is_err() {
                break;
            }
        }
        let r = match moved {
            Err(e) => Err(e),
            Ok(()) => {
                self.effects.push(Effect::Wasm { sender, target, variant: Self::variant_of(msg) });
                self.run_contract(target, sender, funds, msg, false)
            }
        };
        let resp = match r {
            Err(e) => {
                self.trace.push(format!("{}!", tok));
                return Err(e);
            }
            Ok(resp) => {
                self.trace.push(tok);
                resp
            }
        };
        self.exec_subs(target, resp.messages)
    }

    /// the sub-messages of a response, in order, with CosmWasm's `reply_on` semantics: a
    /// sub-message that wants a reply runs in its own sub-transaction; when it fails its effects are
    /// rolled back and — for `ReplyOn::Error` / `Always` — the error goes to the caller's `reply`
    /// entry point instead of aborting the transaction. (The unchanged repository only emits
    /// `ReplyOn::Never`, for which this is the plain depth-first execution.)
    fn exec_subs(&mut self, caller: Id, subs: Vec<cosmwasm_std::SubMsg>) -> Result<(), String> {
        use cosmwasm_std::{Reply, ReplyOn, SubMsgResponse, SubMsgResult};
        for sub in subs {
            if sub.reply_on == ReplyOn::Never {
                self.exec_cosmos(caller, sub.msg)?;
                continue;
            }
            let snapshot = self.clone();
            let r = self.exec_cosmos(caller, sub.msg);
            let result = match r {
                Ok(()) => {
                    if sub.reply_on == ReplyOn::Error {
                        continue;
                    }
                    SubMsgResult::Ok(SubMsgResponse { events: vec![], data: None })
                }
                Err(e) => {
                    // roll the sub-transaction back, keeping the diagnostics
                    let trace = std::mem::take(&mut self.trace);
                    let fuel = self.fuel;
                    *self = snapshot;
                    self.trace = trace;
                    self.fuel = fuel;
                    if sub.reply_on == ReplyOn::Success {
                        return Err(e);
                    }
                    SubMsgResult::Err(e)
                }
            };
            let resp = self.run_reply(caller, Reply { id: sub.id, result })?;
            self.trace.push(format!("Y{}.reply", caller));
            self.exec_subs(caller, resp.messages)?;
        }
        Ok(())
    }

    /// call a contract's `reply` entry point (only contracts whose source defines one — see build.rs)
    #[allow(unused_variables, unused_mut)]
    fn run_reply(&mut self, target: Id, reply: cosmwasm_std::Reply) -> Result<Response, String> {
        let api = MockApi::default();
        let env = self.env(target);
        let mut store = match self.stores.remove(&target) {
            Some(s) => s,
            None => return Err("contract not instantiated".into()),
        };
        let result = {
            let querier = ChainQuerier { chain: &*self, from: target };
            let deps: DepsMut<cosmwasm_std::Empty> = DepsMut { storage: &mut store, api: &api, querier: QuerierWrapper::new(&querier) };
            catch_unwind(AssertUnwindSafe(|| -> Result<Response, String> {
                match target {
                    #[cfg(has_reply_hub)]
                    HUB => basset_sei_hub::contract::reply(deps, env, reply).map_err(|e| e.to_string()),
                    #[cfg(has_reply_bsei)]
                    BSEI => basset_sei_token_bsei::contract::reply(deps, env, reply).map_err(|e| e.to_string()),
                    #[cfg(has_reply_stsei)]
                    STSEI => basset_sei_token_stsei::contract::reply(deps, env, reply).map_err(|e| e.to_string()),
                    #[cfg(has_reply_reward)]
                    REWARD => basset_sei_reward::contract::reply(deps, env, reply).map_err(|e| e.to_string()),
                    #[cfg(has_reply_disp)]
                    DISP => basset_sei_rewards_dispatcher::contract::reply(deps, env, reply).map_err(|e| e.to_string()),
                    #[cfg(has_reply_reg)]
                    REG => basset_sei_validators_registry::contract::reply(deps, env, reply).map_err(|e| e.to_string()),
                    _ => Err("contract has no reply entry point".into()),
                }
            }))
        };
        self.stores.insert(target, store);
        match result {
            Ok(r) => r,
            Err(_) => Err("panic in reply".into()),
        }
    }

    /// a contract upgrade to the same code: call the contract's `migrate` entry point (when its
    /// source defines one — build.rs) with the empty migrate message and run what it emits
    #[allow(unused_variables, unused_mut)]
    pub fn run_migrate(&mut self, target: Id) -> Result<(), String> {
        let api = MockApi::default();
        let env = self.env(target);
        let mut store = match self.stores.remove(&target) {
            Some(s) => s,
            None => return Err("contract not instantiated".into()),
        };
        let msg = Binary::from(br#"{"reward_dispatcher_contract":"a0104","validators_registry_contract":"a0105","stsei_token_contract":"a0102","rewards_contract":"a0103"}"#.to_vec());
        let result = {
            let querier = ChainQuerier { chain: &*self, from: target };
            let deps: DepsMut<cosmwasm_std::Empty> = DepsMut { storage: &mut store, api: &api, querier: QuerierWrapper::new(&querier) };
            catch_unwind(AssertUnwindSafe(|| -> Result<Response, String> {
                match target {
                    #[cfg(has_migrate_hub)]
                    HUB => basset_sei_hub::contract::migrate(deps, env, from_json(&msg).map_err(|e| e.to_string())?).map_err(|e| e.to_string()),
                    #[cfg(has_migrate_bsei)]
                    BSEI => basset_sei_token_bsei::contract::migrate(deps, env, from_json(&msg).map_err(|e| e.to_string())?).map_err(|e| e.to_string()),
                    #[cfg(has_migrate_stsei)]
                    STSEI => basset_sei_token_stsei::contract::migrate(deps, env, from_json(&msg).map_err(|e| e.to_string())?).map_err(|e| e.to_string()),
                    #[cfg(has_migrate_reward)]
                    REWARD => basset_sei_reward::contract::migrate(deps, env, from_json(&msg).map_err(|e| e.to_string())?).map_err(|e| e.to_string()),
                    #[cfg(has_migrate_disp)]
                    DISP => basset_sei_rewards_dispatcher::contract::migrate(deps, env, from_json(&msg).map_err(|e| e.to_string())?).map_err(|e| e.to_string()),
                    #[cfg(has_migrate_reg)]
                    REG => basset_sei_validators_registry::contract::migrate(deps, env, from_json(&msg).map_err(|e| e.to_string())?).map_err(|e| e.to_string()),
                    _ => Err("no migrate entry point".into()),
                }
            }))
        };
        self.stores.insert(target, store);
        let resp = match result {
            Ok(r) => r?,
            Err(_) => return Err("panic in migrate".into()),
        };
        self.exec_subs(target, resp.messages)
    }

    fn exec_cosmos(&mut self, sender: Id, msg: CosmosMsg) -> Result<(), String> {
        // trace token of a chain-level message (contract calls are traced in exec_wasm)
        let tok: Option<String> = match &msg {
            CosmosMsg::Bank(BankMsg::Send { to_address, amount }) if amount.len() == 1 => {
                Some(format!("B{}>{}.{}.{}", sender, id_of(to_address), denom_id(&amount[0].denom), amount[0].amount.u128()))
            }
            CosmosMsg::Staking(StakingMsg::Delegate { validator, amount }) => Some(format!("D{}.{}", id_of(validator), amount.amount.u128())),
            CosmosMsg::Staking(StakingMsg::Undelegate { validator, amount }) => Some(format!("U{}.{}", id_of(validator), amount.amount.u128())),
            CosmosMsg::Staking(StakingMsg::Redelegate { src_validator, dst_validator, amount }) => {
                Some(format!("R{}>{}.{}", id_of(src_validator), id_of(dst_validator), amount.amount.u128()))
            }
            CosmosMsg::Distribution(DistributionMsg::WithdrawDelegatorReward { validator }) => Some(format!("W{}", id_of(validator))),
            CosmosMsg::Distribution(DistributionMsg::SetWithdrawAddress { address }) => Some(format!("A{}", id_of(address))),
            _ => None,
        };
        let r = self.exec_cosmos_inner(sender, msg);
        if let Some(t) = tok {
            self.trace.push(if r.is_ok() { t } else { format!("{}!", t) });
        }
        r
    }

    fn exec_cosmos_inner(&mut self, sender: Id, msg: CosmosMsg) -> Result<(), String> {
        match msg {
            CosmosMsg::Bank(BankMsg::Send { to_address, amount }) => {
                if amount.is_empty() {
                    return Err("empty coins".into());
                }
                for c in amount {
                    self.bank_move(sender, id_of(&to_address), denom_id(&c.denom), c.amount.u128())?;
                }
                Ok(())
            }
            CosmosMsg::Staking(StakingMsg::Delegate { validator, amount }) => {
                let v = id_of(&validator);
                if sender != HUB {
                    return Err("unsupported delegator".into());
                }
                let amt = amount.amount.u128();
                if amt == 0 {
                    return Err("zero delegation".into());
                }
                if !VALS.contains(&v) {
                    return Err("unknown validator".into());
                }
                let b = self.bal(sender, 0);
                if amount.denom != "usei" || b < amt {
                    return Err("insufficient funds".into());
                }
                self.bank.insert((sender, 0), b - amt);
                *self.deleg.entry(v).or_insert(0) += amt;
                self.effects.push(Effect::Delegate { v, amt });
                Ok(())
            }
            CosmosMsg::Staking(StakingMsg::Undelegate { validator, amount }) => {
                let v = id_of(&validator);
                if sender != HUB {
                    return Err("unsupported delegator".into());
                }
                let amt = amount.amount.u128();
                if amt == 0 {
                    return Err("zero undelegation".into());
                }
                let d = self.deleg_of(v);
                if d < amt {
                    return Err("insufficient delegation".into());
                }
                if self.no_undelegate.contains(&v) {
                    return Err("too many unbonding entries".into());
                }
                if d - amt == 0 {
                    self.deleg.remove(&v);
                } else {
                    self.deleg.insert(v, d - amt);
                }
                self.unbonding.push((v, amt, self.time + self.unbonding_time));
                self.effects.push(Effect::Undelegate { v, amt });
                Ok(())
            }
            CosmosMsg::Staking(StakingMsg::Redelegate { src_validator, dst_validator, amount }) => {
                let src = id_of(&src_validator);
                let dst = id_of(&dst_validator);
                if sender != HUB {
                    return Err("unsupported delegator".into());
                }
                let amt = amount.amount.u128();
                if amt == 0 {
                    return Err("zero redelegation".into());
                }
                if !VALS.contains(&dst) {
                    return Err("unknown validator".into());
                }
                if src == dst {
                    return Err("self redelegation".into());
                }
                if self.no_redelegate.contains(&src) {
                    return Err("redelegation in progress".into());
                }
                let d = self.deleg_of(src);
                if d < amt {
                    return Err("insufficient delegation".into());
                }
                if d - amt == 0 {
                    self.deleg.remove(&src);
                } else {
                    self.deleg.insert(src, d - amt);
                }
                *self.deleg.entry(dst).or_insert(0) += amt;
                self.effects.push(Effect::Redelegate { src, dst, amt });
                Ok(())
            }
            CosmosMsg::Distribution(DistributionMsg::WithdrawDelegatorReward { validator }) => {
                let v = id_of(&validator);
                if sender != HUB {
                    return Err("unsupported delegator".into());
                }
                if !self.deleg.contains_key(&v) {
                    return Err("no delegation".into());
                }
                for d in 0..3u8 {
                    let amt = self.pending_of(v, d);
                    if amt > 0 {
                        let w = self.withdraw_addr;
                        *self.bank.entry((w, d)).or_insert(0) += amt;
                        self.pending.insert((v, d), 0);
                    }
                }
                self.effects.push(Effect::WithdrawReward { v });
                Ok(())
            }
            CosmosMsg::Distribution(DistributionMsg::SetWithdrawAddress { address }) => {
                if sender != HUB {
                    return Err("unsupported delegator".into());
                }
                self.withdraw_addr = id_of(&address);
                self.effects.push(Effect::SetWithdrawAddr { a: self.withdraw_addr });
                Ok(())
            }
            CosmosMsg::Wasm(WasmMsg::Execute { contract_addr, msg, funds }) => {
                self.exec_wasm(sender, id_of(&contract_addr), &msg, &funds)
            }
            _ => Err("unsupported message".into()),
        }
    }

    /// a top-level transaction: all or nothing
    pub fn tx(&mut self, sender: Id, target: Id, msg: &Binary, funds: &[Coin]) -> Result<(), String> {
        let snapshot = self.clone();
        self.effects.clear();
        self.trace.clear();
        self.fuel = 400;
        match self.exec_wasm(sender, target, msg, funds) {
            Ok(()) => Ok(()),
            Err(e) => {
                let eff = std::mem::take(&mut self.effects);
                let tr = std::mem::take(&mut self.trace);
                *self = snapshot;
                self.effects = eff; // keep the attempted effects for diagnostics
                self.trace = tr;
                Err(e)
            }
        }
    }

    pub fn instantiate(&mut self, target: Id, sender: Id, msg: &Binary) -> Result<(), String> {
        let snapshot = self.clone();
        self.effects.clear();
        match self.run_contract(target, sender, &[], msg, true) {
            Ok(_) => Ok(()),
            Err(e) => {
                *self = snapshot;
                Err(e)
            }
        }
    }

    // ---------------------------------------------------------------- environment events
    pub fn advance(&mut self, dt: u64) {
        self.time += dt;
        self.height += 1;
        let t = self.time;
        let mut paid = 0u128;
        self.unbonding.retain(|e| {
            if e.2 <= t {
                paid += e.1;
                false
            } else {
                true
            }
        });
        *self.bank.entry((HUB, 0)).or_insert(0) += paid;
    }
    pub fn slash(&mut self, v: Id, num: u128, den: u128) {
        if den == 0 || num > den {
            return;
        }
        if self.deleg.contains_key(&v) {
            let d = self.deleg_of(v);
            self.deleg.insert(v, mul_floor(d, den - num, den));
        }
    }
    pub fn slash_unbonding(&mut self, v: Id, num: u128, den: u128) {
        if den == 0 || num > den {
            return;
        }
        for e in self.unbonding.iter_mut() {
            if e.0 == v {
                e.1 = mul_floor(e.1, den - num, den);
            }
        }
    }
}
