//! seeded generators: structured, mostly valid histories over the fixed cast, with boundary
//! amounts and targeted families per property (DESIGN.md §6.3).

use crate::chain::*;
use crate::ops::*;

#[derive(Clone)]
pub struct Rng(pub u64);
impl Rng {
    pub fn new(seed: u64) -> Rng {
        Rng(seed.wrapping_mul(0x9E3779B97F4A7C15).wrapping_add(0x2545F4914F6CDD1D) | 1)
    }
    pub fn next(&mut self) -> u64 {
        let mut x = self.0;
        x ^= x >> 12;
        x ^= x << 25;
        x ^= x >> 27;
        self.0 = x;
        x.wrapping_mul(0x2545F4914F6CDD1D)
    }
    pub fn below(&mut self, n: u64) -> u64 {
        if n == 0 {
            0
        } else {
            self.next() % n
        }
    }
    pub fn below128(&mut self, n: u128) -> u128 {
        if n == 0 {
            return 0;
        }
        let x = ((self.next() as u128) << 64) | self.next() as u128;
        x % n
    }
    pub fn chance(&mut self, num: u64, den: u64) -> bool {
        self.below(den) < num
    }
    pub fn pick<T: Clone>(&mut self, v: &[T]) -> T {
        v[self.below(v.len() as u64) as usize].clone()
    }
    /// log-uniform in [1, max]
    pub fn log_amount(&mut self, max: u128) -> u128 {
        if max <= 1 {
            return 1;
        }
        let bits = 128 - max.leading_zeros() as u64;
        let b = 1 + self.below(bits);
        let hi = if b >= 128 { u128::MAX } else { (1u128 << b) - 1 };
        let v = 1 + self.below128(hi.min(max));
        v.min(max)
    }
}

pub const USERS: [Id; 5] = [5, 6, 7, 8, 9];
pub const OWNER: Id = 1;
pub const NOMINEE: Id = 2;
pub const UPDATER: Id = 3;
pub const AIRDROP: Id = 4;

#[derive(Clone, Debug)]
pub struct Profile {
    pub name: &'static str,
    pub fees: Vec<u128>,
    pub thrs: Vec<u128>,
    pub keeper_rates: Vec<u128>,
    pub epochs: Vec<u64>,
    pub unbondings: Vec<u64>,
    pub max_fund: u128,
    /// weights: bond, bondst, unbond, convert, withdraw, token, allowance, advance, slash, slashu,
    /// accrue, ugi, claim, check, donate, registry, admin, invalid
    pub w: [u64; 18],
    pub small_amounts: bool,
    pub oracle_prices: Vec<u128>,
    pub init_balances: bool,
    pub big_rewards: bool,
    /// interleave swap / oracle stub faults (fail, garbage prices) with the history
    pub stub_faults: bool,
    /// exits take the whole balance most of the time (pools and supplies run to exactly zero
    /// while requests are still pending)
    pub full_exits: bool,
    /// many more holders than the fixed cast (addresses 301…345) and contract upgrades in between
    pub crowd: bool,
    /// the owner wires the hub in several UpdateConfig messages, with anybody's messages (forged
    /// balance mirrors, early bonds, re-pointing attempts) arriving inside the deployment window
    pub staged: bool,
}

pub fn profile(name: &str) -> Profile {
    let base = Profile {
        name: "mixed",
        fees: vec![0, 1_000_000_000_000_000, 50_000_000_000_000_000, 200_000_000_000_000_000, D],
        thrs: vec![0, 900_000_000_000_000_000, D, D],
        keeper_rates: vec![50_000_000_000_000_000, 50_000_000_000_000_000, 500_000_000_000_000_000, 10_000_000_000_000_000],
        epochs: vec![0, 10, 30],
        unbondings: vec![50, 100, 300],
        max_fund: 200_000_000_000_000_000,
        w: [10, 8, 10, 5, 8, 6, 3, 10, 3, 2, 4, 4, 3, 2, 1, 2, 1, 2],
        small_amounts: false,
        oracle_prices: vec![D, D / 2, 3 * D, D / 1000, 1000 * D],
        init_balances: false,
        big_rewards: false,
        stub_faults: false,
        full_exits: false,
        crowd: false,
        staged: false,
    };
    match name {
        "mixed" => base,
        // release groups: many batches, slashing of unbonding stake, donations, many withdrawers
        "release" => Profile {
            name: "release",
            epochs: vec![0, 5],
            unbondings: vec![60, 100],
            w: [6, 6, 16, 2, 14, 2, 0, 16, 2, 5, 1, 1, 0, 1, 3, 0, 0, 0],
            ..base
        },
        // pricing under slashing and peg fee
        "pricing" => Profile {
            name: "pricing",
            fees: vec![1_000_000_000_000_000, 50_000_000_000_000_000, 200_000_000_000_000_000, D, 0],
            thrs: vec![D, D, 900_000_000_000_000_000, 0],
            w: [12, 10, 10, 10, 4, 3, 0, 8, 8, 1, 3, 3, 0, 4, 0, 1, 0, 0],
            ..base
        },
        // peg fee paths: slashed bSei pool, stSei rate pushed above 1 by re-bonded rewards, big converts
        "pegfee" => Profile {
            name: "pegfee",
            fees: vec![50_000_000_000_000_000, 200_000_000_000_000_000, D, 10_000_000_000_000_000],
            thrs: vec![D],
            keeper_rates: vec![50_000_000_000_000_000],
            epochs: vec![30],
            w: [8, 8, 6, 18, 1, 1, 0, 3, 5, 0, 9, 9, 0, 3, 0, 0, 0, 0],
            big_rewards: true,
            ..base
        },
        // small pools and dust amounts (1..1000 base units)
        "dust" => Profile {
            name: "dust",
            max_fund: 5_000,
            small_amounts: true,
            w: [12, 10, 10, 8, 8, 3, 0, 8, 6, 2, 3, 3, 1, 3, 1, 1, 0, 0],
            ..base
        },
        // token and reward plumbing
        "token" => Profile {
            name: "token",
            w: [8, 3, 5, 3, 2, 20, 12, 4, 1, 0, 5, 6, 8, 1, 0, 0, 0, 3],
            ..base
        },
        // tokens instantiated with initial balances (repeated addresses included)
        "tokeninit" => Profile {
            name: "tokeninit",
            init_balances: true,
            w: [6, 4, 5, 3, 2, 22, 14, 3, 1, 0, 2, 2, 3, 1, 0, 0, 0, 4],
            ..base
        },
        // rewards: index updates, dispatch, claims
        "rewards" => Profile {
            name: "rewards",
            keeper_rates: vec![50_000_000_000_000_000, 0, D, 500_000_000_000_000_000, 1],
            w: [8, 8, 4, 3, 2, 6, 0, 4, 2, 0, 14, 14, 8, 1, 0, 2, 0, 0],
            ..base
        },
        // swap / oracle stubs failing or returning garbage in the middle of ordinary use
        "stubs" => Profile {
            name: "stubs",
            stub_faults: true,
            w: [10, 8, 10, 5, 8, 6, 2, 10, 3, 2, 5, 6, 4, 2, 1, 1, 0, 0],
            ..base
        },
        // whole-supply exits: a token's entire supply queued in the open batch (supply 0, requests
        // > 0) with the other pool alive, then slashing and slashing checks inside that window
        "drain" => Profile {
            name: "drain",
            full_exits: true,
            epochs: vec![30, 100],
            w: [5, 5, 16, 3, 3, 1, 0, 5, 9, 1, 1, 2, 0, 8, 0, 0, 0, 0],
            ..base
        },
        // validators registry changes mid-history
        "registry" => Profile {
            name: "registry",
            w: [10, 8, 6, 2, 3, 1, 0, 6, 3, 1, 4, 4, 0, 2, 0, 14, 0, 1],
            ..base
        },
        // a crowd of holders (more than any page of a paged query) and contract upgrades
        "crowd" => Profile {
            name: "crowd",
            crowd: true,
            w: [10, 3, 3, 2, 1, 40, 2, 2, 1, 0, 4, 5, 4, 1, 0, 0, 2, 0],
            ..base
        },
        // staged deployment: partial registrations, strangers' messages inside the window
        "deploy" => Profile {
            name: "deploy",
            staged: true,
            w: [10, 6, 8, 4, 4, 14, 3, 6, 2, 0, 4, 5, 4, 1, 0, 1, 3, 2],
            ..base
        },
        // admin: config / params / ownership / pause
        "admin" => Profile {
            name: "admin",
            w: [6, 4, 5, 2, 3, 2, 0, 5, 1, 0, 2, 2, 1, 1, 0, 2, 20, 6],
            ..base
        },
        _ => base,
    }
}

pub struct Gen {
    pub rng: Rng,
    pub p: Profile,
    pub nvals: usize,
    /// staged deployment: steps left inside the window (0 = the hub is wired)
    pub deploy_left: u32,
    /// release family, now and then: nobody withdraws until this many closed batches wait to be
    /// released together (more than any page or per-call bound a change might introduce)
    pub hoard: u32,
}

fn tx(sender: Id, target: Id, call: Call) -> Op {
    Op::Tx { sender, target, call, funds: vec![] }
}
fn txf(sender: Id, target: Id, call: Call, amt: u128) -> Op {
    Op::Tx { sender, target, call, funds: vec![(0, amt)] }
}

impl Gen {
    pub fn new(seed: u64, family: &str) -> Gen {
        Gen { rng: Rng::new(seed), p: profile(family), nvals: 3, deploy_left: 0, hoard: 0 }
    }

    pub fn genesis(&mut self) -> Vec<Op> {
        self.deploy_left = if self.p.staged { 5 + self.rng.below(7) as u32 } else { 0 };
        self.hoard = if self.p.name == "release" && self.rng.chance(1, 5) { 11 + self.rng.below(3) as u32 } else { 0 };
        let r = &mut self.rng;
        let epoch = r.pick(&self.p.epochs);
        let unbonding = r.pick(&self.p.unbondings);
        let fee = r.pick(&self.p.fees);
        let thr = r.pick(&self.p.thrs);
        let rate = r.pick(&self.p.keeper_rates);
        self.nvals = 1 + r.below(4) as usize;
        if self.p.name == "registry" && r.chance(1, 4) {
            // a large validator set (more than any per-message cap a change might introduce)
            self.nvals = 11 + r.below(2) as usize;
        }
        let vals: Vec<Id> = VALS[..self.nvals].to_vec();
        let mut bb: Vec<(Id, u128)> = vec![];
        let mut sb: Vec<(Id, u128)> = vec![];
        if self.p.init_balances {
            for _ in 0..r.below(5) {
                // now and then the same account in its other spelling
                let alt = if r.chance(1, 4) { 1000 } else { 0 };
                bb.push((r.pick(&USERS) + alt, 1 + r.below128(1_000_000)));
            }
            let mut us = USERS.to_vec();
            for _ in 0..r.below(4) {
                let k = r.below(us.len() as u64) as usize;
                sb.push((us.remove(k), 1 + r.below128(1_000_000)));
            }
        }
        // a staged deployment may instantiate the siblings before the hub's address is known, with a
        // placeholder the owner replaces inside the deployment window
        let staged = self.p.staged;
        let mut ph = |r: &mut Rng| if staged && r.chance(1, 3) { 9 } else { HUB };
        let (ph_reward, ph_disp, ph_reg) = (ph(r), ph(r), ph(r));
        let mut ops = vec![
            Op::Reset,
            Op::Inst(Inst::Hub { sender: OWNER, epoch, unbonding, fee, thr, rd: 1, updater: UPDATER }),
            Op::Inst(Inst::Bsei { sender: OWNER, hub: HUB, bals: bb }),
            Op::Inst(Inst::Stsei { sender: OWNER, hub: HUB, bals: sb }),
            Op::Inst(Inst::Reward { sender: OWNER, hub: ph_reward, denom: 1, swap: SWAP, denoms: vec![0, 1] }),
            Op::Inst(Inst::Disp {
                sender: OWNER,
                hub: ph_disp,
                reward: REWARD,
                sd: 0,
                bd: 1,
                keeper: KEEPER,
                rate,
                swap: SWAP,
                oracle: ORACLE,
                denoms: vec![0, 1, 2],
            }),
            Op::Inst(Inst::Reg { sender: OWNER, hub: ph_reg, vals }),
            if self.p.staged {
                // the wiring follows step by step (next_op)
                Op::Env(EnvOp::Advance(1))
            } else {
                tx(
                    OWNER,
                    HUB,
                    Call::Hub(HubMsg::UConfig([Some(DISP), Some(REG), Some(BSEI), Some(STSEI), Some(AIRDROP), Some(REWARD), None])),
                )
            },
            Op::Env(EnvOp::UnbondingTime(unbonding)),
            Op::Env(EnvOp::Advance(unbonding + 1)),
        ];
        if self.p.init_balances && r.chance(1, 2) {
            // a re-instantiation attempt with a repeated address: cw20-base rejects it
            ops.push(Op::Inst(Inst::Stsei { sender: OWNER, hub: HUB, bals: vec![(5, 3), (6, 1), (5, 4)] }));
            // ... and one that is not in its normal spelling
            ops.push(Op::Inst(Inst::Stsei { sender: OWNER, hub: HUB, bals: vec![(5, 3), (1006, 1)] }));
        }
        let price = r.pick(&self.p.oracle_prices);
        ops.push(Op::Env(EnvOp::Oracle(true, price)));
        for u in USERS.iter() {
            let amt = if self.p.small_amounts { 1 + r.below128(self.p.max_fund) } else { self.p.max_fund / 2 + r.below128(self.p.max_fund / 2) };
            ops.push(Op::Env(EnvOp::Donate(*u, 0, amt)));
        }
        ops
    }

    fn amount(&mut self, avail: u128, c: &Chain) -> u128 {
        if avail == 0 {
            return 1 + self.rng.below(3) as u128;
        }
        if self.p.full_exits && self.rng.chance(3, 5) {
            return avail;
        }
        let r = &mut self.rng;
        let raw = c.hub_state_raw();
        let pool = raw[2] + raw[3];
        let choice = r.below(20);
        let v = match choice {
            0 => 1,
            1 => 2,
            2 => avail,
            3 => avail.saturating_sub(1).max(1),
            4 => avail + 1, // invalid on purpose
            5 => (pool / 2).max(1),
            6 => pool.max(1),
            7 => (avail / 2).max(1),
            8 | 9 => r.log_amount(avail),
            _ => {
                if self.p.small_amounts {
                    1 + r.below128(avail.min(1000))
                } else {
                    // a sizeable fraction of what is available
                    let f = 1 + r.below(1000) as u128;
                    (avail / 1000 * f).max(1)
                }
            }
        };
        v
    }

    fn dt(&mut self, c: &Chain) -> u64 {
        let p: Option<basset::hub::Parameters> = c.q(HUB, &basset::hub::QueryMsg::Parameters {}).ok();
        let (e, u) = p.map(|p| (p.epoch_period, p.unbonding_period)).unwrap_or((30, 100));
        let r = &mut self.rng;
        let raw = c.hub_state_raw();
        let since = c.time.saturating_sub(raw[6] as u64);
        match r.below(12) {
            0 => 1,
            1 => e,
            2 => e + 1,
            3 => e.saturating_sub(since),      // lands exactly on the epoch boundary
            4 => e.saturating_sub(since) + 1,  // one past
            5 => u,
            6 => u + 1,
            7 => u.saturating_sub(1).max(1),
            8 => {
                // land exactly on the maturity second of the oldest unbonding entry
                c.unbonding.first().map(|x| x.2.saturating_sub(c.time)).unwrap_or(1).max(1)
            }
            9 => c.unbonding.first().map(|x| x.2.saturating_sub(c.time)).unwrap_or(2).saturating_sub(1).max(1),
            _ => 1 + r.below(e + 5),
        }
    }

    /// one step inside the deployment window
    fn deploy_step(&mut self, c: &Chain) -> Op {
        let wired = c.hub_wiring();
        let (d, g, b, s, a, w) = (wired[0].is_some(), wired[1].is_some(), wired[2].is_some(), wired[3].is_some(), wired[4].is_some(), wired[5].is_some());
        // towards the end of the window the placeholders are replaced, one message each
        if self.deploy_left <= 4 {
            let reg_hub = c.stores.get(&REG).and_then(|st| basset_sei_validators_registry::registry::CONFIG.load(st).ok())
                .and_then(|k| { use cosmwasm_std::Api; cosmwasm_std::testing::MockApi::default().addr_humanize(&k.hub_contract).ok() }).map(|a| id_of(a.as_str()));
            if reg_hub.is_some() && reg_hub != Some(HUB) {
                return tx(OWNER, REG, Call::Reg(RegMsg::UConfig(Some(HUB))));
            }
            let rw: Option<basset::reward::ConfigResponse> = c.q(REWARD, &basset::reward::QueryMsg::Config {}).ok();
            if let Some(k) = rw {
                if id_of(&k.hub_contract) != HUB {
                    return tx(OWNER, REWARD, Call::Reward(RewMsg::UConfig(Some(HUB), None, None)));
                }
            }
            let dc: Option<basset::dispatcher::ConfigResponse> = c.q(DISP, &basset_sei_rewards_dispatcher::msg::QueryMsg::Config {}).ok();
            if let Some(k) = dc {
                if id_of(&k.hub_contract) != HUB {
                    // now and then the keeper settings travel in the same message
                    let (ka, kr) = if self.rng.chance(1, 2) {
                        (Some(id_of(&k.krp_keeper_address)), Some(self.rng.pick(&[k.krp_keeper_rate.atomics().u128(), 10_000_000_000_000_000])))
                    } else {
                        (None, None)
                    };
                    return tx(OWNER, DISP, Call::Disp(DispMsg::UConfig(Some(HUB), None, None, None, ka, kr)));
                }
            }
        }
        self.deploy_left -= 1;
        if self.deploy_left == 0 {
            // complete the wiring with whatever is still missing
            let f = |done: bool, x: Id| if done { None } else { Some(x) };
            return tx(OWNER, HUB, Call::Hub(HubMsg::UConfig([f(d, DISP), f(g, REG), f(b, BSEI), f(s, STSEI), f(a, AIRDROP), f(w, REWARD), None])));
        }
        let r = &mut self.rng;
        let u = r.pick(&USERS);
        match r.below(12) {
            // the owner registers one or two of the missing addresses
            0 | 1 | 2 | 3 => {
                let mut f: [Option<Id>; 7] = [None; 7];
                let missing: Vec<(usize, Id)> = [(0, d, DISP), (1, g, REG), (2, b, BSEI), (3, s, STSEI), (4, a, AIRDROP), (5, w, REWARD)]
                    .iter()
                    .filter(|x| !x.1)
                    .map(|x| (x.0, x.2))
                    .collect();
                if missing.is_empty() {
                    return tx(OWNER, HUB, Call::Hub(HubMsg::UConfig([None; 7])));
                }
                let k = 1 + r.below(2) as usize;
                for _ in 0..k {
                    let (i, x) = missing[r.below(missing.len() as u64) as usize];
                    f[i] = Some(x);
                }
                tx(OWNER, HUB, Call::Hub(HubMsg::UConfig(f)))
            }
            // the owner (or a stranger) tries to re-point a token address, set or not
            4 | 5 => {
                let mut f: [Option<Id>; 7] = [None; 7];
                let other = r.pick(&[u, STSEI, BSEI, 9]);
                let k = 2 + r.below(2) as usize;
                // a token slot that is still empty is filled with the token itself: the system the
                // oracles judge is the one wired to its own six contracts
                let set = if k == 2 { b } else { s };
                f[k] = Some(if set { other } else if k == 2 { BSEI } else { STSEI });
                let who = if r.chance(3, 4) { OWNER } else { u };
                tx(who, HUB, Call::Hub(HubMsg::UConfig(f)))
            }
            // a stranger forges the balance mirror / plays the hub or a token
            6 | 7 => {
                let amt = 1 + r.below128(1_000_000);
                let who = r.pick(&[u, u, OWNER, 9]);
                let call = if r.chance(2, 3) { RewMsg::Inc(r.pick(&USERS), amt) } else { RewMsg::Dec(r.pick(&USERS), amt) };
                tx(who, REWARD, Call::Reward(call))
            }
            8 => tx(r.pick(&[u, OWNER]), r.pick(&[BSEI, STSEI]), Call::Tok(TokMsg::Mint(u, 1 + r.below128(1_000_000)))),
            // early use
            9 => txf(u, HUB, Call::Hub(HubMsg::Bond), 1 + r.below128(1000)),
            10 => txf(u, HUB, Call::Hub(HubMsg::BondSt), 1 + r.below128(1000)),
            _ => tx(u, HUB, Call::Hub(HubMsg::Receive(u, 1 + r.below128(1000), Hook::Unbond))),
        }
    }

    /// the next operation; now and then coins ride along with a message that does not ask for any
    pub fn next_op(&mut self, c: &Chain) -> Op {
        let op = self.next_op_inner(c);
        if let Op::Tx { sender, target, call, funds } = &op {
            // (only accounts of people: a line that plays one of the contracts must not spend its coins)
            let person = ![HUB, BSEI, STSEI, REWARD, DISP, REG, SWAP, ORACLE, AIRDROP].contains(sender);
            if person && funds.is_empty() && self.rng.chance(1, 30) {
                let d = if self.rng.chance(3, 4) { 0u8 } else { 1u8 };
                let have = c.bal(*sender, d);
                if have > 0 {
                    let amt = (1 + self.rng.below128(1000)).min(have);
                    return Op::Tx { sender: *sender, target: *target, call: call.clone(), funds: vec![(d, amt)] };
                }
            }
        }
        op
    }

    fn next_op_inner(&mut self, c: &Chain) -> Op {
        if self.deploy_left > 0 {
            return self.deploy_step(c);
        }
        // now and then the owner re-sends a configuration it already has
        if self.rng.chance(1, 50) {
            return self.resend_op(c);
        }
        if self.hoard > 0 {
            let waiting = c.hub_history().iter().filter(|h| !h.released).count() as u32;
            let p: Option<basset::hub::Parameters> = c.q(HUB, &basset::hub::QueryMsg::Parameters {}).ok();
            let (e, ub) = p.map(|p| (p.epoch_period, p.unbonding_period)).unwrap_or((30, 100));
            if waiting >= self.hoard {
                // enough: let all of them mature; the withdrawals of the normal mix release them together
                self.hoard = 0;
                return Op::Env(EnvOp::Advance(ub + 1));
            }
            let holders: Vec<(Id, Id)> = [BSEI, STSEI].iter().flat_map(|t| USERS.iter().map(move |u| (*t, *u))).filter(|(t, u)| c.token_balance(*t, *u) > 20).collect();
            if holders.is_empty() {
                let u = self.rng.pick(&USERS);
                let a = (c.bal(u, 0) / 4).max(1);
                return txf(u, HUB, if self.rng.chance(1, 2) { Call::Hub(HubMsg::Bond) } else { Call::Hub(HubMsg::BondSt) }, a);
            }
            return match self.rng.below(10) {
                0 | 1 | 2 | 3 => Op::Env(EnvOp::Advance(e + 1)),
                4 if waiting > 0 => {
                    let (n, d) = self.rng.pick(&[(1u128, 100u128), (1, 10), (1, 3)]);
                    Op::Env(EnvOp::SlashU(self.rng.pick(&VALS[..self.nvals.min(4)]), n, d))
                }
                _ => {
                    let (tok, h) = self.rng.pick(&holders);
                    let bal = c.token_balance(tok, h);
                    tx(h, tok, Call::Tok(TokMsg::Send(HUB, 1 + self.rng.below128(bal / 20), Hook::Unbond)))
                }
            };
        }
        // a paged read now and then: from nowhere, from 0, from a stored id, from beyond the end,
        // with the default, a zero, a small, the maximal and an over-the-maximum page size
        if self.rng.chance(1, 40) {
            let top = c.hub_batch().0;
            let start = match self.rng.below(5) {
                0 => None,
                1 => Some(0),
                2 => Some(top),
                _ => Some(self.rng.below(top + 2)),
            };
            let limit = match self.rng.below(7) {
                0 => None,
                1 => Some(0),
                2 => Some(100),
                3 => Some(101),
                _ => Some(1 + self.rng.below(4) as u32),
            };
            return Op::Query(Query::Hist(start, limit));
        }
        if self.p.stub_faults && self.rng.chance(1, 7) {
            let okf = !self.rng.chance(1, 2);
            let price = match self.rng.below(6) {
                0 => 0,
                1 => 1,
                2 => u128::MAX / D,
                3 => D,
                4 => 1000 * D,
                _ => self.rng.log_amount(10 * D),
            };
            return if self.rng.chance(1, 2) { Op::Env(EnvOp::Oracle(okf, price)) } else { Op::Env(EnvOp::Swap(okf, price)) };
        }
        let total: u64 = self.p.w.iter().sum();
        let mut k = self.rng.below(total);
        let mut idx = 0;
        for (i, w) in self.p.w.iter().enumerate() {
            if k < *w {
                idx = i;
                break;
            }
            k -= w;
        }
        let u = self.rng.pick(&USERS);
        let tok = if self.rng.chance(1, 2) { BSEI } else { STSEI };
        match idx {
            0 => {
                let a = self.amount(c.bal(u, 0), c);
                txf(u, HUB, Call::Hub(HubMsg::Bond), a)
            }
            1 => {
                let a = self.amount(c.bal(u, 0), c);
                txf(u, HUB, Call::Hub(HubMsg::BondSt), a)
            }
            2 => {
                let holder = self.holder_of(tok, c).unwrap_or(u);
                let a = self.amount(c.token_balance(tok, holder), c);
                tx(holder, tok, Call::Tok(TokMsg::Send(HUB, a, Hook::Unbond)))
            }
            3 => {
                let holder = self.holder_of(tok, c).unwrap_or(u);
                let a = self.amount(c.token_balance(tok, holder), c);
                tx(holder, tok, Call::Tok(TokMsg::Send(HUB, a, Hook::Convert)))
            }
            4 => {
                // prefer users with requests
                let mut cands: Vec<Id> = USERS.iter().cloned().filter(|x| !c.hub_requests(*x).is_empty()).collect();
                if cands.is_empty() || self.rng.chance(1, 8) {
                    cands = USERS.to_vec();
                }
                tx(self.rng.pick(&cands), HUB, Call::Hub(HubMsg::Withdraw))
            }
            5 => {
                let holder = self.holder_of(tok, c).unwrap_or(u);
                // now and then the recipient is one of the system's own contracts (the reward
                // contract's own address included): the mirror must hold for every recipient
                if self.p.crowd && self.rng.chance(1, 12) {
                    return Op::Env(EnvOp::Migrate(self.rng.pick(&[REWARD, BSEI, HUB, DISP, REG, STSEI])));
                }
                let to = if self.p.crowd && self.rng.chance(2, 3) {
                    301 + self.rng.below(45) as Id
                } else if self.rng.chance(1, 7) {
                    self.rng.pick(&[REWARD, HUB, BSEI, STSEI, DISP, REG, KEEPER])
                } else {
                    self.rng.pick(&USERS)
                };
                let a = self.amount(c.token_balance(tok, holder), c);
                match self.rng.below(6) {
                    0 | 1 | 2 => tx(holder, tok, Call::Tok(TokMsg::Transfer(to, a))),
                    3 => tx(holder, tok, Call::Tok(TokMsg::Send(SINK, a, Hook::Other))),
                    4 => tx(holder, tok, Call::Tok(TokMsg::Burn(a))),
                    _ => tx(holder, tok, Call::Tok(TokMsg::Transfer(holder, a))),
                }
            }
            6 => {
                let owner = self.holder_of(tok, c).unwrap_or(u);
                let spender = self.rng.pick(&USERS);
                let bal = c.token_balance(tok, owner);
                let a = self.amount(bal, c);
                let e = match self.rng.below(6) {
                    0 => Some(Exp::H(c.height + self.rng.below(3))),
                    1 => Some(Exp::T(c.time + self.rng.below(40))),
                    2 => Some(Exp::Never),
                    3 => Some(Exp::H(c.height.saturating_sub(1))),
                    _ => None,
                };
                // prefer an existing (owner, spender) allowance for the *From operations
                let mut pairs: Vec<(Id, Id, u128)> = vec![];
                // the token contracts are also exercised with the hub's address as the *owner* of an
                // allowance over tokens donated to it (no hub code path grants one; the token
                // contract's handlers are modelled, and proved about, for every owner)
                if self.rng.chance(1, 10) && c.token_allowance(tok, HUB, spender).map(|x| x.0).unwrap_or(0) == 0 {
                    if c.token_balance(tok, HUB) == 0 {
                        let h = self.holder_of(tok, c).unwrap_or(u);
                        let hb = c.token_balance(tok, h);
                        return tx(h, tok, Call::Tok(TokMsg::Transfer(HUB, self.amount(hb, c))));
                    }
                    return tx(HUB, tok, Call::Tok(TokMsg::IncAllow(spender, c.token_balance(tok, HUB).max(1) * 2, e)));
                }
                for o in USERS.iter().chain([HUB].iter()) {
                    for s in USERS.iter() {
                        if let Some((amt, _)) = c.token_allowance(tok, *o, *s) {
                            if amt > 0 {
                                pairs.push((*o, *s, amt));
                            }
                        }
                    }
                }
                let k = self.rng.below(8);
                if k >= 3 && !pairs.is_empty() && self.rng.chance(5, 6) {
                    let (o, sp, allow) = self.rng.pick(&pairs);
                    let ob = c.token_balance(tok, o);
                    let cap = allow.min(ob).max(1);
                    let amt = match self.rng.below(6) {
                        0 => allow,
                        1 => allow + 1,
                        2 => cap,
                        _ => 1 + self.rng.below128(cap),
                    };
                    return match k {
                        3 => tx(o, tok, Call::Tok(TokMsg::DecAllow(sp, amt, e))),
                        4 => tx(sp, tok, Call::Tok(TokMsg::TransferFrom(o, if self.rng.chance(1, 5) { self.rng.pick(&[REWARD, HUB, DISP]) } else { self.rng.pick(&USERS) }, amt))),
                        5 => tx(sp, tok, Call::Tok(TokMsg::SendFrom(o, HUB, amt, if self.rng.chance(3, 4) { Hook::Unbond } else { Hook::Convert }))),
                        6 => tx(sp, tok, Call::Tok(TokMsg::BurnFrom(o, amt))),
                        _ => tx(sp, tok, Call::Tok(TokMsg::TransferFrom(o, sp, amt))),
                    };
                }
                // top-ups of an existing allowance, half of them without `expires` (which must keep
                // the expiration the owner set)
                if k < 3 && !pairs.is_empty() && self.rng.chance(1, 2) {
                    let (o, sp, _) = self.rng.pick(&pairs);
                    let e2 = if self.rng.chance(1, 2) { None } else { e };
                    return tx(o, tok, Call::Tok(TokMsg::IncAllow(sp, 1 + a / 2, e2)));
                }
                match k {
                    0 | 1 | 2 => tx(owner, tok, Call::Tok(TokMsg::IncAllow(spender, a, e))),
                    3 => tx(owner, tok, Call::Tok(TokMsg::DecAllow(spender, a, e))),
                    4 => tx(spender, tok, Call::Tok(TokMsg::TransferFrom(owner, self.rng.pick(&USERS), a))),
                    5 => tx(spender, tok, Call::Tok(TokMsg::SendFrom(owner, HUB, a, if self.rng.chance(3, 4) { Hook::Unbond } else { Hook::Convert }))),
                    6 => tx(spender, tok, Call::Tok(TokMsg::BurnFrom(owner, a))),
                    _ => tx(spender, tok, Call::Tok(TokMsg::TransferFrom(owner, spender, a))),
                }
            }
            7 => Op::Env(EnvOp::Advance(self.dt(c))),
            8 => {
                let v = self.rng.pick(&VALS[..4]);
                let (n, d) = self.rng.pick(&[(1u128, 100u128), (1, 10), (1, 2), (1, 1000), (99, 100), (1, 3), (999, 1000)]);
                Op::Env(EnvOp::Slash(v, n, d))
            }
            9 => {
                let v = self.rng.pick(&VALS[..4]);
                let (n, d) = self.rng.pick(&[(1u128, 100u128), (1, 10), (1, 2), (1, 1), (99, 100), (1, 3)]);
                Op::Env(EnvOp::SlashU(v, n, d))
            }
            10 => {
                let with: Vec<Id> = VALS.iter().cloned().filter(|x| c.deleg.contains_key(x)).collect();
                let v = if with.is_empty() { self.rng.pick(&VALS[..4]) } else { self.rng.pick(&with) };
                let d = self.rng.pick(&[0u8, 0, 0, 1, 1, 2]);
                let a = if self.p.small_amounts { 1 + self.rng.below128(50) } else if self.p.big_rewards { 1_000_000_000_000_000 + self.rng.below128(30_000_000_000_000_000) } else { self.rng.log_amount(1_000_000_000_000_000) };
                Op::Env(EnvOp::Accrue(v, d, a))
            }
            11 => tx(if self.rng.chance(9, 10) { UPDATER } else { u }, HUB, Call::Hub(HubMsg::Ugi)),
            12 => {
                let h = self.holder_of(BSEI, c).unwrap_or(u);
                let rcp = if self.rng.chance(1, 4) { Some(self.rng.pick(&USERS)) } else { None };
                tx(h, REWARD, Call::Reward(RewMsg::Claim(rcp)))
            }
            13 => tx(u, HUB, Call::Hub(HubMsg::Check)),
            14 => {
                let a = self.amount(1_000_000, c);
                Op::Env(EnvOp::Donate(HUB, 0, a))
            }
            15 => {
                let v = self.rng.pick(&VALS[..4]);
                // stake stranded on a validator that is no longer registered (its removal happened while
                // the chain refused the redelegation): un-block it and ask for the redelegation
                let regd: Vec<Id> = c.reg_validators().iter().map(|x| x.0).collect();
                let stranded: Vec<Id> = VALS.iter().cloned().filter(|x| !regd.contains(x) && c.deleg_of(*x) > 0).collect();
                if !stranded.is_empty() && self.rng.chance(1, 2) {
                    let w = self.rng.pick(&stranded);
                    return if c.no_redelegate.contains(&w) && self.rng.chance(2, 3) {
                        Op::Env(EnvOp::NoRedel(w, false))
                    } else {
                        tx(u, REG, Call::Reg(RegMsg::Redelegations(w)))
                    };
                }
                match self.rng.below(6) {
                    0 | 1 => tx(OWNER, REG, Call::Reg(RegMsg::Add(v))),
                    2 | 3 => {
                        // mostly a validator that is registered; now and then one without any hub stake
                        // (the last registered one included: that removal must be refused)
                        let idle: Vec<Id> = regd.iter().cloned().filter(|x| c.deleg_of(*x) == 0).collect();
                        let w = if !idle.is_empty() && self.rng.chance(1, 3) {
                            self.rng.pick(&idle)
                        } else if !regd.is_empty() && self.rng.chance(2, 3) {
                            self.rng.pick(&regd)
                        } else {
                            v
                        };
                        tx(OWNER, REG, Call::Reg(RegMsg::Remove(w)))
                    }
                    4 => tx(u, REG, Call::Reg(RegMsg::Redelegations(v))),
                    _ => {
                        if self.rng.chance(1, 3) {
                            // the validator drops out of (or returns to) the chain's active set
                            Op::Env(EnvOp::Inactive(v, self.rng.chance(2, 3)))
                        } else {
                            Op::Env(EnvOp::NoRedel(v, self.rng.chance(1, 2)))
                        }
                    }
                }
            }
            16 => self.admin_op(c),
            _ => self.invalid_op(c),
        }
    }

    fn holder_of(&mut self, tok: Id, c: &Chain) -> Option<Id> {
        let hs: Vec<Id> = USERS.iter().cloned().filter(|x| c.token_balance(tok, *x) > 0).collect();
        if hs.is_empty() {
            None
        } else {
            Some(self.rng.pick(&hs))
        }
    }

    fn opt<T: Clone>(&mut self, v: &[T]) -> Option<T> {
        if self.rng.chance(1, 2) {
            Some(self.rng.pick(v))
        } else {
            None
        }
    }

    /// the owner re-sends part of a contract's current configuration (same values): nothing may change
    pub fn resend_op(&mut self, c: &Chain) -> Op {
        let r = &mut self.rng;
        let mut keep = |r: &mut Rng| r.chance(2, 3);
        match r.below(5) {
            0 | 1 => {
                let cfg: Option<basset::reward::ConfigResponse> = c.q(REWARD, &basset::reward::QueryMsg::Config {}).ok();
                match cfg {
                    Some(k) => {
                        let h = if keep(r) { Some(id_of(&k.hub_contract)) } else { None };
                        // now and then a real change of the reward denomination (mid-life, with holders)
                        let d = if r.chance(1, 8) { Some(r.pick(&[0u8, 1, 2])) } else if keep(r) { Some(denom_id(&k.reward_denom)) } else { None };
                        let w = if keep(r) { Some(id_of(&k.swap_contract)) } else { None };
                        tx(id_of(&k.owner), REWARD, Call::Reward(RewMsg::UConfig(h, d, w)))
                    }
                    None => tx(OWNER, REWARD, Call::Reward(RewMsg::UConfig(None, None, None))),
                }
            }
            2 => {
                let cfg: Option<basset::dispatcher::ConfigResponse> = c.q(DISP, &basset_sei_rewards_dispatcher::msg::QueryMsg::Config {}).ok();
                match cfg {
                    Some(k) => {
                        let h = if keep(r) { Some(id_of(&k.hub_contract)) } else { None };
                        let w = if keep(r) { Some(id_of(&k.bsei_reward_contract)) } else { None };
                        let sd = if keep(r) { Some(denom_id(&k.stsei_reward_denom)) } else { None };
                        let bd = if keep(r) { Some(denom_id(&k.bsei_reward_denom)) } else { None };
                        let ka = if keep(r) { Some(id_of(&k.krp_keeper_address)) } else { None };
                        let kr = if keep(r) { Some(k.krp_keeper_rate.atomics().u128()) } else { None };
                        tx(id_of(&k.owner), DISP, Call::Disp(DispMsg::UConfig(h, w, sd, bd, ka, kr)))
                    }
                    None => tx(OWNER, DISP, Call::Disp(DispMsg::UConfig(None, None, None, None, None, None))),
                }
            }
            3 => {
                let p: Option<basset::hub::Parameters> = c.q(HUB, &basset::hub::QueryMsg::Parameters {}).ok();
                let owner = c.q::<basset::hub::ConfigResponse, _>(HUB, &basset::hub::QueryMsg::Config {}).ok().map(|k| id_of(&k.owner)).unwrap_or(OWNER);
                match p {
                    Some(k) => {
                        let e = if keep(r) { Some(k.epoch_period) } else { None };
                        let u = if keep(r) { Some(k.unbonding_period) } else { None };
                        let f = if keep(r) { Some(k.peg_recovery_fee.atomics().u128()) } else { None };
                        let t = if keep(r) { Some(k.er_threshold.atomics().u128()) } else { None };
                        let rd = if keep(r) { Some(denom_id(&k.reward_denom)) } else { None };
                        // an omitted pause flag clears the pause (C20): always re-send it
                        tx(owner, HUB, Call::Hub(HubMsg::UParams(e, u, f, t, Some(k.paused.unwrap_or(false)), rd)))
                    }
                    None => tx(owner, HUB, Call::Hub(HubMsg::UParams(None, None, None, None, Some(false), None))),
                }
            }
            _ => {
                // the registry is told its hub again — or, rarely, another one, and back
                let cur = c.stores.get(&REG).and_then(|st| basset_sei_validators_registry::registry::CONFIG.load(st).ok());
                let cur_hub = cur.as_ref().and_then(|k| { use cosmwasm_std::Api; cosmwasm_std::testing::MockApi::default().addr_humanize(&k.hub_contract).ok() }).map(|a| id_of(a.as_str())).unwrap_or(HUB);
                let h = if cur_hub != HUB { HUB } else if r.chance(1, 6) { 9 } else { HUB };
                tx(OWNER, REG, Call::Reg(RegMsg::UConfig(Some(h))))
            }
        }
    }

    pub fn admin_op(&mut self, _c: &Chain) -> Op {
        let sender = if self.rng.chance(4, 5) { OWNER } else { self.rng.pick(&[NOMINEE, 5, UPDATER]) };
        let decs = [0u128, 1, 50_000_000_000_000_000, D - 1, D, D + 1, 2 * D];
        if self.rng.chance(1, 15) {
            // a contract upgrade to the same code
            return Op::Env(EnvOp::Migrate(self.rng.pick(&[HUB, BSEI, STSEI, REWARD, DISP, REG])));
        }
        match self.rng.below(12) {
            0 | 1 | 2 => {
                let e = self.opt(&[0u64, 10, 30]);
                let ub = None; // E3: unbonding_period is not changed while batches are in flight
                let f = self.opt(&decs);
                let t = self.opt(&decs);
                let p = self.rng.pick(&[None, None, Some(false), Some(true)]);
                let rd = self.opt(&[1u8, 2]);
                tx(sender, HUB, Call::Hub(HubMsg::UParams(e, ub, f, t, p, rd)))
            }
            3 => tx(sender, HUB, Call::Hub(HubMsg::UParams(None, None, None, None, Some(false), None))),
            4 => {
                let kr = self.opt(&decs);
                let k = self.opt(&[KEEPER, 9]);
                let bd = self.opt(&[1u8]);
                let sd = if self.rng.chance(1, 6) { Some(0u8) } else { None };
                // now and then the sibling addresses are named again in the same message
                let h = if self.rng.chance(1, 4) { Some(HUB) } else { None };
                let rw = if self.rng.chance(1, 6) { Some(REWARD) } else { None };
                tx(sender, DISP, Call::Disp(DispMsg::UConfig(h, rw, sd, bd, k, kr)))
            }
            5 => tx(sender, HUB, Call::Hub(HubMsg::SetOwner(self.rng.pick(&[NOMINEE, OWNER])))),
            6 => tx(self.rng.pick(&[NOMINEE, OWNER, 5]), HUB, Call::Hub(HubMsg::Accept)),
            7 => {
                let mut f = [None; 7];
                if self.rng.chance(1, 3) {
                    f[2] = Some(BSEI);
                }
                if self.rng.chance(1, 3) {
                    f[3] = Some(STSEI);
                }
                if self.rng.chance(1, 3) {
                    f[4] = Some(self.rng.pick(&[AIRDROP, 9]));
                }
                if self.rng.chance(1, 3) {
                    f[6] = Some(self.rng.pick(&[UPDATER, 9]));
                }
                if self.rng.chance(1, 3) {
                    f[0] = Some(DISP);
                }
                tx(sender, HUB, Call::Hub(HubMsg::UConfig(f)))
            }
            8 => tx(sender, DISP, Call::Disp(DispMsg::USwapDenom(self.rng.pick(&[0u8, 1, 2]), self.rng.chance(1, 2)))),
            9 => tx(sender, REWARD, Call::Reward(RewMsg::USwapDenom(self.rng.pick(&[0u8, 1, 2]), self.rng.chance(1, 2)))),
            10 => tx(sender, HUB, Call::Hub(HubMsg::Migrate(self.opt(&[1u32, 5])))),
            _ => tx(sender, REG, Call::Reg(RegMsg::UConfig(self.opt(&[HUB])))),
        }
    }

    pub fn invalid_op(&mut self, c: &Chain) -> Op {
        let u = self.rng.pick(&USERS);
        let a = 1 + self.rng.below(1000) as u128;
        match self.rng.below(14) {
            12 => Op::Tx { sender: u, target: HUB, call: Call::Hub(HubMsg::Bond), funds: vec![(0, a.min(c.bal(u, 0)).max(1)), (1, 1)] },
            13 => Op::Tx { sender: u, target: HUB, call: Call::Hub(HubMsg::BondSt), funds: vec![] },
            0 => txf(u, HUB, Call::Hub(HubMsg::BondRw), a.min(c.bal(u, 0)).max(1)),
            1 => tx(u, HUB, Call::Hub(HubMsg::Receive(u, a, Hook::Unbond))),
            2 => tx(u, BSEI, Call::Tok(TokMsg::Mint(u, a))),
            3 => tx(u, STSEI, Call::Tok(TokMsg::Mint(u, a))),
            4 => tx(u, REWARD, Call::Reward(RewMsg::Inc(u, a))),
            5 => tx(u, REWARD, Call::Reward(RewMsg::Ugi)),
            6 => tx(u, DISP, Call::Disp(DispMsg::Dispatch)),
            7 => tx(u, HUB, Call::Hub(HubMsg::Redel(201, vec![(202, a)]))),
            8 => Op::Tx { sender: u, target: HUB, call: Call::Hub(HubMsg::Bond), funds: vec![(1, a)] },
            9 => tx(u, STSEI, Call::Tok(TokMsg::UMinter(Some(u)))),
            10 => tx(u, BSEI, Call::Tok(TokMsg::Transfer(6, 0))),
            _ => tx(u, HUB, Call::Hub(HubMsg::UParams(None, None, Some(0), None, None, None))),
        }
    }
}
