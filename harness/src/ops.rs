//! operation alphabet of the line protocol (DESIGN.md Appendix B): parse, print, execute.

use crate::chain::*;
use cosmwasm_std::{to_json_binary, Binary, Coin, Decimal, Uint128};
use cw20::{Cw20Coin, Cw20ReceiveMsg, Expiration};

#[derive(Clone, Debug, PartialEq)]
pub enum Hook {
    Unbond,
    Convert,
    Other,
}
#[derive(Clone, Debug, PartialEq)]
pub enum Exp {
    H(u64),
    T(u64),
    Never,
}
type O<T> = Option<T>;

#[derive(Clone, Debug, PartialEq)]
pub enum HubMsg {
    Bond,
    BondSt,
    BondRw,
    Ugi,
    Withdraw,
    Check,
    Receive(Id, u128, Hook),
    ClaimAirdrop,
    SwapHook,
    Redel(Id, Vec<(Id, u128)>),
    Migrate(O<u32>),
    SetOwner(Id),
    Accept,
    UConfig([O<Id>; 7]),
    UParams(O<u64>, O<u64>, O<u128>, O<u128>, O<bool>, O<u8>),
}
#[derive(Clone, Debug, PartialEq)]
pub enum TokMsg {
    Transfer(Id, u128),
    Burn(u128),
    Send(Id, u128, Hook),
    Mint(Id, u128),
    IncAllow(Id, u128, O<Exp>),
    DecAllow(Id, u128, O<Exp>),
    TransferFrom(Id, Id, u128),
    BurnFrom(Id, u128),
    SendFrom(Id, Id, u128, Hook),
    UMinter(O<Id>),
    UMarketing,
}
#[derive(Clone, Debug, PartialEq)]
pub enum RewMsg {
    Claim(O<Id>),
    UConfig(O<Id>, O<u8>, O<Id>),
    SetOwner(Id),
    Accept,
    Swap,
    Ugi,
    Inc(Id, u128),
    Dec(Id, u128),
    USwapDenom(u8, bool),
}
#[derive(Clone, Debug, PartialEq)]
pub enum DispMsg {
    Swap(u128, u128),
    Dispatch,
    UConfig(O<Id>, O<Id>, O<u8>, O<u8>, O<Id>, O<u128>),
    SetOwner(Id),
    Accept,
    USwap(Id),
    USwapDenom(u8, bool),
    UOracle(Id),
}
#[derive(Clone, Debug, PartialEq)]
pub enum RegMsg {
    Add(Id),
    Remove(Id),
    UConfig(O<Id>),
    Redelegations(Id),
    SetOwner(Id),
    Accept,
}
#[derive(Clone, Debug, PartialEq)]
pub enum Call {
    Hub(HubMsg),
    Tok(TokMsg),
    Reward(RewMsg),
    Disp(DispMsg),
    Reg(RegMsg),
    SwapDenom(u8, u128, u8, O<Id>),
}
#[derive(Clone, Debug, PartialEq)]
pub enum EnvOp {
    Advance(u64),
    Slash(Id, u128, u128),
    SlashU(Id, u128, u128),
    Accrue(Id, u8, u128),
    Donate(Id, u8, u128),
    NoRedel(Id, bool),
    NoUndel(Id, bool),
    /// the validator leaves (true) or re-enters (false) the chain's active set
    Inactive(Id, bool),
    /// upgrade of a contract to the same code (calls its `migrate` entry point)
    Migrate(Id),
    Oracle(bool, u128),
    Swap(bool, u128),
    Legacy(Id, u64, u128),
    UnbondingTime(u64),
}
#[derive(Clone, Debug, PartialEq)]
pub enum Inst {
    Hub { sender: Id, epoch: u64, unbonding: u64, fee: u128, thr: u128, rd: u8, updater: Id },
    Bsei { sender: Id, hub: Id, bals: Vec<(Id, u128)> },
    Stsei { sender: Id, hub: Id, bals: Vec<(Id, u128)> },
    Reward { sender: Id, hub: Id, denom: u8, swap: Id, denoms: Vec<u8> },
    Disp { sender: Id, hub: Id, reward: Id, sd: u8, bd: u8, keeper: Id, rate: u128, swap: Id, oracle: Id, denoms: Vec<u8> },
    Reg { sender: Id, hub: Id, vals: Vec<Id> },
}
/// read paths that take arguments (the argument-free ones are part of every observation)
#[derive(Clone, Debug, PartialEq)]
pub enum Query {
    /// hub `AllHistory { start_from, limit }`
    Hist(O<u64>, O<u32>),
}
#[derive(Clone, Debug, PartialEq)]
pub enum Op {
    Tx { sender: Id, target: Id, call: Call, funds: Vec<(u8, u128)> },
    Query(Query),
    Env(EnvOp),
    Inst(Inst),
    Reset,
    Save,
    Restore,
}

// ------------------------------------------------------------------ printing
fn o<T: ToString>(x: &Option<T>) -> String {
    match x {
        Some(v) => v.to_string(),
        None => "-".into(),
    }
}
fn hook_s(h: &Hook) -> &'static str {
    match h {
        Hook::Unbond => "unbond",
        Hook::Convert => "convert",
        Hook::Other => "other",
    }
}
fn exp_s(e: &Option<Exp>) -> String {
    match e {
        None => "-".into(),
        Some(Exp::H(h)) => format!("h{}", h),
        Some(Exp::T(t)) => format!("t{}", t),
        Some(Exp::Never) => "n".into(),
    }
}
fn b01(b: bool) -> &'static str {
    if b {
        "1"
    } else {
        "0"
    }
}

impl Call {
    pub fn to_tokens(&self) -> String {
        match self {
            Call::Hub(m) => format!(
                "hub {}",
                match m {
                    HubMsg::Bond => "bond".into(),
                    HubMsg::BondSt => "bondst".into(),
                    HubMsg::BondRw => "bondrw".into(),
                    HubMsg::Ugi => "ugi".into(),
                    HubMsg::Withdraw => "withdraw".into(),
                    HubMsg::Check => "check".into(),
                    HubMsg::Receive(u, a, h) => format!("receive {} {} {}", u, a, hook_s(h)),
                    HubMsg::ClaimAirdrop => "claimairdrop".into(),
                    HubMsg::SwapHook => "swaphook".into(),
                    HubMsg::Redel(src, plan) => format!(
                        "redel {}{}",
                        src,
                        plan.iter().map(|(d, a)| format!(" {} {}", d, a)).collect::<String>()
                    ),
                    HubMsg::Migrate(l) => format!("migrate {}", o(l)),
                    HubMsg::SetOwner(a) => format!("setowner {}", a),
                    HubMsg::Accept => "accept".into(),
                    HubMsg::UConfig(f) => format!(
                        "uconfig {}",
                        f.iter().map(o).collect::<Vec<_>>().join(" ")
                    ),
                    HubMsg::UParams(e, u, f, t, p, rd) => format!(
                        "uparams {} {} {} {} {} {}",
                        o(e),
                        o(u),
                        o(f),
                        o(t),
                        match p {
                            None => "-",
                            Some(true) => "t",
                            Some(false) => "f",
                        },
                        o(rd)
                    ),
                }
            ),
            Call::Tok(m) => format!(
                "tok {}",
                match m {
                    TokMsg::Transfer(t, a) => format!("transfer {} {}", t, a),
                    TokMsg::Burn(a) => format!("burn {}", a),
                    TokMsg::Send(c, a, h) => format!("send {} {} {}", c, a, hook_s(h)),
                    TokMsg::Mint(t, a) => format!("mint {} {}", t, a),
                    TokMsg::IncAllow(s, a, e) => format!("incallow {} {} {}", s, a, exp_s(e)),
                    TokMsg::DecAllow(s, a, e) => format!("decallow {} {} {}", s, a, exp_s(e)),
                    TokMsg::TransferFrom(ow, t, a) => format!("transferfrom {} {} {}", ow, t, a),
                    TokMsg::BurnFrom(ow, a) => format!("burnfrom {} {}", ow, a),
                    TokMsg::SendFrom(ow, c, a, h) => format!("sendfrom {} {} {} {}", ow, c, a, hook_s(h)),
                    TokMsg::UMinter(a) => format!("uminter {}", o(a)),
                    TokMsg::UMarketing => "umarketing".into(),
                }
            ),
            Call::Reward(m) => format!(
                "reward {}",
                match m {
                    RewMsg::Claim(r) => format!("claim {}", o(r)),
                    RewMsg::UConfig(h, d, s) => format!("uconfig {} {} {}", o(h), o(d), o(s)),
                    RewMsg::SetOwner(a) => format!("setowner {}", a),
                    RewMsg::Accept => "accept".into(),
                    RewMsg::Swap => "swap".into(),
                    RewMsg::Ugi => "ugi".into(),
                    RewMsg::Inc(a, n) => format!("inc {} {}", a, n),
                    RewMsg::Dec(a, n) => format!("dec {} {}", a, n),
                    RewMsg::USwapDenom(d, b) => format!("uswapdenom {} {}", d, b01(*b)),
                }
            ),
            Call::Disp(m) => format!(
                "disp {}",
                match m {
                    DispMsg::Swap(b, s) => format!("swap {} {}", b, s),
                    DispMsg::Dispatch => "dispatch".into(),
                    DispMsg::UConfig(h, r, sd, bd, k, kr) => format!(
                        "uconfig {} {} {} {} {} {}",
                        o(h),
                        o(r),
                        o(sd),
                        o(bd),
                        o(k),
                        o(kr)
                    ),
                    DispMsg::SetOwner(a) => format!("setowner {}", a),
                    DispMsg::Accept => "accept".into(),
                    DispMsg::USwap(a) => format!("uswap {}", a),
                    DispMsg::USwapDenom(d, b) => format!("uswapdenom {} {}", d, b01(*b)),
                    DispMsg::UOracle(a) => format!("uoracle {}", a),
                }
            ),
            Call::Reg(m) => format!(
                "reg {}",
                match m {
                    RegMsg::Add(v) => format!("add {}", v),
                    RegMsg::Remove(v) => format!("remove {}", v),
                    RegMsg::UConfig(h) => format!("uconfig {}", o(h)),
                    RegMsg::Redelegations(v) => format!("redelegations {}", v),
                    RegMsg::SetOwner(a) => format!("setowner {}", a),
                    RegMsg::Accept => "accept".into(),
                }
            ),
            Call::SwapDenom(s, a, d, t) => format!("swapc swapdenom {} {} {} {}", s, a, d, o(t)),
        }
    }
}

impl Op {
    pub fn to_line(&self) -> String {
        match self {
            Op::Tx { sender, target, call, funds } => {
                let mut s = format!("tx {} {} {}", sender, target, call.to_tokens());
                for (d, a) in funds {
                    s.push_str(&format!(" ${}:{}", d, a));
                }
                s
            }
            Op::Env(e) => match e {
                EnvOp::Advance(dt) => format!("env advance {}", dt),
                EnvOp::Slash(v, n, d) => format!("env slash {} {} {}", v, n, d),
                EnvOp::SlashU(v, n, d) => format!("env slashu {} {} {}", v, n, d),
                EnvOp::Accrue(v, d, a) => format!("env accrue {} {} {}", v, d, a),
                EnvOp::Donate(a, d, n) => format!("env donate {} {} {}", a, d, n),
                EnvOp::NoRedel(v, b) => format!("env noredel {} {}", v, b01(*b)),
                EnvOp::NoUndel(v, b) => format!("env noundel {} {}", v, b01(*b)),
                EnvOp::Inactive(v, b) => format!("env inactive {} {}", v, b01(*b)),
                EnvOp::Migrate(c) => format!("env migrate {}", c),
                EnvOp::Oracle(b, p) => format!("env oracle {} {}", b01(*b), p),
                EnvOp::Swap(b, p) => format!("env swap {} {}", b01(*b), p),
                EnvOp::Legacy(u, b, a) => format!("env legacy {} {} {}", u, b, a),
                EnvOp::UnbondingTime(n) => format!("env unbondingtime {}", n),
            },
            Op::Inst(i) => match i {
                Inst::Hub { sender, epoch, unbonding, fee, thr, rd, updater } => format!(
                    "inst hub {} {} {} {} {} {} {}",
                    sender, epoch, unbonding, fee, thr, rd, updater
                ),
                Inst::Bsei { sender, hub, bals } => format!(
                    "inst bsei {} {}{}",
                    sender,
                    hub,
                    bals.iter().map(|(a, n)| format!(" {} {}", a, n)).collect::<String>()
                ),
                Inst::Stsei { sender, hub, bals } => format!(
                    "inst stsei {} {}{}",
                    sender,
                    hub,
                    bals.iter().map(|(a, n)| format!(" {} {}", a, n)).collect::<String>()
                ),
                Inst::Reward { sender, hub, denom, swap, denoms } => format!(
                    "inst reward {} {} {} {}{}",
                    sender,
                    hub,
                    denom,
                    swap,
                    denoms.iter().map(|d| format!(" {}", d)).collect::<String>()
                ),
                Inst::Disp { sender, hub, reward, sd, bd, keeper, rate, swap, oracle, denoms } => format!(
                    "inst disp {} {} {} {} {} {} {} {} {}{}",
                    sender,
                    hub,
                    reward,
                    sd,
                    bd,
                    keeper,
                    rate,
                    swap,
                    oracle,
                    denoms.iter().map(|d| format!(" {}", d)).collect::<String>()
                ),
                Inst::Reg { sender, hub, vals } => format!(
                    "inst reg {} {}{}",
                    sender,
                    hub,
                    vals.iter().map(|d| format!(" {}", d)).collect::<String>()
                ),
            },
            Op::Query(Query::Hist(st, lim)) => format!("q hist {} {}", o(st), o(lim)),
            Op::Reset => "reset".into(),
            Op::Save => "save".into(),
            Op::Restore => "restore".into(),
        }
    }
}

// ------------------------------------------------------------------ parsing
fn pn<T: std::str::FromStr>(s: &str) -> Option<T> {
    s.parse::<T>().ok()
}
fn po<T: std::str::FromStr>(s: &str) -> Option<Option<T>> {
    if s == "-" {
        Some(None)
    } else {
        s.parse::<T>().ok().map(Some)
    }
}
fn pb(s: &str) -> Option<bool> {
    match s {
        "1" => Some(true),
        "0" => Some(false),
        _ => None,
    }
}
fn phook(s: &str) -> Option<Hook> {
    match s {
        "unbond" => Some(Hook::Unbond),
        "convert" => Some(Hook::Convert),
        "other" => Some(Hook::Other),
        _ => None,
    }
}
fn pexp(s: &str) -> Option<Option<Exp>> {
    if s == "-" {
        Some(None)
    } else if s == "n" {
        Some(Some(Exp::Never))
    } else if let Some(r) = s.strip_prefix('h') {
        r.parse().ok().map(|n| Some(Exp::H(n)))
    } else if let Some(r) = s.strip_prefix('t') {
        r.parse().ok().map(|n| Some(Exp::T(n)))
    } else {
        None
    }
}
fn ppairs<A: std::str::FromStr, B: std::str::FromStr>(l: &[&str]) -> Option<Vec<(A, B)>> {
    if l.len() % 2 != 0 {
        return None;
    }
    let mut v = vec![];
    for c in l.chunks(2) {
        v.push((pn(c[0])?, pn(c[1])?));
    }
    Some(v)
}
fn plist<A: std::str::FromStr>(l: &[&str]) -> Option<Vec<A>> {
    l.iter().map(|s| pn(s)).collect()
}

fn parse_call(ns: &str, a: &[&str]) -> Option<Call> {
    Some(match ns {
        "hub" => Call::Hub(match a {
            ["bond"] => HubMsg::Bond,
            ["bondst"] => HubMsg::BondSt,
            ["bondrw"] => HubMsg::BondRw,
            ["ugi"] => HubMsg::Ugi,
            ["withdraw"] => HubMsg::Withdraw,
            ["check"] => HubMsg::Check,
            ["receive", u, n, h] => HubMsg::Receive(pn(u)?, pn(n)?, phook(h)?),
            ["claimairdrop"] => HubMsg::ClaimAirdrop,
            ["swaphook"] => HubMsg::SwapHook,
            ["redel", src, rest @ ..] => HubMsg::Redel(pn(src)?, ppairs(rest)?),
            ["migrate", l] => HubMsg::Migrate(po(l)?),
            ["setowner", x] => HubMsg::SetOwner(pn(x)?),
            ["accept"] => HubMsg::Accept,
            ["uconfig", d, r, b, s, ad, rw, u] => {
                HubMsg::UConfig([po(d)?, po(r)?, po(b)?, po(s)?, po(ad)?, po(rw)?, po(u)?])
            }
            ["uparams", e, u, f, t, p, rd] => HubMsg::UParams(
                po(e)?,
                po(u)?,
                po(f)?,
                po(t)?,
                match *p {
                    "-" => None,
                    "t" => Some(true),
                    "f" => Some(false),
                    _ => return None,
                },
                po(rd)?,
            ),
            _ => return None,
        }),
        "tok" => Call::Tok(match a {
            ["transfer", t, n] => TokMsg::Transfer(pn(t)?, pn(n)?),
            ["burn", n] => TokMsg::Burn(pn(n)?),
            ["send", c, n, h] => TokMsg::Send(pn(c)?, pn(n)?, phook(h)?),
            ["mint", t, n] => TokMsg::Mint(pn(t)?, pn(n)?),
            ["incallow", s, n, e] => TokMsg::IncAllow(pn(s)?, pn(n)?, pexp(e)?),
            ["decallow", s, n, e] => TokMsg::DecAllow(pn(s)?, pn(n)?, pexp(e)?),
            ["transferfrom", ow, t, n] => TokMsg::TransferFrom(pn(ow)?, pn(t)?, pn(n)?),
            ["burnfrom", ow, n] => TokMsg::BurnFrom(pn(ow)?, pn(n)?),
            ["sendfrom", ow, c, n, h] => TokMsg::SendFrom(pn(ow)?, pn(c)?, pn(n)?, phook(h)?),
            ["uminter", x] => TokMsg::UMinter(po(x)?),
            ["umarketing"] => TokMsg::UMarketing,
            _ => return None,
        }),
        "reward" => Call::Reward(match a {
            ["claim", r] => RewMsg::Claim(po(r)?),
            ["uconfig", h, d, s] => RewMsg::UConfig(po(h)?, po(d)?, po(s)?),
            ["setowner", x] => RewMsg::SetOwner(pn(x)?),
            ["accept"] => RewMsg::Accept,
            ["swap"] => RewMsg::Swap,
            ["ugi"] => RewMsg::Ugi,
            ["inc", x, n] => RewMsg::Inc(pn(x)?, pn(n)?),
            ["dec", x, n] => RewMsg::Dec(pn(x)?, pn(n)?),
            ["uswapdenom", d, b] => RewMsg::USwapDenom(pn(d)?, pb(b)?),
            _ => return None,
        }),
        "disp" => Call::Disp(match a {
            ["swap", b, s] => DispMsg::Swap(pn(b)?, pn(s)?),
            ["dispatch"] => DispMsg::Dispatch,
            ["uconfig", h, r, sd, bd, k, kr] => {
                DispMsg::UConfig(po(h)?, po(r)?, po(sd)?, po(bd)?, po(k)?, po(kr)?)
            }
            ["setowner", x] => DispMsg::SetOwner(pn(x)?),
            ["accept"] => DispMsg::Accept,
            ["uswap", x] => DispMsg::USwap(pn(x)?),
            ["uswapdenom", d, b] => DispMsg::USwapDenom(pn(d)?, pb(b)?),
            ["uoracle", x] => DispMsg::UOracle(pn(x)?),
            _ => return None,
        }),
        "reg" => Call::Reg(match a {
            ["add", v] => RegMsg::Add(pn(v)?),
            ["remove", v] => RegMsg::Remove(pn(v)?),
            ["uconfig", h] => RegMsg::UConfig(po(h)?),
            ["redelegations", v] => RegMsg::Redelegations(pn(v)?),
            ["setowner", x] => RegMsg::SetOwner(pn(x)?),
            ["accept"] => RegMsg::Accept,
            _ => return None,
        }),
        "swapc" => match a {
            ["swapdenom", s, n, d, t] => Call::SwapDenom(pn(s)?, pn(n)?, pn(d)?, po(t)?),
            _ => return None,
        },
        _ => return None,
    })
}

pub fn parse_line(line: &str) -> Option<Op> {
    let toks: Vec<&str> = line.split_whitespace().collect();
    match toks.as_slice() {
        ["tx", sender, target, ns, rest @ ..] => {
            let funds: Option<Vec<(u8, u128)>> = rest
                .iter()
                .filter(|t| t.starts_with('$'))
                .map(|t| {
                    let mut it = t[1..].split(':');
                    Some((pn(it.next()?)?, pn(it.next()?)?))
                })
                .collect();
            let args: Vec<&str> = rest.iter().filter(|t| !t.starts_with('$')).cloned().collect();
            Some(Op::Tx {
                sender: pn(sender)?,
                target: pn(target)?,
                call: parse_call(ns, &args)?,
                funds: funds?,
            })
        }
        ["env", "advance", dt] => Some(Op::Env(EnvOp::Advance(pn(dt)?))),
        ["env", "slash", v, n, d] => Some(Op::Env(EnvOp::Slash(pn(v)?, pn(n)?, pn(d)?))),
        ["env", "slashu", v, n, d] => Some(Op::Env(EnvOp::SlashU(pn(v)?, pn(n)?, pn(d)?))),
        ["env", "accrue", v, d, a] => Some(Op::Env(EnvOp::Accrue(pn(v)?, pn(d)?, pn(a)?))),
        ["env", "donate", a, d, n] => Some(Op::Env(EnvOp::Donate(pn(a)?, pn(d)?, pn(n)?))),
        ["env", "noredel", v, b] => Some(Op::Env(EnvOp::NoRedel(pn(v)?, pb(b)?))),
        ["env", "noundel", v, b] => Some(Op::Env(EnvOp::NoUndel(pn(v)?, pb(b)?))),
        ["env", "inactive", v, b] => Some(Op::Env(EnvOp::Inactive(pn(v)?, pb(b)?))),
        ["env", "migrate", c] => Some(Op::Env(EnvOp::Migrate(pn(c)?))),
        ["env", "oracle", b, p] => Some(Op::Env(EnvOp::Oracle(pb(b)?, pn(p)?))),
        ["env", "swap", b, p] => Some(Op::Env(EnvOp::Swap(pb(b)?, pn(p)?))),
        ["env", "legacy", u, b, a] => Some(Op::Env(EnvOp::Legacy(pn(u)?, pn(b)?, pn(a)?))),
        ["env", "unbondingtime", n] => Some(Op::Env(EnvOp::UnbondingTime(pn(n)?))),
        ["reset"] => Some(Op::Reset),
        ["q", "hist", st, lim] => Some(Op::Query(Query::Hist(po(st)?, po(lim)?))),
        ["save"] => Some(Op::Save),
        ["restore"] => Some(Op::Restore),
        ["inst", "hub", s, e, u, f, t, rd, up] => Some(Op::Inst(Inst::Hub {
            sender: pn(s)?,
            epoch: pn(e)?,
            unbonding: pn(u)?,
            fee: pn(f)?,
            thr: pn(t)?,
            rd: pn(rd)?,
            updater: pn(up)?,
        })),
        ["inst", "bsei", s, h, rest @ ..] => {
            Some(Op::Inst(Inst::Bsei { sender: pn(s)?, hub: pn(h)?, bals: ppairs(rest)? }))
        }
        ["inst", "stsei", s, h, rest @ ..] => {
            Some(Op::Inst(Inst::Stsei { sender: pn(s)?, hub: pn(h)?, bals: ppairs(rest)? }))
        }
        ["inst", "reward", s, h, d, sw, rest @ ..] => Some(Op::Inst(Inst::Reward {
            sender: pn(s)?,
            hub: pn(h)?,
            denom: pn(d)?,
            swap: pn(sw)?,
            denoms: plist(rest)?,
        })),
        ["inst", "disp", s, h, r, sd, bd, k, rate, sw, or, rest @ ..] => Some(Op::Inst(Inst::Disp {
            sender: pn(s)?,
            hub: pn(h)?,
            reward: pn(r)?,
            sd: pn(sd)?,
            bd: pn(bd)?,
            keeper: pn(k)?,
            rate: pn(rate)?,
            swap: pn(sw)?,
            oracle: pn(or)?,
            denoms: plist(rest)?,
        })),
        ["inst", "reg", s, h, rest @ ..] => {
            Some(Op::Inst(Inst::Reg { sender: pn(s)?, hub: pn(h)?, vals: plist(rest)? }))
        }
        _ => None,
    }
}

// ------------------------------------------------------------------ JSON of the real message types
fn dec(atomics: u128) -> Decimal {
    Decimal::from_atomics(Uint128::new(atomics), 18).unwrap()
}
fn on(x: &Option<Id>) -> Option<String> {
    x.map(name)
}
fn hook_bin(h: &Hook) -> Binary {
    match h {
        Hook::Unbond => to_json_binary(&basset::hub::Cw20HookMsg::Unbond {}).unwrap(),
        Hook::Convert => to_json_binary(&basset::hub::Cw20HookMsg::Convert {}).unwrap(),
        Hook::Other => Binary::from(b"{\"garbage\":1}".to_vec()),
    }
}
fn exp(e: &Option<Exp>) -> Option<Expiration> {
    e.as_ref().map(|e| match e {
        Exp::H(h) => Expiration::AtHeight(*h),
        Exp::T(t) => Expiration::AtTime(cosmwasm_std::Timestamp::from_seconds(*t)),
        Exp::Never => Expiration::Never {},
    })
}

impl Call {
    pub fn to_json(&self) -> Binary {
        use basset::hub::ExecuteMsg as H;
        match self {
            Call::Hub(m) => to_json_binary(&match m {
                HubMsg::Bond => H::Bond {},
                HubMsg::BondSt => H::BondForStSei {},
                HubMsg::BondRw => H::BondRewards {},
                HubMsg::Ugi => H::UpdateGlobalIndex { airdrop_hooks: None },
                HubMsg::Withdraw => H::WithdrawUnbonded {},
                HubMsg::Check => H::CheckSlashing {},
                HubMsg::Receive(u, a, h) => H::Receive(Cw20ReceiveMsg {
                    sender: name(*u),
                    amount: Uint128::new(*a),
                    msg: hook_bin(h),
                }),
                HubMsg::ClaimAirdrop => H::ClaimAirdrop {
                    airdrop_token_contract: name(SINK),
                    airdrop_contract: name(SINK),
                    airdrop_swap_contract: name(SINK),
                    claim_msg: Binary::from(b"{\"claim\":{}}".to_vec()),
                    swap_msg: Binary::from(b"{\"swap\":{}}".to_vec()),
                },
                HubMsg::SwapHook => H::SwapHook {
                    airdrop_token_contract: name(SINK),
                    airdrop_swap_contract: name(SINK),
                    swap_msg: Binary::from(b"{\"swap\":{}}".to_vec()),
                },
                HubMsg::Redel(src, plan) => H::RedelegateProxy {
                    src_validator: name(*src),
                    redelegations: plan.iter().map(|(d, a)| (name(*d), Coin::new(*a, "usei"))).collect(),
                },
                HubMsg::Migrate(l) => H::MigrateUnbondWaitList { limit: *l },
                HubMsg::SetOwner(a) => H::SetOwner { new_owner_addr: name(*a) },
                HubMsg::Accept => H::AcceptOwnership {},
                HubMsg::UConfig(f) => H::UpdateConfig {
                    rewards_dispatcher_contract: on(&f[0]),
                    validators_registry_contract: on(&f[1]),
                    bsei_token_contract: on(&f[2]),
                    stsei_token_contract: on(&f[3]),
                    airdrop_registry_contract: on(&f[4]),
                    rewards_contract: on(&f[5]),
                    update_reward_index_addr: on(&f[6]),
                },
                HubMsg::UParams(e, u, f, t, p, rd) => H::UpdateParams {
                    epoch_period: *e,
                    unbonding_period: *u,
                    peg_recovery_fee: f.map(dec),
                    er_threshold: t.map(dec),
                    paused: *p,
                    reward_denom: rd.map(|d| denom(d).to_string()),
                },
            })
            .unwrap(),
            Call::Tok(m) => {
                use cw20_base::msg::ExecuteMsg as T;
                to_json_binary(&match m {
                    TokMsg::Transfer(t, a) => T::Transfer { recipient: name(*t), amount: Uint128::new(*a) },
                    TokMsg::Burn(a) => T::Burn { amount: Uint128::new(*a) },
                    TokMsg::Send(c, a, h) => T::Send { contract: name(*c), amount: Uint128::new(*a), msg: hook_bin(h) },
                    TokMsg::Mint(t, a) => T::Mint { recipient: name(*t), amount: Uint128::new(*a) },
                    TokMsg::IncAllow(s, a, e) => T::IncreaseAllowance { spender: name(*s), amount: Uint128::new(*a), expires: exp(e) },
                    TokMsg::DecAllow(s, a, e) => T::DecreaseAllowance { spender: name(*s), amount: Uint128::new(*a), expires: exp(e) },
                    TokMsg::TransferFrom(ow, t, a) => T::TransferFrom { owner: name(*ow), recipient: name(*t), amount: Uint128::new(*a) },
                    TokMsg::BurnFrom(ow, a) => T::BurnFrom { owner: name(*ow), amount: Uint128::new(*a) },
                    TokMsg::SendFrom(ow, c, a, h) => T::SendFrom { owner: name(*ow), contract: name(*c), amount: Uint128::new(*a), msg: hook_bin(h) },
                    TokMsg::UMinter(a) => T::UpdateMinter { new_minter: on(a) },
                    TokMsg::UMarketing => T::UpdateMarketing { project: None, description: Some("x".into()), marketing: None },
                })
                .unwrap()
            }
            Call::Reward(m) => {
                use basset::reward::ExecuteMsg as R;
                to_json_binary(&match m {
                    RewMsg::Claim(r) => R::ClaimRewards { recipient: on(r) },
                    RewMsg::UConfig(h, d, s) => R::UpdateConfig {
                        hub_contract: on(h),
                        reward_denom: d.map(|d| denom(d).to_string()),
                        swap_contract: on(s),
                    },
                    RewMsg::SetOwner(a) => R::SetOwner { new_owner_addr: name(*a) },
                    RewMsg::Accept => R::AcceptOwnership {},
                    RewMsg::Swap => R::SwapToRewardDenom {},
                    RewMsg::Ugi => R::UpdateGlobalIndex {},
                    RewMsg::Inc(a, n) => R::IncreaseBalance { address: name(*a), amount: Uint128::new(*n) },
                    RewMsg::Dec(a, n) => R::DecreaseBalance { address: name(*a), amount: Uint128::new(*n) },
                    RewMsg::USwapDenom(d, b) => R::UpdateSwapDenom { swap_denom: denom(*d).to_string(), is_add: *b },
                })
                .unwrap()
            }
            Call::Disp(m) => {
                use basset_sei_rewards_dispatcher::msg::ExecuteMsg as X;
                to_json_binary(&match m {
                    DispMsg::Swap(b, s) => X::SwapToRewardDenom {
                        bsei_total_bonded: Uint128::new(*b),
                        stsei_total_bonded: Uint128::new(*s),
                    },
                    DispMsg::Dispatch => X::DispatchRewards {},
                    DispMsg::UConfig(h, r, sd, bd, k, kr) => X::UpdateConfig {
                        hub_contract: on(h),
                        bsei_reward_contract: on(r),
                        stsei_reward_denom: sd.map(|d| denom(d).to_string()),
                        bsei_reward_denom: bd.map(|d| denom(d).to_string()),
                        krp_keeper_address: on(k),
                        krp_keeper_rate: kr.map(dec),
                    },
                    DispMsg::SetOwner(a) => X::SetOwner { new_owner_addr: name(*a) },
                    DispMsg::Accept => X::AcceptOwnership {},
                    DispMsg::USwap(a) => X::UpdateSwapContract { swap_contract: name(*a) },
                    DispMsg::USwapDenom(d, b) => X::UpdateSwapDenom { swap_denom: denom(*d).to_string(), is_add: *b },
                    DispMsg::UOracle(a) => X::UpdateOracleContract { oracle_contract: name(*a) },
                })
                .unwrap()
            }
            Call::Reg(m) => {
                use basset_sei_validators_registry::msg::ExecuteMsg as G;
                use basset_sei_validators_registry::registry::Validator;
                to_json_binary(&match m {
                    RegMsg::Add(v) => G::AddValidator { validator: Validator { address: name(*v) } },
                    RegMsg::Remove(v) => G::RemoveValidator { address: name(*v) },
                    RegMsg::UConfig(h) => G::UpdateConfig { hub_contract: on(h) },
                    RegMsg::Redelegations(v) => G::Redelegations { address: name(*v) },
                    RegMsg::SetOwner(a) => G::SetOwner { new_owner_addr: name(*a) },
                    RegMsg::Accept => G::AcceptOwnership {},
                })
                .unwrap()
            }
            Call::SwapDenom(s, a, d, t) => to_json_binary(&basset::swap_ext::SwapExecteMsg::SwapDenom {
                from_coin: Coin::new(*a, denom(*s)),
                target_denom: denom(*d).to_string(),
                to_address: on(t),
            })
            .unwrap(),
        }
    }
}

pub struct Outcome {
    pub ok: bool,
    pub err: String,
}

impl Chain {
    pub fn apply(&mut self, op: &Op) -> Outcome {
        let r: Result<(), String> = match op {
            Op::Tx { sender, target, call, funds } => {
                let coins: Vec<Coin> = funds.iter().map(|(d, a)| Coin::new(*a, denom(*d))).collect();
                self.tx(*sender, *target, &call.to_json(), &coins)
            }
            Op::Env(EnvOp::Migrate(c)) => {
                // an upgrade is a transaction of its own: all or nothing
                let snapshot = self.clone();
                self.effects.clear();
                self.trace.clear();
                self.fuel = 400;
                match self.run_migrate(*c) {
                    Ok(()) => Ok(()),
                    Err(e) => {
                        *self = snapshot;
                        Err(e)
                    }
                }
            }
            Op::Env(e) => {
                self.effects.clear();
                match e {
                    EnvOp::Advance(dt) => self.advance(*dt),
                    EnvOp::Slash(v, n, d) => self.slash(*v, *n, *d),
                    EnvOp::SlashU(v, n, d) => self.slash_unbonding(*v, *n, *d),
                    EnvOp::Accrue(v, d, a) => *self.pending.entry((*v, *d)).or_insert(0) += a,
                    EnvOp::Donate(a, d, n) => *self.bank.entry((*a, *d)).or_insert(0) += n,
                    EnvOp::NoRedel(v, b) => {
                        if *b {
                            self.no_redelegate.insert(*v);
                        } else {
                            self.no_redelegate.remove(v);
                        }
                    }
                    EnvOp::NoUndel(v, b) => {
                        if *b {
                            self.no_undelegate.insert(*v);
                        } else {
                            self.no_undelegate.remove(v);
                        }
                    }
                    EnvOp::Inactive(v, b) => {
                        if *b {
                            self.inactive.insert(*v);
                        } else {
                            self.inactive.remove(v);
                        }
                    }
                    EnvOp::Oracle(b, p) => {
                        self.oracle_ok = *b;
                        self.oracle_price = *p;
                    }
                    EnvOp::Swap(b, p) => {
                        self.swap_ok = *b;
                        self.swap_p2 = *p;
                    }
                    EnvOp::Legacy(u, b, a) => self.seed_legacy(*u, *b, *a),
                    EnvOp::UnbondingTime(n) => self.unbonding_time = *n,
                    EnvOp::Migrate(_) => {}
                }
                Ok(())
            }
            Op::Inst(i) => match i {
                Inst::Hub { sender, epoch, unbonding, fee, thr, rd, updater } => self.instantiate(
                    HUB,
                    *sender,
                    &to_json_binary(&basset::hub::InstantiateMsg {
                        epoch_period: *epoch,
                        underlying_coin_denom: "usei".into(),
                        unbonding_period: *unbonding,
                        peg_recovery_fee: dec(*fee),
                        er_threshold: dec(*thr),
                        reward_denom: denom(*rd).to_string(),
                        update_reward_index_addr: name(*updater),
                    })
                    .unwrap(),
                ),
                Inst::Bsei { sender, hub, bals } => self.instantiate(
                    BSEI,
                    *sender,
                    &to_json_binary(&basset_sei_token_bsei::msg::TokenInitMsg {
                        name: "bsei".into(),
                        symbol: "BSEI".into(),
                        decimals: 6,
                        initial_balances: bals
                            .iter()
                            .map(|(a, n)| Cw20Coin { address: name(*a), amount: Uint128::new(*n) })
                            .collect(),
                        hub_contract: name(*hub),
                    })
                    .unwrap(),
                ),
                Inst::Stsei { sender, hub, bals } => self.instantiate(
                    STSEI,
                    *sender,
                    &to_json_binary(&basset_sei_token_stsei::msg::TokenInitMsg {
                        name: "stsei".into(),
                        symbol: "STSEI".into(),
                        decimals: 6,
                        initial_balances: bals
                            .iter()
                            .map(|(a, n)| Cw20Coin { address: name(*a), amount: Uint128::new(*n) })
                            .collect(),
                        hub_contract: name(*hub),
                        marketing: Some(cw20_base::msg::InstantiateMarketingInfo {
                            project: None,
                            description: None,
                            marketing: Some("marketing".into()),
                            logo: None,
                        }),
                    })
                    .unwrap(),
                ),
                Inst::Reward { sender, hub, denom: d, swap, denoms } => self.instantiate(
                    REWARD,
                    *sender,
                    &to_json_binary(&basset::reward::InstantiateMsg {
                        hub_contract: name(*hub),
                        reward_denom: denom(*d).to_string(),
                        swap_contract: name(*swap),
                        swap_denoms: denoms.iter().map(|d| denom(*d).to_string()).collect(),
                    })
                    .unwrap(),
                ),
                Inst::Disp { sender, hub, reward, sd, bd, keeper, rate, swap, oracle, denoms } => self.instantiate(
                    DISP,
                    *sender,
                    &to_json_binary(&basset_sei_rewards_dispatcher::msg::InstantiateMsg {
                        hub_contract: name(*hub),
                        bsei_reward_contract: name(*reward),
                        stsei_reward_denom: denom(*sd).to_string(),
                        bsei_reward_denom: denom(*bd).to_string(),
                        krp_keeper_address: name(*keeper),
                        krp_keeper_rate: dec(*rate),
                        swap_contract: name(*swap),
                        swap_denoms: denoms.iter().map(|d| denom(*d).to_string()).collect(),
                        oracle_contract: name(*oracle),
                    })
                    .unwrap(),
                ),
                Inst::Reg { sender, hub, vals } => self.instantiate(
                    REG,
                    *sender,
                    &to_json_binary(&basset_sei_validators_registry::msg::InstantiateMsg {
                        registry: vals
                            .iter()
                            .map(|v| basset_sei_validators_registry::registry::Validator { address: name(*v) })
                            .collect(),
                        hub_contract: name(*hub),
                    })
                    .unwrap(),
                ),
            },
            Op::Reset => {
                *self = Chain::new();
                Ok(())
            }
            Op::Save | Op::Restore | Op::Query(_) => Ok(()),
        };
        match r {
            Ok(()) => Outcome { ok: true, err: String::new() },
            Err(e) => Outcome { ok: false, err: e },
        }
    }

    /// write an entry of the pre-v2 wait list directly into the hub's storage (as the repo's own
    /// pause/migration test does)
    pub fn seed_legacy(&mut self, user: Id, batch: u64, amount: u128) {
        use cosmwasm_std::to_json_vec;
        if let Some(store) = self.stores.get_mut(&HUB) {
            let addr = to_json_vec(&name(user)).unwrap();
            let b = to_json_vec(&batch).unwrap();
            let mut bucket: cosmwasm_storage_shim::Bucket = cosmwasm_storage_shim::Bucket::new(store, b"wait", &addr);
            bucket.save(&b, &Uint128::new(amount));
        }
    }
}

/// minimal re-implementation of cosmwasm-storage's multilevel bucket key layout
/// (length-prefixed namespaces), so the harness does not need the crate itself.
pub mod cosmwasm_storage_shim {
    use cosmwasm_std::{to_json_vec, Storage, Uint128};
    pub struct Bucket<'a> {
        store: &'a mut dyn Storage,
        prefix: Vec<u8>,
    }
    fn len_prefixed(ns: &[u8]) -> Vec<u8> {
        let mut v = vec![(ns.len() >> 8) as u8, (ns.len() & 0xff) as u8];
        v.extend_from_slice(ns);
        v
    }
    impl<'a> Bucket<'a> {
        pub fn new(store: &'a mut dyn Storage, ns1: &[u8], ns2: &[u8]) -> Bucket<'a> {
            let mut prefix = len_prefixed(ns1);
            prefix.extend(len_prefixed(ns2));
            Bucket { store, prefix }
        }
        pub fn save(&mut self, key: &[u8], v: &Uint128) {
            let mut k = self.prefix.clone();
            k.extend_from_slice(key);
            self.store.set(&k, &to_json_vec(v).unwrap());
        }
    }
}
