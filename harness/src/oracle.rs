//! executable oracles: one predicate family per property, evaluated on the implementation's
//! observations before/after every operation (DESIGN.md §6.5). They restate the properties,
//! not the model.

use crate::chain::*;
use crate::gen::USERS;
use crate::obs::HistView;
use crate::ops::*;
use std::collections::BTreeMap;

#[derive(Clone, Debug)]
pub struct Violation {
    pub prop: &'static str,
    /// stable class label (used to match known findings)
    pub class: String,
    pub detail: String,
}

fn v(prop: &'static str, class: &str, detail: String) -> Violation {
    Violation { prop, class: class.to_string(), detail }
}

#[derive(Clone, Debug, Default)]
pub struct Snap {
    pub time: u64,
    pub q: Option<[u128; 8]>,
    pub raw: [u128; 8],
    pub batch: (u64, u128, u128),
    pub hist: Vec<HistView>,
    pub supply_b: u128,
    pub supply_s: u128,
    pub bal_b: BTreeMap<Id, u128>,
    pub bal_s: BTreeMap<Id, u128>,
    pub reqs: BTreeMap<Id, Vec<(u64, u128, u128)>>,
    pub hub_bank: u128,
    pub delegated: u128,
    pub deleg: BTreeMap<Id, u128>,
    pub unbonding_total: u128,
    pub rw: (u128, u128, u128),
    pub holders: BTreeMap<Id, (u128, u128, u128)>,
    pub accrued: BTreeMap<Id, Option<u128>>,
    pub reward_bank: u128,
    pub fee: u128,
    pub thr: u128,
    pub epoch: u64,
    pub unbonding: u64,
    pub paused: bool,
    pub keeper_rate: u128,
    pub keeper: Id,
    pub reg_vals: Vec<Id>,
    /// the registry's stored map (reg_vals is what its list query answers)
    pub reg_stored: Vec<Id>,
    pub disp_bank: [u128; 3],
    pub pending_total: [u128; 3],
    pub legacy: usize,
}

/// hub → dispatcher → reward contract and reward contract → hub → bSei token all name the system's
/// own contracts (what the balance mirror depends on; denominations and rates do not matter)
pub fn mirror_wired(c: &Chain) -> bool {
    let w = c.hub_wiring();
    let d: Option<basset::dispatcher::ConfigResponse> = c.q(DISP, &basset_sei_rewards_dispatcher::msg::QueryMsg::Config {}).ok();
    let r: Option<basset::reward::ConfigResponse> = c.q(REWARD, &basset::reward::QueryMsg::Config {}).ok();
    w[0] == Some(DISP)
        && w[2] == Some(BSEI)
        && d.map(|d| id_of(&d.bsei_reward_contract) == REWARD && id_of(&d.hub_contract) == HUB).unwrap_or(false)
        && r.map(|r| id_of(&r.hub_contract) == HUB).unwrap_or(false)
}

/// staking coins that ride along with a message to the hub: the hub counts them in its balance
/// before the handler runs, like any other unsolicited transfer
pub fn attached_to_hub(op: &Op) -> u128 {
    match op {
        Op::Tx { target, funds, .. } if *target == HUB => funds.iter().filter(|f| f.0 == 0).map(|f| f.1).sum(),
        _ => 0,
    }
}

/// the hub names the system's registry and the registry's stored configuration names the hub (what
/// a removal that moves "the hub's stake" depends on; a registry still pointing at a deployment
/// placeholder, or re-pointed by its owner, is outside E3)
pub fn reg_wired(c: &Chain) -> bool {
    let w = c.hub_wiring();
    let back = c.stores.get(&REG).and_then(|st| basset_sei_validators_registry::registry::CONFIG.load(st).ok()).and_then(|k| {
        use cosmwasm_std::Api;
        cosmwasm_std::testing::MockApi::default().addr_humanize(&k.hub_contract).ok()
    }).map(|a| id_of(a.as_str()));
    w[1] == Some(REG) && back == Some(HUB)
}

/// the hub names the two token contracts of the system (whose burns call it back)
pub fn hub_wired_to_tokens(c: &Chain) -> bool {
    let w = c.hub_wiring();
    w[2] == Some(BSEI) && w[3] == Some(STSEI)
}

pub fn snap(c: &Chain) -> Snap {
    let mut s = Snap::default();
    s.time = c.time;
    s.q = c.hub_state_query();
    s.raw = c.hub_state_raw();
    s.batch = c.hub_batch();
    s.hist = c.hub_history();
    s.supply_b = c.token_supply(BSEI);
    s.supply_s = c.token_supply(STSEI);
    for a in cast_all().iter() {
        let b = c.token_balance(BSEI, *a);
        if b > 0 {
            s.bal_b.insert(*a, b);
        }
        let t = c.token_balance(STSEI, *a);
        if t > 0 {
            s.bal_s.insert(*a, t);
        }
        let r = c.hub_requests(*a);
        if !r.is_empty() {
            s.reqs.insert(*a, r);
        }
        let h = c.reward_holder(*a);
        if h != (0, 0, 0) {
            s.holders.insert(*a, h);
            s.accrued.insert(*a, c.reward_accrued(*a));
        }
    }
    s.hub_bank = c.bal(HUB, 0);
    s.delegated = c.total_delegated();
    s.deleg = c.deleg.clone();
    s.unbonding_total = c.unbonding.iter().map(|e| e.1).sum();
    s.rw = c.reward_state();
    s.reward_bank = c.bal(REWARD, 1);
    if let Ok(p) = c.q::<basset::hub::Parameters, _>(HUB, &basset::hub::QueryMsg::Parameters {}) {
        s.fee = p.peg_recovery_fee.atomics().u128();
        s.thr = p.er_threshold.atomics().u128();
        s.epoch = p.epoch_period;
        s.unbonding = p.unbonding_period;
        s.paused = p.paused.unwrap_or(false);
    }
    if let Ok(d) = c.q::<basset::dispatcher::ConfigResponse, _>(DISP, &basset_sei_rewards_dispatcher::msg::QueryMsg::Config {}) {
        s.keeper_rate = d.krp_keeper_rate.atomics().u128();
        s.keeper = id_of(&d.krp_keeper_address);
    }
    s.reg_vals = c.reg_validators().iter().map(|x| x.0).collect();
    s.reg_stored = c.reg_stored();
    for d in 0..3u8 {
        s.disp_bank[d as usize] = c.bal(DISP, d);
        s.pending_total[d as usize] = VALS.iter().map(|v| if c.deleg.contains_key(v) { c.pending_of(*v, d) } else { 0 }).sum();
    }
    s.legacy = c.legacy_count();
    s
}

fn floor_mul(a: u128, r: u128) -> u128 {
    mul_floor(a, r, D)
}

/// value of user's claims on released batches
fn released_claims(s: &Snap, u: Id) -> u128 {
    let mut t = 0u128;
    if let Some(rs) = s.reqs.get(&u) {
        for (b, x, y) in rs {
            if let Some(h) = s.hist.iter().find(|h| h.id == *b) {
                if h.released {
                    t += floor_mul(*y, h.s_withdraw) + floor_mul(*x, h.b_withdraw);
                }
            }
        }
    }
    t
}

fn rate_of(bond: u128, supply: u128, req: u128) -> u128 {
    if bond == 0 || supply + req == 0 {
        D
    } else {
        mul_floor(bond, D, supply + req)
    }
}

pub fn op_kind(op: &Op) -> &'static str {
    match op {
        Op::Tx { call, .. } => match call {
            Call::Hub(m) => match m {
                HubMsg::Bond => "hub.bond",
                HubMsg::BondSt => "hub.bondst",
                HubMsg::BondRw => "hub.bondrw",
                HubMsg::Ugi => "hub.ugi",
                HubMsg::Withdraw => "hub.withdraw",
                HubMsg::Check => "hub.check",
                HubMsg::Receive(..) => "hub.receive",
                HubMsg::ClaimAirdrop => "hub.claimairdrop",
                HubMsg::SwapHook => "hub.swaphook",
                HubMsg::Redel(..) => "hub.redel",
                HubMsg::Migrate(..) => "hub.migrate",
                HubMsg::SetOwner(..) => "hub.setowner",
                HubMsg::Accept => "hub.accept",
                HubMsg::UConfig(..) => "hub.uconfig",
                HubMsg::UParams(..) => "hub.uparams",
            },
            Call::Tok(m) => match m {
                TokMsg::Transfer(..) => "tok.transfer",
                TokMsg::Burn(..) => "tok.burn",
                TokMsg::Send(_, _, Hook::Unbond) => "tok.send.unbond",
                TokMsg::Send(_, _, Hook::Convert) => "tok.send.convert",
                TokMsg::Send(..) => "tok.send.other",
                TokMsg::Mint(..) => "tok.mint",
                TokMsg::IncAllow(..) => "tok.incallow",
                TokMsg::DecAllow(..) => "tok.decallow",
                TokMsg::TransferFrom(..) => "tok.transferfrom",
                TokMsg::BurnFrom(..) => "tok.burnfrom",
                TokMsg::SendFrom(_, _, _, Hook::Unbond) => "tok.sendfrom.unbond",
                TokMsg::SendFrom(_, _, _, Hook::Convert) => "tok.sendfrom.convert",
                TokMsg::SendFrom(..) => "tok.sendfrom.other",
                TokMsg::UMinter(..) => "tok.uminter",
                TokMsg::UMarketing => "tok.umarketing",
            },
            Call::Reward(m) => match m {
                RewMsg::Claim(..) => "reward.claim",
                RewMsg::UConfig(..) => "reward.uconfig",
                RewMsg::SetOwner(..) => "reward.setowner",
                RewMsg::Accept => "reward.accept",
                RewMsg::Swap => "reward.swap",
                RewMsg::Ugi => "reward.ugi",
                RewMsg::Inc(..) => "reward.inc",
                RewMsg::Dec(..) => "reward.dec",
                RewMsg::USwapDenom(..) => "reward.uswapdenom",
            },
            Call::Disp(m) => match m {
                DispMsg::Swap(..) => "disp.swap",
                DispMsg::Dispatch => "disp.dispatch",
                DispMsg::UConfig(..) => "disp.uconfig",
                DispMsg::SetOwner(..) => "disp.setowner",
                DispMsg::Accept => "disp.accept",
                DispMsg::USwap(..) => "disp.uswap",
                DispMsg::USwapDenom(..) => "disp.uswapdenom",
                DispMsg::UOracle(..) => "disp.uoracle",
            },
            Call::Reg(m) => match m {
                RegMsg::Add(..) => "reg.add",
                RegMsg::Remove(..) => "reg.remove",
                RegMsg::UConfig(..) => "reg.uconfig",
                RegMsg::Redelegations(..) => "reg.redelegations",
                RegMsg::SetOwner(..) => "reg.setowner",
                RegMsg::Accept => "reg.accept",
            },
            Call::SwapDenom(..) => "swapc.swapdenom",
        },
        Op::Env(e) => match e {
            EnvOp::Advance(..) => "env.advance",
            EnvOp::Slash(..) => "env.slash",
            EnvOp::SlashU(..) => "env.slashu",
            EnvOp::Accrue(..) => "env.accrue",
            EnvOp::Donate(..) => "env.donate",
            EnvOp::NoRedel(..) => "env.noredel",
            EnvOp::NoUndel(..) => "env.noundel",
            EnvOp::Inactive(..) => "env.inactive",
            EnvOp::Migrate(..) => "env.migrate",
            EnvOp::Oracle(..) => "env.oracle",
            EnvOp::Swap(..) => "env.swap",
            EnvOp::Legacy(..) => "env.legacy",
            EnvOp::UnbondingTime(..) => "env.unbondingtime",
        },
        Op::Inst(i) => match i {
            Inst::Hub { .. } => "inst.hub",
            Inst::Bsei { .. } => "inst.bsei",
            Inst::Stsei { .. } => "inst.stsei",
            Inst::Reward { .. } => "inst.reward",
            Inst::Disp { .. } => "inst.disp",
            Inst::Reg { .. } => "inst.reg",
        },
        Op::Query(Query::Hist(..)) => "q.hist",
        Op::Reset => "reset",
        Op::Save => "save",
        Op::Restore => "restore",
    }
}

fn is_env(op: &Op) -> bool {
    matches!(op, Op::Env(_) | Op::Inst(_) | Op::Reset | Op::Save | Op::Restore | Op::Query(_))
}

/// which token contract a tok.* op addressed
fn tok_target(op: &Op) -> Option<Id> {
    match op {
        Op::Tx { target, call: Call::Tok(_), .. } => Some(*target),
        _ => None,
    }
}

/// (owner, nominee) of a contract as the implementation stores them
pub fn roles(c: &Chain, target: Id) -> Option<(Id, Id)> {
    use cosmwasm_std::testing::MockApi;
    use cosmwasm_std::Api;
    let api = MockApi::default();
    let hum = |x: &cosmwasm_std::CanonicalAddr| api.addr_humanize(x).map(|a| id_of(a.as_str())).unwrap_or(0);
    match target {
        HUB => {
            let cfg: basset::hub::ConfigResponse = c.q(HUB, &basset::hub::QueryMsg::Config {}).ok()?;
            let no: basset::hub::NewOwnerResponse = c.q(HUB, &basset::hub::QueryMsg::NewOwner {}).ok()?;
            Some((id_of(&cfg.owner), id_of(&no.new_owner)))
        }
        REWARD => {
            let st = c.stores.get(&REWARD)?;
            let cfg = basset_sei_reward::state::read_config(st).ok()?;
            let no = basset_sei_reward::state::read_new_owner(st).ok()?;
            Some((hum(&cfg.owner), hum(&no.new_owner_addr)))
        }
        DISP => {
            let cfg: basset::dispatcher::ConfigResponse = c.q(DISP, &basset_sei_rewards_dispatcher::msg::QueryMsg::Config {}).ok()?;
            let no: basset::dispatcher::NewOwnerResponse = c.q(DISP, &basset_sei_rewards_dispatcher::msg::QueryMsg::NewOwner {}).ok()?;
            Some((id_of(&cfg.owner), id_of(&no.new_owner)))
        }
        REG => {
            let st = c.stores.get(&REG)?;
            let cfg = basset_sei_validators_registry::registry::CONFIG.load(st).ok()?;
            let no = basset_sei_validators_registry::registry::read_new_owner(st).ok()?;
            Some((hum(&cfg.owner), hum(&no.new_owner_addr)))
        }
        _ => None,
    }
}

/// the principal table of DESIGN.md Appendix A, read off the *implementation's* own queries:
/// Some(true) = sender is a principal of this message, Some(false) = it is not, None = public
pub fn authorised(c: &Chain, sender: Id, target: Id, call: &Call) -> Option<bool> {
    use cosmwasm_std::testing::MockApi;
    use cosmwasm_std::Api;
    let api = MockApi::default();
    let hum = |x: &cosmwasm_std::CanonicalAddr| api.addr_humanize(x).map(|a| id_of(a.as_str())).unwrap_or(0);
    let hub_cfg: Option<basset::hub::ConfigResponse> = c.q(HUB, &basset::hub::QueryMsg::Config {}).ok();
    let oid = |o: &Option<String>| o.as_ref().map(|s| id_of(s));
    match (target, call) {
        (HUB, Call::Hub(m)) => {
            let cfg = hub_cfg?;
            let owner = id_of(&cfg.owner);
            let no: Option<basset::hub::NewOwnerResponse> = c.q(HUB, &basset::hub::QueryMsg::NewOwner {}).ok();
            match m {
                HubMsg::UConfig(..) | HubMsg::UParams(..) | HubMsg::SetOwner(..) => Some(sender == owner),
                HubMsg::Accept => Some(Some(sender) == no.map(|n| id_of(&n.new_owner))),
                HubMsg::BondRw => Some(oid(&cfg.reward_dispatcher_contract) == Some(sender)),
                HubMsg::Redel(..) => Some(oid(&cfg.validators_registry_contract) == Some(sender)),
                HubMsg::Ugi => Some(sender == id_of(&cfg.update_reward_index_addr) || oid(&cfg.validators_registry_contract) == Some(sender)),
                HubMsg::SwapHook => Some(sender == HUB),
                HubMsg::ClaimAirdrop => Some(oid(&cfg.airdrop_registry_contract) == Some(sender)),
                HubMsg::Receive(..) => Some(oid(&cfg.bsei_token_contract) == Some(sender) || oid(&cfg.stsei_token_contract) == Some(sender)),
                _ => None,
            }
        }
        (REWARD, Call::Reward(m)) => {
            let st = c.stores.get(&REWARD)?;
            let cfg = basset_sei_reward::state::read_config(st).ok()?;
            let no = basset_sei_reward::state::read_new_owner(st).ok()?;
            // the hub this contract is configured with (not necessarily the system's hub: the owner
            // can re-point it); if that address does not answer a Config query nobody is a principal
            let rhub = hum(&cfg.hub_contract);
            let hc: Option<basset::hub::ConfigResponse> = if rhub == HUB { hub_cfg } else { c.q(rhub, &basset::hub::QueryMsg::Config {}).ok() };
            match m {
                RewMsg::UConfig(..) | RewMsg::SetOwner(..) | RewMsg::USwapDenom(..) => Some(sender == hum(&cfg.owner)),
                RewMsg::Accept => Some(sender == hum(&no.new_owner_addr)),
                RewMsg::Swap | RewMsg::Ugi => Some(hc.and_then(|h| oid(&h.reward_dispatcher_contract)) == Some(sender)),
                RewMsg::Inc(..) | RewMsg::Dec(..) => Some(hc.and_then(|h| oid(&h.bsei_token_contract)) == Some(sender)),
                RewMsg::Claim(..) => None,
            }
        }
        (DISP, Call::Disp(m)) => {
            let cfg: basset::dispatcher::ConfigResponse = c.q(DISP, &basset_sei_rewards_dispatcher::msg::QueryMsg::Config {}).ok()?;
            let no: basset::dispatcher::NewOwnerResponse = c.q(DISP, &basset_sei_rewards_dispatcher::msg::QueryMsg::NewOwner {}).ok()?;
            match m {
                DispMsg::Swap(..) | DispMsg::Dispatch => Some(sender == id_of(&cfg.hub_contract)),
                DispMsg::Accept => Some(sender == id_of(&no.new_owner)),
                _ => Some(sender == id_of(&cfg.owner)),
            }
        }
        (REG, Call::Reg(m)) => {
            let st = c.stores.get(&REG)?;
            let cfg = basset_sei_validators_registry::registry::CONFIG.load(st).ok()?;
            let no = basset_sei_validators_registry::registry::read_new_owner(st).ok()?;
            match m {
                RegMsg::Add(..) => Some(sender == hum(&cfg.owner) || sender == hum(&cfg.hub_contract)),
                RegMsg::Remove(..) | RegMsg::UConfig(..) | RegMsg::SetOwner(..) => Some(sender == hum(&cfg.owner)),
                RegMsg::Accept => Some(sender == hum(&no.new_owner_addr)),
                RegMsg::Redelegations(..) => None,
            }
        }
        (t, Call::Tok(m)) if t == BSEI || t == STSEI => match m {
            TokMsg::Mint(..) => Some(c.token_minter(t) == Some(sender)),
            TokMsg::Burn(..) => Some(sender == HUB),
            TokMsg::UMinter(..) => Some(c.token_minter(t) == Some(sender)),
            TokMsg::UMarketing => Some(false),
            _ => None,
        },
        _ => None,
    }
}

pub struct StepCtx<'a> {
    pub pre: &'a Snap,
    pub post: &'a Snap,
    pub op: &'a Op,
    pub ok: bool,
    pub effects: &'a [Effect],
    pub chain_pre: &'a Chain,
    pub chain_post: &'a Chain,
    /// E3: trusted owner configuration still in force for this history
    pub envelope: bool,
    /// the addresses along the bSei → reward-contract mirror path have been the system's own ever
    /// since genesis (denominations, rates and periods may have been reconfigured)
    pub mirror_ok: bool,
    pub err: &'a str,
    pub deep: bool,
    /// what the reward contract should have on record according to the bank history (C15)
    pub ghost_recorded: Option<u128>,
    /// when the chain pays each closed batch, from the history of operations (None: E2 left)
    pub ghost_completion: Option<&'a BTreeMap<u64, u64>>,
    /// allowance expirations as the owners' calls determine them: (token, owner, spender) → "h<height>" | "t<time>" | "n"
    pub ghost_allow: &'a BTreeMap<(Id, Id, Id), String>,
    /// chain time of the last undelegation (or of the hub's instantiation) from the history
    pub ghost_last_und: Option<u64>,
}

pub fn check_step(cx: &StepCtx) -> Vec<Violation> {
    let mut out = vec![];
    let (pre, post, op, ok) = (cx.pre, cx.post, cx.op, cx.ok);
    let kind = op_kind(op);
    let is_tx = matches!(op, Op::Tx { .. });

    // ---------------------------------------------------------------- atomicity (all properties' "changes nothing")
    if is_tx && !ok {
        if cx.chain_pre.observe() != cx.chain_post.observe() {
            out.push(v("C10", "failed-tx-changed-state", format!("{}: a failed transaction changed the state", kind)));
        }
    }

    // ---------------------------------------------------------------- C10: privileged messages
    if let Op::Tx { sender, target, call, .. } = op {
        if let Some(false) = authorised(cx.chain_pre, *sender, *target, call) {
            // the addressed handler itself must refuse (not merely something further down the
            // transaction): the first trace token is the top-level message, `!` = refused
            if !ok && cx.chain_post.trace.first().map(|t| !t.ends_with('!')).unwrap_or(false) {
                out.push(v("C10", &format!("unauthorised-accepted-by-handler:{}", kind), format!("{} by {} (not a principal) was accepted by the handler; the transaction failed only later: {}", kind, sender, cx.err)));
            }
            if ok {
                out.push(v("C10", &format!("unauthorised-succeeded:{}", kind), format!("{} by {} (not a principal) succeeded", kind, sender)));
            }
        }
        // write-once token addresses
        if let Call::Hub(HubMsg::UConfig(f)) = call {
            if ok && *target == HUB {
                let pre_cfg: Option<basset::hub::ConfigResponse> = cx.chain_pre.q(HUB, &basset::hub::QueryMsg::Config {}).ok();
                if let Some(pc) = pre_cfg {
                    if (f[2].is_some() && pc.bsei_token_contract.is_some()) || (f[3].is_some() && pc.stsei_token_contract.is_some()) {
                        out.push(v("C10", "token-address-changed", "UpdateConfig replaced a token address that was already set".into()));
                    }
                }
            }
        }
    }

    // ---------------------------------------------------------------- C10: a principal the owner names is the principal afterwards
    // (the table of principals is read from the stored configuration; an UpdateConfig that succeeds
    // but leaves — or puts back — another address keeps authorising the former principal)
    if let Op::Tx { target, call, .. } = op {
        if ok {
            let same = |a: Id, b: Id| a % 1000 == b % 1000;
            let mut stale = |what: &str, want: Id, got: Option<Id>| {
                if got.map(|g| !same(g, want)).unwrap_or(true) {
                    out.push(v("C10", &format!("principal-not-updated:{}", kind), format!("{}: the owner named {} as {} but the stored configuration says {:?}", kind, want, what, got)));
                }
            };
            match (*target, call) {
                (DISP, Call::Disp(DispMsg::UConfig(h, r, _, _, k, _))) => {
                    let cfg: Option<basset::dispatcher::ConfigResponse> = cx.chain_post.q(DISP, &basset_sei_rewards_dispatcher::msg::QueryMsg::Config {}).ok();
                    if let Some(h) = h { stale("hub_contract", *h, cfg.as_ref().map(|c| id_of(&c.hub_contract))); }
                    if let Some(r) = r { stale("bsei_reward_contract", *r, cfg.as_ref().map(|c| id_of(&c.bsei_reward_contract))); }
                    if let Some(k) = k { stale("krp_keeper_address", *k, cfg.as_ref().map(|c| id_of(&c.krp_keeper_address))); }
                }
                (REWARD, Call::Reward(RewMsg::UConfig(Some(h), _, _))) => {
                    let cfg: Option<basset::reward::ConfigResponse> = cx.chain_post.q(REWARD, &basset::reward::QueryMsg::Config {}).ok();
                    stale("hub_contract", *h, cfg.as_ref().map(|c| id_of(&c.hub_contract)));
                }
                (REG, Call::Reg(RegMsg::UConfig(Some(h)))) => {
                    let got = cx.chain_post.stores.get(&REG).and_then(|st| basset_sei_validators_registry::registry::CONFIG.load(st).ok()).and_then(|k| {
                        use cosmwasm_std::Api;
                        cosmwasm_std::testing::MockApi::default().addr_humanize(&k.hub_contract).ok()
                    }).map(|a| id_of(a.as_str()));
                    stale("hub_contract", *h, got);
                }
                (HUB, Call::Hub(HubMsg::UConfig(f))) => {
                    let w = cx.chain_post.hub_wiring();
                    let cfg: Option<basset::hub::ConfigResponse> = cx.chain_post.q(HUB, &basset::hub::QueryMsg::Config {}).ok();
                    for (i, what) in [(0usize, "reward_dispatcher_contract"), (1, "validators_registry_contract"), (4, "airdrop_registry_contract"), (5, "rewards_contract")] {
                        if let Some(x) = f[i] { stale(what, x, w[i]); }
                    }
                    if let Some(x) = f[6] { stale("update_reward_index_addr", x, cfg.as_ref().map(|c| id_of(&c.update_reward_index_addr))); }
                }
                _ => {}
            }
        }
    }

    // ---------------------------------------------------------------- C18: supply conservation, mint/burn authority
    for (t, bals, supply, lbl) in [(BSEI, &post.bal_b, post.supply_b, "bsei"), (STSEI, &post.bal_s, post.supply_s, "stsei")] {
        let _ = t;
        let sum: u128 = bals.values().sum();
        if sum != supply {
            out.push(v("C18", &format!("sum-ne-supply:{}", lbl), format!("{}: Σ balances {} ≠ total supply {} after {}", lbl, sum, supply, kind)));
        }
    }
    if is_tx && ok {
        if let Op::Tx { sender, call, target, .. } = op {
            let ds_b = post.supply_b as i128 - pre.supply_b as i128;
            let ds_s = post.supply_s as i128 - pre.supply_s as i128;
            // supply may change only in transactions in which the hub mints/burns, or an allowance burn
            let hub_driven = cx.effects.iter().any(|e| matches!(e, Effect::Wasm { sender: s, variant, .. } if *s == HUB && (variant == "mint" || variant == "burn")));
            let burn_from = matches!(call, Call::Tok(TokMsg::BurnFrom(..)));
            let direct_by_hub = *sender == HUB && matches!(call, Call::Tok(TokMsg::Mint(..)) | Call::Tok(TokMsg::Burn(..)));
            if (ds_b != 0 || ds_s != 0) && !hub_driven && !burn_from && !direct_by_hub {
                out.push(v("C18", "supply-changed-without-hub", format!("{} by {} to {} changed supplies by {}/{}", kind, sender, target, ds_b, ds_s)));
            }
            if let Call::Tok(m) = call {
                match m {
                    TokMsg::Mint(..) | TokMsg::Burn(..) if *sender != HUB => {
                        out.push(v("C18", "mint-burn-by-non-hub", format!("{} by {} succeeded", kind, sender)));
                    }
                    TokMsg::TransferFrom(o, _, a) | TokMsg::SendFrom(o, _, a, _) | TokMsg::BurnFrom(o, a) => {
                        let pre_allow = cx.chain_pre.token_allowance(*target, *o, *sender);
                        let post_allow = cx.chain_post.token_allowance(*target, *o, *sender);
                        match pre_allow {
                            None => out.push(v("C18", "from-without-allowance", format!("{} of {} by {} without allowance", kind, a, sender))),
                            Some((amt, e)) => {
                                if amt < *a {
                                    out.push(v("C18", "from-above-allowance", format!("{} moved {} with allowance {}", kind, a, amt)));
                                }
                                let expired = match e.chars().next() {
                                    Some('h') => e[1..].parse::<u64>().map(|h| cx.chain_pre.height >= h).unwrap_or(false),
                                    Some('t') => e[1..].parse::<u64>().map(|t| cx.chain_pre.time >= t).unwrap_or(false),
                                    _ => false,
                                };
                                if expired {
                                    out.push(v("C18", "from-with-expired-allowance", format!("{} used an allowance expired at {}", kind, e)));
                                }
                                // the same against the expiration the owner's own calls determine
                                // (the stored one may have been altered by a call that omitted it)
                                if let Some(g) = cx.ghost_allow.get(&(*target, *o, *sender)) {
                                    let gexp = match g.chars().next() {
                                        Some('h') => g[1..].parse::<u64>().map(|h| cx.chain_pre.height >= h).unwrap_or(false),
                                        Some('t') => g[1..].parse::<u64>().map(|t| cx.chain_pre.time >= t).unwrap_or(false),
                                        _ => false,
                                    };
                                    if gexp && !expired {
                                        out.push(v("C18", "from-with-expired-allowance:history", format!("{} used an allowance the owner granted until {} (stored expiration {})", kind, g, e)));
                                    }
                                }
                                let pa = post_allow.map(|x| x.0).unwrap_or(0);
                                if amt >= *a && pa != amt - *a {
                                    out.push(v("C18", "allowance-not-lowered", format!("{}: allowance {} → {} for amount {}", kind, amt, pa, a)));
                                }
                            }
                        }
                    }
                    _ => {}
                }
                // every burn of stSei, and every allowance burn of bSei, refreshes the hub's rates
                let needs_check = (*target == STSEI && matches!(m, TokMsg::Burn(..) | TokMsg::BurnFrom(..)))
                    || (*target == BSEI && matches!(m, TokMsg::BurnFrom(..)));
                if needs_check && !cx.effects.iter().any(|e| matches!(e, Effect::Wasm { target: t, variant, .. } if *t == HUB && variant == "check_slashing")) {
                    out.push(v("C18", "burn-without-check-slashing", format!("{} did not make the hub refresh its rates", kind)));
                }
                // ... and the refresh is real: the stored rates are the ones the State query derives
                // from the pools, supplies and requests of the same moment
                if needs_check && hub_wired_to_tokens(cx.chain_post) {
                    if let Some(q) = post.q {
                        if post.raw[2] + post.raw[3] > 0 && post.delegated > 0 && (q[0] != post.raw[0] || q[1] != post.raw[1]) {
                            out.push(v("C18", "burn-left-stale-rates", format!("{}: stored rates {},{} but the State query derives {},{}", kind, post.raw[0], post.raw[1], q[0], q[1])));
                        }
                    }
                }
            }
            // hub-driven stSei burns (unbond/convert) also trigger the refresh
            let st_burn = cx.effects.iter().any(|e| matches!(e, Effect::Wasm { target: t, variant, .. } if *t == STSEI && variant == "burn"));
            if st_burn && !cx.effects.iter().any(|e| matches!(e, Effect::Wasm { target: t, variant, .. } if *t == HUB && variant == "check_slashing")) {
                out.push(v("C18", "burn-without-check-slashing", format!("{}: stSei burn without CheckSlashing", kind)));
            }
        }
    }

    // ---------------------------------------------------------------- C16: reward mirror
    if cx.envelope || cx.mirror_ok {
        for a in cast_all().iter() {
            let tb = *post.bal_b.get(a).unwrap_or(&0);
            let rb = post.holders.get(a).map(|h| h.0).unwrap_or(0);
            if tb != rb {
                out.push(v("C16", "mirror-mismatch", format!("{}: bSei balance of {} is {} but reward contract records {}", kind, a, tb, rb)));
                break;
            }
        }
        if post.rw.1 != post.supply_b {
            out.push(v("C16", "mirror-total-mismatch", format!("{}: reward total {} ≠ bSei supply {}", kind, post.rw.1, post.supply_b)));
        }
    }

    // ---------------------------------------------------------------- C14: reward pool solvency and completeness
    if cx.envelope {
        let mut sum_acc = 0u128;
        let mut all_ok = true;
        for (_a, acc) in post.accrued.iter() {
            match acc {
                Some(n) => sum_acc += n,
                None => all_ok = false,
            }
        }
        if all_ok {
            if sum_acc > post.rw.2 {
                out.push(v("C14", "claimable-above-recorded", format!("{}: Σ accrued {} > prev_reward_balance {}", kind, sum_acc, post.rw.2)));
            }
        }
        // completeness: recorded − Σ accrued grows by at most rounding dust per step
        {
            let acc = |s: &Snap| -> Option<u128> { s.accrued.values().try_fold(0u128, |a, x| x.map(|v| a + v)) };
            if let (Some(a0), Some(a1)) = (acc(pre), acc(post)) {
                let st0 = pre.rw.2.saturating_sub(a0);
                let st1 = post.rw.2.saturating_sub(a1);
                let holders = post.holders.len().max(pre.holders.len()) as u128;
                if st1 > st0 + holders + 2 && !is_env(op) {
                    out.push(v("C14", "rewards-stranded", format!("{}: recorded balance minus Σ accrued grew {} → {} ({} holders)", kind, st0, st1, holders)));
                }
            }
        }
        if post.rw.2 > post.reward_bank {
            out.push(v("C14", "recorded-above-bank", format!("{}: prev_reward_balance {} > bank balance {}", kind, post.rw.2, post.reward_bank)));
        }
        if let Op::Tx { sender, call: Call::Reward(RewMsg::Claim(_)), .. } = op {
            let acc = pre.accrued.get(sender).cloned().flatten().unwrap_or(0);
            if acc >= 1 && !ok {
                out.push(v("C14", "claim-failed", format!("claim by {} with accrued {} failed", sender, acc)));
            }
            if ok {
                let paid: u128 = cx.effects.iter().map(|e| match e { Effect::Bank { from, amt, denom: 1, .. } if *from == REWARD => *amt, _ => 0 }).sum();
                if paid != acc {
                    out.push(v("C14", "claim-amount", format!("claim by {} paid {} but accrued was {}", sender, paid, acc)));
                }
                let (_, _, pend_pre) = pre.holders.get(sender).cloned().unwrap_or((0, 0, 0));
                let (b, i, _) = pre.holders.get(sender).cloned().unwrap_or((0, 0, 0));
                let total_atomics = (pre.rw.0 - i.min(pre.rw.0)) * b + pend_pre;
                let (_, _, pend_post) = post.holders.get(sender).cloned().unwrap_or((0, 0, 0));
                if pend_post != total_atomics % D {
                    out.push(v("C14", "claim-fraction", format!("claim by {}: kept fraction {} expected {}", sender, pend_post, total_atomics % D)));
                }
            }
        }
    }

    // ---------------------------------------------------------------- C15: accrual proportional, independent
    if cx.envelope {
        let owed = |s: &Snap, a: Id| -> u128 {
            let (b, i, p) = s.holders.get(&a).cloned().unwrap_or((0, 0, 0));
            (s.rw.0 - i.min(s.rw.0)) * b + p
        };
        for a in cast_all().iter() {
            // the query reports exactly the whole units of (global − index)·balance + pending
            if let Some(Some(q)) = post.accrued.get(a) {
                if *q != owed(post, *a) / D {
                    out.push(v("C15", "accrued-query-ne-formula", format!("{}: AccruedRewards({}) = {} but (G−i)·b+p = {}", kind, a, q, owed(post, *a))));
                }
            }
        }
        let is_claim = matches!(op, Op::Tx { call: Call::Reward(RewMsg::Claim(_)), .. });
        let g_moved = post.rw.0 != pre.rw.0;
        if !is_claim && !g_moved && !is_env(op) {
            for a in cast_all().iter() {
                if owed(pre, *a) != owed(post, *a) {
                    out.push(v("C15", "dues-moved-by-balance-change", format!("{}: what {} is owed changed {} → {} without an index update or claim", kind, a, owed(pre, *a), owed(post, *a))));
                    break;
                }
            }
        }
        if g_moved {
            let k = post.rw.0 - pre.rw.0.min(post.rw.0);
            for a in cast_all().iter() {
                let (b, _, _) = pre.holders.get(a).cloned().unwrap_or((0, 0, 0));
                if owed(post, *a) != owed(pre, *a) + b * k {
                    out.push(v("C15", "accrual-not-proportional", format!("{}: holder {} with balance {} accrued {} for an index step {}", kind, a, b, owed(post, *a) as i128 - owed(pre, *a) as i128, k)));
                    break;
                }
            }
        }
        // ... and "its balance" is the holder's bSei balance on the token's own ledger (the reward
        // contract's record of it is C16's subject; here a ledger balance nobody mirrored shows up
        // as an accrual that does not follow the holdings)
        if g_moved && cx.mirror_ok {
            let k = post.rw.0 - pre.rw.0.min(post.rw.0);
            for a in cast_all().iter() {
                let tb = *pre.bal_b.get(a).unwrap_or(&0);
                if *post.bal_b.get(a).unwrap_or(&0) == tb && owed(post, *a) != owed(pre, *a) + tb * k {
                    out.push(v("C15", "accrual-ne-bsei-holdings", format!("{}: {} holds {} bSei and accrued {} for an index step {}", kind, a, tb, owed(post, *a) as i128 - owed(pre, *a) as i128, k)));
                    break;
                }
            }
        }
        // the index step of an update is what was *delivered* since the last one, per bSei: the
        // reward-denom coins that reached the contract and were not paid out, judged from the bank
        // history (not from the contract's own record, which a faulty claim can leave too high)
        if g_moved && pre.rw.1 > 0 {
            let updates = cx.chain_post.trace.iter().filter(|t| t.as_str() == format!("X{}.update_global_index", REWARD)).count();
            if let (Some(g), 1) = (cx.ghost_recorded, updates) {
                if post.reward_bank >= g && post.reward_bank <= D {
                    let want = (post.reward_bank - g) * D / pre.rw.1;
                    let k = post.rw.0 - pre.rw.0.min(post.rw.0);
                    if k != want {
                        out.push(v("C15", "index-step-ne-delivered-per-token", format!("{}: index moved by {} but {} coins were delivered for {} bSei since the last update (expected step {})", kind, k, post.reward_bank - g, pre.rw.1, want)));
                    }
                }
            }
        }
        if is_claim && ok {
            if let Op::Tx { sender, .. } = op {
                for a in cast_all().iter() {
                    if a != sender && owed(pre, *a) != owed(post, *a) {
                        out.push(v("C15", "claim-changed-foreign-dues", format!("claim by {} changed what {} is owed", sender, a)));
                    }
                }
            }
        }
    }

    // ---------------------------------------------------------------- C20: parameter ranges
    if post.fee > D {
        out.push(v("C20", "fee-above-one", format!("{}: peg_recovery_fee {}", kind, post.fee)));
    }
    if post.thr > D {
        out.push(v("C20", "threshold-above-one", format!("{}: er_threshold {}", kind, post.thr)));
    }
    if post.keeper_rate > D {
        out.push(v("C20", "keeper-rate-above-one", format!("{}: keeper rate {}", kind, post.keeper_rate)));
        out.push(v("C17", "keeper-rate-above-one", format!("{}: keeper rate {}", kind, post.keeper_rate)));
    }

    // an update that omits a field leaves the stored value unchanged (pause flag excepted)
    if is_tx && ok {
        if let Op::Tx { target, call, .. } = op {
            match call {
                Call::Hub(HubMsg::UParams(e, u, f, t, _p, rd)) if *target == HUB => {
                    let p0: Option<basset::hub::Parameters> = cx.chain_pre.q(HUB, &basset::hub::QueryMsg::Parameters {}).ok();
                    let p1: Option<basset::hub::Parameters> = cx.chain_post.q(HUB, &basset::hub::QueryMsg::Parameters {}).ok();
                    if let (Some(p0), Some(p1)) = (p0, p1) {
                        let mut moved: Vec<&str> = vec![];
                        let mut bad = |n: &'static str| moved.push(n);
                        if e.is_none() && p1.epoch_period != p0.epoch_period {
                            bad("epoch_period");
                        }
                        if u.is_none() && p1.unbonding_period != p0.unbonding_period {
                            bad("unbonding_period");
                        }
                        if f.is_none() && p1.peg_recovery_fee != p0.peg_recovery_fee {
                            bad("peg_recovery_fee");
                        }
                        // an omitted threshold is re-clamped to 1, so a stored value above 1 (itself a
                        // range violation reported above) is the only one that may move
                        if t.is_none() && p1.er_threshold != p0.er_threshold && p0.er_threshold <= cosmwasm_std::Decimal::one() {
                            bad("er_threshold");
                        }
                        if rd.is_none() && p1.reward_denom != p0.reward_denom {
                            bad("reward_denom");
                        }
                        for n in moved {
                            out.push(v("C20", "omitted-field-changed", format!("{}: {} was omitted but its stored value changed", kind, n)));
                        }
                        if p1.underlying_coin_denom != p0.underlying_coin_denom {
                            out.push(v("C20", "coin-denom-changed", format!("{}: {} → {}", kind, p0.underlying_coin_denom, p1.underlying_coin_denom)));
                        }
                    }
                }
                Call::Disp(DispMsg::UConfig(h, r, _sd, bd, k, kr)) if *target == DISP => {
                    let c0: Option<basset::dispatcher::ConfigResponse> = cx.chain_pre.q(DISP, &basset_sei_rewards_dispatcher::msg::QueryMsg::Config {}).ok();
                    let c1: Option<basset::dispatcher::ConfigResponse> = cx.chain_post.q(DISP, &basset_sei_rewards_dispatcher::msg::QueryMsg::Config {}).ok();
                    if let (Some(c0), Some(c1)) = (c0, c1) {
                        let mut moved: Vec<&str> = vec![];
                        let mut bad = |n: &'static str| moved.push(n);
                        if h.is_none() && c1.hub_contract != c0.hub_contract {
                            bad("hub_contract");
                        }
                        if r.is_none() && c1.bsei_reward_contract != c0.bsei_reward_contract {
                            bad("bsei_reward_contract");
                        }
                        if bd.is_none() && c1.bsei_reward_denom != c0.bsei_reward_denom {
                            bad("bsei_reward_denom");
                        }
                        if k.is_none() && c1.krp_keeper_address != c0.krp_keeper_address {
                            bad("krp_keeper_address");
                        }
                        if kr.is_none() && c1.krp_keeper_rate != c0.krp_keeper_rate {
                            bad("krp_keeper_rate");
                        }
                        if c1.owner != c0.owner || c1.swap_contract != c0.swap_contract || c1.oracle_contract != c0.oracle_contract || c1.swap_denoms != c0.swap_denoms {
                            bad("owner/swap_contract/oracle_contract/swap_denoms (not part of UpdateConfig)");
                        }
                        for n in moved {
                            out.push(v("C20", "omitted-field-changed", format!("{}: {} was omitted but its stored value changed", kind, n)));
                        }
                        if c1.stsei_reward_denom != c0.stsei_reward_denom {
                            out.push(v("C20", "stsei-reward-denom-changed", format!("{}: {} → {}", kind, c0.stsei_reward_denom, c1.stsei_reward_denom)));
                        }
                    }
                }
                _ => {}
            }
        }
    }

    if !cx.envelope {
        return out;
    }

    // ---------------------------------------------------------------- C02: books vs delegations
    let pricing = matches!(kind, "hub.bond" | "hub.bondst" | "hub.bondrw" | "hub.check" | "tok.send.unbond" | "tok.send.convert" | "tok.sendfrom.unbond" | "tok.sendfrom.convert" | "hub.ugi");
    if is_tx && ok && pricing {
        let ran_hub = cx.effects.iter().any(|e| matches!(e, Effect::Wasm { target, .. } if *target == HUB));
        if ran_hub && kind != "hub.ugi" && post.raw[2] + post.raw[3] > post.delegated {
            out.push(v("C02", "books-above-delegations", format!("{}: booked {} > delegated {}", kind, post.raw[2] + post.raw[3], post.delegated)));
        }
    }
    if is_tx && ok {
        if let Op::Tx { funds, .. } = op {
            if matches!(kind, "hub.bond" | "hub.bondst" | "hub.bondrw") {
                let pay: u128 = funds.iter().map(|f| f.1).sum();
                let del: u128 = cx.effects.iter().map(|e| match e { Effect::Delegate { amt, .. } => *amt, _ => 0 }).sum();
                if del != pay {
                    out.push(v("C02", "bond-not-fully-delegated", format!("{}: paid {} delegated {}", kind, pay, del)));
                }
            }
        }
        for e in cx.effects.iter() {
            if let Effect::Delegate { v: val, .. } = e {
                if !pre.reg_vals.contains(val) || !pre.reg_stored.contains(val) {
                    out.push(v("C02", "delegate-to-unregistered", format!("{}: delegated to {} which is not registered", kind, val)));
                    out.push(v("C13", "delegate-to-unregistered", format!("{}: delegated to {} which is not registered", kind, val)));
                }
            }
        }
        // undelegation lowers the books by exactly what it undelegates
        let und: u128 = cx.effects.iter().map(|e| match e { Effect::Undelegate { amt, .. } => *amt, _ => 0 }).sum();
        if und > 0 {
            // books before the undelegation = books after slashing recognition, pricing of this op
            // applied; compare via the history entry just written
            if let Some(h) = post.hist.last() {
                let expect = floor_mul(h.b_amt, h.b_applied) + floor_mul(h.s_amt, h.s_applied);
                if h.time == post.time && expect != und {
                    out.push(v("C02", "undelegated-ne-history", format!("{}: undelegated {} but batch {} records {}", kind, und, h.id, expect)));
                    out.push(v("C08", "undelegated-ne-history", format!("{}: undelegated {} but batch {} records {}", kind, und, h.id, expect)));
                }
            }
        }
        // a batch written to the history in this step has been undelegated on the chain: the
        // unbonding queue grew by exactly what the entry records (read off the chain, not off the
        // messages: an Undelegate that was refused and swallowed leaves nothing there)
        for h in post.hist.iter() {
            if !pre.hist.iter().any(|x| x.id == h.id) {
                let expect = floor_mul(h.b_amt, h.b_applied) + floor_mul(h.s_amt, h.s_applied);
                let grew = post.unbonding_total.saturating_sub(pre.unbonding_total);
                if grew != expect || post.delegated + expect != pre.delegated {
                    for p in ["C07", "C02", "C08"] {
                        out.push(v(p, "batch-closed-not-undelegated", format!("{}: batch {} records {} undelegated, the chain's unbonding queue grew by {} and delegations fell by {}", kind, h.id, expect, grew, pre.delegated.saturating_sub(post.delegated))));
                    }
                }
            }
        }
        if matches!(kind, "hub.bond" | "hub.bondst" | "hub.bondrw" | "hub.check" | "hub.ugi" | "tok.send.convert" | "tok.sendfrom.convert")
            && post.hub_bank != pre.hub_bank + (if matches!(kind, "hub.check" | "hub.ugi") { attached_to_hub(op) } else { 0 })
        {
            out.push(v("C02", "hub-balance-changed", format!("{}: hub liquid balance {} → {}", kind, pre.hub_bank, post.hub_bank)));
            if kind == "hub.ugi" {
                out.push(v("C19", "hub-balance-changed", format!("{}: hub liquid balance {} → {}", kind, pre.hub_bank, post.hub_bank)));
            }
        }
    }

    // ---------------------------------------------------------------- C03: reported rates = backing / claims
    if let Some(q) = post.q {
        if post.delegated > 0 && q[2] + q[3] > 0 {
            let rb = rate_of(q[2], post.supply_b, post.batch.1);
            let rs = rate_of(q[3], post.supply_s, post.batch.2);
            if q[0] != rb {
                out.push(v("C03", "bsei-rate-ne-ratio", format!("{}: reported bSei rate {} ≠ {} = {} / ({} + {})", kind, q[0], rb, q[2], post.supply_b, post.batch.1)));
            }
            if q[1] != rs {
                out.push(v("C03", "stsei-rate-ne-ratio", format!("{}: reported stSei rate {} ≠ {} = {} / ({} + {})", kind, q[1], rs, q[3], post.supply_s, post.batch.2)));
            }
        }
    }
    // the rates the pre-state defines (bonded / (supply + requests), 1 for an empty pool) — derived
    // here, not read from the hub, so that a hub that reports or stores a stale rate is still judged
    // against the rate the property speaks of
    let tb = |q: &[u128; 8]| if pre.delegated > 0 && q[2] + q[3] > 0 { rate_of(q[2], pre.supply_b, pre.batch.1) } else { q[0] };
    let ts = |q: &[u128; 8]| if pre.delegated > 0 && q[2] + q[3] > 0 { rate_of(q[3], pre.supply_s, pre.batch.2) } else { q[1] };
    if is_tx && ok {
        if let (Op::Tx { sender, funds, .. }, Some(qpre)) = (op, pre.q) {
            let pay: u128 = funds.iter().map(|f| f.1).sum();
            match kind {
                "hub.bond" => {
                    let minted = post.bal_b.get(sender).unwrap_or(&0) - pre.bal_b.get(sender).unwrap_or(&0);
                    let nofee = mul_floor(pay, D, tb(&qpre));
                    if minted > nofee {
                        out.push(v("C03", "bond-minted-above-price", format!("bond {} at rate {} minted {} > {}", pay, tb(&qpre), minted, nofee)));
                        out.push(v("C05", "negative-fee", format!("bond {} at rate {} minted {} > {}", pay, tb(&qpre), minted, nofee)));
                    }
                    if tb(&qpre) >= pre.thr && minted != nofee {
                        out.push(v("C03", "bond-minted-ne-price", format!("bond {} at rate {} (≥ threshold) minted {} ≠ {}", pay, tb(&qpre), minted, nofee)));
                        out.push(v("C05", "fee-above-threshold", format!("bond {} at rate {} (≥ threshold {}) minted {} ≠ {}", pay, tb(&qpre), pre.thr, minted, nofee)));
                    }
                    let maxfee = floor_mul(nofee, pre.fee);
                    if minted + maxfee < nofee {
                        out.push(v("C05", "fee-above-max", format!("bond: fee {} > {}", nofee - minted, maxfee)));
                    }
                }
                "hub.bondst" => {
                    let minted = post.bal_s.get(sender).unwrap_or(&0) - pre.bal_s.get(sender).unwrap_or(&0);
                    let want = mul_floor(pay, D, ts(&qpre));
                    if minted != want {
                        out.push(v("C03", "bondst-minted-ne-price", format!("bondst {} at rate {} minted {} ≠ {}", pay, ts(&qpre), minted, want)));
                    }
                }
                "hub.bondrw" => {
                    if post.supply_s != pre.supply_s {
                        out.push(v("C04", "bondrw-minted", format!("BondRewards changed stSei supply {} → {}", pre.supply_s, post.supply_s)));
                        out.push(v("C19", "bondrw-minted", format!("BondRewards changed stSei supply {} → {}", pre.supply_s, post.supply_s)));
                    }
                }
                _ => {}
            }
        }
        if let (Op::Tx { sender, target, call: Call::Tok(TokMsg::Send(_, a, Hook::Convert)), .. }, Some(qpre)) = (op, pre.q) {
            if *target == STSEI {
                let value = floor_mul(*a, ts(&qpre));
                let nofee = mul_floor(value, D, tb(&qpre));
                let minted = post.bal_b.get(sender).unwrap_or(&0) - pre.bal_b.get(sender).unwrap_or(&0);
                if minted > nofee {
                    out.push(v("C03", "convert-minted-above-price", format!("convert {} stSei minted {} bSei > {}", a, minted, nofee)));
                }
                if tb(&qpre) >= pre.thr && minted != nofee {
                    out.push(v("C03", "convert-minted-ne-price", format!("convert {} stSei minted {} bSei ≠ {}", a, minted, nofee)));
                    if minted < nofee {
                        out.push(v("C05", "fee-above-threshold", format!("convert {} stSei at bSei rate {} ≥ threshold {} minted {} bSei < {}", a, tb(&qpre), pre.thr, minted, nofee)));
                    }
                }
                if minted + floor_mul(nofee, pre.fee) < nofee {
                    out.push(v("C05", "fee-above-max", format!("convert st→b: fee {} > max", nofee - minted)));
                }
            } else if *target == BSEI {
                let nofee = mul_floor(floor_mul(*a, tb(&qpre)), D, ts(&qpre));
                let minted = post.bal_s.get(sender).unwrap_or(&0) - pre.bal_s.get(sender).unwrap_or(&0);
                if minted > nofee {
                    out.push(v("C03", "convert-minted-above-price", format!("convert {} bSei minted {} stSei > {}", a, minted, nofee)));
                }
                if tb(&qpre) >= pre.thr && minted != nofee {
                    out.push(v("C03", "convert-minted-ne-price", format!("convert {} bSei minted {} stSei ≠ {}", a, minted, nofee)));
                    if minted < nofee {
                        out.push(v("C05", "fee-above-threshold", format!("convert {} bSei at rate {} ≥ threshold {} minted {} stSei < {}", a, tb(&qpre), pre.thr, minted, nofee)));
                    }
                }
            }
        }
    }

    // ---------------------------------------------------------------- C04: no non-slashing step lowers a rate
    let slashing_step = matches!(kind, "env.slash" | "env.slashu" | "env.unbondingtime" | "inst.hub" | "inst.bsei" | "inst.stsei" | "inst.reg" | "reset");
    if !slashing_step {
        if let (Some(a), Some(b)) = (pre.q, post.q) {
            if post.supply_b + post.batch.1 > 0 && pre.supply_b + pre.batch.1 > 0 && b[0] < a[0] {
                let d6 = a[2] == 0;
                out.push(v("C04", if d6 { "bsei-rate-fell:zero-backed-pool" } else { "bsei-rate-fell" }, format!("{}: bSei rate {} → {} (bonded {}→{}, claims {}→{})", kind, a[0], b[0], a[2], b[2], pre.supply_b + pre.batch.1, post.supply_b + post.batch.1)));
            }
            if post.supply_s + post.batch.2 > 0 && pre.supply_s + pre.batch.2 > 0 && b[1] < a[1] {
                out.push(v("C04", if a[3] == 0 { "stsei-rate-fell:zero-backed-pool" } else { "stsei-rate-fell" }, format!("{}: stSei rate {} → {} (bonded {}→{}, claims {}→{})", kind, a[1], b[1], a[3], b[3], pre.supply_s + pre.batch.2, post.supply_s + post.batch.2)));
            }
        }
    }

    // ---------------------------------------------------------------- C05: never past the peg
    if is_tx && ok {
        if let (Some(a), Some(b)) = (pre.q, post.q) {
            let fee_path = matches!(kind, "hub.bond" | "tok.send.unbond" | "tok.send.convert" | "tok.sendfrom.unbond" | "tok.sendfrom.convert");
            let claims_post = post.supply_b + post.batch.1;
            if fee_path && a[0] < D && pre.supply_b + pre.batch.1 > 0 && a[2] > 0 && claims_post > 0 && b[2] > claims_post + 2 {
                let to_stsei = matches!(op, Op::Tx { target, call: Call::Tok(TokMsg::Send(_, _, Hook::Convert)), .. } | Op::Tx { target, call: Call::Tok(TokMsg::SendFrom(_, _, _, Hook::Convert)), .. } if *target == BSEI);
                out.push(v("C05", if to_stsei { "past-peg:convert-bsei-stsei" } else { "past-peg" }, format!("{}: started at bSei rate {} and ended with backing {} over claims {}", kind, a[0], b[2], claims_post)));
            }
        }
    }

    // ---------------------------------------------------------------- C06: slashing recognised exactly, pro rata
    if is_tx && ok && matches!(kind, "hub.check") {
        let booked = pre.raw[2] + pre.raw[3];
        if pre.delegated > 0 && booked > 0 {
            if booked > pre.delegated {
                if post.raw[2] + post.raw[3] != pre.delegated {
                    out.push(v("C06", "books-ne-delegated-after-check", format!("check: books {} delegated {}", post.raw[2] + post.raw[3], pre.delegated)));
                }
                // exact shares
                let eb_floor = mul_floor(pre.delegated, pre.raw[2], booked);
                let es_floor = mul_floor(pre.delegated, pre.raw[3], booked);
                if post.raw[2] + 2 <= eb_floor || post.raw[2] > eb_floor + 1 {
                    out.push(v("C06", "bsei-share-off", format!("check: bSei pool {} exact share ≈ {}", post.raw[2], eb_floor)));
                }
                if post.raw[3] + 1 < es_floor || post.raw[3] > es_floor + 2 {
                    out.push(v("C06", "stsei-share-off", format!("check: stSei pool {} exact share ≈ {}", post.raw[3], es_floor)));
                }
            } else if post.raw[2] != pre.raw[2] || post.raw[3] != pre.raw[3] {
                out.push(v("C06", "check-changed-pools-without-slash", format!("check: pools {}/{} → {}/{} with delegated {}", pre.raw[2], pre.raw[3], post.raw[2], post.raw[3], pre.delegated)));
            }
        }
    }
    // the check inside bond / unbond / convert / re-bonded rewards: whenever one of the hub's
    // handlers that begin with the slashing check ran in a successful transaction that started with an
    // unrecognised slash, the books equal the delegations afterwards
    if is_tx && ok && cx.envelope {
        let booked = pre.raw[2] + pre.raw[3];
        let checked = cx.effects.iter().any(|e| matches!(e, Effect::Wasm { target, variant, .. } if *target == HUB && matches!(variant.as_str(), "bond" | "bond_for_st_sei" | "bond_rewards" | "receive" | "check_slashing")));
        if checked && pre.delegated > 0 && booked > pre.delegated && post.raw[2] + post.raw[3] != post.delegated {
            out.push(v("C06", "slash-not-recognised-inside-operation", format!("{}: started with books {} over delegations {}, a slashing-checking hub handler ran, and ended with books {} ≠ delegations {}", kind, booked, pre.delegated, post.raw[2] + post.raw[3], post.delegated)));
        }
    }
    if let (Some(a), Some(b)) = (pre.q, post.q) {
        if !is_env(op) && (b[2] > a[2] && b[3] > a[3]) && matches!(kind, "hub.check") {
            out.push(v("C06", "check-raised-pools", format!("check raised both pools {}/{} → {}/{}", a[2], a[3], b[2], b[3])));
        }
    }

    // ---------------------------------------------------------------- C07 / C08: claims and batch lifecycle
    {
        // per batch: Σ users' entries vs totals
        let mut per_batch: BTreeMap<u64, (u128, u128)> = BTreeMap::new();
        for (_u, rs) in post.reqs.iter() {
            for (b, x, y) in rs {
                let e = per_batch.entry(*b).or_insert((0, 0));
                e.0 += x;
                e.1 += y;
            }
        }
        if post.legacy == 0 && pre.legacy == 0 {
            let cur = per_batch.get(&post.batch.0).cloned().unwrap_or((0, 0));
            if cur != (post.batch.1, post.batch.2) {
                out.push(v("C07", "open-batch-sum-mismatch", format!("{}: Σ claims of open batch {} = {:?} but CurrentBatch = ({},{})", kind, post.batch.0, cur, post.batch.1, post.batch.2)));
            }
            for h in post.hist.iter() {
                let sum = per_batch.get(&h.id).cloned().unwrap_or((0, 0));
                if !h.released {
                    if sum != (h.b_amt, h.s_amt) {
                        out.push(v("C07", "closed-batch-sum-mismatch", format!("{}: Σ claims of batch {} = {:?} but history = ({},{})", kind, h.id, sum, h.b_amt, h.s_amt)));
                    }
                } else if sum.0 > h.b_amt || sum.1 > h.s_amt {
                    out.push(v("C07", "claims-above-batch", format!("{}: Σ claims of released batch {} = {:?} > ({},{})", kind, h.id, sum, h.b_amt, h.s_amt)));
                }
            }
        }
        // unbond credits the cw20 sender only, with amount less fee
        if ok {
            let (user, amount, tgt) = match op {
                Op::Tx { sender, target, call: Call::Tok(TokMsg::Send(c, a, Hook::Unbond)), .. } if *c == HUB => (Some(*sender), *a, *target),
                Op::Tx { sender, target, call: Call::Tok(TokMsg::SendFrom(_o, c, a, Hook::Unbond)), .. } if *c == HUB => (Some(*sender), *a, *target),
                _ => (None, 0, 0),
            };
            if let Some(user) = user {
                let b = pre.batch.0;
                let get = |s: &Snap, u: Id| s.reqs.get(&u).and_then(|r| r.iter().find(|x| x.0 == b)).map(|x| (x.1, x.2)).unwrap_or((0, 0));
                for u in cast_all().iter() {
                    let (p, q) = (get(pre, *u), get(post, *u));
                    if *u != user && p != q {
                        out.push(v("C07", "foreign-claim-changed", format!("{} by {}: claim of {} in batch {} changed {:?} → {:?}", kind, user, u, b, p, q)));
                    }
                }
                let (p, q) = (get(pre, user), get(post, user));
                let credited = if tgt == BSEI { q.0 - p.0.min(q.0) } else { q.1 - p.1.min(q.1) };
                let other_side_same = if tgt == BSEI { p.1 == q.1 } else { p.0 == q.0 };
                if credited > amount || !other_side_same || (tgt == STSEI && credited != amount) {
                    out.push(v("C07", "claim-credit-wrong", format!("{} of {} by {}: credited {}", kind, amount, user, credited)));
                }
                if tgt == BSEI {
                    let maxfee = floor_mul(amount, pre.fee);
                    if credited + maxfee < amount {
                        out.push(v("C05", "fee-above-max", format!("unbond {}: credited {} fee above {}", amount, credited, maxfee)));
                        out.push(v("C07", "claim-below-amount-less-max-fee", format!("unbond {}: the claim recorded is {} — less than the amount sent less the largest peg fee {}", amount, credited, maxfee)));
                    }
                    if let Some(a) = pre.q {
                        if a[0] >= pre.thr && credited != amount {
                            out.push(v("C05", "fee-above-threshold", format!("unbond {} at rate {} ≥ threshold {} credited {}", amount, a[0], pre.thr, credited)));
                            out.push(v("C07", "claim-ne-amount-without-fee", format!("unbond {} at rate {} ≥ threshold {}: the claim recorded is {}", amount, a[0], pre.thr, credited)));
                        }
                    }
                }
                let burned = if tgt == BSEI { pre.supply_b - post.supply_b.min(pre.supply_b) } else { pre.supply_s - post.supply_s.min(pre.supply_s) };
                if burned != amount {
                    out.push(v("C07", "burn-ne-sent", format!("{} of {}: supply fell by {}", kind, amount, burned)));
                }
            }
        }
        // claims appear only via unbond through the tokens, disappear only via the owner's withdraw
        if !matches!(kind, "tok.send.unbond" | "tok.sendfrom.unbond" | "hub.withdraw" | "hub.migrate" | "reset" | "inst.hub") {
            if pre.reqs != post.reqs {
                out.push(v("C07", "claims-changed-by-other-op", format!("{} changed the claim table", kind)));
            }
        }
        if kind == "hub.withdraw" {
            if let Op::Tx { sender, .. } = op {
                for u in cast_all().iter() {
                    if u != sender && pre.reqs.get(u) != post.reqs.get(u) {
                        out.push(v("C07", "withdraw-removed-foreign-claim", format!("withdraw by {} changed claims of {}", sender, u)));
                    }
                }
            }
        }
    }
    {
        // C08: history is append-only, consecutive, released entries immutable
        for (i, h) in post.hist.iter().enumerate() {
            if h.id != i as u64 + 1 {
                out.push(v("C08", "batch-ids-not-consecutive", format!("{}: history ids {:?}", kind, post.hist.iter().map(|h| h.id).collect::<Vec<_>>())));
                break;
            }
        }
        if kind != "reset" && kind != "inst.hub" {
            if post.hist.len() < pre.hist.len() {
                out.push(v("C08", "history-shrank", format!("{}: {} → {} entries", kind, pre.hist.len(), post.hist.len())));
            }
            for (a, b) in pre.hist.iter().zip(post.hist.iter()) {
                if a.released && a != b {
                    out.push(v("C08", "released-entry-changed", format!("{}: batch {} changed after release", kind, a.id)));
                }
                if a.time != b.time || a.b_amt != b.b_amt || a.s_amt != b.s_amt || a.b_applied != b.b_applied || a.s_applied != b.s_applied {
                    out.push(v("C08", "history-entry-rewritten", format!("{}: batch {} rewritten", kind, a.id)));
                }
                if !a.released && b.released && post.time < a.time + pre.unbonding {
                    out.push(v("C08", "released-before-unbonding-period", format!("{}: batch {} undelegated at {} released at {} (period {})", kind, a.id, a.time, post.time, pre.unbonding)));
                }
            }
            if post.hist.len() > pre.hist.len() {
                if post.hist.len() != pre.hist.len() + 1 {
                    out.push(v("C08", "two-batches-in-one-step", format!("{}", kind)));
                }
                let n = post.hist.last().unwrap();
                if !(post.time - pre.raw[6] as u64 > pre.epoch) {
                    out.push(v("C08", "undelegated-within-epoch", format!("{}: undelegation at {} only {} after the previous one (epoch {})", kind, post.time, post.time - pre.raw[6] as u64, pre.epoch)));
                }
                // the same gate judged against the history itself (not the hub's own clock field):
                // consecutive undelegations are more than one epoch period apart
                if let Some(p) = pre.hist.last() {
                    if !(n.time > p.time && n.time - p.time > pre.epoch) {
                        out.push(v("C08", "undelegated-within-epoch", format!("{}: batch {} undelegated at {} only {} after batch {} (epoch {})", kind, n.id, n.time, n.time.saturating_sub(p.time), p.id, pre.epoch)));
                    }
                }
                if post.raw[6] as u64 != post.time || n.time != post.time {
                    out.push(v("C08", "undelegation-clock-not-restarted", format!("{}: batch {} undelegated at {} (entry time {}) but last_unbonded_time = {}", kind, n.id, post.time, n.time, post.raw[6])));
                }
                if n.id != pre.batch.0 || post.batch.0 != pre.batch.0 + 1 {
                    out.push(v("C08", "batch-id-jump", format!("{}: closed {} open {} → {}", kind, n.id, pre.batch.0, post.batch.0)));
                }
            }
        }
        // payout timing: a withdraw pays only for released batches; release needs the period
        if kind == "hub.withdraw" && ok {
            if let Op::Tx { sender, .. } = op {
                if let Some(rs) = pre.reqs.get(sender) {
                    for (b, _, _) in rs {
                        let gone = !post.reqs.get(sender).map(|r| r.iter().any(|x| x.0 == *b)).unwrap_or(false);
                        if gone {
                            if let Some(h) = post.hist.iter().find(|h| h.id == *b) {
                                if post.time < h.time + pre.unbonding {
                                    out.push(v("C08", "paid-before-unbonding-period", format!("withdraw by {} paid batch {} (undelegated {}) at {}", sender, b, h.time, post.time)));
                                }
                            } else {
                                out.push(v("C08", "paid-open-batch", format!("withdraw by {} removed claim on batch {} which has no history", sender, b)));
                            }
                        }
                    }
                }
            }
        }
    }

    // ---------------------------------------------------------------- C01: matured claims funded, paid once
    {
        let total: u128 = cast_all().iter().map(|u| released_claims(post, *u)).sum();
        if total > post.hub_bank {
            out.push(v("C01", "released-claims-above-balance", format!("{}: released claims {} > hub balance {}", kind, total, post.hub_bank)));
        }
        if kind == "hub.withdraw" {
            if let Op::Tx { sender, .. } = op {
                if ok {
                    let paid: u128 = cx.effects.iter().map(|e| match e { Effect::Bank { from, to, amt, denom: 0 } if *from == HUB && to == sender => *amt, _ => 0 }).sum();
                    // recompute the share from the post-release history and the pre-withdraw claims
                    let mut want = 0u128;
                    if let Some(rs) = pre.reqs.get(sender) {
                        for (b, x, y) in rs {
                            if let Some(h) = post.hist.iter().find(|h| h.id == *b) {
                                if h.released {
                                    want += floor_mul(*y, h.s_withdraw) + floor_mul(*x, h.b_withdraw);
                                }
                            }
                        }
                    }
                    if paid != want {
                        out.push(v("C01", "payout-ne-share", format!("withdraw by {} paid {} but its released share is {}", sender, paid, want)));
                    }
                    if released_claims(post, *sender) != 0 {
                        out.push(v("C01", "claim-not-removed", format!("withdraw by {} left a released claim", sender)));
                    }
                    // a second withdrawal pays nothing
                    let mut c2 = cx.chain_post.clone();
                    let r = c2.apply(op);
                    if r.ok {
                        out.push(v("C01", "paid-twice", format!("a second withdraw by {} succeeded", sender)));
                    }
                    // C06: loss on stake slashed while unbonding is spread pro rata per token type
                    {
                        let newly: Vec<&HistView> = post.hist.iter().filter(|h| h.released && !pre.hist.iter().any(|p| p.id == h.id && p.released)).collect();
                        let arrived = (pre.hub_bank + attached_to_hub(op)).saturating_sub(pre.raw[5]);
                        let b_tot: u128 = newly.iter().map(|h| floor_mul(h.b_amt, h.b_applied)).sum();
                        let s_tot: u128 = newly.iter().map(|h| floor_mul(h.s_amt, h.s_applied)).sum();
                        if !newly.is_empty() && b_tot + s_tot > arrived && b_tot + s_tot <= D {
                            // exact pro-rata share of what arrived, per token
                            let b_act = mul_floor(arrived, b_tot, b_tot + s_tot);
                            let s_act = arrived - b_act;
                            for (tot, act, lbl) in [(b_tot, b_act, "bsei"), (s_tot, s_act, "stsei")] {
                                if tot == 0 {
                                    continue;
                                }
                                let side_loss = tot.saturating_sub(act);
                                for h in newly.iter() {
                                    let (amt, applied, wr) = if lbl == "bsei" { (h.b_amt, h.b_applied, h.b_withdraw) } else { (h.s_amt, h.s_applied, h.s_withdraw) };
                                    let u = floor_mul(amt, applied);
                                    if u == 0 {
                                        continue;
                                    }
                                    let fin = floor_mul(amt, wr);
                                    let loss = u.saturating_sub(fin);
                                    let expect = mul_floor(side_loss, u, tot);
                                    let tol = 6 + amt / D;
                                    if loss + tol < expect || loss > expect + tol {
                                        out.push(v("C06", "unbonding-loss-not-pro-rata", format!("release: {} side of batch {} lost {} but its pro-rata share of the side's loss {} is {}", lbl, h.id, loss, side_loss, expect)));
                                    }
                                }
                            }
                        }
                    }
                    // release group: paid-out capacity never exceeds arrivals
                    let newly: Vec<&HistView> = post.hist.iter().filter(|h| h.released && !pre.hist.iter().any(|p| p.id == h.id && p.released)).collect();
                    // ... and only batches whose undelegation the chain has already paid are released
                    // (completion times from the history of operations, not from the times the hub
                    // recorded): a batch released early is measured against coins that have not
                    // arrived, and the difference is booked as a slash on every batch of the group
                    if let Some(gc) = cx.ghost_completion {
                        for h in newly.iter() {
                            if let Some(t) = gc.get(&h.id) {
                                if *t > post.time {
                                    out.push(v("C01", "released-before-completion", format!("withdraw by {} released batch {} at {} but the chain pays its undelegation at {}", sender, h.id, post.time, t)));
                                }
                            }
                        }
                    }
                    if !newly.is_empty() {
                        let arrived = (pre.hub_bank + attached_to_hub(op)).saturating_sub(pre.raw[5]);
                        let alloc: u128 = newly.iter().map(|h| floor_mul(h.b_amt, h.b_withdraw) + floor_mul(h.s_amt, h.s_withdraw)).sum();
                        if alloc > arrived {
                            // classify: D5 signature = n ≥ 3 and n·slashed ≥ 10^18
                            let expected: u128 = newly.iter().map(|h| floor_mul(h.b_amt, h.b_applied) + floor_mul(h.s_amt, h.s_applied)).sum();
                            let sl = expected.saturating_sub(arrived);
                            let n = newly.len() as u128;
                            let d5 = n >= 3 && n.saturating_mul(sl) >= D && alloc <= arrived + 1;
                            out.push(v("C01", if d5 { "release-overallocated:n-times-slash-ge-1e18" } else { "release-overallocated" }, format!("release of {} batches allocated {} but only {} arrived", n, alloc, arrived)));
                        }
                    }
                } else if !pre.paused {
                    // (a paused hub rejects every message but the owner's UpdateParams: C11)
                    let due = {
                        // what a release now would make withdrawable: use the query (time-based)
                        cx.chain_pre.hub_withdrawable(*sender).unwrap_or(0)
                    };
                    let rel = released_claims(pre, *sender);
                    if rel >= 1 {
                        out.push(v("C01", "funded-claim-withdraw-failed", format!("withdraw by {} failed with released claims worth {}", sender, rel)));
                    } else if due >= 1 {
                        // matured by time: would the withdrawal go through if the hub held a little more?
                        let mut c2 = cx.chain_pre.clone();
                        // same release (balance − prev_hub_balance unchanged), more funds
                        *c2.bank.entry((HUB, 0)).or_insert(0) += 1000;
                        if let Some(st) = c2.stores.get_mut(&HUB) {
                            let _ = basset_sei_hub::state::STATE.update(st, |mut x| -> cosmwasm_std::StdResult<_> {
                                x.prev_hub_balance += cosmwasm_std::Uint128::new(1000);
                                Ok(x)
                            });
                        }
                        let r2 = c2.apply(op);
                        if r2.ok {
                            let h2 = c2.hub_history();
                            let newly: Vec<&HistView> = h2.iter().filter(|h| h.released && !pre.hist.iter().any(|p| p.id == h.id && p.released)).collect();
                            let expected: u128 = newly.iter().map(|h| floor_mul(h.b_amt, h.b_applied) + floor_mul(h.s_amt, h.s_applied)).sum();
                            let arrived = (pre.hub_bank + attached_to_hub(op)).saturating_sub(pre.raw[5]);
                            let sl = expected.saturating_sub(arrived);
                            let n = newly.len() as u128;
                            let d5 = n >= 3 && n.saturating_mul(sl) >= D;
                            out.push(v("C01", if d5 { "release-overallocated:n-times-slash-ge-1e18" } else { "matured-claim-unfunded" },
                                format!("withdraw by {} failed for lack of funds: {} batches released together, {} arrived of {} undelegated", sender, n, arrived, expected)));
                            out.push(v("C09", if d5 { "release-overallocated:n-times-slash-ge-1e18" } else { "matured-claim-unfunded" },
                                format!("withdraw by {} after the unbonding period failed for lack of funds", sender)));
                        }
                    }
                }
            }
        }
    }

    // ---------------------------------------------------------------- C17: the swap list holds the denominations the owner named, as named
    // (the bank's denominations are case sensitive; the list is matched verbatim against the coins held)
    if let Op::Tx { target, call: Call::Disp(DispMsg::USwapDenom(d, is_add)), .. } = op {
        if ok && *target == DISP {
            let listed = cx.chain_post.q::<basset::dispatcher::ConfigResponse, _>(DISP, &basset_sei_rewards_dispatcher::msg::QueryMsg::Config {}).ok()
                .map(|c| c.swap_denoms.iter().filter(|x| x.as_str() == denom(*d)).count());
            match (listed, *is_add) {
                (Some(0), true) => out.push(v("C17", "swap-denom-not-listed-as-named", format!("{}: {} was added but the swap list does not contain it", kind, denom(*d)))),
                (Some(n), false) if n > 0 => out.push(v("C17", "swap-denom-still-listed", format!("{}: {} was removed but the swap list still contains it", kind, denom(*d)))),
                _ => {}
            }
        }
    }

    // ---------------------------------------------------------------- C19 / C17: index update delivers everything
    // (E3: judged only while the trusted configuration of the genesis is still in force)
    if kind == "hub.ugi" && ok && cx.envelope {
        if let Op::Tx { sender, .. } = op {
            let _ = sender;
            let left: u128 = VALS.iter().map(|x| if cx.chain_pre.deleg.contains_key(x) { (0..3u8).map(|d| cx.chain_post.pending_of(*x, d)).sum::<u128>() } else { 0 }).sum();
            if left != 0 {
                out.push(v("C19", "rewards-left-pending", format!("after UpdateGlobalIndex {} of pending rewards remain on delegated validators", left)));
            }
            // a third denomination on the dispatcher's swap list is a reward coin like the other two
            let third_listed = cx.chain_post.q::<basset::dispatcher::ConfigResponse, _>(DISP, &basset_sei_rewards_dispatcher::msg::QueryMsg::Config {}).ok()
                .map(|c| c.swap_denoms.iter().any(|d| d == denom(2))).unwrap_or(false);
            if third_listed && post.disp_bank[2] != 0 {
                out.push(v("C17", "listed-reward-denom-not-converted", format!("dispatcher holds {:?} after dispatch; the third denomination is on its swap list", post.disp_bank)));
            }
            if post.disp_bank[0] != 0 || post.disp_bank[1] != 0 {
                out.push(v("C19", "dispatcher-kept-coins", format!("dispatcher holds {:?} after dispatch", post.disp_bank)));
                out.push(v("C17", "dispatcher-kept-coins", format!("dispatcher holds {:?} after dispatch", post.disp_bank)));
            }
            if post.supply_s != pre.supply_s || post.supply_b != pre.supply_b || post.bal_b != pre.bal_b || post.bal_s != pre.bal_s {
                out.push(v("C19", "token-balances-changed", "UpdateGlobalIndex changed token balances".into()));
            }
            if post.reqs != pre.reqs || post.hist != pre.hist || post.raw[5] != pre.raw[5] {
                out.push(v("C19", "unbonders-affected", "UpdateGlobalIndex changed claims/history/prev_hub_balance".into()));
            }
            // stSei pool rises by exactly the re-bonded amount
            let rebonded: u128 = cx.effects.iter().map(|e| match e { Effect::Delegate { amt, .. } => *amt, _ => 0 }).sum();
            if let (Some(a), Some(b)) = (pre.q, post.q) {
                if b[3] != a[3] + rebonded {
                    out.push(v("C19", "stsei-pool-ne-rebonded", format!("stSei pool {} → {} with {} re-bonded", a[3], b[3], rebonded)));
                }
                if b[2] != a[2] {
                    out.push(v("C19", "bsei-pool-changed", format!("bSei pool {} → {}", a[2], b[2])));
                }
            }
            // ... and the stSei rate the hub stores afterwards carries it: pool over supply plus the
            // requests still waiting in the open batch (their stake is still in the pool)
            if rebonded > 0 && post.raw[3] > 0 {
                let want = rate_of(post.raw[3], post.supply_s, post.batch.2);
                if post.raw[1] != want {
                    out.push(v("C19", "stsei-rate-ne-pool-over-supply", format!("after re-bonding {} the stored stSei rate is {} but {} / ({} + {}) = {}", rebonded, post.raw[1], post.raw[3], post.supply_s, post.batch.2, want)));
                }
            }
            // with no bSei holder nothing can be distributed: what arrives stays *unrecorded*, so that
            // the next update with holders distributes it (recording it now strands it for ever)
            if pre.rw.1 == 0 && post.rw.2 != pre.rw.2 {
                out.push(v("C19", "rewards-recorded-with-no-holder", format!("no bSei holder, yet the recorded reward balance moved {} → {}", pre.rw.2, post.rw.2)));
                out.push(v("C14", "rewards-recorded-with-no-holder", format!("no bSei holder, yet the recorded reward balance moved {} → {}", pre.rw.2, post.rw.2)));
            }
            // keeper gets floor(balance × rate) of each coin; everything else is forwarded
            let to_keeper: [u128; 2] = [0u8, 1u8].map(|d| cx.effects.iter().map(|e| match e { Effect::Bank { from, to, denom, amt } if *from == DISP && *to == pre.keeper && *denom == d => *amt, _ => 0 }).sum());
            let to_reward: u128 = cx.effects.iter().map(|e| match e { Effect::Bank { from, to, denom: 1, amt } if *from == DISP && *to == REWARD => *amt, _ => 0 }).sum();
            let held_st = to_keeper[0] + rebonded;
            let held_b = to_keeper[1] + to_reward;
            if to_keeper[0] != floor_mul(held_st, pre.keeper_rate) || to_keeper[1] != floor_mul(held_b, pre.keeper_rate) {
                out.push(v("C17", "keeper-cut-wrong", format!("keeper got {:?} of balances ({},{}) at rate {}", to_keeper, held_st, held_b, pre.keeper_rate)));
            }
            // reward contract: claimable grows by the delivered amount within dust
            if pre.rw.1 > 0 {
                let grew = post.rw.2 as i128 - pre.rw.2 as i128;
                if grew < to_reward as i128 || post.rw.2 != post.reward_bank {
                    out.push(v("C19", "reward-balance-ne-delivered", format!("recorded reward balance grew {} with {} delivered; recorded {} bank {}", grew, to_reward, post.rw.2, post.reward_bank)));
                }
                let acc_pre: u128 = pre.accrued.values().map(|x| x.unwrap_or(0)).sum();
                let acc_post: u128 = post.accrued.values().map(|x| x.unwrap_or(0)).sum();
                let holders = post.holders.len() as u128;
                let newly_recorded = (post.rw.2 - pre.rw.2.min(post.rw.2)).max(to_reward);
                if acc_post > acc_pre + newly_recorded + holders || acc_post + holders + 1 < acc_pre + to_reward {
                    out.push(v("C19", "accrued-ne-delivered", format!("Σ accrued {} → {} with {} delivered ({} holders)", acc_pre, acc_post, to_reward, holders)));
                }
            }
        }
    }
    // zero-coin transfers attempted by the dispatcher (fail at the bank)
    if matches!(kind, "hub.ugi" | "reg.remove" | "reg.redelegations") && !ok {
        // find which site attempted a zero transfer: re-derive from balances the dispatcher would hold
        // (effects of a failed tx are kept for diagnostics)
        let reached_dispatch = cx.effects.iter().any(|e| matches!(e, Effect::Wasm { target, variant, .. } if *target == DISP && variant == "dispatch_rewards"));
        if reached_dispatch && cx.err == "zero coin" && pre.delegated > 0 {
            let bonded = pre.raw[2] + pre.raw[3] > 0;
            if bonded {
                let site = if pre.keeper_rate == 0 { "keeper-rate-zero" } else if pre.keeper_rate == D { "keeper-rate-one" } else { "dust-balance" };
                out.push(v("C17", &format!("zero-transfer:{}", site), format!("{}: dispatch failed (keeper rate {}); zero-amount bank send", kind, pre.keeper_rate)));
                out.push(v("C19", &format!("zero-transfer:{}", site), format!("{}: index update failed with stake bonded (keeper rate {})", kind, pre.keeper_rate)));
            }
        }
    }

    // the dispatcher overdraws its own account (a swap offering coins it has not received yet, a
    // transfer of more than it holds): the bank refuses and the whole index update fails
    if matches!(kind, "hub.ugi" | "reg.remove" | "reg.redelegations") && !ok && cx.envelope {
        let in_dispatcher = cx.effects.iter().any(|e| matches!(e, Effect::Wasm { target, .. } if *target == DISP));
        let authorised_sender = match op {
            Op::Tx { sender, target, call, .. } => authorised(cx.chain_pre, *sender, *target, call) != Some(false),
            _ => false,
        };
        if in_dispatcher && authorised_sender && cx.err.starts_with("insufficient funds") && pre.raw[2] + pre.raw[3] > 0 && !pre.paused {
            out.push(v("C17", "dispatcher-overdraws", format!("{}: a message of the dispatcher was refused by the bank: {}", kind, cx.err)));
            out.push(v("C19", "index-update-failed:insufficient-funds", format!("{}: index update failed with stake bonded: {}", kind, cx.err)));
        }
    }

    // ---------------------------------------------------------------- C12: the delegation plan of a bond, against the chain's own delegations
    if is_tx && ok && cx.envelope && matches!(kind, "hub.bond" | "hub.bondst") {
        if let Op::Tx { funds, .. } = op {
            let amount: u128 = funds.iter().filter(|f| f.0 == 0).map(|f| f.1).sum();
            let mut plan: BTreeMap<Id, u128> = BTreeMap::new();
            for e in cx.effects.iter() {
                if let Effect::Delegate { v, amt } = e {
                    *plan.entry(*v).or_insert(0) += amt;
                }
            }
            let n = pre.reg_stored.len() as u128;
            if n > 0 {
                let total: u128 = pre.reg_stored.iter().map(|v| *pre.deleg.get(v).unwrap_or(&0)).sum();
                let ceil = (total + amount + n - 1) / n;
                if plan.values().sum::<u128>() != amount {
                    out.push(v("C12", "bond-plan-not-conserved", format!("{}: {} paid, the Delegate messages carry {:?}", kind, amount, plan)));
                }
                for (val, d) in plan.iter() {
                    let held = *pre.deleg.get(val).unwrap_or(&0);
                    if !pre.reg_vals.contains(val) || !pre.reg_stored.contains(val) {
                        out.push(v("C12", "bond-plan-to-unregistered", format!("{}: {} delegated to {} which is not registered", kind, d, val)));
                    } else if *d > 0 && held + d > ceil {
                        out.push(v("C12", "bond-plan-lifts-above-even-share", format!("{}: validator {} held {} and receives {}: above the even share {} of {} + {} over {} validators", kind, val, held, d, ceil, total, amount, n)));
                    }
                }
            }
        }
    }

    // ---------------------------------------------------------------- C12: a removal / follow-up redelegation never lifts a validator above the even share
    // (the redelegation plan levels the registered validators with the moved stake, the index update
    // it triggers then levels them again with the re-bonded rewards: whoever received anything ends
    // at most at the even share, rounded up, of what the registered validators hold afterwards)
    if matches!(kind, "reg.redelegations" | "reg.remove") && ok && reg_wired(cx.chain_pre) {
        let n = post.reg_stored.len() as u128;
        if n > 0 {
            let total: u128 = post.reg_stored.iter().map(|v| *post.deleg.get(v).unwrap_or(&0)).sum();
            let ceil = (total + n - 1) / n;
            let mut got: BTreeMap<Id, u128> = BTreeMap::new();
            for e in cx.effects.iter() {
                match e {
                    Effect::Redelegate { dst, amt, .. } => *got.entry(*dst).or_insert(0) += amt,
                    Effect::Delegate { v, amt } => *got.entry(*v).or_insert(0) += amt,
                    _ => {}
                }
            }
            for (val, g) in got.iter() {
                let held = *post.deleg.get(val).unwrap_or(&0);
                if *g > 0 && post.reg_stored.contains(val) && held > ceil {
                    out.push(v("C12", "removal-lifts-above-even-share", format!("{}: validator {} received {} and holds {}: above the even share {} of {} over {} validators", kind, val, g, held, ceil, total, n)));
                }
            }
        }
    }

    // ---------------------------------------------------------------- C13: the follow-up redelegation of stranded stake
    if kind == "reg.redelegations" && ok && reg_wired(cx.chain_pre) {
        if let Op::Tx { call: Call::Reg(RegMsg::Redelegations(val)), .. } = op {
            let could = !cx.chain_pre.no_redelegate.contains(val);
            if could && *post.deleg.get(val).unwrap_or(&0) != 0 {
                out.push(v("C13", "stake-left-on-removed", format!("{} keeps {} after Redelegations", val, post.deleg.get(val).unwrap())));
            }
            let rebonded: u128 = cx.effects.iter().map(|e| match e { Effect::Delegate { amt, .. } => *amt, _ => 0 }).sum();
            if post.delegated != pre.delegated + rebonded {
                out.push(v("C13", "delegated-total-changed", format!("delegated {} → {} with {} re-bonded", pre.delegated, post.delegated, rebonded)));
            }
            for e in cx.effects.iter() {
                match e {
                    Effect::Redelegate { dst, .. } if !post.reg_vals.contains(dst) || !post.reg_stored.contains(dst) => out.push(v("C13", "redelegated-to-unregistered", format!("redelegated to {}", dst))),
                    Effect::Delegate { v: dst, .. } if !post.reg_vals.contains(dst) || !post.reg_stored.contains(dst) => out.push(v("C13", "delegate-to-unregistered", format!("re-bonded rewards delegated to {}", dst))),
                    _ => {}
                }
            }
        }
    }

    // ---------------------------------------------------------------- C13: validator removal
    if kind == "reg.remove" && ok && reg_wired(cx.chain_pre) {
        if let Op::Tx { call: Call::Reg(RegMsg::Remove(val)), .. } = op {
            if post.reg_vals.contains(val) || post.reg_stored.contains(val) {
                out.push(v("C13", "still-registered", format!("{} still registered after removal", val)));
            }
            if post.reg_vals.is_empty() {
                out.push(v("C13", "registry-emptied", "removal emptied the registry".into()));
            }
            let could = !cx.chain_pre.no_redelegate.contains(val);
            if could && *post.deleg.get(val).unwrap_or(&0) != 0 {
                out.push(v("C13", "stake-left-on-removed", format!("{} keeps {} after removal", val, post.deleg.get(val).unwrap())));
            }
            let rebonded: u128 = cx.effects.iter().map(|e| match e { Effect::Delegate { amt, .. } => *amt, _ => 0 }).sum();
            if post.delegated != pre.delegated + rebonded {
                out.push(v("C13", "delegated-total-changed", format!("delegated {} → {} with {} re-bonded", pre.delegated, post.delegated, rebonded)));
            }
            for e in cx.effects.iter() {
                if let Effect::Redelegate { dst, .. } = e {
                    if !post.reg_vals.contains(dst) || !post.reg_stored.contains(dst) {
                        out.push(v("C13", "redelegated-to-unregistered", format!("redelegated to {}", dst)));
                    }
                }
            }
        }
    }

    // ---------------------------------------------------------------- C11: paused hub
    if pre.paused && is_tx {
        if let Op::Tx { target, call, .. } = op {
            if *target == HUB && ok {
                let allowed = matches!(call, Call::Hub(HubMsg::UParams(..)) | Call::Hub(HubMsg::Migrate(..)));
                if !allowed {
                    out.push(v("C11", "executed-while-paused", format!("{} succeeded while paused", kind)));
                }
            }
        }
        // of UpdateParams only the *owner's* goes through while paused, and the owner's is not
        // turned away for lack of authority
        if let Op::Tx { sender, target, call: call @ Call::Hub(HubMsg::UParams(..)), .. } = op {
            if *target == HUB {
                match authorised(cx.chain_pre, *sender, HUB, call) {
                    Some(false) if ok => {
                        out.push(v("C11", "non-owner-updateparams-while-paused", format!("UpdateParams by {} (not the owner) succeeded on a paused hub", sender)));
                    }
                    Some(true) if !ok && cx.err.to_lowercase().contains("unauthorized") => {
                        out.push(v("C11", "owner-updateparams-refused-while-paused", format!("UpdateParams by the owner {} was refused as unauthorized on a paused hub", sender)));
                    }
                    _ => {}
                }
            }
        }
    }
    // queries keep working: the State query that answered before the owner paused still answers
    // afterwards (pausing writes nothing but the flag)
    if kind == "hub.uparams" && ok && !pre.paused && post.paused && pre.q.is_some() && post.q.is_none() {
        out.push(v("C11", "query-broken-by-pause", "the State query answered before the pause and fails on the paused hub".into()));
    }
    // the pause is lifted only by the owner's UpdateParams, or by the migration that moves the last
    // legacy entries; a migration with nothing to migrate changes nothing
    if pre.paused && !post.paused && is_tx && ok {
        let by_owner_params = matches!(op, Op::Tx { sender, target, call: call @ Call::Hub(HubMsg::UParams(..)), .. } if *target == HUB && authorised(cx.chain_pre, *sender, HUB, call) == Some(true));
        let by_last_migration = kind == "hub.migrate" && pre.legacy > 0 && post.legacy == 0;
        if !by_owner_params && !by_last_migration {
            out.push(v("C11", "unpaused-without-owner", format!("{} lifted the pause (legacy entries {} → {})", kind, pre.legacy, post.legacy)));
        }
    }
    if pre.legacy > 0 && pre.paused && !post.paused && post.legacy > 0 {
        out.push(v("C11", "unpaused-with-legacy-entries", format!("{} unpaused with {} legacy entries", kind, post.legacy)));
    }

    // ---------------------------------------------------------------- C09 / C08: the first unbond after the epoch period undelegates
    // (the epoch clock is taken from the history of undelegations, not from the hub's own field)
    if matches!(kind, "tok.send.unbond" | "tok.sendfrom.unbond") && ok {
        if let Some(g) = cx.ghost_last_und {
            let closed = post.hist.iter().any(|h| !pre.hist.iter().any(|x| x.id == h.id));
            if post.time > g && post.time - g > pre.epoch && !closed {
                out.push(v("C09", "not-undelegated-after-epoch:history", format!("{} at {} — {} after the last undelegation ({}), epoch period {} — did not undelegate the batch", kind, post.time, post.time - g, g, pre.epoch)));
                out.push(v("C08", "not-undelegated-after-epoch:history", format!("{} at {} — {} after the last undelegation ({}), epoch period {} — did not undelegate the batch", kind, post.time, post.time - g, g, pre.epoch)));
            }
        }
    }

    // ---------------------------------------------------------------- C09: exits
    if let Op::Tx { sender, call, .. } = op {
        // a withdrawal pays only released batches: the caller's requests in batches that are not
        // released must still be there afterwards (otherwise the later claim can never be paid)
        if kind == "hub.withdraw" && ok {
            if let Some(rs) = pre.reqs.get(sender) {
                for (b, x, y) in rs {
                    let released_now = post.hist.iter().any(|h| h.id == *b && h.released);
                    if !released_now {
                        let still = post.reqs.get(sender).map(|q| q.iter().any(|(b2, x2, y2)| b2 == b && x2 == x && y2 == y)).unwrap_or(false);
                        if !still {
                            out.push(v("C09", "pending-request-erased-by-withdraw", format!("withdraw by {} erased its request ({}, {}) in unreleased batch {}", sender, x, y, b)));
                            out.push(v("C07", "pending-request-erased-by-withdraw", format!("withdraw by {} erased its request ({}, {}) in unreleased batch {}", sender, x, y, b)));
                        }
                    }
                }
            }
        }
        // exit paths talk to neither stub
        let exit_kind = matches!(kind, "hub.bond" | "hub.bondst" | "hub.withdraw" | "reward.claim") || kind.starts_with("tok.");
        if exit_kind && !matches!(call, Call::Tok(TokMsg::Send(_, _, Hook::Other)) | Call::Tok(TokMsg::SendFrom(_, _, _, Hook::Other))) {
            for e in cx.effects.iter() {
                match e {
                    Effect::Wasm { target, variant, .. } if *target == SWAP || *target == ORACLE => {
                        out.push(v("C09", "exit-path-calls-stub", format!("{} executed {} on {}", kind, variant, target)));
                    }
                    Effect::Query { target, .. } if *target == SWAP || *target == ORACLE => {
                        out.push(v("C09", "exit-path-queries-stub", format!("{} queried {}", kind, target)));
                    }
                    _ => {}
                }
            }
            if cx.deep {
                // the same operation from the same state with the stubs failing / returning garbage
                for (mode, so, sp, oo, opx) in [("failing", false, 0u128, false, 0u128), ("garbage", true, u128::MAX / D, true, 1u128)] {
                    let mut c2 = cx.chain_pre.clone();
                    c2.swap_ok = so;
                    c2.swap_p2 = sp;
                    c2.oracle_ok = oo;
                    c2.oracle_price = opx;
                    let r2 = c2.apply(op);
                    if r2.ok != ok || c2.observe() != cx.chain_post.observe() {
                        out.push(v("C09", "exit-depends-on-stubs", format!("{} gives a different result with swap/oracle {}", kind, mode)));
                    }
                }
            }
        }
    }
    if cx.deep && cx.envelope && post.q.is_some() && !post.paused {
        c09_deep(cx, &mut out);
    }

    let _ = USERS;
    let _ = tok_target(op);
    out
}

/// D5 signature of a matured withdrawal that fails only for lack of funds: ≥ 3 batches released
/// together whose total slashed amount times their number reaches 10^18
fn unfunded_probe(c: &Chain, pre_hist: &[HistView], hub_bank: u128, prev_hub_balance: u128, op: &Op) -> Option<bool> {
    let mut c2 = c.clone();
    *c2.bank.entry((HUB, 0)).or_insert(0) += 1000;
    if let Some(st) = c2.stores.get_mut(&HUB) {
        let _ = basset_sei_hub::state::STATE.update(st, |mut x| -> cosmwasm_std::StdResult<_> {
            x.prev_hub_balance += cosmwasm_std::Uint128::new(1000);
            Ok(x)
        });
    }
    let r2 = c2.apply(op);
    if !r2.ok {
        return None;
    }
    let h2 = c2.hub_history();
    let newly: Vec<&HistView> = h2.iter().filter(|h| h.released && !pre_hist.iter().any(|p| p.id == h.id && p.released)).collect();
    let expected: u128 = newly.iter().map(|h| floor_mul(h.b_amt, h.b_applied) + floor_mul(h.s_amt, h.s_applied)).sum();
    let arrived = hub_bank.saturating_sub(prev_hub_balance);
    let sl = expected.saturating_sub(arrived);
    let n = newly.len() as u128;
    Some(n >= 3 && n.saturating_mul(sl) >= D)
}

/// C09 "from every state": dry-run exits on clones of the state after this step
fn c09_deep(cx: &StepCtx, out: &mut Vec<Violation>) {
    let post = cx.post;
    let c = cx.chain_post;
    let booked = post.raw[2] + post.raw[3];
    // excluded by the property: a validator set slashed to zero
    if post.delegated == 0 && booked > 0 {
        return;
    }
    // outside E2: the staking module refuses undelegations (unbonding-entry limit reached)
    if !c.no_undelegate.is_empty() {
        return;
    }
    // zero-backed pool (D6): tokens outstanding against a pool of zero, before or after the
    // slashing recognition that every hub entry point performs first
    let q = post.q.unwrap_or(post.raw);
    let zero_backed = ((post.raw[2] == 0 || q[2] == 0) && post.supply_b + post.batch.1 > 0) || ((post.raw[3] == 0 || q[3] == 0) && post.supply_s + post.batch.2 > 0);
    let mut first_holder: Option<(Id, Id)> = None;
    for (tok, bals) in [(BSEI, &post.bal_b), (STSEI, &post.bal_s)] {
        for (u, b) in bals.iter() {
            if !USERS.contains(u) {
                continue;
            }
            if first_holder.is_none() {
                first_holder = Some((*u, tok));
            }
            let mut amts = vec![*b];
            if *b > 1 {
                amts.push(*b / 2);
                amts.push(1);
            }
            for a in amts {
                let mut c2 = c.clone();
                let op = Op::Tx { sender: *u, target: tok, call: Call::Tok(TokMsg::Send(HUB, a, Hook::Unbond)), funds: vec![] };
                let r = c2.apply(&op);
                if !r.ok {
                    let class = if zero_backed { "exit-blocked:zero-backed-pool" } else { "exit-blocked" };
                    out.push(v("C09", class, format!("holder {} cannot unbond {} of its {} {}: {}", u, a, b, if tok == BSEI { "bSei" } else { "stSei" }, r.err.replace('"', "'"))));
                    break;
                }
            }
        }
    }
    // requests become withdrawable: epoch passes, somebody unbonds, the unbonding period passes
    for (u, rs) in post.reqs.iter() {
        if !USERS.contains(u) || rs.is_empty() {
            continue;
        }
        let mut c2 = c.clone();
        let in_current = rs.iter().any(|(b, _, _)| *b == post.batch.0);
        if in_current {
            c2.advance(post.epoch + 1);
            match first_holder {
                Some((h, tok)) => {
                    let op = Op::Tx { sender: h, target: tok, call: Call::Tok(TokMsg::Send(HUB, 1, Hook::Unbond)), funds: vec![] };
                    let r = c2.apply(&op);
                    if !r.ok {
                        continue; // reported by the dry-run above
                    }
                    if !c2.hub_history().iter().any(|h| h.id == post.batch.0) {
                        out.push(v("C09", "not-undelegated-after-epoch", format!("batch {} not undelegated by the first unbond after the epoch period", post.batch.0)));
                        continue;
                    }
                }
                None => continue,
            }
        }
        // (b) at the first maturity: the moment the chain pays the oldest in-flight batch holding a
        // request of this user — younger batches are still unbonding. What has matured by then
        // (by the chain's clock, from the history of operations) must be withdrawable in full:
        // nothing was slashed on this clone, so a claim worth >= 1 unit more than rounding must
        // be accepted and paid.
        if let Some(gc0) = cx.ghost_completion {
            let c1 = c2.clone();
            let s1 = snap(&c1);
            // a batch closed on this clone just now completes one unbonding time from the clone's clock
            let mut gc_local = gc0.clone();
            for h in s1.hist.iter() {
                gc_local.entry(h.id).or_insert(c1.time + c1.unbonding_time);
            }
            let gc = &gc_local;
            let oldest = rs.iter().filter_map(|(b, _, _)| s1.hist.iter().find(|h| h.id == *b && !h.released).and_then(|_| gc.get(b).map(|t| (*t, *b)))).min();
            if let (Some((t_first, _)), true) = (oldest, s1.unbonding == c1.unbonding_time && !s1.paused) {
                let mut c1 = c1;
                if t_first > c1.time {
                    c1.advance(t_first - c1.time);
                }
                let p1 = snap(&c1);
                let matured: Vec<&HistView> = p1.hist.iter().filter(|h| !h.released && gc.get(&h.id).map(|t| *t <= c1.time).unwrap_or(false)).collect();
                // every unreleased batch must be known to the ghost (else stay silent)
                let all_known = p1.hist.iter().filter(|h| !h.released).all(|h| gc.contains_key(&h.id));
                let expected: u128 = matured.iter().map(|h| floor_mul(h.b_amt, h.b_applied) + floor_mul(h.s_amt, h.s_applied)).sum();
                let arrived = p1.hub_bank.saturating_sub(p1.raw[5]);
                let mut est: u128 = 0;
                let mut k: u128 = 1;
                for (b, ba, sa) in rs.iter() {
                    if let Some(h) = p1.hist.iter().find(|h| h.id == *b) {
                        if h.released {
                            est += floor_mul(*ba, h.b_withdraw) + floor_mul(*sa, h.s_withdraw);
                            k += 1;
                        } else if matured.iter().any(|m| m.id == *b) {
                            est += floor_mul(*ba, h.b_applied) + floor_mul(*sa, h.s_applied);
                            k += 1;
                        }
                    }
                }
                // only the unslashed case is judged here (arrivals cover what matured)
                if all_known && arrived >= expected && est > 5 * k + 2 * (matured.len() as u128) {
                    let due = est - 5 * k - 2 * (matured.len() as u128);
                    let op = Op::Tx { sender: *u, target: HUB, call: Call::Hub(HubMsg::Withdraw), funds: vec![] };
                    let before = c1.bal(*u, 0);
                    let r = c1.apply(&op);
                    if !r.ok {
                        out.push(v("C09", "matured-withdraw-failed:first-maturity", format!("withdraw by {} at the maturity of its oldest batch fails with {} due: {}", u, due, r.err.replace('"', "'"))));
                    } else {
                        let got = c1.bal(*u, 0).saturating_sub(before);
                        if got < due {
                            out.push(v("C09", "matured-claim-underpaid:first-maturity", format!("withdraw by {} at the maturity of its oldest batch paid {} of at least {} due (nothing was slashed)", u, got, due)));
                        }
                    }
                }
            }
        }
        c2.advance(post.unbonding.max(c2.unbonding_time) + 1);
        // the WithdrawableUnbonded query prices the claim with the rates recorded at undelegation;
        // the release that the withdrawal itself performs re-prices every batch it releases by
        // arrived / expected. A lower bound of the claim after that: each request loses at most 5
        // base units to the floors of the weight, the slashed share, the new rate and the payout.
        let est = c2.hub_withdrawable(*u).unwrap_or(0);
        let pre2 = snap(&c2);
        let expected: u128 = pre2.hist.iter().filter(|h| !h.released).map(|h| floor_mul(h.b_amt, h.b_applied) + floor_mul(h.s_amt, h.s_applied)).sum();
        let arrived = pre2.hub_bank.saturating_sub(pre2.raw[5]);
        let k = rs.len() as u128 + 1;
        // (even without slashing the release re-rounds each rate to floor(amount·rate)/amount)
        let due = (if arrived >= expected { est } else { mul_floor(est, arrived, expected.max(1)) }).saturating_sub(5 * k);
        if due >= 1 {
            let op = Op::Tx { sender: *u, target: HUB, call: Call::Hub(HubMsg::Withdraw), funds: vec![] };
            let mut c3 = c2.clone();
            let r = c3.apply(&op);
            if !r.ok {
                match unfunded_probe(&c2, &pre2.hist, pre2.hub_bank, pre2.raw[5], &op) {
                    Some(true) => out.push(v("C09", "release-overallocated:n-times-slash-ge-1e18", format!("withdraw by {} after epoch + unbonding period fails for lack of funds", u))),
                    Some(false) => out.push(v("C09", "matured-claim-unfunded", format!("withdraw by {} after epoch + unbonding period fails for lack of funds ({} due)", u, due))),
                    None => out.push(v("C09", "matured-withdraw-failed", format!("withdraw by {} after epoch + unbonding period fails with {} due: {}", u, due, r.err.replace('"', "'")))),
                }
            }
        }
    }
}
