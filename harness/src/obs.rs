//! canonical observation of the whole system through public queries (and public state readers
//! where the API hides a field); must print exactly what Krp/Driver.lean `observe` prints.

use crate::chain::*;
use cosmwasm_std::testing::MockApi;
use cosmwasm_std::{Addr, Api, CanonicalAddr, Decimal, Uint128};

fn hum(c: &CanonicalAddr) -> String {
    MockApi::default().addr_humanize(c).map(|a| id_of(a.as_str()).to_string()).unwrap_or("?".into())
}
fn hum_o(c: &Option<CanonicalAddr>) -> String {
    match c {
        Some(c) => hum(c),
        None => "-".into(),
    }
}
fn at(d: Decimal) -> u128 {
    d.atomics().u128()
}
fn ids(s: &str) -> String {
    id_of(s).to_string()
}

#[derive(Clone, Debug, Default)]
pub struct HubView {
    pub raw: [u128; 8],
    pub q: Option<[u128; 8]>,
    pub batch: (u64, u128, u128),
    pub hist: Vec<HistView>,
}
#[derive(Clone, Debug, Default, PartialEq)]
pub struct HistView {
    pub id: u64,
    pub time: u64,
    pub b_amt: u128,
    pub b_applied: u128,
    pub b_withdraw: u128,
    pub s_amt: u128,
    pub s_applied: u128,
    pub s_withdraw: u128,
    pub released: bool,
}

pub fn hist_s(h: &HistView) -> String {
    format!(
        "{}:{}:{}:{}:{}:{}:{}:{}:{}",
        h.id,
        h.time,
        h.b_amt,
        h.b_applied,
        h.b_withdraw,
        h.s_amt,
        h.s_applied,
        h.s_withdraw,
        if h.released { 1 } else { 0 }
    )
}

impl Chain {
    pub fn hub_state_query(&self) -> Option<[u128; 8]> {
        let r: Result<basset::hub::StateResponse, String> = self.q(HUB, &basset::hub::QueryMsg::State {});
        r.ok().map(|s| {
            [
                at(s.bsei_exchange_rate),
                at(s.stsei_exchange_rate),
                s.total_bond_bsei_amount.u128(),
                s.total_bond_stsei_amount.u128(),
                s.last_index_modification as u128,
                s.prev_hub_balance.u128(),
                s.last_unbonded_time as u128,
                s.last_processed_batch as u128,
            ]
        })
    }
    pub fn hub_state_raw(&self) -> [u128; 8] {
        match self.stores.get(&HUB).and_then(|st| basset_sei_hub::state::STATE.load(st).ok()) {
            Some(s) => [
                at(s.bsei_exchange_rate),
                at(s.stsei_exchange_rate),
                s.total_bond_bsei_amount.u128(),
                s.total_bond_stsei_amount.u128(),
                s.last_index_modification as u128,
                s.prev_hub_balance.u128(),
                s.last_unbonded_time as u128,
                s.last_processed_batch as u128,
            ],
            None => [0; 8],
        }
    }
    pub fn hub_batch(&self) -> (u64, u128, u128) {
        let r: Result<basset::hub::CurrentBatchResponse, String> =
            self.q(HUB, &basset::hub::QueryMsg::CurrentBatch {});
        r.map(|b| (b.id, b.requested_bsei_with_fee.u128(), b.requested_stsei.u128())).unwrap_or((0, 0, 0))
    }
    pub fn hub_history(&self) -> Vec<HistView> {
        let mut out = vec![];
        let mut start: Option<u64> = None;
        loop {
            let r: Result<basset::hub::AllHistoryResponse, String> =
                self.q(HUB, &basset::hub::QueryMsg::AllHistory { start_from: start, limit: Some(100) });
            let page = match r {
                Ok(p) => p.history,
                Err(_) => break,
            };
            if page.is_empty() {
                break;
            }
            for h in &page {
                out.push(HistView {
                    id: h.batch_id,
                    time: h.time,
                    b_amt: h.bsei_amount.u128(),
                    b_applied: at(h.bsei_applied_exchange_rate),
                    b_withdraw: at(h.bsei_withdraw_rate),
                    s_amt: h.stsei_amount.u128(),
                    s_applied: at(h.stsei_applied_exchange_rate),
                    s_withdraw: at(h.stsei_withdraw_rate),
                    released: h.released,
                });
            }
            if page.len() < 100 {
                break;
            }
            start = Some(page.last().unwrap().batch_id);
        }
        out
    }
    /// the six addresses wired into the hub (dispatcher, registry, bSei, stSei, airdrop, rewards), from its stored Config
    pub fn hub_wiring(&self) -> [Option<Id>; 6] {
        let c = self.stores.get(&HUB).and_then(|st| basset_sei_hub::state::CONFIG.load(st).ok());
        let f = |x: &Option<CanonicalAddr>| x.as_ref().and_then(|c| MockApi::default().addr_humanize(c).ok()).map(|a| id_of(a.as_str()));
        match c {
            Some(c) => [
                f(&c.reward_dispatcher_contract),
                f(&c.validators_registry_contract),
                f(&c.bsei_token_contract),
                f(&c.stsei_token_contract),
                f(&c.airdrop_registry_contract),
                f(&c.rewards_contract),
            ],
            None => [None; 6],
        }
    }
    /// one `AllHistory { start_from, limit }` page, exactly as the query returns it
    pub fn hub_history_page(&self, start: Option<u64>, limit: Option<u32>) -> Result<Vec<HistView>, String> {
        let r: Result<basset::hub::AllHistoryResponse, String> =
            self.q(HUB, &basset::hub::QueryMsg::AllHistory { start_from: start, limit });
        r.map(|p| {
            p.history
                .iter()
                .map(|h| HistView {
                    id: h.batch_id,
                    time: h.time,
                    b_amt: h.bsei_amount.u128(),
                    b_applied: at(h.bsei_applied_exchange_rate),
                    b_withdraw: at(h.bsei_withdraw_rate),
                    s_amt: h.stsei_amount.u128(),
                    s_applied: at(h.stsei_applied_exchange_rate),
                    s_withdraw: at(h.stsei_withdraw_rate),
                    released: h.released,
                })
                .collect()
        })
    }
    /// the stored history entries read one by one from the hub's storage (no range query involved)
    pub fn hub_history_stored(&self) -> Vec<HistView> {
        let mut out = vec![];
        let st = match self.stores.get(&HUB) {
            Some(s) => s,
            None => return out,
        };
        let top = self.hub_batch().0 + 1;
        for id in 0..=top {
            if let Ok(h) = basset_sei_hub::state::read_unbond_history(st, id) {
                out.push(HistView {
                    id: h.batch_id,
                    time: h.time,
                    b_amt: h.bsei_amount.u128(),
                    b_applied: at(h.bsei_applied_exchange_rate),
                    b_withdraw: at(h.bsei_withdraw_rate),
                    s_amt: h.stsei_amount.u128(),
                    s_applied: at(h.stsei_applied_exchange_rate),
                    s_withdraw: at(h.stsei_withdraw_rate),
                    released: h.released,
                });
            }
        }
        out
    }
    pub fn hub_requests(&self, u: Id) -> Vec<(u64, u128, u128)> {
        let r: Result<basset::hub::UnbondRequestsResponse, String> =
            self.q(HUB, &basset::hub::QueryMsg::UnbondRequests { address: name(u) });
        let mut v: Vec<(u64, u128, u128)> = r
            .map(|r| r.requests.iter().map(|(b, x, y)| (*b, x.u128(), y.u128())).collect())
            .unwrap_or_default();
        v.sort();
        v
    }
    pub fn hub_withdrawable(&self, u: Id) -> Option<u128> {
        let r: Result<basset::hub::WithdrawableUnbondedResponse, String> =
            self.q(HUB, &basset::hub::QueryMsg::WithdrawableUnbonded { address: name(u) });
        r.ok().map(|w| w.withdrawable.u128())
    }
    pub fn legacy_count(&self) -> usize {
        let prefix: Vec<u8> = vec![0, 4, b'w', b'a', b'i', b't'];
        self.stores
            .get(&HUB)
            .map(|s| s.data.keys().filter(|k| k.starts_with(&prefix)).count())
            .unwrap_or(0)
    }
    pub fn token_supply(&self, t: Id) -> u128 {
        let r: Result<cw20::TokenInfoResponse, String> = self.q(t, &cw20::Cw20QueryMsg::TokenInfo {});
        r.map(|i| i.total_supply.u128()).unwrap_or(0)
    }
    pub fn token_balance(&self, t: Id, a: Id) -> u128 {
        let r: Result<cw20::BalanceResponse, String> =
            self.q(t, &cw20::Cw20QueryMsg::Balance { address: name(a) });
        r.map(|b| b.balance.u128()).unwrap_or(0)
    }
    pub fn token_minter(&self, t: Id) -> Option<Id> {
        let r: Result<Option<cw20::MinterResponse>, String> = self.q(t, &cw20::Cw20QueryMsg::Minter {});
        r.ok().flatten().map(|m| id_of(&m.minter))
    }
    /// (exists, amount, expiry) of an allowance entry, from the public state maps
    pub fn token_allowance(&self, t: Id, o: Id, s: Id) -> Option<(u128, String)> {
        let api = MockApi::default();
        let store = self.stores.get(&t)?;
        let a: Option<cw20::AllowanceResponse> = if t == BSEI {
            let oc = api.addr_canonicalize(&name(o)).ok()?;
            let sc = api.addr_canonicalize(&name(s)).ok()?;
            cw20_legacy::state::ALLOWANCES.may_load(store, (oc.as_slice(), sc.as_slice())).ok()?
        } else {
            cw20_base::state::ALLOWANCES
                .may_load(store, (&Addr::unchecked(name(o)), &Addr::unchecked(name(s))))
                .ok()?
        };
        a.map(|a| {
            let e = match a.expires {
                cw20::Expiration::AtHeight(h) => format!("h{}", h),
                cw20::Expiration::AtTime(t) => format!("t{}", t.seconds()),
                cw20::Expiration::Never {} => "n".into(),
            };
            (a.allowance.u128(), e)
        })
    }
    pub fn reward_state(&self) -> (u128, u128, u128) {
        let r: Result<basset::reward::StateResponse, String> = self.q(REWARD, &basset::reward::QueryMsg::State {});
        r.map(|s| (at(s.global_index), s.total_balance.u128(), s.prev_reward_balance.u128())).unwrap_or((0, 0, 0))
    }
    pub fn reward_holder(&self, a: Id) -> (u128, u128, u128) {
        let r: Result<basset::reward::HolderResponse, String> =
            self.q(REWARD, &basset::reward::QueryMsg::Holder { address: name(a) });
        r.map(|h| (h.balance.u128(), at(h.index), at(h.pending_rewards))).unwrap_or((0, 0, 0))
    }
    pub fn reward_accrued(&self, a: Id) -> Option<u128> {
        let r: Result<basset::reward::AccruedRewardsResponse, String> =
            self.q(REWARD, &basset::reward::QueryMsg::AccruedRewards { address: name(a) });
        r.ok().map(|x| x.rewards.u128())
    }
    pub fn reg_validators(&self) -> Vec<(Id, u128)> {
        let r: Result<Vec<basset_sei_validators_registry::registry::ValidatorResponse>, String> = self.q(
            REG,
            &basset_sei_validators_registry::msg::QueryMsg::GetValidatorsForDelegation {},
        );
        r.map(|v| v.iter().map(|x| (id_of(&x.address), x.total_delegated.u128())).collect()).unwrap_or_default()
    }

    /// the validators the registry *stores* (its REGISTRY map), not what its list query answers
    pub fn reg_stored(&self) -> Vec<Id> {
        match self.stores.get(&REG) {
            Some(st) => basset_sei_validators_registry::registry::REGISTRY
                .range(st, None, None, cosmwasm_std::Order::Ascending)
                .filter_map(|r| r.ok())
                .map(|(_, v)| id_of(&v.address))
                .collect(),
            None => vec![],
        }
    }

    pub fn observe(&self) -> String {
        let j = |v: Vec<String>| v.join(",");
        let s8 = |a: [u128; 8]| a.iter().map(|x| x.to_string()).collect::<Vec<_>>().join(",");
        let raw = self.hub_state_raw();
        let hq = match self.hub_state_query() {
            Some(a) => s8(a),
            None => "ERR".into(),
        };
        let b = self.hub_batch();
        let params: Option<basset::hub::Parameters> = self.q(HUB, &basset::hub::QueryMsg::Parameters {}).ok();
        let params_s = match &params {
            Some(p) => format!(
                "{},{},{},{},{},{}",
                p.epoch_period,
                p.unbonding_period,
                at(p.peg_recovery_fee),
                at(p.er_threshold),
                denom_id(&p.reward_denom),
                match p.paused {
                    None => "n",
                    Some(true) => "t",
                    Some(false) => "f",
                }
            ),
            None => "?".into(),
        };
        let cfg_s = match self.stores.get(&HUB) {
            Some(st) => {
                let c = basset_sei_hub::state::CONFIG.load(st).ok();
                let no = basset_sei_hub::state::read_new_owner(st).ok();
                match (c, no) {
                    (Some(c), Some(no)) => format!(
                        "{},{},{},{},{},{},{},{},{}",
                        hum(&c.creator),
                        hum(&c.update_reward_index_addr),
                        hum_o(&c.reward_dispatcher_contract),
                        hum_o(&c.validators_registry_contract),
                        hum_o(&c.bsei_token_contract),
                        hum_o(&c.stsei_token_contract),
                        hum_o(&c.airdrop_registry_contract),
                        hum_o(&c.rewards_contract),
                        hum(&no.new_owner_addr)
                    ),
                    _ => "?".into(),
                }
            }
            None => "?".into(),
        };
        let hist = self
            .hub_history()
            .iter()
            .map(hist_s)
            .collect::<Vec<_>>()
            .join(";");
        let mut users = vec![];
        for u in cast_all().iter() {
            let reqs = self.hub_requests(*u);
            let wd = match self.hub_withdrawable(*u) {
                Some(n) => n.to_string(),
                None => "ERR".into(),
            };
            if reqs.is_empty() && (wd == "0" || wd == "ERR") {
                continue;
            }
            users.push(format!(
                "u{}=req[{}];wd={}",
                u,
                reqs.iter().map(|(b, x, y)| format!("({},{},{})", b, x, y)).collect::<String>(),
                wd
            ));
        }
        let tok = |t: Id| -> String {
            let mut bals = vec![];
            for a in cast_all().iter() {
                let b = self.token_balance(t, *a);
                if b != 0 {
                    bals.push(format!("{}:{}", a, b));
                }
            }
            let mut allows = vec![];
            for o in CAST.iter() {
                for s in CAST.iter() {
                    if let Some((amt, e)) = self.token_allowance(t, *o, *s) {
                        allows.push(format!("{}>{}:{}:{}", o, s, amt, e));
                    }
                }
            }
            format!(
                "{},{};bal[{}];allow[{}]",
                self.token_supply(t),
                match self.token_minter(t) {
                    Some(m) => m.to_string(),
                    None => "-".into(),
                },
                j(bals),
                j(allows)
            )
        };
        let rs = self.reward_state();
        let rcfg = match self.stores.get(&REWARD) {
            Some(st) => {
                let c = basset_sei_reward::state::read_config(st).ok();
                let no = basset_sei_reward::state::read_new_owner(st).ok();
                match (c, no) {
                    (Some(c), Some(no)) => format!(
                        "{},{},{},{},{},[{}]",
                        hum(&c.owner),
                        hum(&no.new_owner_addr),
                        hum(&c.hub_contract),
                        denom_id(&c.reward_denom),
                        hum(&c.swap_contract),
                        j(c.swap_denoms.iter().map(|d| denom_id(d).to_string()).collect())
                    ),
                    _ => "?".into(),
                }
            }
            None => "?".into(),
        };
        let mut holders = vec![];
        for a in cast_all().iter() {
            let (bal, idx, pend) = self.reward_holder(*a);
            if bal == 0 && idx == 0 && pend == 0 {
                continue;
            }
            let acc = match self.reward_accrued(*a) {
                Some(n) => n.to_string(),
                None => "ERR".into(),
            };
            holders.push(format!("{}:{}:{}:{}:{}", a, bal, idx, pend, acc));
        }
        let dcfg: Option<basset::dispatcher::ConfigResponse> =
            self.q(DISP, &basset_sei_rewards_dispatcher::msg::QueryMsg::Config {}).ok();
        let dno: Option<basset::dispatcher::NewOwnerResponse> =
            self.q(DISP, &basset_sei_rewards_dispatcher::msg::QueryMsg::NewOwner {}).ok();
        let disp_s = match (dcfg, dno) {
            (Some(c), Some(no)) => format!(
                "{},{},{},{},{},{},{},{},{},{},[{}]",
                ids(&c.owner),
                ids(&no.new_owner),
                ids(&c.hub_contract),
                ids(&c.bsei_reward_contract),
                denom_id(&c.stsei_reward_denom),
                denom_id(&c.bsei_reward_denom),
                ids(&c.krp_keeper_address),
                at(c.krp_keeper_rate),
                ids(&c.swap_contract),
                ids(&c.oracle_contract),
                j(c.swap_denoms.iter().map(|d| denom_id(d).to_string()).collect())
            ),
            _ => "?".into(),
        };
        let reg_s = match self.stores.get(&REG) {
            Some(st) => {
                let c = basset_sei_validators_registry::registry::CONFIG.load(st).ok();
                let no = basset_sei_validators_registry::registry::read_new_owner(st).ok();
                match (c, no) {
                    (Some(c), Some(no)) => format!("{},{},{}", hum(&c.owner), hum(&no.new_owner_addr), hum(&c.hub_contract)),
                    _ => "?".into(),
                }
            }
            None => "?".into(),
        };
        let regq = j(self.reg_validators().iter().map(|(v, a)| format!("{}:{}", v, a)).collect());
        let mut bank = vec![];
        for a in cast_all().iter() {
            for d in 0..3u8 {
                let b = self.bal(*a, d);
                if *a != SWAP && b != 0 {
                    bank.push(format!("{}.{}:{}", a, d, b));
                }
            }
        }
        let mut deleg = vec![];
        for v in VALS.iter() {
            if self.deleg.contains_key(v) {
                deleg.push(format!("{}:{}", v, self.deleg_of(*v)));
            }
        }
        let unb: String = self.unbonding.iter().map(|e| format!("({},{},{})", e.0, e.1, e.2)).collect();
        let mut pend = vec![];
        for v in VALS.iter() {
            for d in 0..3u8 {
                if self.pending_of(*v, d) != 0 {
                    pend.push(format!("{}.{}:{}", v, d, self.pending_of(*v, d)));
                }
            }
        }
        let nored = j(VALS.iter().filter(|v| self.no_redelegate.contains(v)).map(|v| v.to_string()).collect());
        let noundel = j(VALS.iter().filter(|v| self.no_undelegate.contains(v)).map(|v| v.to_string()).collect());
        let inactive = j(VALS.iter().filter(|v| self.inactive.contains(v)).map(|v| v.to_string()).collect());
        vec![
            format!("hub.raw={}", s8(raw)),
            format!("hub.q={}", hq),
            format!("batch={},{},{}", b.0, b.1, b.2),
            format!("params={}", params_s),
            format!("cfg={}", cfg_s),
            format!("hist=[{}]", hist),
            format!("legacy={}", self.legacy_count()),
            format!("users[{}]", users.join(" ")),
            format!("bsei={}", tok(BSEI)),
            format!("stsei={}", tok(STSEI)),
            format!("rw={},{},{};cfg={};h[{}]", rs.0, rs.1, rs.2, rcfg, j(holders)),
            format!("disp={}", disp_s),
            format!("reg={};[{}]", reg_s, regq),
            format!(
                "chain={},{};bank[{}];deleg[{}];unb[{}];pend[{}];wa={};nored[{}];noundel[{}];inactive[{}]",
                self.time,
                self.height,
                j(bank),
                j(deleg),
                unb,
                j(pend),
                self.withdraw_addr,
                nored,
                noundel,
                inactive
            ),
        ]
        .join(" ")
    }
}

#[allow(dead_code)]
pub fn u(x: Uint128) -> u128 {
    x.u128()
}
