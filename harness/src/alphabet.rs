//! The message alphabet of the six contracts, derived from `/repo`'s current source: for every
//! contract the type its `execute` (and `instantiate`) entry point takes — inferred from the entry
//! point itself — is turned into its JSON schema (the types derive `JsonSchema`) and the variant
//! names with their field names are printed; `build.rs` adds which entry points (`instantiate`,
//! `execute`, `query`, `migrate`, `reply`, `sudo`) each contract's `contract.rs` defines.
//! `./check` compares this with `tools/alphabet.json`: the model, the generators and the matrices
//! know exactly that alphabet, so a message or entry point they have never exercised breaks the tie.

use cosmwasm_std::{DepsMut, Env, MessageInfo, Response};
use schemars::schema::RootSchema;
use schemars::{schema_for, JsonSchema};
use std::collections::BTreeMap;

fn exec_schema<M: JsonSchema, E>(_f: fn(DepsMut, Env, MessageInfo, M) -> Result<Response, E>) -> RootSchema {
    schema_for!(M)
}

/// variant → sorted field names (a struct message is reported as the single variant "*")
fn variants(s: &RootSchema) -> BTreeMap<String, Vec<String>> {
    let v = serde_json::to_value(s).unwrap();
    let mut out = BTreeMap::new();
    let mut alts: Vec<serde_json::Value> = vec![];
    for key in ["oneOf", "anyOf"] {
        if let Some(a) = v.get(key).and_then(|x| x.as_array()) {
            alts.extend(a.iter().cloned());
        }
    }
    if alts.is_empty() {
        // a plain struct
        let fields: Vec<String> = v.get("properties").and_then(|p| p.as_object()).map(|o| o.keys().cloned().collect()).unwrap_or_default();
        out.insert("*".to_string(), fields);
        return out;
    }
    for a in alts {
        if let Some(names) = a.get("enum").and_then(|e| e.as_array()) {
            for n in names {
                out.insert(n.as_str().unwrap_or("?").to_string(), vec![]);
            }
            continue;
        }
        if let Some(props) = a.get("properties").and_then(|p| p.as_object()) {
            for (name, body) in props {
                let mut fields: Vec<String> = body.get("properties").and_then(|p| p.as_object()).map(|o| o.keys().cloned().collect()).unwrap_or_default();
                fields.sort();
                out.insert(name.clone(), fields);
            }
        }
    }
    out
}

pub fn cmd_alphabet() {
    let mut all: BTreeMap<String, serde_json::Value> = BTreeMap::new();
    let mut put = |name: &str, ex: RootSchema, inst: RootSchema, entries: &str| {
        let mut e: Vec<&str> = entries.split(',').filter(|x| !x.is_empty()).collect();
        e.sort();
        all.insert(
            name.to_string(),
            serde_json::json!({ "execute": variants(&ex), "instantiate": variants(&inst), "entry_points": e }),
        );
    };
    put("hub", exec_schema(basset_sei_hub::contract::execute), exec_schema(basset_sei_hub::contract::instantiate), env!("KRP_ENTRY_hub"));
    put("bsei", exec_schema(basset_sei_token_bsei::contract::execute), exec_schema(basset_sei_token_bsei::contract::instantiate), env!("KRP_ENTRY_bsei"));
    put("stsei", exec_schema(basset_sei_token_stsei::contract::execute), exec_schema(basset_sei_token_stsei::contract::instantiate), env!("KRP_ENTRY_stsei"));
    put("reward", exec_schema(basset_sei_reward::contract::execute), exec_schema(basset_sei_reward::contract::instantiate), env!("KRP_ENTRY_reward"));
    put("disp", exec_schema(basset_sei_rewards_dispatcher::contract::execute), exec_schema(basset_sei_rewards_dispatcher::contract::instantiate), env!("KRP_ENTRY_disp"));
    put("reg", exec_schema(basset_sei_validators_registry::contract::execute), exec_schema(basset_sei_validators_registry::contract::instantiate), env!("KRP_ENTRY_reg"));
    println!("{}", serde_json::to_string_pretty(&all).unwrap());
}
