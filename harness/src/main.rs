mod alphabet;
mod chain;
mod gen;
mod matrix;
mod obs;
mod ops;
mod oracle;
mod pure;

use chain::*;
use ops::*;
use oracle::*;
use std::collections::BTreeMap;
use std::io::Write;

fn silence_panics() {
    std::panic::set_hook(Box::new(|_| {}));
}

pub fn jesc(s: &str) -> String {
    let mut o = String::new();
    for ch in s.chars() {
        match ch {
            '"' => o.push_str("\\\""),
            '\\' => o.push_str("\\\\"),
            '\n' => o.push_str("\\n"),
            '\t' => o.push(' '),
            c if (c as u32) < 0x20 => o.push(' '),
            c => o.push(c),
        }
    }
    o
}

/// does this successful op take the history out of the E3 envelope (trusted owner configuration)?
/// the configuration fields of an observation line (hub params and config, reward / dispatcher /
/// registry configuration, token minters)
fn cfg_part(obs: &str) -> String {
    let mut out = vec![];
    for t in obs.split(' ') {
        if t.starts_with("params=") || t.starts_with("cfg=") || t.starts_with("disp=") {
            out.push(t.to_string());
        } else if t.starts_with("rw=") {
            out.push(t.split(";h[").next().unwrap_or("").split(';').skip(1).collect::<Vec<_>>().join(";"));
        } else if t.starts_with("reg=") {
            out.push(t.split(';').next().unwrap_or("").to_string());
        } else if t.starts_with("bsei=") || t.starts_with("stsei=") {
            out.push(t.split(';').next().unwrap_or("").split(',').nth(1).unwrap_or("").to_string());
        }
    }
    out.join(" ")
}

fn leaves_envelope(op: &Op) -> bool {
    match op {
        Op::Tx { call, .. } => match call {
            Call::Hub(HubMsg::UConfig(f)) => f.iter().any(|x| x.is_some()),
            Call::Hub(HubMsg::UParams(_, u, _, _, _, rd)) => u.is_some() || rd.is_some(),
            Call::Reward(RewMsg::UConfig(..)) | Call::Reward(RewMsg::USwapDenom(..)) => true,
            Call::Disp(DispMsg::UConfig(h, r, sd, bd, _, _)) => h.is_some() || r.is_some() || sd.is_some() || bd.is_some(),
            Call::Disp(DispMsg::USwap(..)) | Call::Disp(DispMsg::UOracle(..)) => true,
            // adding (or re-adding) a swap denom keeps E3 ("swap_denoms contains both reward denoms"); removing one may not
            // (the third denomination is not one of the two reward denominations)
            Call::Disp(DispMsg::USwapDenom(d, is_add)) => !*is_add && *d != 2,
            Call::Reg(RegMsg::UConfig(h)) => h.is_some(),
            Call::Tok(TokMsg::UMinter(..)) => true,
            _ => false,
        },
        Op::Env(EnvOp::UnbondingTime(_)) => false,
        Op::Inst(_) => false,
        _ => false,
    }
}

pub struct Runner {
    pub chain: Chain,
    pub envelope: bool,
    pub genesis_done: bool,
    pub inst: std::collections::BTreeSet<&'static str>,
    pub violations: Vec<(usize, usize, Violation)>, // (history, op index in file, violation)
    pub kinds: BTreeMap<String, (u64, u64)>,
    pub stats: BTreeMap<&'static str, u64>,
    pub history: usize,
    pub line_no: usize,
    pub bsei_init_with_balances: bool,
    pub saved: Option<(Chain, bool, bool, BTreeMap<Id, (Id, Id)>, Option<u128>, BTreeMap<u64, u64>, bool, BTreeMap<(Id, Id, Id), String>, Option<u64>)>,
    /// C10 ghost: (owner, nominee) per contract as the *history* of successful SetOwner /
    /// AcceptOwnership calls determines them, independent of what the contract stores
    pub ghost_roles: BTreeMap<Id, (Id, Id)>,
    /// C15 ghost: what the reward contract should have on record, from the *bank* history alone:
    /// its reward-denom bank balance at the last index update minus what has been paid out since
    pub ghost_recorded: Option<u128>,
    /// C09 ghost: per batch id, when the chain pays its undelegation (chain time of the step that
    /// wrote the history entry + the chain's unbonding time) — from the history of operations, not
    /// from the time the hub recorded
    pub ghost_completion: BTreeMap<u64, u64>,
    /// E2 (chain unbonding time = hub unbonding_period) has held at every judged step so far
    pub e2_ok: bool,
    /// C18 ghost: expiration of every allowance (token, owner, spender) as the owner's successful
    /// Increase/DecreaseAllowance calls determine it (an omitted `expires` keeps the current one)
    pub ghost_allow: BTreeMap<(Id, Id, Id), String>,
    /// C09 ghost: chain time of the last undelegation (or of the hub's instantiation), from the
    /// history of operations — what `last_unbonded_time` must be
    pub ghost_last_und: Option<u64>,
    /// C20 / C05 ghost: (epoch, unbonding, peg fee, threshold) as the *history* of successful
    /// instantiate / UpdateParams messages determines them (threshold capped at 1, an omitted field
    /// keeps its value), independent of what the hub stores
    pub ghost_params: Option<(u64, u64, u128, u128)>,
    /// the mirror path has named the system's own contracts at every step since genesis
    pub mirror_trust: bool,
    pub saved_mirror_trust: bool,
    /// no contract has been instantiated a second time in this history
    pub inst_once: bool,
    pub saved_params: Option<(u64, u64, u128, u128)>,
    /// E1 (magnitudes ≤ 10^18) has been left in this history
    pub e1_broken: bool,
    pub deep: bool,
}

impl Runner {
    pub fn new() -> Runner {
        Runner {
            chain: Chain::new(),
            envelope: true,
            genesis_done: false,
            inst: Default::default(),
            violations: vec![],
            kinds: BTreeMap::new(),
            stats: BTreeMap::new(),
            history: 0,
            line_no: 0,
            bsei_init_with_balances: false,
            saved: None,
            ghost_roles: BTreeMap::new(),
            ghost_recorded: None,
            ghost_completion: BTreeMap::new(),
            e2_ok: true,
            ghost_allow: BTreeMap::new(),
            ghost_last_und: None,
            ghost_params: None,
            mirror_trust: true,
            saved_mirror_trust: true,
            inst_once: true,
            saved_params: None,
            e1_broken: false,
            deep: std::env::var("KRP_DEEP").map(|v| v == "1").unwrap_or(false),
        }
    }

    fn bump(&mut self, k: &'static str) {
        *self.stats.entry(k).or_insert(0) += 1;
    }

    /// apply one op, evaluate the oracles, return the output line
    pub fn step(&mut self, op: &Op) -> String {
        self.line_no += 1;
        if let Op::Reset = op {
            self.chain.apply(op);
            self.envelope = true;
            self.genesis_done = false;
            self.inst.clear();
            self.ghost_roles.clear();
            self.ghost_recorded = None;
            self.ghost_completion.clear();
            self.e2_ok = true;
            self.ghost_allow.clear();
            self.ghost_last_und = None;
            self.ghost_params = None;
            self.mirror_trust = true;
            self.inst_once = true;
            self.history += 1;
            self.bsei_init_with_balances = false;
            self.e1_broken = false;
            return "ok | reset".to_string();
        }
        if let Op::Save = op {
            self.saved_params = self.ghost_params;
            self.saved_mirror_trust = self.mirror_trust;
            self.saved = Some((self.chain.clone(), self.envelope, self.bsei_init_with_balances, self.ghost_roles.clone(), self.ghost_recorded, self.ghost_completion.clone(), self.e2_ok, self.ghost_allow.clone(), self.ghost_last_und));
            return "ok | save".to_string();
        }
        if let Op::Restore = op {
            self.ghost_params = self.saved_params;
            self.mirror_trust = self.saved_mirror_trust;
            if let Some((c, e, b, g, gr, gc, e2, ga, glu)) = self.saved.clone() {
                self.ghost_last_und = glu;
                self.ghost_allow = ga;
                self.ghost_recorded = gr;
                self.ghost_completion = gc;
                self.e2_ok = e2;
                self.chain = c;
                self.envelope = e;
                self.bsei_init_with_balances = b;
                self.ghost_roles = g;
            }
            return "ok | restore".to_string();
        }
        if let Op::Query(q) = op {
            let e = self.kinds.entry(op_kind(op).to_string()).or_insert((0, 0));
            return match q {
                Query::Hist(start, limit) => match self.chain.hub_history_page(*start, *limit) {
                    Ok(page) => {
                        e.0 += 1;
                        // the page the query is specified to return, from the entries read one by one
                        let lim = limit.unwrap_or(10).min(100) as usize;
                        let want: Vec<_> = self.chain.hub_history_stored().into_iter().filter(|h| start.map_or(true, |s| h.id > s)).take(lim).collect();
                        if self.inst.len() == 6 && want != page {
                            self.violations.push((self.history, self.line_no, Violation {
                                prop: "C07",
                                class: "all-history-page-wrong".into(),
                                detail: format!("AllHistory(start_from {:?}, limit {:?}) returned batches {:?}; the stored entries above the start are {:?}", start, limit, page.iter().map(|h| h.id).collect::<Vec<_>>(), want.iter().map(|h| h.id).collect::<Vec<_>>()),
                            }));
                        }
                        if page.len() > 1 {
                            self.bump("history_pages_of_several_entries");
                        }
                        if page.len() == lim && lim > 0 {
                            self.bump("history_pages_full");
                        }
                        format!("ok | page=[{}]", page.iter().map(obs::hist_s).collect::<Vec<_>>().join(";"))
                    }
                    Err(er) => {
                        e.1 += 1;
                        format!("err:{} | page=[]", er.replace('\n', " ").replace('|', "/"))
                    }
                },
            };
        }
        let kind = op_kind(op);
        let judged = self.inst.len() == 6;
        let pre_chain = if judged { Some(self.chain.clone()) } else { None };
        let pre = if judged { Some(snap(&self.chain)) } else { None };
        let r = self.chain.apply(op);
        let e = self.kinds.entry(kind.to_string()).or_insert((0, 0));
        if r.ok {
            e.0 += 1
        } else {
            e.1 += 1
        }
        if let Op::Inst(i) = op {
            if r.ok {
                self.inst.insert(match i {
                    Inst::Hub { .. } => {
                        // the epoch clock starts at instantiation
                        self.ghost_last_und = if judged { None } else { Some(self.chain.time) };
                        "hub"
                    }
                    Inst::Bsei { bals, .. } => {
                        self.bsei_init_with_balances = !bals.is_empty();
                        "bsei"
                    }
                    Inst::Stsei { .. } => "stsei",
                    Inst::Reward { .. } => {
                        // a fresh reward contract has nothing on record
                        self.ghost_recorded = if judged { None } else { Some(0) };
                        "reward"
                    }
                    Inst::Disp { .. } => "disp",
                    Inst::Reg { .. } => "reg",
                });
                if judged {
                    // a re-instantiation in the middle of a history resets that contract: the
                    // cross-contract invariants are no longer meaningful for the rest of it
                    self.envelope = false;
                    self.inst_once = false;
                }
            }
        }
        // C20 / C05 ghost parameters
        if r.ok {
            match op {
                Op::Inst(Inst::Hub { epoch, unbonding, fee, thr, .. }) => {
                    self.ghost_params = Some((*epoch, *unbonding, *fee, (*thr).min(D)));
                }
                Op::Tx { target, call: Call::Hub(HubMsg::UParams(e, u, f, t, _, _)), .. } if *target == HUB => {
                    if let Some(g) = self.ghost_params.as_mut() {
                        if let Some(x) = e {
                            g.0 = *x;
                        }
                        if let Some(x) = u {
                            g.1 = *x;
                        }
                        if let Some(x) = f {
                            g.2 = *x;
                        }
                        if let Some(x) = t {
                            g.3 = (*x).min(D);
                        }
                    }
                }
                _ => {}
            }
        }
        // C10 ghost roles
        if r.ok {
            match op {
                Op::Inst(i) => {
                    let t = match i {
                        Inst::Hub { .. } => Some(HUB),
                        Inst::Reward { .. } => Some(REWARD),
                        Inst::Disp { .. } => Some(DISP),
                        Inst::Reg { .. } => Some(REG),
                        _ => None,
                    };
                    if let Some(t) = t {
                        if let Some(ro) = roles(&self.chain, t) {
                            self.ghost_roles.insert(t, ro);
                        }
                    }
                }
                Op::Tx { sender, target, call, .. } => {
                    let set = match call {
                        Call::Hub(HubMsg::SetOwner(x)) | Call::Reward(RewMsg::SetOwner(x)) | Call::Disp(DispMsg::SetOwner(x)) | Call::Reg(RegMsg::SetOwner(x)) => Some(*x),
                        _ => None,
                    };
                    let acc = matches!(call, Call::Hub(HubMsg::Accept) | Call::Reward(RewMsg::Accept) | Call::Disp(DispMsg::Accept) | Call::Reg(RegMsg::Accept));
                    if set.is_some() || acc {
                        if let Some(g) = self.ghost_roles.get_mut(target) {
                            if let Some(x) = set {
                                if g.0 != *sender {
                                    self.violations.push((self.history, self.line_no, Violation { prop: "C10", class: format!("unauthorised-succeeded:{}", kind), detail: format!("SetOwner on {} by {} succeeded; the owner by history is {}", target, sender, g.0) }));
                                }
                                g.1 = x;
                            }
                            if acc {
                                if g.1 != *sender {
                                    self.violations.push((self.history, self.line_no, Violation { prop: "C10", class: format!("accept-by-non-nominee:{}", kind), detail: format!("AcceptOwnership on {} by {} succeeded; the last nomination was {}", target, sender, g.1) }));
                                }
                                g.0 = *sender;
                            }
                            let g2 = *g;
                            if let Some(ro) = roles(&self.chain, *target) {
                                if ro != g2 {
                                    self.violations.push((self.history, self.line_no, Violation { prop: "C10", class: format!("ownership-state-diverged:{}", kind), detail: format!("contract {} stores (owner, nominee) = {:?}; the successful SetOwner / AcceptOwnership calls so far give {:?}", target, ro, g2) }));
                                }
                            }
                        }
                    }
                }
                _ => {}
            }
        }
        if let (Some(pre), Some(pre_chain)) = (pre, pre_chain) {
            let post = snap(&self.chain);
            let big = [post.supply_b, post.supply_s, post.raw[2], post.raw[3], post.hub_bank, post.delegated, post.rw.2, post.reward_bank, post.unbonding_total]
                .iter()
                .chain(post.bal_b.values())
                .chain(post.bal_s.values())
                .any(|x| *x > D);
            if big {
                self.e1_broken = true;
            }
            let effects = self.chain.effects.clone();
            // C09 ghost bookkeeping: batches closed by this step are paid by the chain at now + its unbonding time
            if self.genesis_done && post.unbonding != self.chain.unbonding_time {
                self.e2_ok = false;
            }
            for h in post.hist.iter() {
                if !pre.hist.iter().any(|x| x.id == h.id) {
                    self.ghost_completion.insert(h.id, self.chain.time + self.chain.unbonding_time);
                }
            }
            if self.genesis_done && !mirror_wired(&self.chain) {
                self.mirror_trust = false;
            }
            let ghost_completion = if self.e2_ok { Some(self.ghost_completion.clone()) } else { None };
            let cx = StepCtx {
                pre: &pre,
                post: &post,
                op,
                ok: r.ok,
                effects: &effects,
                chain_pre: &pre_chain,
                chain_post: &self.chain,
                err: &r.err,
                deep: self.deep,
                ghost_recorded: self.ghost_recorded,
                ghost_completion: ghost_completion.as_ref(),
                ghost_allow: &self.ghost_allow,
                ghost_last_und: self.ghost_last_und,
                envelope: self.envelope && !self.bsei_init_with_balances && !self.e1_broken && self.chain.withdraw_addr == DISP,
                mirror_ok: self.genesis_done && self.mirror_trust && !self.bsei_init_with_balances && !self.e1_broken && self.inst_once,
            };
            let cx_envelope = cx.envelope;
            // an upgrade to the same code changes nothing: every `migrate` entry point of the
            // repository is the identity on a current deployment
            if let Op::Env(EnvOp::Migrate(c)) = op {
                if r.ok {
                    let (a, b) = (pre_chain.observe(), self.chain.observe());
                    if a != b {
                        let diff: Vec<String> = a.split(' ').zip(b.split(' ')).filter(|(x, y)| x != y).map(|(x, y)| format!("{} → {}", x.chars().take(90).collect::<String>(), y.chars().take(90).collect::<String>())).take(3).collect();
                        let fields: Vec<&str> = a.split(' ').zip(b.split(' ')).filter(|(x, y)| x != y).map(|(x, _)| x.split('=').next().unwrap_or("")).collect();
                        let detail = format!("upgrade of contract {} to the same code changed the state: {}", c, diff.join("; "));
                        let mut props: Vec<&'static str> = vec![];
                        for f in fields.iter() {
                            let ps: &[&'static str] = match *f {
                                "params" => &["C11", "C20"],
                                "legacy" | "users[" => &["C11", "C07"],
                                "cfg" => &["C10", "C20"],
                                "hub.raw" | "hub.q" | "batch" => &["C04", "C02"],
                                "hist" => &["C08"],
                                "bsei" | "stsei" => &["C18"],
                                "rw" => &["C16", "C14"],
                                "disp" => &["C20", "C17"],
                                "reg" => &["C13"],
                                _ => &["C11"],
                            };
                            for p in ps {
                                if !props.contains(p) {
                                    props.push(p);
                                }
                            }
                        }
                        for p in props {
                            self.violations.push((self.history, self.line_no, Violation { prop: p, class: "upgrade-changed-state".into(), detail: detail.clone() }));
                        }
                    }
                }
            }
            if let Some(g) = self.ghost_params {
                let stored = (post.epoch, post.unbonding, post.fee, post.thr);
                if stored != g && !self.e1_broken {
                    let what = format!("{}: the hub stores (epoch, unbonding, fee, threshold) = {:?}; the successful instantiate / UpdateParams messages so far give {:?}", kind, stored, g);
                    self.violations.push((self.history, self.line_no, Violation { prop: "C20", class: "stored-parameters-ne-history".into(), detail: what.clone() }));
                    if stored.2 != g.2 || stored.3 != g.3 {
                        self.violations.push((self.history, self.line_no, Violation { prop: "C05", class: "fee-parameters-ne-history".into(), detail: what }));
                    }
                }
            }
            if !self.e1_broken {
                for vi in check_step(&cx) {
                    self.violations.push((self.history, self.line_no, vi));
                }
            } else {
                self.bump("ops_outside_e1");
            }
            // C09 ghost bookkeeping: the clock of the epoch gate restarts at every undelegation
            if post.hist.iter().any(|h| !pre.hist.iter().any(|x| x.id == h.id)) {
                self.ghost_last_und = Some(self.chain.time);
            }
            // C18 ghost bookkeeping: allowance expirations from the history of the owner's calls
            if r.ok {
                if let Op::Tx { sender, target, call: Call::Tok(m), .. } = op {
                    if *target == BSEI || *target == STSEI {
                        match m {
                            TokMsg::IncAllow(sp, _, e) | TokMsg::DecAllow(sp, _, e) => {
                                let key = (*target, *sender, *sp);
                                if self.chain.token_allowance(*target, *sender, *sp).is_none() {
                                    self.ghost_allow.remove(&key);
                                } else {
                                    let es = match e {
                                        Some(Exp::H(h)) => Some(format!("h{}", h)),
                                        Some(Exp::T(t)) => Some(format!("t{}", t)),
                                        Some(Exp::Never) => Some("n".to_string()),
                                        None => None,
                                    };
                                    match es {
                                        Some(x) => {
                                            self.ghost_allow.insert(key, x);
                                        }
                                        None => {
                                            self.ghost_allow.entry(key).or_insert_with(|| "n".to_string());
                                        }
                                    }
                                }
                            }
                            TokMsg::TransferFrom(o, _, _) | TokMsg::SendFrom(o, _, _, _) | TokMsg::BurnFrom(o, _) => {
                                if self.chain.token_allowance(*target, *o, *sender).is_none() {
                                    self.ghost_allow.remove(&(*target, *o, *sender));
                                }
                            }
                            _ => {}
                        }
                    }
                }
            }
            // C15 ghost bookkeeping (bank history only)
            if !cx_envelope {
                self.ghost_recorded = None;
            } else if let Some(g) = self.ghost_recorded {
                if post.rw.0 != pre.rw.0 {
                    self.ghost_recorded = Some(post.reward_bank);
                } else {
                    // what the contract paid out in the reward coin (deposits that arrive in the
                    // same transaction are deliveries, not negative payouts)
                    let paid: u128 = effects.iter().map(|e| match e {
                        Effect::Bank { from, denom, amt, .. } if *from == REWARD && *denom == 1 => *amt,
                        _ => 0,
                    }).sum();
                    if paid > 0 {
                        self.ghost_recorded = Some(g.saturating_sub(paid));
                    }
                }
            }
            // coverage statistics
            if let Some(q) = post.q {
                if q[0] < D {
                    self.bump("states_with_bsei_rate_below_one");
                }
                if q[1] > D {
                    self.bump("states_with_stsei_rate_above_one");
                }
                if q[2] == 0 && post.supply_b + post.batch.1 > 0 {
                    self.bump("states_zero_backed_bsei");
                }
                if q[2] > 0 && q[3] > 0 && ((post.supply_b == 0 && post.batch.1 > 0) || (post.supply_s == 0 && post.batch.2 > 0)) {
                    self.bump("states_whole_supply_of_a_token_pending");
                    if post.raw[2] + post.raw[3] > post.delegated {
                        self.bump("states_whole_supply_pending_with_unrecognised_slash");
                    }
                }
            }
            if kind == "reg.redelegations" && r.ok && effects.iter().any(|e| matches!(e, Effect::Redelegate { .. })) {
                self.bump("stranded_stake_redelegated");
            }
            if kind == "reg.remove" && r.ok && effects.iter().any(|e| matches!(e, Effect::Redelegate { .. })) {
                self.bump("removals_with_redelegation");
            }
            if post.hist.len() > pre.hist.len() {
                self.bump("undelegations");
            }
            let newly = post.hist.iter().filter(|h| h.released).count() as i64 - pre.hist.iter().filter(|h| h.released).count() as i64;
            if newly > 0 {
                self.bump("releases");
                if newly > 1 {
                    self.bump("releases_of_several_batches");
                }
            }
            if pre.delegated > pre.raw[2] + pre.raw[3] {
                self.bump("states_with_unbooked_delegation");
            }
            if pre.raw[2] + pre.raw[3] > pre.delegated {
                self.bump("states_with_unrecognised_slash");
            }
            // genesis ends with the first transaction after the hub has been wired (a staged
            // deployment takes several UpdateConfig messages, with strangers' messages in between)
            if let Op::Tx { call, .. } = op {
                if !self.genesis_done && !matches!(call, Call::Hub(HubMsg::UConfig(..))) {
                    let w = self.chain.hub_wiring();
                    if w[0].is_some() && w[1].is_some() && w[2].is_some() && w[3].is_some() && w[5].is_some() {
                        self.genesis_done = true;
                        if w[0] != Some(DISP) || w[1] != Some(REG) || w[2] != Some(BSEI) || w[3] != Some(STSEI) || w[5] != Some(REWARD) {
                            // wired to something else than the six contracts: outside E3
                            self.envelope = false;
                        }
                    }
                }
            }
            // a configuration message leaves E3 only if it changed the configuration: the owner
            // re-sending the values a contract already has must be a no-op
            if r.ok && self.genesis_done && leaves_envelope(op) && cfg_part(&pre_chain.observe()) != cfg_part(&self.chain.observe()) {
                self.envelope = false;
            }
        }
        let flag = if self.e1_broken { "!E1" } else { "" };
        // transactions also show the pre-order trace of every message handled (the failing one marked `!`)
        let tr = if matches!(op, Op::Tx { .. }) { format!(" trace=[{}]", self.chain.trace.join(";")) } else { String::new() };
        if r.ok {
            format!("ok{} | {}{}", flag, self.chain.observe(), tr)
        } else {
            format!("err{}:{} | {}{}", flag, r.err.replace('\n', " ").replace('|', "/"), self.chain.observe(), tr)
        }
    }

    pub fn report_json(&self, extra: &str) -> String {
        let mut s = String::from("{");
        s.push_str("\"violations\":[");
        for (i, (h, l, vi)) in self.violations.iter().enumerate() {
            if i > 0 {
                s.push(',');
            }
            s.push_str(&format!(
                "{{\"history\":{},\"line\":{},\"prop\":\"{}\",\"class\":\"{}\",\"detail\":\"{}\"}}",
                h,
                l,
                vi.prop,
                jesc(&vi.class),
                jesc(&vi.detail)
            ));
        }
        s.push_str("],\"kinds\":{");
        for (i, (k, (a, b))) in self.kinds.iter().enumerate() {
            if i > 0 {
                s.push(',');
            }
            s.push_str(&format!("\"{}\":[{},{}]", k, a, b));
        }
        s.push_str("},\"stats\":{");
        for (i, (k, a)) in self.stats.iter().enumerate() {
            if i > 0 {
                s.push(',');
            }
            s.push_str(&format!("\"{}\":{}", k, a));
        }
        s.push_str("}");
        s.push_str(extra);
        s.push('}');
        s
    }
}

fn cmd_replay(ops_path: &str, out_path: &str, report_path: Option<&String>) {
    let text = std::fs::read_to_string(ops_path).expect("ops file");
    let mut out = std::io::BufWriter::new(std::fs::File::create(out_path).expect("out file"));
    let mut r = Runner::new();
    for line in text.lines() {
        if line.trim().is_empty() {
            continue;
        }
        if line.starts_with("f ") {
            writeln!(out, "{}", pure::eval_line(line)).unwrap();
            r.line_no += 1;
            continue;
        }
        match parse_line(line) {
            None => {
                r.line_no += 1;
                writeln!(out, "bad-op").unwrap();
            }
            Some(op) => {
                let o = r.step(&op);
                writeln!(out, "{}", o).unwrap();
            }
        }
    }
    if let Some(p) = report_path {
        std::fs::write(p, r.report_json("")).unwrap();
    }
}

fn cmd_gen(a: &[String]) {
    // gen <family> <seed> <histories> <len> <ops_out> <obs_out> <report_out>
    let family = &a[0];
    let seed: u64 = a[1].parse().unwrap();
    let histories: usize = a[2].parse().unwrap();
    let len: usize = a[3].parse().unwrap();
    let mut ops_out = std::io::BufWriter::new(std::fs::File::create(&a[4]).unwrap());
    let mut obs_out = std::io::BufWriter::new(std::fs::File::create(&a[5]).unwrap());
    let mut r = Runner::new();
    let mut total_ops = 0usize;
    for h in 0..histories {
        let mut g = gen::Gen::new(seed.wrapping_mul(1_000_003).wrapping_add(h as u64), family);
        for op in g.genesis() {
            writeln!(ops_out, "{}", op.to_line()).unwrap();
            let o = r.step(&op);
            writeln!(obs_out, "{}", o).unwrap();
        }
        for _ in 0..len {
            let op = g.next_op(&r.chain);
            writeln!(ops_out, "{}", op.to_line()).unwrap();
            let o = r.step(&op);
            writeln!(obs_out, "{}", o).unwrap();
            total_ops += 1;
        }
    }
    let extra = format!(",\"family\":\"{}\",\"seed\":{},\"histories\":{},\"ops\":{}", family, seed, histories, total_ops);
    std::fs::write(&a[6], r.report_json(&extra)).unwrap();
}

/// shrink a single-history ops file while a violation of (prop, class-prefix) persists
fn cmd_shrink(a: &[String]) {
    // shrink <ops_in> <prop> <class_prefix> <ops_out>
    let text = std::fs::read_to_string(&a[0]).unwrap();
    let prop = &a[1];
    let class = &a[2];
    let lines: Vec<String> = text.lines().filter(|l| !l.trim().is_empty()).map(|s| s.to_string()).collect();
    let fails = |ls: &[String]| -> bool {
        let mut r = Runner::new();
        for l in ls {
            if let Some(op) = parse_line(l) {
                r.step(&op);
            }
        }
        r.violations.iter().any(|(_, _, v)| v.prop == prop && v.class.starts_with(class.as_str()))
    };
    let mut cur = lines.clone();
    if !fails(&cur) {
        std::fs::write(&a[3], cur.join("\n") + "\n").unwrap();
        println!("not-reproduced");
        return;
    }
    // truncate after the first failing op
    {
        let mut r = Runner::new();
        let mut cut = cur.len();
        for (i, l) in cur.iter().enumerate() {
            if let Some(op) = parse_line(l) {
                r.step(&op);
            }
            if r.violations.iter().any(|(_, _, v)| v.prop == prop && v.class.starts_with(class.as_str())) {
                cut = i + 1;
                break;
            }
        }
        cur.truncate(cut);
    }
    // the genesis prefix (up to the first non inst/uconfig/env op) is kept
    let mut budget = 400;
    let mut chunk = (cur.len() / 2).max(1);
    while chunk >= 1 && budget > 0 {
        let mut i = 0;
        let mut progressed = false;
        while i < cur.len() && budget > 0 {
            let end = (i + chunk).min(cur.len());
            // never drop reset / inst lines
            if cur[i..end].iter().any(|l| l.starts_with("reset") || l.starts_with("inst ")) {
                i += 1;
                continue;
            }
            let mut cand = cur.clone();
            cand.drain(i..end);
            budget -= 1;
            if fails(&cand) {
                cur = cand;
                progressed = true;
            } else {
                i += chunk;
            }
        }
        if chunk == 1 && !progressed {
            break;
        }
        if !progressed || chunk > 1 {
            chunk = if chunk > 1 { chunk / 2 } else { 1 };
        }
    }
    std::fs::write(&a[3], cur.join("\n") + "\n").unwrap();
    println!("shrunk {} -> {}", lines.len(), cur.len());
}

fn main() {
    silence_panics();
    let args: Vec<String> = std::env::args().collect();
    match args.get(1).map(|s| s.as_str()) {
        Some("replay") => cmd_replay(&args[2], &args[3], args.get(4)),
        Some("gen") => cmd_gen(&args[2..]),
        Some("shrink") => cmd_shrink(&args[2..]),
        Some("pure") => pure::cmd_pure(&args[2..]),
        Some("matrix") => matrix::cmd_matrix(&args[2..]),
        Some("alphabet") => alphabet::cmd_alphabet(),
        _ => {
            eprintln!("usage: krp-harness replay|gen|shrink|pure|matrix|alphabet ...");
            std::process::exit(2);
        }
    }
}
