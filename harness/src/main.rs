mod chain;
mod obs;
mod ops;

use chain::*;
use ops::*;
use std::io::{BufRead, Write};

fn silence_panics() {
    std::panic::set_hook(Box::new(|_| {}));
}

fn replay(ops_path: &str, out_path: &str) {
    let f = std::fs::File::open(ops_path).expect("ops file");
    let mut out = std::io::BufWriter::new(std::fs::File::create(out_path).expect("out file"));
    let mut c = Chain::new();
    for line in std::io::BufReader::new(f).lines() {
        let line = line.unwrap();
        if line.trim().is_empty() {
            continue;
        }
        match parse_line(&line) {
            None => {
                writeln!(out, "bad-op").unwrap();
            }
            Some(Op::Reset) => {
                c.apply(&Op::Reset);
                writeln!(out, "ok | reset").unwrap();
            }
            Some(op) => {
                let r = c.apply(&op);
                if r.ok {
                    writeln!(out, "ok | {}", c.observe()).unwrap();
                } else {
                    writeln!(out, "err:{} | {}", r.err.replace('\n', " "), c.observe()).unwrap();
                }
            }
        }
    }
}

fn main() {
    silence_panics();
    let args: Vec<String> = std::env::args().collect();
    match args.get(1).map(|s| s.as_str()) {
        Some("replay") => replay(&args[2], &args[3]),
        _ => {
            eprintln!("usage: krp-harness replay <ops> <out>");
            std::process::exit(2);
        }
    }
}
