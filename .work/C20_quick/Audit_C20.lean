import Krp.Props.C20
#print axioms Krp.C20_hub_init_range
#print axioms Krp.C20_update_params_fields
#print axioms Krp.C20_hub_step_range
#print axioms Krp.C20_hub_update_config_fields
#print axioms Krp.C20_dispatcher_fields
#print axioms Krp.C20_rejected_changes_nothing
