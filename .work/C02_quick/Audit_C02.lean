import Krp.Props.C02
#print axioms Krp.C02_bond_delegated_in_full
#print axioms Krp.C02_books_le_delegated
#print axioms Krp.C02_bond_keeps_gap
#print axioms Krp.C02_undelegation_exact
#print axioms Krp.C02_convert_keeps_sum
