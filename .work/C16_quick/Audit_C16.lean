import Krp.Props.C16
#print axioms Krp.C16_token_emits_exact_mirror
#print axioms Krp.C16_reward_applies
#print axioms Krp.C16_queue_step_token
#print axioms Krp.C16_queue_step_reward
#print axioms Krp.C16_drained
#print axioms Krp.C16_init
