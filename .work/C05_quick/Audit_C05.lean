import Krp.Props.C05
#print axioms Krp.C05_fee_on_mint
#print axioms Krp.C05_fee_on_burn
#print axioms Krp.C05_bond_not_past_peg
#print axioms Krp.C05_convert_stsei_bsei_not_past_peg
#print axioms Krp.C05_unbond_not_past_peg
#print axioms Krp.C05_convert_bsei_stsei_partial
#print axioms Krp.C05_convert_bsei_stsei_counterexample
