import Krp.Props.C17
#print axioms Krp.C17_offer_le_available
#print axioms Krp.C17_share
#print axioms Krp.C17_dispatch_conserves
#print axioms Krp.C17_no_zero_transfer_partial
#print axioms Krp.C17_zero_transfer_counterexample
#print axioms Krp.C17_keeper_rate_le_one
