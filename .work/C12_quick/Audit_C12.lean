import Krp.Props.C12
#print axioms Krp.C12_deleg_fails_iff
#print axioms Krp.C12_deleg_conserves
#print axioms Krp.C12_deleg_balanced
#print axioms Krp.C12_undeleg_fails_iff
#print axioms Krp.C12_undeleg_terminates
#print axioms Krp.C12_undeleg_conserves
