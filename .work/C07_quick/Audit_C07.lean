import Krp.Props.C07
#print axioms Krp.C07_init
#print axioms Krp.C07_unbond_bsei_credits_sender_only
#print axioms Krp.C07_unbond_stsei_credits_sender_only
#print axioms Krp.C07_undelegation_keeps_claims
#print axioms Krp.C07_release_keeps_claims
#print axioms Krp.C07_withdraw_removes_only_own_released
#print axioms Krp.C07_withdraw_step
