import Krp.Props.C14
#print axioms Krp.C14_inv_init
#print axioms Krp.C14_inv_step
#print axioms Krp.C14_claim_pays
#print axioms Krp.C14_claim_below_unit
#print axioms Krp.C14_update_records_bank
#print axioms Krp.C14_update_dust
