import Krp.Props.C18
#print axioms Krp.C18_init_wf
#print axioms Krp.C18_core_step
#print axioms Krp.C18_bsei_step
#print axioms Krp.C18_stsei_step
#print axioms Krp.C18_burn_refreshes_rates
