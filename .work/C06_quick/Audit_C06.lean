import Krp.Props.C06
#print axioms Krp.C06_recognised_exactly
#print axioms Krp.C06_no_slash_no_change
#print axioms Krp.C06_never_raises
#print axioms Krp.C06_release_group_pro_rata
