import Krp.Props.C04
#print axioms Krp.C04_rate_after
#print axioms Krp.C04_bond_bsei
#print axioms Krp.C04_bond_stsei
#print axioms Krp.C04_bond_rewards
#print axioms Krp.C04_bond_rewards_mints_nothing
#print axioms Krp.C04_unbond_request_bsei
#print axioms Krp.C04_undelegation
#print axioms Krp.C04_convert_stsei_bsei
#print axioms Krp.C04_convert_bsei_stsei
#print axioms Krp.C04_passive_value_mono
#print axioms Krp.C04_history_mono
#print axioms Krp.C04_zero_backed_counterexample
