import Krp.Props.C10
#print axioms Krp.C10_hub
#print axioms Krp.C10_hub_ownership
#print axioms Krp.C10_token_addresses_write_once
#print axioms Krp.C10_reward
#print axioms Krp.C10_dispatcher
#print axioms Krp.C10_registry
#print axioms Krp.C10_tokens
