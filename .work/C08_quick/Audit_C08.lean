import Krp.Props.C08
#print axioms Krp.C08_undelegation_only_after_epoch
#print axioms Krp.C08_consecutive_written_once
#print axioms Krp.C08_release_respects_time_lock
#print axioms Krp.C08_paid_batches_are_released
