import Krp.Props.C01
#print axioms Krp.C01_pays_recorded_share
#print axioms Krp.C01_paid_once
#print axioms Krp.C01_order_independent
#print axioms Krp.C01_sum_of_floors
#print axioms Krp.C01_single_batch_side_alloc_le_arrived
#print axioms Krp.C01_fix_regression
#print axioms Krp.C01_release_group_counterexample
