import Krp.Props.C15
#print axioms Krp.C15_accrual_formula
#print axioms Krp.C15_split
#print axioms Krp.C15_split_units
#print axioms Krp.C15_balance_change_keeps_dues
#print axioms Krp.C15_claim_independent
#print axioms Krp.C15_commute
