import Krp.Props.C03
#print axioms Krp.C03_reported_rates
#print axioms Krp.C03_rate_rounds_down
#print axioms Krp.C03_bond_bsei
#print axioms Krp.C03_bond_stsei
#print axioms Krp.C03_convert_stsei_bsei
#print axioms Krp.C03_convert_bsei_stsei
#print axioms Krp.C03_batch_undelegation
#print axioms Krp.C03_undelegate_messages_sum
