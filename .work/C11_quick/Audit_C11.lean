import Krp.Props.C11
#print axioms Krp.C11_paused_blocks
#print axioms Krp.C11_paused_exceptions
#print axioms Krp.C11_no_unpause_with_legacy
#print axioms Krp.C11_pause_unpause_identity
