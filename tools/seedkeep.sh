#!/bin/bash
# usage: seedkeep.sh <id> <name> <property> "<needs>" "<caught-by>"  — store a confirmed seeded change and drop the worktree
ID=$1; NAME=$2; PROP=$3; NEEDS=$4; CAUGHT=$5
O=/tmp/seed_${ID}_out; D=/verif/seeded/$NAME
mkdir -p $D && cp $O/patch.diff $D/ && cp $O/demo.diff $D/ 2>/dev/null; cp $O/note.md $D/ 2>/dev/null
python3 - "$D" "$PROP" "$NEEDS" "$CAUGHT" <<'PY'
import json,sys
d,prop,needs,caught=sys.argv[1:5]
json.dump({"breaks_property":prop,"needs_to_manifest":needs,
 "confirmed":"tools/seedverify.sh in a scratch worktree: suite 142/142 with the change; demo fails with the change and passes without it",
 "checks_run":caught},open(d+"/meta.json","w"),indent=1)
PY
git -C /repo worktree remove --force /tmp/seed_$ID 2>/dev/null; rm -rf /tmp/seed_${ID}_out
echo kept $D
