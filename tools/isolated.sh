#!/bin/bash
# usage: tools/isolated.sh <name> <command...>
# Runs <command> (from /verif) in a private mount namespace in which /repo and /verif are scratch
# copies (taken now, under /tmp/iso_<name>), so that a long run which patches /repo — the seed
# regression, a seed sweep — does not disturb, and is not disturbed by, work going on in the real
# /repo and /verif. The copies are removed when the command ends; its output goes to stdout.
N=$1; shift
D=/tmp/iso_$N
rm -rf $D; mkdir -p $D
git clone -q /repo $D/repo || exit 2
rsync -a --exclude replays --exclude .work /verif/ $D/verif/ || exit 2
unshare -m bash -c "mount --bind $D/repo /repo && mount --bind $D/verif /verif && cd /verif && $*"
rc=$?
rm -rf $D
exit $rc
