"""per-property configuration of ./check: corpus files, generated families, slice (operation kinds
whose handlers the property's theorems depend on; regexes over op kinds as printed by check.op_kind)."""

def gen(family, histories=40, length=120, deep=False, **kw):
    d = {'kind': 'gen', 'family': family, 'histories': histories, 'len': length, 'deep': deep}
    d.update(kw)
    return d

def matrix(kind, **kw):
    d = {'kind': 'matrix', 'family': kind}
    d.update(kw)
    return d

def pure(kind, count=10000, **kw):
    d = {'kind': 'pure', 'family': kind, 'count': count}
    d.update(kw)
    return d

PRICING_KINDS = [r'hub\.bond', r'hub\.bondst', r'hub\.bondrw', r'hub\.check', r'tok\.send\.unbond', r'tok\.sendfrom\.unbond',
                 r'tok\.send\.convert', r'tok\.sendfrom\.convert']

REWARD_SLICE = [r'reward\..*', r'tok\..*', r'hub\.ugi', r'inst\.reward']

PROPS = {
    'C12': {
        'corpus': ['twelve-validators.ops'],
        'families': [pure('deleg', 10000, thorough_scale={'count': 80000}), pure('undeleg', 10000, thorough_scale={'count': 80000}), gen('registry', 30, 120)],
        'slice': [r'f\.deleg', r'f\.undeleg', r'hub\.bond', r'hub\.bondst', r'reg\.add', r'reg\.remove'],
        'explanation': 'calculate_delegations / calculate_undelegations called directly (public items) on seeded lists '
                       '(length 0..64, sorted/unsorted, ties, zeros, amounts up to the u128 range) and compared with the Lean '
                       'functions the theorems are about; the C12 clauses are also re-checked on every implementation output',
    },
    'C14': {
        'corpus': ['crowd-migrate.ops', 'index-update-without-holders.ops'],
        'families': [gen('rewards', 30, 120), gen('token', 30, 120), gen('dust', 20, 120), gen('crowd', 8, 160)],
        'slice': REWARD_SLICE,
        'explanation': 'reward-contract invariant (sum of holders dues <= recorded balance <= bank balance, claims pay whole units) '
                       'proved for every message sequence; histories of index updates, mints/burns/transfers and claims incl. updates with no holders',
    },
    'C15': {
        'families': [gen('rewards', 30, 120), gen('token', 30, 120)],
        'slice': REWARD_SLICE,
        'explanation': 'accrual formula, settlement-before-balance-change, independence of other holders proved on the model; '
                       'the same statements are re-evaluated on every implementation step from Holder/State/AccruedRewards queries',
    },
    'C18': {
        'corpus': ['D4.ops', 'crowd-migrate.ops', 'alt-spelling-genesis.ops', 'hub-as-allowance-owner.ops', 'burn-while-paused.ops'],
        'families': [gen('token', 30, 120), gen('tokeninit', 30, 100), gen('mixed', 15, 120), gen('crowd', 8, 160)],
        'slice': [r'tok\..*', r'inst\.bsei', r'inst\.stsei', r'hub\.bond', r'hub\.bondst'],
        'explanation': 'ledger invariant (sum of balances = supply) proved for every instantiate message and every message sequence of both token flavours; '
                       'mint/burn authority and allowance bounds proved per message; histories by holders, spenders and the hub, all instantiate shapes incl. repeated addresses',
    },
    'C03': {
        'families': [matrix('c05'), gen('pricing', 30, 120), gen('mixed', 20, 120), gen('dust', 15, 120), gen('drain', 20, 120)],
        'slice': PRICING_KINDS + [r'tok\.burn', r'tok\.burnfrom', r'env\.slash'],
        'explanation': 'reported-rate formula and the pricing of every mint/redeem proved on the model; State vs TokenInfo x2 vs CurrentBatch recomputed on every implementation step, minted amounts recomputed from the pre-state rate',
    },
    'C04': {
        'corpus': ['D6a.ops'],
        'families': [gen('pricing', 30, 120), gen('mixed', 20, 120), gen('dust', 20, 120), gen('release', 15, 120), gen('drain', 20, 120)],
        'slice': PRICING_KINDS + [r'hub\.withdraw', r'hub\.ugi', r'tok\.transfer', r'tok\.burnfrom', r'reg\..*', r'reward\.claim'],
        'explanation': 'per-operation rate monotonicity proved under the true-ratio premise; reported rates compared before/after every non-slashing step on the implementation',
    },
    'C05': {
        'corpus': ['D2.ops', 'bond-into-vacated-bsei-pool.ops'],
        'families': [matrix('c05'), gen('pegfee', 40, 100), gen('pricing', 25, 120), gen('dust', 15, 120)],
        'slice': [r'hub\.bond', r'tok\.send\.unbond', r'tok\.sendfrom\.unbond', r'tok\.send\.convert', r'tok\.sendfrom\.convert'],
        'explanation': 'fee bounds and never-past-the-peg proved for bond, unbond, convert stSei->bSei; convert bSei->stSei proved under the exact cap (D2 is the code not respecting it)',
    },
    'C06': {
        'corpus': ['eleven-batches-slashed-release.ops'],
        'families': [gen('pricing', 30, 120), gen('release', 20, 120), gen('dust', 15, 120), gen('drain', 20, 120)],
        'slice': [r'hub\.check', r'env\.slash', r'env\.slashu', r'hub\.withdraw'] + PRICING_KINDS,
        'explanation': 'exact recognition and two-sided pro-rata bounds proved (nlinarith over the order of floors in query_actual_state and calculate_new_withdraw_rate); every CheckSlashing on the implementation is compared with the exact shares',
    },
    'C17': {
        'corpus': ['D3.ops', 'large-reward-odd-price.ops', 'dispatcher-config-resend-and-bounds.ops', 'swap-denom-reregistered-ibc-spelling.ops'],
        'families': [pure('swapinfo', 10000, thorough_scale={'count': 80000}), gen('rewards', 30, 120), gen('admin', 10, 100)],
        'slice': [r'f\.swapinfo', r'hub\.ugi', r'disp\..*', r'inst\.disp'],
        'explanation': 'swap decision and dispatch split proved for all balances/prices/rates; get_swap_info driven through the real SwapToRewardDenom with fixed balances over the whole price range [1e-18,1e18]; whole index updates on the minichain',
    },
    'C10': {
        'corpus': ['dispatcher-repoint-with-keeper-settings.ops'],
        'families': [gen('deploy', 25, 60), matrix('c10'), gen('admin', 15, 100), gen('mixed', 10, 100)],
        'slice': [r'hub\..*', r'tok\..*', r'reward\..*', r'disp\..*', r'reg\..*'],
        'exhaustive': True,
        'thorough_mult': 4,
        'explanation': 'decision tables proved per contract; exhaustive matrix: every execute variant of the six contracts (61 payloads) x 14 sender classes x 4 state classes '
                       '(fresh, evolved, after completed ownership transfer, after abandoned transfer), each cell executed on the real contracts from a saved state and on the model, '
                       'judged against the principal table read from the implementation\'s own queries; plus admin/mixed histories',
    },
    'C11': {
        'corpus': ['legacy-zero-amount-first.ops', 'burn-while-paused.ops', 'upgrade-while-paused.ops'],
        'families': [matrix('c11'), gen('admin', 20, 100)],
        'slice': [r'hub\..*', r'env\.legacy', r'env\.migrate'],
        'exhaustive': True,
        'thorough_mult': 6,
        'explanation': 'guard theorem + pause/unpause identity proved; matrix: every hub variant x 14 senders while paused, with and without legacy wait-list entries, un-pause attempts, migration steps; '
                       '12 random histories re-run with a pause/blocked-call/unpause cycle inserted at a random position and compared with the uninterrupted run',
    },
    'C20': {
        'corpus': ['dispatcher-config-resend-and-bounds.ops'],
        'families': [gen('deploy', 25, 60), matrix('c20'), gen('admin', 20, 100)],
        'slice': [r'hub\.uparams', r'hub\.uconfig', r'disp\.u.*', r'reward\.u.*', r'reg\.uconfig', r'inst\..*'],
        'exhaustive': True,
        'thorough_mult': 4,
        'explanation': 'range invariants and field-wise frame conditions proved for every message of hub and dispatcher; matrix: all 2^6 x 5 UpdateParams, 2^7 hub UpdateConfig, 2^6 x 5 dispatcher UpdateConfig, '
                       '2^3 reward UpdateConfig patterns with in-range, boundary and out-of-range values, and instantiate messages over the same value classes',
    },
    'C16': {
        'corpus': ['crowd-migrate.ops'],
        'families': [gen('deploy', 25, 60), gen('token', 30, 120), gen('mixed', 20, 120), gen('rewards', 10, 120), gen('crowd', 10, 200)],
        'slice': [r'tok\..*', r'reward\.inc', r'reward\.dec', r'hub\.bond', r'inst\.bsei', r'inst\.reward', r'env\.migrate'],
        'explanation': 'mirror invariant through the message queue proved for every bSei message and every mirror message; Balance/TokenInfo vs Holder/State compared for the whole cast after every operation of token histories by holders, spenders and the hub',
    },
    'C02': {
        'corpus': ['undelegation-refused.ops', 'unbond-from-zero-backed-pool.ops'],
        'families': [gen('registry', 25, 120), gen('mixed', 20, 120), gen('pricing', 20, 120), gen('release', 10, 120)],
        'slice': PRICING_KINDS + [r'hub\.ugi', r'env\.slash', r'reg\..*'],
        'explanation': 'delegate messages sum to the payment and target registered validators (via C12), books <= delegations after every check, undelegation exact; stored pool totals vs chain delegations and hub bank balance compared after every hub transaction, registry changing mid-history',
    },
    'C07': {
        'corpus': ['undelegation-refused.ops'],
        'families': [gen('release', 30, 120), gen('mixed', 20, 120), gen('token', 10, 120)],
        'slice': [r'tok\.send\.unbond', r'tok\.sendfrom\.unbond', r'hub\.withdraw', r'hub\.receive', r'env\.advance', r'q\.hist'],
        'explanation': 'claim-sum invariant proved over unbond (both tokens), batch closing, release and withdrawal; on the implementation the sum of UnbondRequests over all users per batch is compared with CurrentBatch / AllHistory after every step, with Send and SendFrom, both tokens in one batch, across epoch boundaries; AllHistory pages (start_from absent / 0 / a stored id / past the end, limit absent / 0 / small / 100 / 101) compared with the model and with the entries read one by one from storage',
    },
    'C08': {
        'corpus': ['undelegation-refused.ops', 'epoch-changed-midlife.ops'],
        'families': [gen('release', 35, 120), gen('mixed', 20, 120), gen('dust', 10, 120)],
        'slice': [r'tok\.send\.unbond', r'tok\.sendfrom\.unbond', r'hub\.withdraw', r'env\.advance', r'hub\.uparams'],
        'explanation': 'epoch gate, single write of consecutive batch ids, release only after the unbonding period, finality of released entries proved on the model; AllHistory snapshots compared between all steps with time advances landing on, one before and one after the epoch and maturity boundaries',
    },
    'C01': {
        'corpus': ['D1.ops', 'D5.ops', 'zero-arrival-release.ops', 'release-pair-one-unit-short.ops', 'ten-batches-wait-list-order.ops'],
        'families': [gen('release', 40, 120, deep=True), gen('dust', 20, 120, deep=True), gen('mixed', 15, 120)],
        'slice': [r'hub\.withdraw', r'env\.advance', r'env\.slashu', r'env\.donate', r'tok\.send\.unbond', r'tok\.sendfrom\.unbond'],
        'explanation': 'payout = recorded share, single payment, order independence and the single-batch allocation bound proved; release groups of many batches with slashed unbonding stake, donations, many users per batch: released claims vs hub balance after every step, payout recomputed, second withdrawal, unfunded-claim probe (clone with extra coins)',
    },
    'C13': {
        'corpus': ['reg-remove-zero-delegation.ops', 'reg-remove-last-idle.ops', 'reg-remove-while-paused.ops', 'reg-remove-with-inactive-peer.ops', 'registry-placeholder-hub.ops', 'twelve-validators.ops'],
        'families': [gen('deploy', 25, 80), gen('registry', 40, 120), gen('mixed', 15, 120)],
        'slice': [r'reg\..*', r'hub\.redel', r'hub\.bond', r'hub\.bondst', r'hub\.ugi', r'env\.noredel', r'env\.inactive'],
        'explanation': 'registry removal / hub proxy / chain redelegation proved step by step (plan sums to the whole delegation via C12, targets still registered); end-to-end RemoveValidator transactions on the minichain with pending rewards, in-flight batches, blocked redelegations, removal and re-addition sequences',
    },
    'C19': {
        'corpus': ['D3.ops', 'large-reward-odd-price.ops', 'index-update-with-whole-stsei-supply-unbonding.ops'],
        'families': [gen('rewards', 40, 120), gen('registry', 15, 120), gen('mixed', 15, 120)],
        'slice': [r'hub\.ugi', r'disp\..*', r'reward\.ugi', r'hub\.bondrw', r'reg\.remove', r'env\.accrue'],
        'explanation': 'hub / distribution / dispatcher / re-bond / reward-index steps proved separately and composed; whole UpdateGlobalIndex transactions (incl. those triggered by validator removal) on the minichain: pending rewards zero afterwards, dispatcher empty, stSei pool up by exactly the re-bonded amount, no mint, claims and hub balance untouched, accrued grows by the delivered amount within dust',
    },
    'C09': {
        'corpus': ['D6b.ops', 'D5.ops', 'epoch-changed-midlife.ops', 'ten-batches-wait-list-order.ops'],
        'families': [gen('mixed', 25, 100, deep=True), gen('dust', 20, 100, deep=True), gen('release', 15, 100, deep=True), gen('stubs', 20, 100, deep=True)],
        'slice': [r'tok\.send\.unbond', r'tok\.sendfrom\.unbond', r'hub\.withdraw', r'hub\.bond', r'hub\.bondst', r'tok\.send\.convert', r'tok\.transfer', r'reward\.claim', r'env\.oracle', r'env\.swap'],
        'explanation': 'hub-side liveness of unbond proved from explicit invariant premises; non-interference proved structurally (exit handlers do not read stub state); on the implementation: dry-run unbond of every holder on cloned states after every step, withdrawal after epoch+unbonding on clones, every exit operation re-executed under failing / garbage swap and oracle stubs and compared, calls to swap/oracle from exit paths flagged',
    },
}

# observation fields (token names of the canonical snapshot) each property's theorems speak about:
# a model/implementation disagreement in one of them is attributed to the property even when it
# first becomes visible at an operation outside the slice (e.g. the State query right after a slash)
FIELDS = {
    'C01': ['hub.raw', 'hist', 'users'],
    'C02': ['hub.raw', 'hub.q'],
    'C03': ['hub.q', 'hub.raw', 'batch'],
    'C04': ['hub.q', 'hub.raw', 'batch'],
    'C05': ['hub.q', 'hub.raw', 'params'],
    'C06': ['hub.q', 'hub.raw', 'hist'],
    'C07': ['users', 'batch', 'hist'],
    'C08': ['hist', 'batch'],
    'C09': ['hub.raw', 'hub.q', 'batch', 'hist', 'users', 'bsei', 'stsei'],
    'C10': ['cfg', 'params', 'disp', 'reg'],
    'C11': ['params', 'legacy'],
    'C12': ['reg'],
    'C13': ['reg'],
    'C14': ['rw'],
    'C15': ['rw'],
    'C16': ['rw', 'bsei'],
    'C17': ['disp'],
    'C18': ['bsei', 'stsei'],
    'C19': ['rw', 'hub.q', 'hub.raw'],
    'C20': ['params', 'disp', 'cfg'],
}
