"""per-property configuration of ./check: corpus files, generated families, slice (operation kinds
whose handlers the property's theorems depend on; regexes over op kinds as printed by check.op_kind)."""

def gen(family, histories=40, length=120, deep=False, **kw):
    d = {'kind': 'gen', 'family': family, 'histories': histories, 'len': length, 'deep': deep}
    d.update(kw)
    return d

def pure(kind, count=10000, **kw):
    d = {'kind': 'pure', 'family': kind, 'count': count}
    d.update(kw)
    return d

PRICING_KINDS = [r'hub\.bond', r'hub\.bondst', r'hub\.bondrw', r'hub\.check', r'tok\.send\.unbond', r'tok\.sendfrom\.unbond',
                 r'tok\.send\.convert', r'tok\.sendfrom\.convert']

REWARD_SLICE = [r'reward\..*', r'tok\..*', r'hub\.ugi', r'inst\.reward']

PROPS = {
    'C12': {
        'families': [pure('deleg', 10000, thorough_scale={'count': 80000}), pure('undeleg', 10000, thorough_scale={'count': 80000})],
        'slice': [r'f\.deleg', r'f\.undeleg'],
        'explanation': 'calculate_delegations / calculate_undelegations called directly (public items) on seeded lists '
                       '(length 0..64, sorted/unsorted, ties, zeros, amounts up to the u128 range) and compared with the Lean '
                       'functions the theorems are about; the C12 clauses are also re-checked on every implementation output',
    },
    'C14': {
        'families': [gen('rewards', 30, 120), gen('token', 30, 120), gen('dust', 20, 120)],
        'slice': REWARD_SLICE,
        'explanation': 'reward-contract invariant (sum of holders dues <= recorded balance <= bank balance, claims pay whole units) '
                       'proved for every message sequence; histories of index updates, mints/burns/transfers and claims incl. updates with no holders',
    },
    'C15': {
        'families': [gen('rewards', 30, 120), gen('token', 30, 120)],
        'slice': REWARD_SLICE,
        'explanation': 'accrual formula, settlement-before-balance-change, independence of other holders proved on the model; '
                       'the same statements are re-evaluated on every implementation step from Holder/State/AccruedRewards queries',
    },
    'C18': {
        'corpus': ['D4.ops'],
        'families': [gen('token', 30, 120), gen('tokeninit', 30, 100), gen('mixed', 15, 120)],
        'slice': [r'tok\..*', r'inst\.bsei', r'inst\.stsei', r'hub\.bond', r'hub\.bondst'],
        'explanation': 'ledger invariant (sum of balances = supply) proved for every instantiate message and every message sequence of both token flavours; '
                       'mint/burn authority and allowance bounds proved per message; histories by holders, spenders and the hub, all instantiate shapes incl. repeated addresses',
    },
    'C03': {
        'families': [gen('pricing', 30, 120), gen('mixed', 20, 120), gen('dust', 15, 120)],
        'slice': PRICING_KINDS + [r'tok\.burn', r'tok\.burnfrom', r'env\.slash'],
        'explanation': 'reported-rate formula and the pricing of every mint/redeem proved on the model; State vs TokenInfo x2 vs CurrentBatch recomputed on every implementation step, minted amounts recomputed from the pre-state rate',
    },
    'C04': {
        'corpus': ['D6a.ops'],
        'families': [gen('pricing', 30, 120), gen('mixed', 20, 120), gen('dust', 20, 120), gen('release', 15, 120)],
        'slice': PRICING_KINDS + [r'hub\.withdraw', r'hub\.ugi', r'tok\.transfer', r'tok\.burnfrom', r'reg\..*', r'reward\.claim'],
        'explanation': 'per-operation rate monotonicity proved under the true-ratio premise; reported rates compared before/after every non-slashing step on the implementation',
    },
    'C05': {
        'corpus': ['D2.ops'],
        'families': [gen('pricing', 40, 120), gen('dust', 20, 120)],
        'slice': [r'hub\.bond', r'tok\.send\.unbond', r'tok\.sendfrom\.unbond', r'tok\.send\.convert', r'tok\.sendfrom\.convert'],
        'explanation': 'fee bounds and never-past-the-peg proved for bond, unbond, convert stSei->bSei; convert bSei->stSei proved under the exact cap (D2 is the code not respecting it)',
    },
    'C06': {
        'families': [gen('pricing', 30, 120), gen('release', 20, 120), gen('dust', 15, 120)],
        'slice': [r'hub\.check', r'env\.slash', r'env\.slashu', r'hub\.withdraw'] + PRICING_KINDS,
        'explanation': 'exact recognition and two-sided pro-rata bounds proved (nlinarith over the order of floors in query_actual_state and calculate_new_withdraw_rate); every CheckSlashing on the implementation is compared with the exact shares',
    },
    'C17': {
        'corpus': ['D3.ops'],
        'families': [pure('swapinfo', 10000, thorough_scale={'count': 80000}), gen('rewards', 30, 120), gen('admin', 10, 100)],
        'slice': [r'f\.swapinfo', r'hub\.ugi', r'disp\..*', r'inst\.disp'],
        'explanation': 'swap decision and dispatch split proved for all balances/prices/rates; get_swap_info driven through the real SwapToRewardDenom with fixed balances over the whole price range [1e-18,1e18]; whole index updates on the minichain',
    },
}
