#!/bin/bash
# usage: tools/seedsweep.sh <first-seed> <last-seed> [ids...]   — every quick check under several
# VERIF_SEED values on the unchanged tree; prints VIOLATION lines (there should be none)
cd "$(dirname "$0")/.."
A=$1; B=$2; shift 2
IDS=${@:-C01 C02 C03 C04 C05 C06 C07 C08 C09 C10 C11 C12 C13 C14 C15 C16 C17 C18 C19 C20}
for s in $(seq $A $B); do
  for i in $IDS; do
    VERIF_SEED=$s ./check $i quick 2>&1 | grep -E 'VIOLATION|quick:|AUDIT' | sed "s/^/seed=$s /" | grep -E 'VIOLATION|AUDIT FAILED|^seed=[0-9]+ C[0-9]+ quick: .* [1-9][0-9]* disagreements' -A1
  done
  echo "seed $s done"
done
