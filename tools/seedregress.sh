#!/bin/bash
# usage: tools/seedregress.sh [name...]  — applies every kept seeded change (seeded/<name>/patch.diff) to
# /repo in turn, runs the quick check of the property it breaks, undoes it, and prints one line per
# change: caught with a concrete input / caught only as no-failing-input-found / MISSED.
# /repo must be clean and nothing else may run checks meanwhile.
cd "$(dirname "$0")/.."
V=$(pwd)
[ -n "$(git -C /repo status --short | grep -v '^??')" ] && { echo "/repo is not clean"; exit 2; }
NAMES=${@:-$(ls seeded)}
for n in $NAMES; do
  P=$(python3 -c "import json;print(json.load(open('seeded/$n/meta.json'))['breaks_property'])")
  git -C /repo apply "$V/seeded/$n/patch.diff" || { echo "$n: patch does not apply"; continue; }
  out=$(./check $P quick 2>&1); rc=$?
  git -C /repo checkout -- .
  # SAVE_CORPUS=<dir>: keep the first concrete replay as a regression input for this property
  if [ -n "$SAVE_CORPUS" ]; then
    f=$(echo "$out" | grep '^VIOLATION' | grep -v 'no-failing-input-found' | grep "property=$P " | head -1 | sed 's/.*replay=\([^ ]*\).*/\1/')
    [ -n "$f" ] && [ -f "$f" ] && mkdir -p "$SAVE_CORPUS" && cp "$f" "$SAVE_CORPUS/$n.ops"
  fi
  conc=$(echo "$out" | grep '^VIOLATION' | grep -vc 'no-failing-input-found')
  nofi=$(echo "$out" | grep '^VIOLATION' | grep -c 'no-failing-input-found')
  if [ $conc -gt 0 ]; then echo "$n: $P caught, $conc with a concrete input, $nofi tie-only (rc=$rc)";
  elif [ $nofi -gt 0 ]; then echo "$n: $P caught ONLY as no-failing-input-found ($nofi) (rc=$rc)";
  else echo "$n: $P MISSED (rc=$rc)"; fi
  TOUCHED="$TOUCHED $P"
done
# a replay minimised on a changed tree must be silent on the unchanged one before it is kept
# (DESIGN.md §14.4 item 17): re-run the quick check of every property touched, with the saved
# files in place of corpus/seeds
if [ -n "$SAVE_CORPUS" ] && [ -d "$SAVE_CORPUS" ]; then
  for f in "$SAVE_CORPUS"/*.ops; do [ -f "$f" ] && cp "$f" corpus/seeds/; done
  for P in $(echo $TOUCHED | tr ' ' '\n' | sort -u); do
    ./check $P quick 2>&1 | grep -E '^VIOLATION' | sed "s/^/UNCHANGED TREE, $P: /"
  done
fi
git -C /repo status --short | grep -v '^??' | head -3
