#!/usr/bin/env python3
import sys, json, subprocess, os
from collections import Counter
sys.path.insert(0, '/verif/tools')
import difftool
fams = sys.argv[1].split(','); seed = sys.argv[2]; n = sys.argv[3]; ln = sys.argv[4]
os.makedirs('/tmp/w', exist_ok=True); os.chdir('/tmp/w')
for fam in fams:
    subprocess.check_call(['/verif/harness/target/release/krp-harness', 'gen', fam, seed, n, ln, 'ops.txt', 'impl.out', 'report.json'])
    with open('ops.txt') as f, open('model.out', 'w') as g:
        subprocess.check_call(['/verif/lean/.lake/build/bin/driver'], stdin=f, stdout=g)
    ops = open('ops.txt').read().splitlines(); impl = open('impl.out').read().splitlines(); model = open('model.out').read().splitlines()
    ds = difftool.compare(ops, impl, model)
    r = json.load(open('report.json'))
    c = Counter((v['prop'], v['class']) for v in r['violations'])
    print("==", fam, "disagreements:", len(ds), "violations:", len(r['violations']), dict(c))
    for (i, op, toks, sa, sb) in ds[:3]:
        print("  DISAGREE line", i + 1, op); print("    impl :", sa[:200]); print("    model:", sb[:200])
        for p, q in toks[:6]: print("      impl ", p[:300]); print("      model", q[:300])
    seen = set()
    for v in r['violations']:
        k = (v['prop'], v['class'])
        if k not in seen and not v['class'].startswith('zero-transfer'):
            seen.add(k); print('   ', v)
