#!/bin/bash
# usage: seedverify.sh <id>   — in the agent's worktree /tmp/seed_<id> (patch+demo applied):
#   run the suite (demo must fail, the 142 originals pass), revert the patch (everything passes)
ID=$1; W=/tmp/seed_$ID; O=/tmp/seed_${ID}_out
cd $W || exit 2
git reset -q --hard HEAD; git clean -fdq -e target 2>/dev/null
git apply $O/patch.diff && git apply $O/demo.diff || { echo "apply failed"; exit 2; }
echo "== with change + demo"; cargo test --workspace --offline --no-fail-fast 2>&1 | grep -E "^test result|FAILED|failed" | awk '/test result/ {p+=$4; f+=$6} /FAILED|failed/ && !/test result/ {print} END {print "passed",p,"failed",f}' | tail -8
git apply -R $O/patch.diff
echo "== demo only (change reverted)"; cargo test --workspace --offline --no-fail-fast 2>&1 | grep -E "^test result" | awk '{p+=$4; f+=$6} END {print "passed",p,"failed",f}'
git apply -R $O/demo.diff; git apply $O/patch.diff
echo "== change only (suite)"; cargo test --workspace --offline --no-fail-fast 2>&1 | grep -E "^test result" | awk '{p+=$4; f+=$6} END {print "passed",p,"failed",f}'
