LEVELS = {
 'C12': {
  'text': 'Full functional correctness of both distribution routines proved in Lean for every list and amount '
          '(conservation, no delegation to / above the even share, no undelegation below it, termination of the while loop after '
          'one pass, exact failure conditions), the u128 guard included; the Lean functions are compared with the real '
          'calculate_delegations / calculate_undelegations on 20 000 (quick) / 2 million (thorough) seeded calls per run.',
  'note': 'Trusted: Lean kernel (axioms propext, Classical.choice, Quot.sound), the hand-written model of common.rs, '
          'the differential run as the tie to the Rust (inputs the generator did not produce are covered only by the proof about the model).',
  'technique': 'Lean 4 proof by induction over the validator list; function-level differential correspondence',
 },
 'C14': {
  'text': 'Invariant of the reward contract proved in Lean for every message of every sender (induction step C14_inv_step, '
          'base C14_inv_init): the sum over holders of (global_index - index)*balance + pending never exceeds prev_reward_balance*1e18; '
          'a claim worth >= 1 unit always succeeds and pays exactly the whole units, keeping the fraction (C14_claim_pays); an index update '
          'records exactly the bank balance and strands < total_balance atomics (C14_update_records_bank, C14_update_dust). '
          'Tied to the Rust by differential histories (index updates, mints, burns, transfers, claims, zero-holder updates) and by the solvency oracle on every implementation step.',
  'note': 'Trusted: Lean kernel; model of basset_sei_reward; that the bank credits the contract (A-CHAIN-2); prev <= bank balance is carried by the harness oracle across '
          'contracts (the theorem covers the contract side: recorded balance := bank balance on update, lowered by exactly the payout on claim).',
  'technique': 'Lean 4 invariant proof by case analysis over all reward-contract messages; differential correspondence + solvency oracle',
 },
 'C15': {
  'text': 'Exact accrual formula per index update (balance * floor(R*1e18/T)), additivity under account splitting, settlement before every balance change '
          '(dues unchanged, checkpoint moved), independence from claims and commutation of other holders\' balance changes: proved in Lean for all states '
          'satisfying the C14 invariant. Re-evaluated on every implementation step from public queries; model/implementation compared on every operation.',
  'note': 'Trusted: Lean kernel; model of basset_sei_reward/user.rs+global.rs; the invariant premise is C14. Paired-history (permutation) runs on the implementation are represented by the per-step dues oracle, not by whole-history pairs.',
  'technique': 'Lean 4 algebraic theorems over the reward state machine; per-step oracle on the implementation',
 },
 'C18': {
  'text': 'Ledger invariant Token.WF (holders duplicate-free, zero outside, sum of balances = total_supply) proved for every instantiate message '
          '(C18_init_wf, repeated addresses included - after the fix commit 669b1db) and preserved by every successful message of every sender in both wrappers '
          '(C18_core_step via C18_bsei_step / C18_stsei_step); the same theorem fixes who can change the supply (Mint: minter only; Burn: hub on its own balance; '
          'BurnFrom: within an unexpired allowance), that *From operations never exceed the allowance and lower it by exactly the amount, and that the minter only '
          'changes through UpdateMinter by the minter; C18_burn_refreshes_rates: stSei Burn/BurnFrom and bSei BurnFrom emit CheckSlashing to the hub. '
          'Tied to the Rust by differential token histories (both flavours, expirations at the boundary height/second) and the sum/authority oracle on every step.',
  'note': 'Trusted: Lean kernel; hand-written model of cw20-legacy, of the cw20-base 0.16 behaviours stSei relies on, and of the two wrappers; holders outside the fixed cast are not observed by the harness (the theorem covers all addresses). '
          'That the hub never sends UpdateMinter is by inspection of the hub model (it emits only Mint and Burn to the tokens).',
  'technique': 'Lean 4 invariant proof over all token messages; differential correspondence + ledger oracle',
 },
}
