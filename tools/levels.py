LEVELS = {
 'C12': {
  'text': 'Full functional correctness of both distribution routines proved in Lean for every list and amount '
          '(conservation, no delegation to / above the even share, no undelegation below it, termination of the while loop after '
          'one pass, exact failure conditions), the u128 guard included; the Lean functions are compared with the real '
          'calculate_delegations / calculate_undelegations on 20 000 (quick) / 2 million (thorough) seeded calls per run.',
  'note': 'Trusted: Lean kernel (axioms propext, Classical.choice, Quot.sound), the hand-written model of common.rs, '
          'the differential run as the tie to the Rust (inputs the generator did not produce are covered only by the proof about the model).',
  'technique': 'Lean 4 proof by induction over the validator list; function-level differential correspondence',
 },
 'C14': {
  'text': 'Invariant of the reward contract proved in Lean for every message of every sender (induction step C14_inv_step, '
          'base C14_inv_init): the sum over holders of (global_index - index)*balance + pending never exceeds prev_reward_balance*1e18; '
          'a claim worth >= 1 unit always succeeds and pays exactly the whole units, keeping the fraction (C14_claim_pays); an index update '
          'records exactly the bank balance and strands < total_balance atomics (C14_update_records_bank, C14_update_dust). '
          'Tied to the Rust by differential histories (index updates, mints, burns, transfers, claims, zero-holder updates) and by the solvency oracle on every implementation step. C14_reachable: the reward contract\'s invariant (sum of dues <= recorded balance, recorded total = sum of mirrored balances) holds in every reachable state of the composed system. C14_funded: in every state reached by any history of outside, non-owner transactions the recorded balance is covered by the contract\'s bank balance in the reward denom (queue invariant "recorded + reward coins about to leave <= bank", using that only a message sent by an account can lower its bank balance - handle_bank_ge - and that no contract ever emits SwapToRewardDenom - handle_noSwap). C14_claim_tx_succeeds: in such a state a holder owed at least one unit claims successfully as a whole transaction (handler accepts, the transfer goes through, exactly floor(owed) arrives).',
  'note': 'Trusted: Lean kernel; model of basset_sei_reward; that the bank credits the contract (A-CHAIN-2); prev <= bank balance is carried by the harness oracle across '
          'contracts (the theorem covers the contract side: recorded balance := bank balance on update, lowered by exactly the payout on claim).',
  'technique': 'Lean 4 invariant proof by case analysis over all reward-contract messages; differential correspondence + solvency oracle',
 },
 'C15': {
  'text': 'Exact accrual formula per index update (balance * floor(R*1e18/T)), additivity under account splitting, settlement before every balance change '
          '(dues unchanged, checkpoint moved), independence from claims and commutation of other holders\' balance changes: proved in Lean for all states '
          'satisfying the C14 invariant. Re-evaluated on every implementation step from public queries; model/implementation compared on every operation.',
  'note': 'Trusted: Lean kernel; model of basset_sei_reward/user.rs+global.rs; the invariant premise is C14. Paired-history (permutation) runs on the implementation are represented by the per-step dues oracle, not by whole-history pairs.',
  'technique': 'Lean 4 algebraic theorems over the reward state machine; per-step oracle on the implementation',
 },
 'C18': {
  'text': 'Ledger invariant Token.WF (holders duplicate-free, zero outside, sum of balances = total_supply) proved for every instantiate message '
          '(C18_init_wf, repeated addresses included - after the fix commit 669b1db) and preserved by every successful message of every sender in both wrappers '
          '(C18_core_step via C18_bsei_step / C18_stsei_step); the same theorem fixes who can change the supply (Mint: minter only; Burn: hub on its own balance; '
          'BurnFrom: within an unexpired allowance), that *From operations never exceed the allowance and lower it by exactly the amount, and that the minter only '
          'changes through UpdateMinter by the minter; C18_burn_refreshes_rates: stSei Burn/BurnFrom and bSei BurnFrom emit CheckSlashing to the hub. C18_reachable: both ledgers satisfy WF in every reachable state of the composed system (any history, any senders, hub-driven mints and burns included). '
          'Tied to the Rust by differential token histories (both flavours, expirations at the boundary height/second) and the sum/authority oracle on every step.',
  'note': 'Trusted: Lean kernel; hand-written model of cw20-legacy, of the cw20-base 0.16 behaviours stSei relies on, and of the two wrappers; holders outside the fixed cast are not observed by the harness (the theorem covers all addresses). '
          'That the hub never sends UpdateMinter is by inspection of the hub model (it emits only Mint and Burn to the tokens).',
  'technique': 'Lean 4 invariant proof over all token messages; differential correspondence + ledger oracle',
 },
 'C03': {
  'text': 'Proved on the hub model for all states and amounts: query_actual_state reports floor(bonded*1e18/(supply+requested)) (1 when either is zero) for both tokens from the supplies and batch of the same moment (C03_reported_rates); '
          'bond mints floor(payment/rate) less only the peg fee, exactly that above the threshold, and the minted tokens are never worth more than the payment; convert re-prices floor(tokens*rate) at the destination rate; '
          'a batch is undelegated for floor(requests*rate) per token, the Undelegate messages sum to exactly that (via the C12 theorems) and the books fall by it; a payment is always positive. '
          'Every implementation step re-derives the rates from State/TokenInfo/CurrentBatch and the minted amounts from the pre-state rate.',
  'note': 'Trusted: Lean kernel; model of contract.rs/bond.rs/unbond.rs/convert.rs/math.rs; u128/U256 overflow not modelled (envelope E1). The statement is about the stored and queried state of the model; the tie to the Rust is the per-operation diff of hub.raw/hub.q/batch/supplies.',
  'technique': 'Lean 4 theorems via handler characterisation lemmas; differential correspondence + exact recomputation oracle',
 },
 'C04': {
  'text': 'For bond (bSei, stSei, rewards), unbond request, batch undelegation, and both converts: if the rate the operation starts from is a true ratio (rate*claims <= backing*1e18, which rateOf guarantees whenever the pool is backed) and positive, '
          'the ratio after the operation is at least that rate, or the claims became zero (definitional reset) - proved in Lean for all amounts (C04_*); BondRewards emits only Delegate messages (mints nothing); '
          'coin value floor(balance*rate) is monotone in the rate and lifts over any slash-free history (C04_history_mono). The premise fails exactly in the zero-backed state (booked stake 0, claims > 0, reported rate 1), '
          'where a bond or convert lowers the rate: proved as C04_zero_backed_counterexample, replayed on the real hub from corpus/D6a.ops and listed as known finding D6. PARTIAL: theorems carry the true-ratio premise.',
  'note': 'Trusted: Lean kernel; hub model; the link from per-operation theorems to the reported (queried) rate is C03_reported_rates plus the differential check. Known finding D6 (zero-backed pool after a slash floors a dust pool to 0).',
  'technique': 'Lean 4 per-operation monotonicity lemmas + induction over histories; before/after rate oracle on every implementation step',
 },
 'C05': {
  'text': 'Fee bounds proved for both fee formulas (C05_fee_on_mint, C05_fee_on_burn): fee >= 0, fee <= amount*peg_recovery_fee, no fee at or above the threshold; never past the peg proved for bond, convert stSei->bSei and unbond '
          '(backing <= claims after the request; < 2 units above the remaining claims after an undelegation in the same transaction, C05_unbond_not_past_peg). '
          'Convert bSei->stSei is proved only under the exact cap fee*B <= (C-B)(C-a) (C05_convert_bsei_stsei_partial); the code caps by the current gap instead and over-collects: '
          'C05_convert_bsei_stsei_counterexample (decide) = corpus/D2.ops on the real hub (rate 0.9 -> 1.08), known finding D2.',
  'note': 'Trusted: Lean kernel (nlinarith from one Mathlib module in Lemmas/Arith.lean), hub model. PARTIAL for the fourth path: known finding D2.',
  'technique': 'Lean 4 arithmetic theorems (omega, nlinarith) on the fee formulas; peg oracle on every fee-charging implementation step',
 },
 'C06': {
  'text': 'C06_recognised_exactly: when books exceed the surviving delegation, the check sets books to exactly that amount, the bSei pool to its exact pro-rata share within 2 base units from below (never above), the stSei pool the remainder (within 2 from above) - proved for all pool sizes incl. an empty pool, for delegated totals <= 1e18; '
          'C06_no_slash_no_change / C06_never_raises: otherwise nothing changes and no check ever raises a pool; C06_release_group_pro_rata: the loss charged to a batch side is its pro-rata share within 2 units. '
          'Every CheckSlashing executed on the real hub is compared with the exact shares.',
  'note': 'Trusted: Lean kernel (+ Mathlib nlinarith in Lemmas/Arith.lean); hub model; A-CHAIN-3 (delegations are token amounts; a delegation object survives a slash to zero).',
  'technique': 'Lean 4 nonlinear floor-arithmetic bounds; exact-share oracle on implementation checks',
 },
 'C17': {
  'text': 'Proved for every balance, bonded amount, oracle price and keeper rate in [0,1]: the requested swap never offers more of a coin than is held (C17_offer_le_available, both branches, uses inv(r)*r <= 1); '
          'the stSei side is left with exactly floor(total*st/(st+b)) when selling and never overshoots it when buying (C17_share; the lower bound of the buying branch - within one bSei-reward unit at the oracle price - is checked numerically by the harness, not proved); '
          'DispatchRewards cannot fail on its own arithmetic, sends the keeper exactly floor(balance*rate) of each coin and the sum of everything sent equals the balance held (C17_dispatch_conserves); '
          'the keeper rate stays <= 1 from instantiate and under every message (C17_keeper_rate_le_one). '
          'The no-zero-transfer clause is FALSE for the code (D3): proved only under positive cut and remainder (C17_no_zero_transfer_partial), negation proved (C17_zero_transfer_counterexample) and replayed on the real contracts (corpus/D3.ops); known finding.',
  'note': 'Trusted: Lean kernel (+ nlinarith), dispatcher model, swap/oracle stubs (E6). PARTIAL: no-zero-transfer (known finding D3, three call sites), and the sub-unit lower bound of the buying branch.',
  'technique': 'Lean 4 theorems on get_swap_info / dispatch message construction; function-level differential correspondence through the real execute entry point',
 },
 'C10': {
  'text': 'Decision tables proved in Lean for all states, payloads and senders: C10_hub (every privileged hub message fails for a sender outside hubPrincipalOk - owner for UpdateConfig/UpdateParams/SetOwner, nominee for AcceptOwnership, dispatcher for BondRewards, '
          'registry for RedelegateProxy, updater or registry for UpdateGlobalIndex, the hub itself for SwapHook, the airdrop registry for ClaimAirdrop, the two registered tokens for Receive), C10_reward, C10_dispatcher, C10_registry, C10_tokens (Mint/Burn), '
          'C10_hub_ownership (nominate -> accept; the ex-owner loses every owner right), C10_token_addresses_write_once; a failed message changes nothing (C20_rejected_changes_nothing). '
          'Exhaustive matrix on the real contracts: 61 message payloads x 14 sender classes x 4 state classes, every cell compared with the model and judged against the principal table read from the implementation itself. C10_system_hub / C10_system_dispatcher / C10_system_reward_owner: as whole transactions on the composed system - a privileged message from a non-principal fails and leaves every contract and the chain (attached funds included) exactly as they were.',
  'note': 'Trusted: Lean kernel; handler models; the matrix payloads are one representative per variant (the theorems quantify over all payloads). Two-step ownership is proved for the hub; the other three contracts use the same code shape and are covered by the matrix classes 2 and 3.',
  'technique': 'Lean 4 decision-table theorems; exhaustive message x sender x state matrix on the implementation',
 },
 'C11': {
  'text': 'C11_paused_blocks: while paused every hub message except UpdateParams and the migration fails for every sender and payload; C11_paused_exceptions: UpdateParams stays owner-only and the migration changes only wait-list entries (no pool, batch, history, parameter or address); '
          'C11_no_unpause_with_legacy: un-pausing is refused while legacy entries remain and the migration clears the flag only when none remain; C11_pause_unpause_identity: pause;unpause returns exactly the pre-pause state up to the flag representation. '
          'Matrix on the real hub: every variant x 14 senders while paused (with/without legacy entries), un-pause attempts, migration in steps; 12 histories re-run with an inserted pause cycle and compared. C11_system_paused: as a whole transaction on the composed system, a top-level hub message other than UpdateParams/Migrate sent to a paused hub fails and changes nothing anywhere.',
  'note': 'Trusted: Lean kernel; hub model; queries are total functions of the state in the model (they do not read the flag) - on the implementation this is observed by the harness querying after every paused cell. Legacy entries are seeded through the public storage prefix as the repo test does.',
  'technique': 'Lean 4 guard theorem + state identity; exhaustive paused matrix and pause-cycle insertion on the implementation',
 },
 'C20': {
  'text': 'C20_hub_init_range / C20_hub_step_range: peg_recovery_fee <= 1 and er_threshold <= 1 from every instantiate and after every successful hub message of every sender, and no message other than UpdateParams touches a parameter; '
          'C20_update_params_fields / C20_hub_update_config_fields / C20_dispatcher_fields: each update applies exactly the fields present (omitted => unchanged; the pause flag is set to what the message says), the keeper rate is rejected above 1, the stSei reward denom never changes under any dispatcher message; '
          'the underlying coin denom has no update path (constant in the model, compared in every observation); C20_rejected_changes_nothing. C20_reachable: fee, threshold and keeper rate are at most 1 in every reachable state of the composed system. Exhaustive option matrix on the real contracts.',
  'note': 'Trusted: Lean kernel; hub/dispatcher models. Reward and registry UpdateConfig are covered by the matrix and the differential check, not by a separate theorem.',
  'technique': 'Lean 4 invariants + field-wise frame theorems; exhaustive optional-field matrix on the implementation',
 },
 'C16': {
  'text': 'C16_token_emits_exact_mirror: for each of the nine bSei messages the Increase/Decrease messages emitted to the reward contract have, for every address, a net effect equal to that address\'s ledger change (and net total = supply change); '
          'C16_reward_applies: the reward contract applies a mirror message from the registered token exactly; C16_queue_step_token / C16_queue_step_reward: the invariant "token balance + pending decreases = mirrored balance + pending increases" (all addresses, and totals) '
          'is preserved when the head of the CosmWasm message queue is executed; C16_drained: with an empty queue the two ledgers agree; C16_init: they agree at instantiation without initial balances. '
          'C16_reachable (every reachable state of the composed system): from any state in which the six contracts are wired to each other, owners/nominees are outside accounts and the two ledgers agree (the corpus genesis: examples in the file), '
          'after every history of any length whose top-level messages come from outside accounts other than those owners/nominees (E3), with any environment events interleaved, every holder\'s mirrored balance equals its bSei balance and the mirrored total equals the supply. '
          'The proof runs the queue invariant through the real message executor (run_inv2), using that every message a contract emits carries that contract as sender (handle_sentBy, per-contract SentBy lemmas) and that configuration messages are accepted from owners/nominees only.',
  'note': 'Trusted: Lean kernel; the six contract models and the executor Sys.run (A-CHAIN-1: depth-first message order, atomicity); E3 as stated in the theorem\'s hypotheses (Wired, QuietStep).',
  'technique': 'Lean 4 reachable-state theorem over the composed system (queue invariant through the message executor); mirror oracle on every implementation step',
 },
 'C02': {
  'text': 'C02_bond_delegated_in_full: the Delegate messages of Bond/BondForStSei/BondRewards sum to exactly the payment, go only to validators the registry returned and are never empty (uses the C12 conservation theorem); C02_books_le_delegated: after every slashing check booked <= delegated; '
          'C02_bond_keeps_gap: a bond raises books and delegations by the same amount; C02_undelegation_exact: a batch undelegation lowers the books by exactly the sum of its Undelegate messages; C02_convert_keeps_sum. '
          'C02_reachable (every reachable state): from any state with books <= delegated, after any history of any length without a validator slash (any senders and contracts, failed transactions, time, slashing of unbonding stake, rewards) the hub still books at most what is delegated - proved through the message executor with the queue invariant "books + pending hub undelegations <= delegated + pending hub delegations", the pending staking messages forming a prefix of the queue (hub_books_step: every hub message; BookInv.step: every message of every contract and of the staking module). '
          'C02_direct_call_recognises: from any state, however stale after slashing, a successful Bond / BondForStSei / BondRewards / CheckSlashing transaction ends with books <= delegated. '
          'C02_reserved (the liquid-balance clause, every reachable state): prev_hub_balance - the coins set aside for released unbonding claims - never exceeds the hub\'s liquid staking-denom balance, after any history whose top-level messages are not sent in the hub\'s name; queue invariant "prev_hub_balance + coins about to leave the hub (its pending Delegate messages and claim payouts) <= bank balance" (hub_fund_step: every hub message; handle_bank_ge: nobody but the sender can lower an account). Compared on every implementation transaction as well.',
  'note': 'Trusted: Lean kernel; hub, registry and chain models and the executor Sys.run; A-CHAIN-3 (Delegate/Undelegate/Redelegate move exactly the stated amounts). Recognition after a slash is stated for direct hub calls; for Unbond/Convert (which reach the hub through the token) it is the step theorem C02_books_le_delegated plus the oracle.',
  'technique': 'Lean 4 reachable-state theorem over the composed system (queue invariant through the message executor) on top of C12; books-vs-delegations oracle on every implementation transaction',
 },
 'C07': {
  'text': 'Invariant ClaimInv proved in Lean: for the open batch the sum over all users of recorded claims equals CurrentBatch.requested (per token); for every closed unreleased batch it equals the history amounts; for released batches it only falls; nothing is recorded for future batches. '
          'Base C07_init; steps: C07_unbond_bsei_credits_sender_only / C07_unbond_stsei_credits_sender_only (the cw20 sender, and only that (user,batch) entry, is credited amount less fee; the same amount joins the batch total), C07_undelegation_keeps_claims (history stores exactly the totals), '
          'C07_release_keeps_claims, C07_withdraw_removes_only_own_released / C07_withdraw_step (only the caller\'s entries on released batches disappear; nobody else\'s claim changes). Receive hooks from unregistered tokens are rejected (C10_hub). '
          'On the implementation: per-batch sums of UnbondRequests vs CurrentBatch/AllHistory, credit and burn amounts, foreign-claim immutability after every step. '
          'C07_hub_step: every accepted hub message of every sender preserves ClaimInv; C07_reachable: ClaimInv holds in every reachable state of the composed system (any history of any length, any senders, environment events interleaved), given no pre-migration entries are injected. ',
  'note': 'Trusted: Lean kernel; hub model (wait list as total maps + ghost key list) and the executor Sys.run; legacy (pre-v2) entries are outside the invariant (hypothesis of C07_reachable).',
  'technique': 'Lean 4 reachable-state invariant of the composed system (sums over per-batch key lists); claim-sum oracle on every implementation step',
 },
 'C08': {
  'text': 'C08_undelegation_only_after_epoch: an unbond (either token) undelegates only when now - last_unbonded_time > epoch_period, otherwise the history is untouched; the new entry carries the current time; C08_consecutive_written_once: the slot written is the open batch id, provably empty before, and the next id opens (uses the C07 invariant); '
          'C08_release_respects_time_lock: a withdrawal flips released only for entries with time + unbonding_period <= now, never rewrites a released entry and never changes time/amounts/applied rates of any entry; C08_paid_batches_are_released: entries paid and removed are exactly the caller\'s entries on released batches; '
          'the undelegated amount equals the history entry (C03_batch_undelegation, C03_undelegate_messages_sum). Boundary seconds are values of `now` (quantified). '
          'C08_hub_step_forward / C08_forward_only (every history): between any two points of any history of the composed system the later hub state continues the earlier one\'s batch history - batch ids never go back, no entry\'s time, amounts or applied rates are ever rewritten, nothing released is ever touched again.',
  'note': 'Trusted: Lean kernel; hub model and the executor Sys.run; E2 (chain unbonding time = hub unbonding_period; matured coins credited before later transactions). The time-lock clause is a step theorem (it depends on the owner-tunable unbonding_period, E3).',
  'technique': 'Lean 4 step theorems plus a forward-only theorem over every history of the composed system; AllHistory monotonicity oracle between all implementation steps',
 },
 'C01': {
  'text': 'C01_pays_recorded_share (one bank transfer of exactly the sum over the caller\'s released entries, each valued at the batch\'s final rates; prev_hub_balance = balance - payout; zero share fails), C01_paid_once (no released claim is left for the caller: an immediate second withdrawal finds nothing), '
          'C01_order_independent (the release is a function of hub state, balance and time only; a withdrawal by v leaves every other user\'s released share unchanged), C01_sum_of_floors (users\' payouts of a side never exceed the side\'s allocation), '
          'C01_single_batch_side_alloc_le_arrived (for a one-batch release the allocation never exceeds the coins that arrived, under slashing and under unsolicited transfers alike). C01_fix_regression pins the repaired defect D1 (fix commit 94f82c5). '
          'PARTIAL: for release groups of several batches the allocation bound is not proved; it is false for n>=3 with n*slashed >= 1e18 (C01_release_group_counterexample by decide; corpus/D5.ops on the real hub; known finding D5). The funding invariant over whole histories (hub balance >= sum of released claims) is checked by the oracle after every step, not proved. C01_withdraw_tx_pays (whole transaction): a withdrawal the hub\'s handler accepts is always paid - the bank transfer it emits cannot fail, exactly the computed amount leaves the hub and prev_hub_balance is what remains; with C02_reserved (prev_hub_balance <= liquid balance in every reachable state) the release arithmetic never sees a negative arrival.',
  'note': 'Trusted: Lean kernel; hub model; E2. Known finding D5 (over-allocation by 1 unit for >=3 batches under a >99% slash of unbonding stake).',
  'technique': 'Lean 4 theorems on withdraw / release arithmetic; funding, payout, double-pay and unfunded-claim oracles on every implementation step',
 },
 'C13': {
  'text': 'C13_remove_validator: a successful RemoveValidator is by the owner, removes the address, never empties the registry, and (when the hub holds a movable delegation there) emits RedelegateProxy with a plan that sums to exactly the whole delegation (C12), targets only still-registered validators in positive amounts, followed by an index update; '
          'C13_hub_proxy_forwards: the hub accepts the proxy only from the registry and forwards it one-to-one; C13_redelegate_moves_exactly / C13_nothing_left: each Redelegate moves exactly its amount between two validators, total delegated unchanged, and a plan summing to the delegation leaves nothing on the removed validator; '
          'later bonds delegate only to validators the registry returns (C02_bond_delegated_in_full). The rewards re-bonded in the same transaction raise delegations and books equally (C02_bond_keeps_gap). C13_end_to_end (the whole transaction through the real message executor): if a RemoveValidator transaction succeeds - registry handler, hub proxy, every Redelegate, and the index update the registry triggers with everything it causes (reward withdrawal, swap, dispatch, re-bonding) - then the sender was the owner, the validator is unregistered at the end and, when the chain allowed the redelegation, the hub has no stake left on it. Queue invariant RemInv: the validator is unregistered, its stake is at most what pending messages will move away, and no pending message could delegate to it or register it again (hubExec_steer, regExec_steer, PlainMsgs: no other contract emits steering messages).',
  'note': 'Trusted: Lean kernel; the six contract models, the chain model and the executor Sys.run; A-CHAIN-3 (redelegation moves token amounts; the can_redelegate flag).',
  'technique': 'Lean 4 end-to-end theorem over the whole removal transaction (queue invariant through the message executor) on top of C12; end-to-end removal transactions on the implementation',
 },
 'C19': {
  'text': 'C19_hub_update_global (withdraw messages for every delegation, then swap with the booked totals, then dispatch; only last_index_modification changes in the hub), C19_withdraw_reward_pays_all (everything pending on a validator goes to the withdraw address, nothing else moves), '
          'C19_dispatch_delivers (C17: keeper cut + everything else forwarded, reward index update last, nothing kept), C19_rebond_raises_stsei_only (stSei pool + re-bonded amount, no mint, bSei pool and rate untouched), with C14_update_records_bank / C14_update_dust for the bSei holders\' side. '
          'The "executes whatever the amounts" clause inherits D3 (zero-amount transfers; known finding, same three call sites as C17). C19_end_to_end (the whole transaction through the real message executor): if an UpdateGlobalIndex transaction succeeds in a wired system - hub handler, every reward withdrawal, dispatcher swap and dispatch with the swap-contract calls and payouts, keeper and reward-contract transfers, BondRewards with its delegations, the reward contract\'s index update - then both token ledgers are exactly as before, the registry is untouched, every unbonding claim, the batch history and the open batch are untouched, prev_hub_balance is unchanged and the hub\'s liquid staking-denom balance is exactly what it was. Proved with a closure argument over the messages the update can cause (flow_step) and a potential argument for the hub\'s bank balance (UgiInv). C19_end_to_end_delivery (same executor, premises: keeper rate at most 1, the two reward denoms distinct, keeper is not the dispatcher): after a successful transaction every reward pending on a validator the hub delegated to has been withdrawn (all three denoms) and the dispatcher holds nothing of either reward denom - every coin it held or received was sent on; a two-phase queue invariant (DeliverInv). C19_end_to_end_pools (additionally: no slash unrecognised at the start, i.e. booked stake at most delegated stake, and the staking-module facts ChainOK): at the end the bSei pool is exactly what it was and the stSei pool has grown by exactly the amount by which the hub\'s delegated stake has grown - what was re-bonded was delegated in full and booked to stSei alone (PoolInv: only reward withdrawals, the swap and its payouts run before the dispatch; the dispatch emits at most one BondRewards, which runs with no Delegate pending so its slashing check changes nothing). C19_end_to_end_holders (same premises): the reward contract is touched by exactly one message of the transaction, its own index update, which runs as the very last message; with no bSei held it is left exactly as it was, otherwise the balance it records is its whole final bank balance in the reward denom (everything delivered during the transaction is booked) and, for a reward state satisfying the C14 invariant, the holders\' total claimable grows by everything newly recorded up to less than total_balance atomics (RewInv).',
  'note': 'Trusted: Lean kernel; models of the four contracts; swap/oracle stubs (E6); A-CHAIN-4. All clauses except liveness are now whole-transaction theorems; every UpdateGlobalIndex transaction executed on the minichain is judged by the C19 oracle (all clauses). PARTIAL: D3.',
  'technique': 'Lean 4 end-to-end theorem over the whole index-update transaction (closure + potential argument through the message executor) plus per-contract theorems; end-to-end oracle on implementation transactions',
 },
 'C09': {
  'text': 'C09_undelegation_within_books (a true-ratio rate makes floor(requests*rate) <= booked stake, so the checked_sub of the batch undelegation cannot fail), C09_pick_validator_live (undelegation plan exists whenever claim <= delegated, via C12), '
          'C09_unbond_stsei_live (the hub side of a stSei unbond succeeds from: slashing check ok, monotone time, token registered, and - when the batch closes - the two premises above plus books <= delegations), the first unbond after the epoch undelegates (C08), withdrawal after the period (C01, under its side condition); '
          'C09_noninterference (whole transactions, every state): for every behaviour of the swap and oracle stubs and every calm top-level message - Bond, BondForStSei, the cw20 Send/SendFrom carrying Unbond or Convert, WithdrawUnbonded, CheckSlashing, every token message, ClaimRewards (examples in the file) - the transaction has the same outcome and leaves every contract, bank account, delegation, unbonding entry and pending reward the same; proved through the message executor (handle_stubs: one message; handle_calm: calm messages emit only calm messages, generated contract by contract; run_stubs: the queue). '
          'C09_stsei_unbond_tx_succeeds (liveness as a whole transaction): from ANY state with an unpaused hub, both tokens registered, a consistent stSei ledger and the epoch period not yet passed, a holder\'s Send-to-hub Unbond of any positive part of its stSei balance succeeds end to end - token transfer, hub request recording, burn, slashing refresh - and records exactly that amount as the holder\'s claim (no premise about delegations, rates or other holders). With C14_claim_tx_succeeds and C01_withdraw_tx_pays these are the exit paths proved live as whole transactions; PARTIAL: the path through a batch undelegation and the bSei unbond are covered by the hub-side lemmas and the dry-run oracle, not by one composed theorem; known findings D6 (zero-backed pool blocks every undelegation) and D5.',
  'note': 'Trusted: Lean kernel; hub model; premises are invariants proved in C02/C03/C08. Gas exhaustion of long release loops cannot be exhibited. Known findings D5, D6.',
  'technique': 'Lean 4 system-level non-interference theorem over whole transactions + liveness lemmas per fault point; dry-run exits and stub-mode re-execution on cloned implementation states',
 },
}
