LEVELS = {
 'C12': {
  'text': 'Full functional correctness of both distribution routines proved in Lean for every list and amount '
          '(conservation, no delegation to / above the even share, no undelegation below it, termination of the while loop after '
          'one pass, exact failure conditions), the u128 guard included; the Lean functions are compared with the real '
          'calculate_delegations / calculate_undelegations on 20 000 (quick) / 2 million (thorough) seeded calls per run.',
  'note': 'Trusted: Lean kernel (axioms propext, Classical.choice, Quot.sound), the hand-written model of common.rs, '
          'the differential run as the tie to the Rust (inputs the generator did not produce are covered only by the proof about the model).',
  'technique': 'Lean 4 proof by induction over the validator list; function-level differential correspondence',
 },
}
