#!/bin/bash
# usage: seedtest.sh <patch.diff> <check-id>...   applies the patch to /repo, runs the quick checks, undoes it
P=$1; shift
cd /repo && git status --short | grep -v '^??' | head -3
git -C /repo apply "$P" || { echo "patch does not apply"; exit 2; }
for c in "$@"; do
  (cd /verif && ./check $c quick 2>&1 | grep -E "VIOLATION|KNOWN|quick:|^  " | cut -c1-400)
done
git -C /repo checkout -- . 
git -C /repo status --short | grep -v '^??' | head -3
