#!/usr/bin/env python3
"""regenerate /verif/MANIFEST.json from tools/propcfg.py and tools/levels.py"""
import json, os, sys
ROOT = os.path.dirname(os.path.dirname(os.path.abspath(__file__)))
sys.path.insert(0, os.path.join(ROOT, 'tools'))
from propcfg import PROPS
from levels import LEVELS
ids = [json.loads(l)['id'] for l in open(os.path.join(ROOT, 'properties.jsonl'))]
checks = []
for pid in ids:
    if pid in PROPS and pid in LEVELS and os.path.exists(os.path.join(ROOT, 'lean', 'Krp', 'Props', pid + '.lean')):
        lv = LEVELS[pid]
        checks.append({
            'property_id': pid,
            'quick_cmd': './check %s quick' % pid,
            'thorough_cmd': './check %s thorough' % pid,
            'evidence_file': '/verif/evidence/%s.json' % pid,
            'replay_cmd_template': './check %s quick --replay {path}' % pid,
            'engine': 'lean4-proof+correspondence',
            'level_claimed': {'category': 'proof', 'text': lv['text'], 'design_ref': lv.get('design_ref', 'DESIGN.md section 8, ' + pid)},
            'level_note': lv['note'],
            'technique': lv.get('technique', 'Lean 4 theorems about a hand-written model; differential correspondence check against the real contracts'),
        })
na = [{'property_id': pid, 'reason': 'not claimed in this revision: the property theorems (lean/Krp/Props/%s.lean) are not written yet; the technique applies (DESIGN.md section 8)' % pid}
      for pid in ids if pid not in [c['property_id'] for c in checks]]
m = {
    'version': 1,
    'setup_cmd': 'cd /verif/lean && lake build Krp driver && cd /verif/harness && CARGO_NET_OFFLINE=true cargo build --release --offline',
    'hooks': {
        'guard': 'kryptonitedao_krp_staking_contracts_verif',
        'enable': 'no hooks are needed: the harness links the crates of /repo by path (feature "library") and drives their public entry points and public state readers',
        'baseline_off_cmd': 'cd /repo && cargo test --workspace --no-fail-fast --offline',
        'source_commits': [],
        'add_only': True,
    },
    'engines': [{
        'name': 'lean4-proof+correspondence', 'path': '/verif/check',
        'serves_properties': [c['property_id'] for c in checks],
        'kind_free_text': 'Lean 4 theorems (lean/Krp/Props) about an executable model (lean/Krp) + Rust harness (harness/) running the real contracts on an in-process chain and diffing every observation against the model driver',
    }],
    'checks': checks,
    'notes': 'Fix commits in /repo: see known_findings.json (status fixed). Known findings are printed as KNOWN-FINDING lines.',
    'not_applicable': na,
}
json.dump(m, open(os.path.join(ROOT, 'MANIFEST.json'), 'w'), indent=1)
print('claimed:', [c['property_id'] for c in checks])
