import json,sys,os
props={}
for l in open('/verif/properties.jsonl'):
    p=json.loads(l); props[p['id']]=p
earlier={}
for n in sorted(os.listdir('/verif/seeded')):
    m=json.load(open(f'/verif/seeded/{n}/meta.json'))
    note=''
    earlier.setdefault(m['breaks_property'],[]).append((n,m['needs_to_manifest']))
rnd=sys.argv[1]
emphasis=open(sys.argv[2]).read().strip()
for pid in sys.argv[3:]:
    p=props[pid]; sid=f'{rnd}_{pid}'
    prev='\n'.join(f'  - "{n[4:]}" (manifests with: {need})' for n,need in earlier.get(pid,[]))
    t=f"""# Task: produce one subtle, realistic property-breaking change ("seeded change")

You are helping to test a verification framework. Your job is to introduce ONE realistic, subtle defect into a
Rust CosmWasm codebase so that a stated semantic property no longer holds, and to demonstrate it with a test.

## Where you work
* Worktree: `/tmp/seed_{sid}` — a git worktree (detached HEAD) of KryptoniteDAO/krp-staking-contracts: liquid-staking
  contracts for Sei forked from Lido/Anchor bAsset (contracts: basset_sei_hub, basset_sei_reward,
  basset_sei_rewards_dispatcher, basset_sei_validators_registry, basset_sei_token_bsei, basset_sei_token_stsei;
  packages: basset, cw20-legacy, signed_integers, ...). Read the top-level layout and sources as needed.
* Output directory: `/tmp/seed_{sid}_out/`.
* Work ONLY inside those two directories. Do NOT read, list or touch `/repo`, `/verif`, or any other `/tmp/seed_*`
  directory. There is no network: always build/test with `CARGO_NET_OFFLINE=true cargo test --workspace --offline --no-fail-fast`
  (first build takes a few minutes). Do not commit anything.

## The property (it holds for the unchanged code)
**{pid} — {p.get('title','')}**

{p.get('statement','')}

## What to produce
A change to the contract/package SOURCE (not to tests) that BREAKS this property, such that
1. the workspace still compiles;
2. every existing test (142 of them) still passes, unedited;
3. it looks like a plausible mistake or well-meant refactor by a developer (wrong variable, reordered statements,
   dropped or misplaced guard, off-by-one, a "simplification", an "optimisation", stale value reuse ...), not
   sabotage, and without special-casing magic values;
4. it needs something SPECIFIC to manifest — a multi-step sequence of operations, a particular interleaving of
   users or of environment events (slashing, time passing, rewards arriving), an unusual but legal input, a boundary
   value, a failure at a particular point, or two cooperating sites that each look fine alone — NOT something that
   ordinary first use exposes at once. Prefer changes whose effect is only visible across contracts or several steps later. {emphasis}

Earlier rounds already produced these changes for this property; yours must be DIFFERENT in kind AND in location
(another function / another mechanism of the property):
{prev}

Also write a DEMONSTRATION: a new test (in an existing test module of the affected crate, or a new test file in it)
driving the real contract entry points, which FAILS with your change and PASSES without it.

## Deliverables in `/tmp/seed_{sid}_out/`
* `patch.diff` — `git diff` of the source change only (no test code); must apply with `git apply` at HEAD.
* `demo.diff`  — `git diff` of the demonstration test only; must apply with `git apply` at HEAD independently of patch.diff
  (and together with it).
* `note.md`    — what the change is, which clause of the property it breaks, exactly what is needed for it to manifest,
  and the commands you ran with their results: (a) change + demo: demo fails, the 142 others pass; (b) demo only: all pass;
  (c) change only: 142 pass.
Verify (a), (b), (c) yourself before finishing. Leave the worktree with both diffs applied.
Final answer: one short paragraph (what you changed, where, what it needs to manifest).
"""
    open(f'/tmp/seed_{sid}_out/TASK.md','w').write(t)
    print(sid)
