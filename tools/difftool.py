#!/usr/bin/env python3
"""Compare the implementation stream and the model stream of one ops file.
Comparison starts once all six contracts have been instantiated since the last `reset`
(before that the Rust storage is empty and the model holds placeholders).
Only ok/err and the canonical snapshot are compared (never error texts)."""
import sys

def status(s):
    return s.split(' | ', 1)[0].split(':', 1)[0].split(' ')[0].replace('!E1', '')

def compare(ops, impl, model, max_report=5):
    """returns list of disagreements: (index, op, [(impl_tok, model_tok)...], impl_status, model_status)"""
    out = []
    inst = set()
    diverged = False
    for i, op in enumerate(ops):
        if i >= len(impl) or i >= len(model):
            out.append((i, op, [('<missing>', '<missing>')], '?', '?'))
            break
        t = op.split()
        if not t:
            continue
        if t[0] == 'reset':
            inst = set(); diverged = False
            continue
        if t[0] == 'inst':
            if status(impl[i]) == 'ok':
                inst.add(t[1])
        if t[0] == 'f':
            if impl[i].strip() != model[i].strip():
                out.append((i, op, [(impl[i].strip(), model[i].strip())], status(impl[i]), status(model[i])))
            continue
        if len(inst) < 6 or diverged:
            continue
        if '!E1' in impl[i].split(' | ', 1)[0]:
            diverged = True     # magnitudes left the envelope (DESIGN §4 E1): compared no further
            continue
        a = impl[i].split(' | ', 1); b = model[i].split(' | ', 1)
        sa, sb = status(impl[i]), status(model[i])
        if sa != sb or (len(a) > 1 and len(b) > 1 and a[1] != b[1]) or len(a) != len(b):
            toks = []
            if len(a) > 1 and len(b) > 1:
                ta, tb = a[1].split(' '), b[1].split(' ')
                for p, q in zip(ta, tb):
                    if p != q:
                        toks.append((p, q))
                if len(ta) != len(tb):
                    toks.append(('<len %d>' % len(ta), '<len %d>' % len(tb)))
            out.append((i, op, toks, a[0], b[0]))
            diverged = True   # rest of this history is meaningless
            if len(out) >= max_report:
                break
    return out

if __name__ == '__main__':
    ops = open(sys.argv[1]).read().splitlines()
    impl = open(sys.argv[2]).read().splitlines()
    model = open(sys.argv[3]).read().splitlines()
    ds = compare(ops, impl, model)
    for (i, op, toks, sa, sb) in ds:
        print("DISAGREE line %d: %s" % (i + 1, op))
        print("   impl : %s" % sa[:300]); print("   model: %s" % sb[:300])
        for p, q in toks[:12]:
            print("     impl  %s" % p[:400]); print("     model %s" % q[:400])
    print("%d disagreements over %d ops" % (len(ds), len(ops)))
    sys.exit(1 if ds else 0)
