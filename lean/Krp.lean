import Krp.Prim
import Krp.Registry
