import Krp.Driver
open Krp

partial def loop (h : IO.FS.Stream) (out : IO.FS.Stream) (s : Sys) (saved : Sys) : IO Unit := do
  let line ← h.getLine
  if line.isEmpty then return ()
  let t := line.trimAscii.toString
  if t == "save" then
    out.putStrLn "ok | save"
    loop h out s s
  else if t == "restore" then
    out.putStrLn "ok | restore"
    loop h out saved saved
  else
    let (s', o) := step s line
    out.putStrLn o
    loop h out s' saved

def main : IO Unit := do
  let out ← IO.getStdout
  loop (← IO.getStdin) out sys0 sys0
