import Krp.Driver
open Krp

partial def loop (h : IO.FS.Stream) (out : IO.FS.Stream) (s : Sys) : IO Unit := do
  let line ← h.getLine
  if line.isEmpty then return ()
  let (s', o) := step s line
  out.putStrLn o
  loop h out s'

def main : IO Unit := do
  let out ← IO.getStdout
  loop (← IO.getStdin) out sys0
