/-
  Driver.lean — line protocol: one operation per input line, one observation line per output.
  Import-free of Mathlib so it links as a native executable.
-/
import Krp.Init
namespace Krp

def cast : List Addr := [1, 2, 3, 4, 5, 6, 7, 8, 9, 100, 101, 102, 103, 104, 105, 106, 107, 108, 109,
  201, 202, 203, 204, 205]

/-- the crowd: 45 more holder addresses (the `crowd` generator profile), observed like the cast -/
def crowd : List Addr := (List.range 45).map (· + 301)
def castAll : List Addr := cast ++ crowd

/-- On the wire an address is a string, and one account has several spellings (bech32 and hex are
    case-insensitive). Ids 1000..1999 of the line protocol stand for the upper-case spelling of the
    address `id - 1000`; everything behind the parser works with the canonical id. -/
def isAltSpelling (a : Addr) : Bool := 1000 ≤ a && a < 2000
def canonSpelling (a : Addr) : Addr := if isAltSpelling a then a - 1000 else a

def optS (o : Option Nat) : String := match o with | some a => toString a | none => "-"
def joinC (l : List String) : String := String.intercalate "," l

def expS : Expiry → String
  | .atHeight h => s!"h{h}"
  | .atTime t => s!"t{t}"
  | .never => "n"

def pausedS : Option Bool → String
  | none => "n" | some true => "t" | some false => "f"

def hubStateS (h : HubSt) : String :=
  joinC [toString h.bRate, toString h.sRate, toString h.bBond, toString h.sBond,
         toString h.lastIndexMod, toString h.prevHubBalance, toString h.lastUnbondedTime,
         toString h.lastProcessedBatch]

def histEntryS (i : Nat) (x : History) : String :=
  String.intercalate ":" [toString i, toString x.time, toString x.bAmt,
      toString x.bApplied, toString x.bWithdraw, toString x.sAmt, toString x.sApplied,
      toString x.sWithdraw, if x.released then "1" else "0"]

def histS (h : HubSt) : String :=
  String.intercalate ";" ((List.range (h.batchId + 1)).filterMap (fun i =>
    (h.hist i).map (fun x => histEntryS i x)))

def tokenS (t : Token) (b : Block) : String :=
  let bals := castAll.filterMap (fun a => if t.bal a = 0 then none else some s!"{a}:{t.bal a}")
  let allows := cast.flatMap (fun o => cast.filterMap (fun s =>
    if t.allowSet o s then some s!"{o}>{s}:{t.allowAmt o s}:{expS (t.allowExp o s)}" else none))
  let _ := b
  s!"{t.supply},{optS t.minter};bal[{joinC bals}];allow[{joinC allows}]"

def observe (s : Sys) : String :=
  let h := s.hub
  let hubQ := match h.actualState s.hubEnv with
    | .ok a => hubStateS a
    | .error _ => "ERR"
  let users := castAll.filterMap (fun u =>
    let reqs := (h.userBatches u).map (fun i => s!"({i},{h.waitB u i},{h.waitS u i})")
    let wd := match h.withdrawable u s.chain.time with
      | .ok n => toString n
      | .error _ => "ERR"
    if reqs = [] ∧ (wd = "0" ∨ wd = "ERR") then none
    else some s!"u{u}=req[{String.intercalate "" reqs}];wd={wd}")
  let r := s.reward
  let holders := castAll.filterMap (fun a =>
    if r.hBal a = 0 ∧ r.hIdx a = 0 ∧ r.hPend a = 0 then none
    else
      let acc := match r.accrued a with | .ok n => toString n | .error _ => "ERR"
      some s!"{a}:{r.hBal a}:{r.hIdx a}:{r.hPend a}:{acc}")
  let d := s.disp
  let c := s.chain
  let regQ := (Sys.sortAscAmt s.regValidatorsRaw).map (fun x => s!"{x.1}:{x.2}")
  let bank := castAll.flatMap (fun a => ([0, 1, 2] : List Denom).filterMap (fun dn =>
    if a = swapA ∨ c.bank a dn = 0 then none else some s!"{a}.{dn}:{c.bank a dn}"))
  let deleg := valUniverse.filterMap (fun v => if !c.delegSet v then none else some s!"{v}:{c.deleg v}")
  let unb := c.unbondingQ.map (fun e => s!"({e.1},{e.2.1},{e.2.2})")
  let pend := valUniverse.flatMap (fun v => ([0, 1, 2] : List Denom).filterMap (fun dn =>
    if c.pending v dn = 0 then none else some s!"{v}.{dn}:{c.pending v dn}"))
  let nored := valUniverse.filterMap (fun v => if c.noRedelegate v then some (toString v) else none)
  let nound := valUniverse.filterMap (fun v => if c.noUndelegate v then some (toString v) else none)
  let inact := valUniverse.filterMap (fun v => if c.inactive v then some (toString v) else none)
  String.intercalate " " [
    s!"hub.raw={hubStateS h}", s!"hub.q={hubQ}",
    s!"batch={h.batchId},{h.reqB},{h.reqS}",
    s!"params={h.epoch},{h.unbonding},{h.fee},{h.thr},{h.rewardDenom},{pausedS h.paused}",
    s!"cfg={h.creator},{h.updater},{optS h.dispatcher},{optS h.registry},{optS h.bsei},{optS h.stsei},{optS h.airdrop},{optS h.rewards},{h.newOwner}",
    s!"hist=[{histS h}]", s!"legacy={h.legacy.length}",
    s!"users[{String.intercalate " " users}]",
    s!"bsei={tokenS s.bsei s.block}", s!"stsei={tokenS s.stsei s.block}",
    s!"rw={r.globalIndex},{r.totalBalance},{r.prevRewardBalance};cfg={r.owner},{r.newOwner},{r.hub},{r.rewardDenom},{r.swapContract},[{joinC (r.swapDenoms.map toString)}];h[{joinC holders}]",
    s!"disp={d.owner},{d.newOwner},{d.hub},{d.rewardContract},{d.stDenom},{d.bDenom},{d.keeper},{d.keeperRate},{d.swapContract},{d.oracle},[{joinC (d.swapDenoms.map toString)}]",
    s!"reg={s.reg.owner},{s.reg.newOwner},{s.reg.hub};[{joinC regQ}]",
    s!"chain={c.time},{c.height};bank[{joinC bank}];deleg[{joinC deleg}];unb[{String.intercalate "" unb}];pend[{joinC pend}];wa={c.withdrawAddr};nored[{joinC nored}];noundel[{joinC nound}];inactive[{joinC inact}]"]

/-! ### parsing -/

def pNat (s : String) : Option Nat := s.toNat?
def pOpt (s : String) : Option (Option Nat) := if s = "-" then some none else (s.toNat?).map some
def pBool (s : String) : Option Bool := if s = "1" then some true else if s = "0" then some false else none
def pHook (s : String) : Option Hook :=
  if s = "unbond" then some .unbond else if s = "convert" then some .convert
  else if s = "other" then some .other else none
def pExp (s : String) : Option (Option Expiry) :=
  if s = "-" then some none
  else if s = "n" then some (some .never)
  else if s.startsWith "h" then ((s.drop 1).toString.toNat?).map (fun n => some (.atHeight n))
  else if s.startsWith "t" then ((s.drop 1).toString.toNat?).map (fun n => some (.atTime n))
  else none
def pPaused (s : String) : Option (Option Bool) :=
  if s = "-" then some none else if s = "t" then some (some true)
  else if s = "f" then some (some false) else none

def pPairs : List String → Option (List (Nat × Nat))
  | [] => some []
  | a :: b :: rest => do
    let x ← pNat a
    let y ← pNat b
    let r ← pPairs rest
    pure ((x, y) :: r)
  | _ => none

def pNats (l : List String) : Option (List Nat) := l.mapM pNat

def pHub : List String → Option HubMsg
  | ["bond"] => some .bond
  | ["bondst"] => some .bondForStSei
  | ["bondrw"] => some .bondRewards
  | ["ugi"] => some .updateGlobalIndex
  | ["withdraw"] => some .withdrawUnbonded
  | ["check"] => some .checkSlashing
  | ["receive", u, a, h] => do pure (.receive (← pNat u) (← pNat a) (← pHook h))
  | ["claimairdrop"] => some .claimAirdrop
  | ["swaphook"] => some .swapHook
  | "redel" :: src :: rest => do pure (.redelegateProxy (← pNat src) (← pPairs rest))
  | ["migrate", l] => do pure (.migrateWaitList (← pOpt l))
  | ["setowner", a] => do pure (.setOwner (← pNat a))
  | ["accept"] => some .acceptOwnership
  | ["uconfig", d, r, b, s, a, rw, u] => do
    pure (.updateConfig (← pOpt d) (← pOpt r) (← pOpt b) (← pOpt s) (← pOpt a) (← pOpt rw) (← pOpt u))
  | ["uparams", e, u, f, t, p, rd] => do
    pure (.updateParams (← pOpt e) (← pOpt u) (← pOpt f) (← pOpt t) (← pPaused p) (← pOpt rd))
  | _ => none

def pTok : List String → Option TokMsg
  | ["transfer", t, a] => do pure (.transfer (← pNat t) (← pNat a))
  | ["burn", a] => do pure (.burn (← pNat a))
  | ["send", c, a, h] => do pure (.send (← pNat c) (← pNat a) (← pHook h))
  | ["mint", t, a] => do pure (.mint (← pNat t) (← pNat a))
  | ["incallow", s, a, e] => do pure (.incAllow (← pNat s) (← pNat a) (← pExp e))
  | ["decallow", s, a, e] => do pure (.decAllow (← pNat s) (← pNat a) (← pExp e))
  | ["transferfrom", o, t, a] => do pure (.transferFrom (← pNat o) (← pNat t) (← pNat a))
  | ["burnfrom", o, a] => do pure (.burnFrom (← pNat o) (← pNat a))
  | ["sendfrom", o, c, a, h] => do pure (.sendFrom (← pNat o) (← pNat c) (← pNat a) (← pHook h))
  | ["uminter", a] => do pure (.updateMinter (← pOpt a))
  | ["umarketing"] => some .updateMarketing
  | _ => none

def pRew : List String → Option RewMsg
  | ["claim", r] => do pure (.claim (← pOpt r))
  | ["uconfig", h, d, s] => do pure (.updateConfig (← pOpt h) (← pOpt d) (← pOpt s))
  | ["setowner", a] => do pure (.setOwner (← pNat a))
  | ["accept"] => some .acceptOwnership
  | ["swap"] => some .swapToRewardDenom
  | ["ugi"] => some .updateGlobalIndex
  | ["inc", a, n] => do pure (.increase (← pNat a) (← pNat n))
  | ["dec", a, n] => do pure (.decrease (← pNat a) (← pNat n))
  | ["uswapdenom", d, b] => do pure (.updateSwapDenom (← pNat d) (← pBool b))
  | _ => none

def pDisp : List String → Option DispMsg
  | ["swap", b, s] => do pure (.swap (← pNat b) (← pNat s))
  | ["dispatch"] => some .dispatch
  | ["uconfig", h, r, sd, bd, k, kr] => do
    pure (.updateConfig (← pOpt h) (← pOpt r) (← pOpt sd) (← pOpt bd) (← pOpt k) (← pOpt kr))
  | ["setowner", a] => do pure (.setOwner (← pNat a))
  | ["accept"] => some .acceptOwnership
  | ["uswap", a] => do pure (.updateSwapContract (← pNat a))
  | ["uswapdenom", d, b] => do pure (.updateSwapDenom (← pNat d) (← pBool b))
  | ["uoracle", a] => do pure (.updateOracle (← pNat a))
  | _ => none

def pReg : List String → Option RegMsg
  | ["add", v] => do pure (.add (← pNat v))
  | ["remove", v] => do pure (.remove (← pNat v))
  | ["uconfig", h] => do pure (.updateConfig (← pOpt h))
  | ["redelegations", v] => do pure (.redelegations (← pNat v))
  | ["setowner", a] => do pure (.setOwner (← pNat a))
  | ["accept"] => some .acceptOwnership
  | _ => none

def pCall (ns : String) (args : List String) : Option Call :=
  match ns with
  | "hub" => (pHub args).map .hub
  | "tok" => (pTok args).map .tok
  | "reward" => (pRew args).map .reward
  | "disp" => (pDisp args).map .disp
  | "reg" => (pReg args).map .reg
  | "swapc" =>
    match args with
    | ["swapdenom", s, a, d, t] => do pure (.swapDenom (← pNat s) (← pNat a) (← pNat d) (← pOpt t))
    | _ => none
  | _ => none

def pFund (s : String) : Option (Nat × Nat) :=
  match (s.drop 1).toString.splitOn ":" with
  | [d, a] => do pure ((← pNat d), (← pNat a))
  | _ => none

/-- process one line; returns the new state and the output line -/
def step (s : Sys) (line : String) : Sys × String :=
  let toks := (line.trimAscii.toString.splitOn " ").filter (· ≠ "")
  let bad := (s, "bad-op")
  match toks with
  | "tx" :: sender :: target :: ns :: rest =>
    let funds := rest.filter (·.startsWith "$")
    let args := rest.filter (fun x => !x.startsWith "$")
    match pNat sender, pNat target, pCall ns args, funds.mapM pFund with
    | some sd, some tg, some call, some fs =>
      let ((s', r), tr) := s.execT (.wasm sd tg call fs)
      let trs := " trace=[" ++ ";".intercalate tr ++ "]"
      match r with
      | .ok _ => (s', "ok | " ++ observe s' ++ trs)
      | .error e => (s', "err:" ++ e ++ " | " ++ observe s' ++ trs)
    | _, _, _, _ => bad
  | ["env", "advance", dt] => match pNat dt with
    | some n => let s' := s.env (.advance n); (s', "ok | " ++ observe s')
    | none => bad
  | ["env", "slash", v, n, d] => match pNats [v, n, d] with
    | some [v, n, d] => let s' := s.env (.slash v n d); (s', "ok | " ++ observe s')
    | _ => bad
  | ["env", "slashu", v, n, d] => match pNats [v, n, d] with
    | some [v, n, d] => let s' := s.env (.slashUnbonding v n d); (s', "ok | " ++ observe s')
    | _ => bad
  | ["env", "accrue", v, d, a] => match pNats [v, d, a] with
    | some [v, d, a] => let s' := s.env (.accrue v d a); (s', "ok | " ++ observe s')
    | _ => bad
  | ["env", "donate", a, d, n] => match pNats [a, d, n] with
    | some [a, d, n] => let s' := s.env (.donate a d n); (s', "ok | " ++ observe s')
    | _ => bad
  | ["env", "noredel", v, b] => match pNat v, pBool b with
    | some v, some b => let s' := s.env (.blockRedelegation v b); (s', "ok | " ++ observe s')
    | _, _ => bad
  | ["env", "inactive", v, b] => match pNat v, pBool b with
    | some v, some b => let s' := s.env (.setInactive v b); (s', "ok | " ++ observe s')
    | _, _ => bad
  | ["env", "noundel", v, b] => match pNat v, pBool b with
    | some v, some b => let s' := s.env (.blockUndelegation v b); (s', "ok | " ++ observe s')
    | _, _ => bad
  | ["env", "oracle", b, p] => match pBool b, pNat p with
    | some b, some p => let s' := s.env (.oracle b p); (s', "ok | " ++ observe s')
    | _, _ => bad
  | ["env", "swap", b, p] => match pBool b, pNat p with
    | some b, some p => let s' := s.env (.swap b p); (s', "ok | " ++ observe s')
    | _, _ => bad
  | ["env", "legacy", u, b, a] => match pNats [u, b, a] with
    | some [u, b, a] => let s' := s.env (.seedLegacy u b a); (s', "ok | " ++ observe s')
    | _ => bad
  | ["env", "migrate", c] => match pNat c with
    -- an upgrade to the same code: every `migrate` entry point of the repository is the identity;
    -- the stSei token (cw20-base wrapper) defines none
    | some c => if c = hubA ∨ c = bseiA ∨ c = rewardA ∨ c = dispA ∨ c = regA then (s, "ok | " ++ observe s)
                else (s, "err:no migrate entry point | " ++ observe s)
    | none => bad
  | ["env", "unbondingtime", n] => match pNat n with
    | some n => let s' := { s with chain := { s.chain with unbondingTime := n } }; (s', "ok | " ++ observe s')
    | none => bad
  -- read paths with arguments (the argument-free ones are part of every observation)
  | ["q", "hist", st, lim] => match pOpt st, pOpt lim with
    | some st, some lim =>
      (s, "ok | page=[" ++ String.intercalate ";" ((s.hub.allHistory st lim).map (fun p => histEntryS p.1 p.2)) ++ "]")
    | _, _ => bad
  | ["reset"] => (sys0, "ok | reset")
  | "inst" :: "hub" :: rest => match pNats rest with
    | some [sender, epoch, unb, fee, thr, rd, upd] =>
      match hubInit sender s.chain.time epoch unb fee thr rd upd with
      | .ok h => let s' := { s with hub := h }; (s', "ok | " ++ observe s')
      | .error e => (s, "err:" ++ e ++ " | " ++ observe s)
    | _ => bad
  | "inst" :: "bsei" :: _sender :: hub :: rest => match pNat hub, pPairs rest with
    | some hub, some bals =>
      -- cw20-legacy keys accounts by the canonical address: a second spelling is the same account
      match tokInit true hub (bals.map (fun x => (canonSpelling x.1, x.2))) with
      | .ok t => let s' := { s with bsei := t }; (s', "ok | " ++ observe s')
      | .error e => (s, "err:" ++ e ++ " | " ++ observe s)
    | _, _ => bad
  | "inst" :: "stsei" :: _sender :: hub :: rest => match pNat hub, pPairs rest with
    | some hub, some bals =>
      -- cw20-base validates every address: a spelling that is not the normal form is rejected
      if bals.any (fun x => isAltSpelling x.1) then (s, "err:address not normalized | " ++ observe s) else
      match tokInit false hub bals with
      | .ok t => let s' := { s with stsei := t }; (s', "ok | " ++ observe s')
      | .error e => (s, "err:" ++ e ++ " | " ++ observe s)
    | _, _ => bad
  | "inst" :: "reward" :: sender :: hub :: denom :: swap :: denoms =>
    match pNats [sender, hub, denom, swap], pNats denoms with
    | some [sender, hub, denom, swap], some ds =>
      let s' := { s with reward := rewardInit sender hub denom swap ds }; (s', "ok | " ++ observe s')
    | _, _ => bad
  | "inst" :: "disp" :: sender :: hub :: reward :: sd :: bd :: keeper :: rate :: swap :: oracle :: denoms =>
    match pNats [sender, hub, reward, sd, bd, keeper, rate, swap, oracle], pNats denoms with
    | some [sender, hub, reward, sd, bd, keeper, rate, swap, oracle], some ds =>
      match dispInit sender hub reward sd bd keeper rate swap oracle ds with
      | .ok d => let s' := { s with disp := d }; (s', "ok | " ++ observe s')
      | .error e => (s, "err:" ++ e ++ " | " ++ observe s)
    | _, _ => bad
  | "inst" :: "reg" :: sender :: hub :: vals =>
    match pNats [sender, hub], pNats vals with
    | some [sender, hub], some vs =>
      let s' := { s with reg := regInit sender hub vs }; (s', "ok | " ++ observe s')
    | _, _ => bad
  -- function-level lines
  | "f" :: "deleg" :: amt :: ds => match pNat amt, pNats ds with
    | some a, some ds =>
      match calculateDelegations a ds with
      | some (r, p) => (s, s!"ok {r} [{joinC (p.map toString)}]")
      | none => (s, "err")
    | _, _ => bad
  | "f" :: "undeleg" :: amt :: ds => match pNat amt, pNats ds with
    | some a, some ds =>
      match calculateUndelegations 1 a ds with
      | some p => (s, s!"ok [{joinC (p.map toString)}]")
      | none => (s, "err")
    | _, _ => bad
  | ["f", "swapinfo", st, b, sa, ba, r] => match pNats [st, b, sa, ba, r] with
    | some [st, b, sa, ba, r] =>
      match decInv r with
      | none => (s, "err")
      | some ri =>
        match getSwapInfo st b sa ba r ri with
        | some (sell, amt) => (s, if amt = 0 then "ok - 0" else s!"ok {if sell then 0 else 1} {amt}")
        | none => (s, "err")
    | _ => bad
  | ["f", "wrate", amount, rate, total, mag, neg] => match pNats [amount, rate, total, mag], pBool neg with
    | some [amount, rate, total, mag], some neg =>
      (s, s!"ok {HubSt.newWithdrawRate amount rate total (mag, neg)}")
    | _, _ => bad
  | _ => bad

end Krp
