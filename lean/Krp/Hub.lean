/-
  Hub.lean — contracts/basset_sei_hub (contract.rs, bond.rs, unbond.rs, convert.rs, config.rs,
  state.rs) and packages/basset/src/hub.rs.  Decimals are atomics (scale D).
-/
import Krp.Types
import Krp.Registry
namespace Krp

structure History where
  time : Nat
  bAmt : Nat
  bApplied : Nat
  bWithdraw : Nat
  sAmt : Nat
  sApplied : Nat
  sWithdraw : Nat
  released : Bool
  deriving DecidableEq, Repr, Inhabited

structure HubSt where
  -- Config
  creator : Addr
  updater : Addr
  dispatcher : Option Addr
  registry : Option Addr
  bsei : Option Addr
  stsei : Option Addr
  airdrop : Option Addr
  rewards : Option Addr
  newOwner : Addr
  -- Parameters (underlying_coin_denom is denom 0 throughout; it has no update path)
  epoch : Nat
  unbonding : Nat
  fee : Nat
  thr : Nat
  rewardDenom : Denom
  paused : Option Bool
  -- State
  bRate : Nat
  sRate : Nat
  bBond : Nat
  sBond : Nat
  lastIndexMod : Nat
  prevHubBalance : Nat
  lastUnbondedTime : Nat
  lastProcessedBatch : Nat
  -- CurrentBatch
  batchId : Nat
  reqB : Nat
  reqS : Nat
  -- history_map, v2_wait, legacy wait
  hist : Nat → Option History
  waitSet : Addr → Nat → Bool
  waitB : Addr → Nat → Nat
  waitS : Addr → Nat → Nat
  waitKeys : List (Addr × Nat)           -- ghost key list
  legacy : List (Addr × Nat × Nat)       -- old "wait" bucket: (user, batch, amount), key order
  deriving Inhabited

/-- what the hub reads from its environment -/
structure HubEnv where
  self : Addr
  now : Nat
  hubBalance : Nat                               -- bank balance of the staking coin
  delegations : List (Addr × Nat)                -- `query_all_delegations(hub)`
  supplyOf : Addr → Res Nat                      -- cw20 TokenInfo.total_supply of a contract
  validatorsOf : Addr → Res (List (Addr × Nat))  -- registry GetValidatorsForDelegation

namespace HubSt

def isPaused (h : HubSt) : Bool := h.paused.getD false

/-- `State::update_bsei_exchange_rate` / `update_stsei_exchange_rate` -/
def rateOf (bond supply requested : Nat) : Nat :=
  if bond = 0 ∨ supply + requested = 0 then D else fromRatio bond (supply + requested)

def bSupplyQ (h : HubSt) (e : HubEnv) : Res Nat :=
  match h.bsei with
  | none => .error "token contract must have been registered"
  | some a => e.supplyOf a

def sSupplyQ (h : HubSt) (e : HubEnv) : Res Nat :=
  match h.stsei with
  | none => .error "token contract must have been registered"
  | some a => e.supplyOf a

/-- `query_actual_state`: the stored state, re-synchronised with the delegations. -/
def actualState (h : HubSt) (e : HubEnv) : Res HubSt :=
  if e.delegations = [] then .ok h
  else if h.bBond + h.sBond = 0 then .ok h
  else do
    let bs ← h.bSupplyQ e
    let ss ← h.sSupplyQ e
    let actual := (e.delegations.map (·.2)).sum
    if h.bBond + h.sBond > actual then
      -- `actual - nb` is a checked_sub; it cannot fail because the ratio is at most one
      let nb := mulDec actual (fromRatio h.bBond (h.bBond + h.sBond))
      if actual < nb then throw "overflow"
      else pure { h with bBond := nb, sBond := actual - nb,
                         bRate := rateOf nb bs h.reqB, sRate := rateOf (actual - nb) ss h.reqS }
    else pure { h with bRate := rateOf h.bBond bs h.reqB, sRate := rateOf h.sBond ss h.reqS }

/-- stable insertion sort, descending by amount (`sort_by(|a,b| b.cmp(a))`) -/
def insDesc (x : Addr × Nat) : List (Addr × Nat) → List (Addr × Nat)
  | [] => [x]
  | y :: ys => if y.2 ≤ x.2 then x :: y :: ys else y :: insDesc x ys

def sortDesc (l : List (Addr × Nat)) : List (Addr × Nat) := l.foldr insDesc []

def zipMsgs (mk : Addr → Nat → Msg) : List (Addr × Nat) → List Nat → List Msg
  | (v, _) :: vs, p :: ps => (if p = 0 then [] else [mk v p]) ++ zipMsgs mk vs ps
  | _, _ => []

/-- `pick_validator` -/
def pickValidator (e : HubEnv) (claim : Nat) : Res (List Msg) :=
  let vs := sortDesc e.delegations
  match calculateUndelegations 1 claim (vs.map (·.2)) with
  | none => .error "undelegation failed"
  | some plan => .ok (zipMsgs (fun v p => Msg.undelegate e.self v p) vs plan)

/-- `process_undelegations` on the in-memory state -/
def processUndelegations (h : HubSt) (e : HubEnv) : Res (HubSt × List Msg) :=
  match pickValidator e (mulDec h.reqB h.bRate + mulDec h.reqS h.sRate) with
  | .error err => .error err
  | .ok msgs =>
    if h.sBond < mulDec h.reqS h.sRate then .error "overflow"          -- checked_sub
    else if h.bBond < mulDec h.reqB h.bRate then .error "overflow"     -- checked_sub
    else
      .ok ({ h with sBond := h.sBond - mulDec h.reqS h.sRate, bBond := h.bBond - mulDec h.reqB h.bRate,
                    hist := upd h.hist h.batchId (some
                      { time := e.now, bAmt := h.reqB, bApplied := h.bRate, bWithdraw := h.bRate,
                        sAmt := h.reqS, sApplied := h.sRate, sWithdraw := h.sRate, released := false }),
                    batchId := h.batchId + 1, reqB := 0, reqS := 0, lastUnbondedTime := e.now }, msgs)

def addWait (h : HubSt) (u : Addr) (batch b s : Nat) : HubSt :=
  { h with waitSet := upd h.waitSet u (upd (h.waitSet u) batch true),
           waitB := upd h.waitB u (upd (h.waitB u) batch (h.waitB u batch + b)),
           waitS := upd h.waitS u (upd (h.waitS u) batch (h.waitS u batch + s)),
           waitKeys := addKey h.waitKeys (u, batch) }

def delWait (h : HubSt) (u : Addr) (batch : Nat) : HubSt :=
  { h with waitSet := upd h.waitSet u (upd (h.waitSet u) batch false),
           waitB := upd h.waitB u (upd (h.waitB u) batch 0),
           waitS := upd h.waitS u (upd (h.waitS u) batch 0) }

/-- peg fee of the paths that charge on the bSei amount itself (unbond, convert bSei→stSei) -/
def pegFeeOnBurn (h : HubSt) (supply amount : Nat) : Res Nat :=
  if h.bRate < h.thr then
    if supply + h.reqB < h.bBond then .error "overflow"                 -- checked_sub
    else if amount < min (mulDec amount h.fee) (supply + h.reqB - h.bBond) then .error "overflow"
    else .ok (amount - min (mulDec amount h.fee) (supply + h.reqB - h.bBond))
  else .ok amount

/-- peg fee of the paths that mint bSei for `value` coins (bond, convert stSei→bSei) -/
def pegFeeOnMint (h : HubSt) (supply mint value : Nat) : Res Nat :=
  if h.bRate < h.thr then
    if supply + mint + h.reqB < h.bBond + value then .error "overflow"  -- `-` on Uint128 panics
    else
      if mint < min (mulDec mint h.fee) (supply + mint + h.reqB - (h.bBond + value)) then .error "overflow"
      else .ok (mint - min (mulDec mint h.fee) (supply + mint + h.reqB - (h.bBond + value)))
  else .ok mint

def tokMsg (self : Addr) (tok : Addr) (m : TokMsg) : Msg := .wasm self tok (.tok m) []

/-- the single coin of the staking denom that must accompany a bond -/
def paymentOf (funds : List (Denom × Nat)) : Res Nat :=
  if funds.length > 1 then .error "More than one coin is sent"
  else
    match funds.find? (fun c => c.1 = 0 ∧ c.2 > 0) with
    | none => .error "No assets are provided to bond"
    | some c => .ok c.2

/-- Delegate messages for a payment: registry query + `calculate_delegations` -/
def delegMsgs (h : HubSt) (e : HubEnv) (payment : Nat) : Res (List Msg) :=
  match h.registry with
  | none => .error "Validators registry contract address is empty"
  | some reg =>
    match e.validatorsOf reg with
    | .error err => .error err
    | .ok validators =>
      if validators = [] then .error "Validators registry is empty"
      else
        match calculateDelegations payment (validators.map (·.2)) with
        | none => .error "delegation failed"
        | some p => .ok (zipMsgs (fun v a => Msg.delegate e.self v a) validators p.2)

/-- `execute_bond`, BondType::BSei -/
def bondB (h : HubSt) (e : HubEnv) (sender : Addr) (funds : List (Denom × Nat)) :
    Res (HubSt × List Msg) :=
  match h.dispatcher with
  | none => .error "the reward dispatcher contract must have been registered"
  | some _ =>
    match paymentOf funds with
    | .error err => .error err
    | .ok payment =>
      match h.actualState e with            -- slashing(): saved
      | .error err => .error err
      | .ok st =>
        if st.bRate = 0 then .error "division by zero"
        else
          match st.pegFeeOnMint ((st.bSupplyQ e).toOption.getD 0) (decDiv payment st.bRate) payment with
          | .error err => .error err
          | .ok mintAmt =>
            match h.delegMsgs e payment with
            | .error err => .error err
            | .ok delegs =>
              match h.bsei with
              | none => .error "the token contract must have been registered"
              | some tok =>
                .ok ({ st with bBond := st.bBond + payment,
                               bRate := rateOf (st.bBond + payment)
                                 ((st.bSupplyQ e).toOption.getD 0 + mintAmt) h.reqB },
                     delegs ++ [tokMsg e.self tok (.mint sender mintAmt)])

/-- `execute_bond`, BondType::StSei (the stored stSei rate is not refreshed) -/
def bondS (h : HubSt) (e : HubEnv) (sender : Addr) (funds : List (Denom × Nat)) :
    Res (HubSt × List Msg) :=
  match h.dispatcher with
  | none => .error "the reward dispatcher contract must have been registered"
  | some _ =>
    match paymentOf funds with
    | .error err => .error err
    | .ok payment =>
      match h.actualState e with
      | .error err => .error err
      | .ok st =>
        if st.sRate = 0 then .error "division by zero"
        else
          match h.delegMsgs e payment with
          | .error err => .error err
          | .ok delegs =>
            match h.stsei with
            | none => .error "the token contract must have been registered"
            | some tok =>
              .ok ({ st with sBond := st.sBond + payment },
                   delegs ++ [tokMsg e.self tok (.mint sender (decDiv payment st.sRate))])

/-- `execute_bond`, BondType::BondRewards (dispatcher only; mints nothing) -/
def bondR (h : HubSt) (e : HubEnv) (sender : Addr) (funds : List (Denom × Nat)) :
    Res (HubSt × List Msg) :=
  match h.dispatcher with
  | none => .error "the reward dispatcher contract must have been registered"
  | some disp =>
    if sender ≠ disp then .error "unauthorized"
    else
      match paymentOf funds with
      | .error err => .error err
      | .ok payment =>
        match h.actualState e with
        | .error err => .error err
        | .ok st =>
          match h.delegMsgs e payment with
          | .error err => .error err
          | .ok delegs =>
            .ok ({ st with sBond := st.sBond + payment,
                           sRate := rateOf (st.sBond + payment) ((st.sSupplyQ e).toOption.getD 0) h.reqS },
                 delegs)

/-- state after recording an unbond request, before a possible undelegation -/
def afterUnbondB (st : HubSt) (user : Addr) (supply amount withFee : Nat) : HubSt :=
  { (st.addWait user st.batchId withFee 0) with
      reqB := st.reqB + withFee, bRate := rateOf st.bBond (supply - amount) (st.reqB + withFee) }

def afterUnbondS (st : HubSt) (user : Addr) (amount : Nat) : HubSt :=
  { (st.addWait user st.batchId 0 amount) with reqS := st.reqS + amount }

/-- `execute_unbond` (bSei) -/
def unbondB (h : HubSt) (e : HubEnv) (amount : Nat) (user : Addr) : Res (HubSt × List Msg) :=
  match h.actualState e with
  | .error err => .error err
  | .ok st =>
    match st.bSupplyQ e with
    | .error err => .error err
    | .ok supply =>
      match st.pegFeeOnBurn supply amount with
      | .error err => .error err
      | .ok withFee =>
        if supply < amount then .error "overflow"                              -- `total_supply -= amount`
        else if e.now < st.lastUnbondedTime then .error "time underflow"
        else
          match h.bsei with
          | none => .error "the token contract must have been registered"
          | some tok =>
            if e.now - st.lastUnbondedTime > st.epoch then
              match (st.afterUnbondB user supply amount withFee).processUndelegations e with
              | .error err => .error err
              | .ok r => .ok (r.1, r.2 ++ [tokMsg e.self tok (.burn amount)])
            else .ok (st.afterUnbondB user supply amount withFee, [tokMsg e.self tok (.burn amount)])

/-- `execute_unbond_stsei` -/
def unbondS (h : HubSt) (e : HubEnv) (amount : Nat) (user : Addr) : Res (HubSt × List Msg) :=
  match h.actualState e with
  | .error err => .error err
  | .ok st =>
    if e.now < st.lastUnbondedTime then .error "time underflow"
    else
      match h.stsei with
      | none => .error "the token contract must have been registered"
      | some tok =>
        if e.now - st.lastUnbondedTime > st.epoch then
          match (st.afterUnbondS user amount).processUndelegations e with
          | .error err => .error err
          | .ok r => .ok (r.1, r.2 ++ [tokMsg e.self tok (.burn amount)])
        else .ok (st.afterUnbondS user amount, [tokMsg e.self tok (.burn amount)])

/-- `convert_stsei_bsei` -/
def convertSB (h : HubSt) (e : HubEnv) (amount : Nat) (user : Addr) : Res (HubSt × List Msg) :=
  match h.actualState e with
  | .error err => .error err
  | .ok st =>
    match h.stsei, h.bsei with
    | some sTok, some bTok =>
      if st.bRate = 0 then .error "division by zero"
      else
        match st.bSupplyQ e, st.sSupplyQ e with
        | .ok bs, .ok ss =>
          match st.pegFeeOnMint bs (decDiv (mulDec amount st.sRate) st.bRate) (mulDec amount st.sRate) with
          | .error err => .error err
          | .ok mintWithFee =>
            if st.sBond < mulDec amount st.sRate then .error "Decrease amount cannot exceed total stsei bond amount"
            else if ss < amount then .error "Decrease amount cannot exceed total stsei supply"
            else
              .ok ({ st with bBond := st.bBond + mulDec amount st.sRate,
                             sBond := st.sBond - mulDec amount st.sRate,
                             bRate := rateOf (st.bBond + mulDec amount st.sRate) (bs + mintWithFee) st.reqB,
                             sRate := rateOf (st.sBond - mulDec amount st.sRate) (ss - amount) st.reqS },
                   [tokMsg e.self bTok (.mint user mintWithFee), tokMsg e.self sTok (.burn amount)])
        | _, _ => .error "token query failed"
    | _, _ => .error "token contracts must be registred"

/-- `convert_bsei_stsei` -/
def convertBS (h : HubSt) (e : HubEnv) (amount : Nat) (user : Addr) : Res (HubSt × List Msg) :=
  match h.actualState e with
  | .error err => .error err
  | .ok st =>
    match h.stsei, h.bsei with
    | some sTok, some bTok =>
      match st.bSupplyQ e, st.sSupplyQ e with
      | .ok bs, .ok ss =>
        match st.pegFeeOnBurn bs amount with
        | .error err => .error err
        | .ok withFee =>
          if st.sRate = 0 then .error "division by zero"
          else if st.bBond < mulDec withFee st.bRate then .error "Decrease amount cannot exceed total bsei bond amount"
          else if bs < amount then .error "Decrease amount cannot exceed total bsei supply"
          else
            .ok ({ st with bBond := st.bBond - mulDec withFee st.bRate,
                           sBond := st.sBond + mulDec withFee st.bRate,
                           bRate := rateOf (st.bBond - mulDec withFee st.bRate) (bs - amount) st.reqB,
                           sRate := rateOf (st.sBond + mulDec withFee st.bRate)
                             (ss + decDiv (mulDec withFee st.bRate) st.sRate) st.reqS },
                 [tokMsg e.self sTok (.mint user (decDiv (mulDec withFee st.bRate) st.sRate)),
                  tokMsg e.self bTok (.burn amount)])
      | _, _ => .error "token query failed"
    | _, _ => .error "token contracts must be registred"

/-- `calculate_new_withdraw_rate` -/
def newWithdrawRate (amount rate total : Nat) (slashed : Nat × Bool) : Nat :=
  let unbonded := mulDec amount rate
  let weight := if total ≠ 0 then fromRatio unbonded total else 0
  let sl := mulDec slashed.1 weight
  let actual :=
    if slashed.2 then unbonded + (if sl > 1 then sl - 1 else 0)
    else unbonded - (if slashed.1 ≠ 0 then sl + 1 else sl)     -- saturating (fix 94f82c5)
  if amount ≠ 0 then fromRatio actual amount else rate

/-- ids of the batches a release would process: from `i`, consecutive, matured, unreleased -/
def releasable (h : HubSt) (cutoff : Nat) : Nat → Nat → List Nat
  | 0, _ => []
  | fuel + 1, i =>
    match h.hist i with
    | none => []
    | some x => if x.time > cutoff then [] else if x.released then [] else i :: releasable h cutoff fuel (i + 1)

def histOr (h : HubSt) (i : Nat) : History := (h.hist i).getD default

/-- `process_withdraw_rate` -/
def processWithdrawRate (h : HubSt) (cutoff hubBalance : Nat) : Res HubSt :=
  let ids := releasable h cutoff (h.batchId + 1) (h.lastProcessedBatch + 1)
  if ids = [] then .ok h
  else
    let sTotal := (ids.map (fun i => mulDec (h.histOr i).sAmt (h.histOr i).sWithdraw)).sum
    let bTotal := (ids.map (fun i => mulDec (h.histOr i).bAmt (h.histOr i).bWithdraw)).sum
    let change := signedSub hubBalance h.prevHubBalance
    if change.2 then .error "current balance of hub contract can not be lower than prev one."
    else
      let actual := change.1
      let bRatio := if sTotal + bTotal > 0 then D - fromRatio sTotal (sTotal + bTotal) else 0
      let bActual := mulDec actual bRatio
      let bSl := signedSub bTotal bActual
      let sSl := signedSub sTotal (actual - bActual)
      let hist' := ids.foldl (fun hs i =>
        let x := h.histOr i
        upd hs i (some { x with
          sWithdraw := newWithdrawRate x.sAmt x.sWithdraw sTotal sSl,
          bWithdraw := newWithdrawRate x.bAmt x.bWithdraw bTotal bSl,
          released := true })) h.hist
      .ok { h with hist := hist', lastProcessedBatch := ids.getLastD h.lastProcessedBatch }

/-- value of one wait entry at the batch's withdraw rates -/
def entryValue (x : History) (b s : Nat) : Nat := mulDec s x.sWithdraw + mulDec b x.bWithdraw

/-- batches of `u` (below the open batch id) with a wait entry -/
def userBatches (h : HubSt) (u : Addr) : List Nat :=
  (List.range (h.batchId + 1)).filter (fun i => h.waitSet u i)

/-- the exclusive lower bound of a paged read: `start_from` omitted admits every id -/
def aboveStart (start : Option Nat) (i : Nat) : Bool :=
  match start with
  | none => true
  | some s => decide (s < i)

/-- `all_unbond_history` (the `AllHistory { start_from, limit }` query): the stored entries with a
    batch id above `start_from`, oldest first, at most `min (limit or 10) 100` of them -/
def allHistory (h : HubSt) (start limit : Option Nat) : List (Nat × History) :=
  (((List.range (h.batchId + 1)).filter (aboveStart start)).filterMap
    (fun i => (h.hist i).map (fun x => (i, x)))).take (min (limit.getD 10) 100)

/-- `get_finished_amount` -/
def finished (h : HubSt) (u : Addr) : Nat × List Nat :=
  let ids := (h.userBatches u).filter (fun i => match h.hist i with
    | some x => x.released
    | none => false)
  ((ids.map (fun i => entryValue (h.histOr i) (h.waitB u i) (h.waitS u i))).sum, ids)

/-- `query_get_finished_amount` (WithdrawableUnbonded) -/
def withdrawable (h : HubSt) (u : Addr) (now : Nat) : Res Nat :=
  if now < h.unbonding then .error "time underflow"
  else
    let ids := (h.userBatches u).filter (fun i => match h.hist i with
      | some x => x.time < now - h.unbonding
      | none => false)
    .ok ((ids.map (fun i => entryValue (h.histOr i) (h.waitB u i) (h.waitS u i))).sum)

/-- `execute_withdraw_unbonded` -/
def withdraw (h : HubSt) (e : HubEnv) (sender : Addr) : Res (HubSt × List Msg) :=
  if e.now < h.unbonding then .error "time underflow"
  else
    match h.processWithdrawRate (e.now - h.unbonding) e.hubBalance with
    | .error err => .error err
    | .ok h1 =>
      if (h1.finished sender).1 = 0 then .error "No withdrawable assets are available yet"
      else if e.hubBalance < (h1.finished sender).1 then .error "overflow"      -- checked_sub
      else
        .ok ({ ((h1.finished sender).2.foldl (fun hh i => hh.delWait sender i) h1) with
                 prevHubBalance := e.hubBalance - (h1.finished sender).1 },
             [Msg.bankSend e.self sender 0 (h1.finished sender).1])

/-- `execute_update_global` (airdrop_hooks = None) -/
def updateGlobal (h : HubSt) (e : HubEnv) (sender : Addr) : Res (HubSt × List Msg) := do
  if sender ≠ h.updater then
    match h.registry with
    | none => throw "unwrap on None"
    | some r => if sender ≠ r then throw "unauthorized" else pure ()
  let disp ← match h.dispatcher with
    | none => throw "the reward contract must have been registered"
    | some d => pure d
  let ws := e.delegations.map (fun d => Msg.withdrawReward e.self d.1)
  pure ({ h with lastIndexMod := e.now },
    ws ++ [Msg.wasm e.self disp (.disp (.swap h.bBond h.sBond)) [],
           Msg.wasm e.self disp (.disp .dispatch) []])

def insLegacy (x : Addr × Nat × Nat) : List (Addr × Nat × Nat) → List (Addr × Nat × Nat)
  | [] => [x]
  | y :: ys =>
    if x.1 < y.1 ∨ (x.1 = y.1 ∧ x.2.1 < y.2.1) then x :: y :: ys
    else if x.1 = y.1 ∧ x.2.1 = y.2.1 then x :: ys
    else y :: insLegacy x ys

/-- one legacy entry becomes a v2 entry (overwriting any existing one for that user and batch) -/
def migrateOne (hh : HubSt) (x : Addr × Nat × Nat) : HubSt :=
  { hh with waitSet := upd hh.waitSet x.1 (upd (hh.waitSet x.1) x.2.1 true),
            waitB := upd hh.waitB x.1 (upd (hh.waitB x.1) x.2.1 x.2.2),
            waitS := upd hh.waitS x.1 (upd (hh.waitS x.1) x.2.1 0),
            waitKeys := addKey hh.waitKeys (x.1, x.2.1) }

/-- `migrate_unbond_wait_lists` -/
def migrate (h : HubSt) (limit : Option Nat) : HubSt :=
  let n := limit.getD 1000
  let moved := h.legacy.take n
  if moved = [] then h
  else
    let h1 := moved.foldl migrateOne h
    let rest := h.legacy.drop n
    { h1 with legacy := rest, paused := if rest = [] then some false else h1.paused }

/-- `execute_update_params` -/
def updateParams (h : HubSt) (sender : Addr) (epoch unbonding fee thr : Option Nat)
    (paused : Option Bool) (rewardDenom : Option Denom) : Res HubSt := do
  if sender ≠ h.creator then throw "unauthorized"
  match fee with
  | some f => if f > D then throw "peg_recovery_fee can not be greater than 1" else pure ()
  | none => pure ()
  if paused ≠ some true ∧ h.legacy ≠ [] then throw "cannot unpause contract with old unbond wait lists"
  pure { h with epoch := epoch.getD h.epoch, unbonding := unbonding.getD h.unbonding,
                fee := fee.getD h.fee, thr := min (thr.getD h.thr) D,
                rewardDenom := rewardDenom.getD h.rewardDenom, paused := paused }

/-- `execute_update_config` -/
def updateConfig (h : HubSt) (self sender : Addr)
    (disp reg bsei stsei airdrop rewards updater : Option Addr) : Res (HubSt × List Msg) := do
  if sender ≠ h.creator then throw "unauthorized"
  if bsei.isSome ∧ h.bsei.isSome then throw "updating bsei token address is forbidden"
  if stsei.isSome ∧ h.stsei.isSome then throw "updating stsei token address is forbidden"
  let msgs := match disp with
    | some d => [Msg.setWithdrawAddr self d]
    | none => []
  pure ({ h with dispatcher := disp.orElse (fun _ => h.dispatcher),
                 registry := reg.orElse (fun _ => h.registry),
                 bsei := bsei.orElse (fun _ => h.bsei),
                 stsei := stsei.orElse (fun _ => h.stsei),
                 airdrop := airdrop.orElse (fun _ => h.airdrop),
                 rewards := rewards.orElse (fun _ => h.rewards),
                 updater := updater.getD h.updater }, msgs)

end HubSt

/-- address of the catch-all stub contract used for airdrop plumbing -/
def sinkA : Addr := 109

/-- hub `execute` entry point: migration → UpdateParams → pause guard → dispatch -/
def hubExec (h : HubSt) (e : HubEnv) (sender : Addr) (funds : List (Denom × Nat)) (m : HubMsg) :
    Res (HubSt × List Msg) :=
  match m with
  | .migrateWaitList limit =>
    if h.isPaused then pure (h.migrate limit, [])
    else throw "migrate unbond wait list must paused the contract first."
  | .updateParams ep ub fee thr paused rd => do
    let h' ← h.updateParams sender ep ub fee thr paused rd
    pure (h', [])
  | m =>
    if h.isPaused then throw "the contract is temporarily paused"
    else
      match m with
      | .receive user amt hook => do
        let b ← match h.bsei with
          | none => throw "the bSei token contract must have been registered"
          | some a => pure a
        let s ← match h.stsei with
          | none => throw "the stSei token contract must have been registered"
          | some a => pure a
        match hook with
        | .other => throw "parse error"
        | .unbond =>
          if sender = b then h.unbondB e amt user
          else if sender = s then h.unbondS e amt user
          else throw "unauthorized"
        | .convert =>
          if sender = b then h.convertBS e amt user
          else if sender = s then h.convertSB e amt user
          else throw "unauthorized"
      | .bond => h.bondB e sender funds
      | .bondForStSei => h.bondS e sender funds
      | .bondRewards => h.bondR e sender funds
      | .updateGlobalIndex => h.updateGlobal e sender
      | .withdrawUnbonded => h.withdraw e sender
      | .checkSlashing => do
        let st ← h.actualState e
        pure (st, [])
      | .updateConfig d r b s a rw u => h.updateConfig e.self sender d r b s a rw u
      | .setOwner a =>
        if sender ≠ h.creator then throw "unauthorized" else pure ({ h with newOwner := a }, [])
      | .acceptOwnership =>
        if sender ≠ h.newOwner then throw "unauthorized" else pure ({ h with creator := h.newOwner }, [])
      | .swapHook =>
        if sender ≠ e.self then throw "unauthorized"
        else pure (h, [Msg.wasm e.self sinkA (.receiveHook e.self 0 .other) []])
      | .claimAirdrop =>
        match h.airdrop with
        | none => throw "airdrop contract must be registered"
        | some a =>
          if sender ≠ a then throw "unauthorized"
          else pure (h, [Msg.wasm e.self sinkA (.receiveHook e.self 0 .other) [],
                         Msg.wasm e.self e.self (.hub .swapHook) []])
      | .redelegateProxy src plan =>
        match h.registry with
        | none => throw "the validator registry contract must have been registered"
        | some r =>
          if sender ≠ r then throw "unauthorized"
          else pure (h, plan.map (fun p => Msg.redelegate e.self src p.1 p.2))
      | .updateParams .. => throw "unreachable"
      | .migrateWaitList _ => throw "forbidden"

end Krp
