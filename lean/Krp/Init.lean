/-
  Init.lean — `instantiate` entry points of the six contracts.
-/
import Krp.System
namespace Krp

def hubInit (sender now epoch unbonding fee thr : Nat) (rewardDenom : Denom) (updater : Addr) :
    Res HubSt :=
  if fee > D then .error "peg_recovery_fee can not be greater than 1"
  else .ok
    { creator := sender, updater := updater, dispatcher := none, registry := none, bsei := none,
      stsei := none, airdrop := none, rewards := none, newOwner := sender,
      epoch := epoch, unbonding := unbonding, fee := fee, thr := min thr D,
      rewardDenom := rewardDenom, paused := some false,
      bRate := D, sRate := D, bBond := 0, sBond := 0, lastIndexMod := now, prevHubBalance := 0,
      lastUnbondedTime := now, lastProcessedBatch := 0, batchId := 1, reqB := 0, reqS := 0,
      hist := fun _ => none, waitSet := fun _ _ => false, waitB := fun _ _ => 0,
      waitS := fun _ _ => 0, waitKeys := [], legacy := [] }

def emptyToken (legacy : Bool) (hub : Addr) : Token :=
  { bal := fun _ => 0, holders := [], supply := 0, minter := some hub,
    allowSet := fun _ _ => false, allowAmt := fun _ _ => 0, allowExp := fun _ _ => .never,
    hub := hub, legacy := legacy }

/-- `create_accounts`: cw20-legacy adds up a repeated address (fix 669b1db; it used to overwrite
    the balance while adding both amounts to the supply); cw20-base 0.16 rejects repeated addresses. -/
def tokInit (legacy : Bool) (hub : Addr) (balances : List (Addr × Nat)) : Res Token :=
  if !legacy ∧ !(balances.map (·.1)).Nodup then .error "duplicate initial balance addresses"
  else
    .ok (balances.foldl (fun t x => { (t.setBal x.1 (t.bal x.1 + x.2)) with supply := t.supply + x.2 })
      (emptyToken legacy hub))

def rewardInit (sender hub : Addr) (denom : Denom) (swap : Addr) (swapDenoms : List Denom) : RewardSt :=
  { owner := sender, newOwner := sender, hub := hub, rewardDenom := denom, swapContract := swap,
    swapDenoms := swapDenoms, globalIndex := 0, totalBalance := 0, prevRewardBalance := 0,
    hBal := fun _ => 0, hIdx := fun _ => 0, hPend := fun _ => 0, holders := [] }

def dispInit (sender hub reward : Addr) (stDenom bDenom : Denom) (keeper : Addr) (rate : Nat)
    (swap oracle : Addr) (swapDenoms : List Denom) : Res DispSt :=
  if rate > D then .error "keeper rate can not be greater than 1."
  else .ok { owner := sender, newOwner := sender, hub := hub, rewardContract := reward,
             stDenom := stDenom, bDenom := bDenom, keeper := keeper, keeperRate := rate,
             swapContract := swap, swapDenoms := swapDenoms, oracle := oracle }

def regInit (sender hub : Addr) (vals : List Addr) : RegSt :=
  { owner := sender, newOwner := sender, hub := hub, vals := vals.foldl (fun acc v => insAsc v acc) [] }

def chain0 : Chain :=
  { time := 1000000, height := 1, bank := fun a _ => if a = swapA then 10000000000000000000000000000000000000 else 0,
    deleg := fun _ => 0, delegSet := fun _ => false, unbondingQ := [], pending := fun _ _ => 0, withdrawAddr := hubA,
    noRedelegate := fun _ => false, noUndelegate := fun _ => false, inactive := fun _ => false, unbondingTime := 0, oracleOk := true, oraclePrice := D,
    swapOk := true, swapP2 := D }

/-- state before the genesis `inst` lines (never observed) -/
def sys0 : Sys :=
  { hub := (hubInit 1 0 0 0 0 0 1 3).toOption.getD default,
    bsei := emptyToken true hubA, stsei := emptyToken false hubA,
    reward := rewardInit 1 hubA 1 swapA [], disp := default, reg := regInit 1 hubA [],
    chain := chain0 }

/-- the state after the standard genesis of the corpus (`corpus/genesis.inc`): the six
    instantiations and the owner's UpdateConfig that wires the contracts together; used as the
    concrete witness that the premises of the reachable-state theorems are satisfiable -/
def genesisSys : Sys :=
  let s1 : Sys := { sys0 with
    hub := (hubInit 1 0 30 100 0 D 1 3).toOption.getD default,
    bsei := (tokInit true hubA []).toOption.getD default,
    stsei := (tokInit false hubA []).toOption.getD default,
    reward := rewardInit 1 hubA 1 swapA [0, 1],
    disp := (dispInit 1 hubA rewardA 0 1 keeperA (D / 20) swapA oracleA [0, 1, 2]).toOption.getD default,
    reg := regInit 1 hubA [201] }
  (s1.exec (.wasm 1 hubA (.hub (.updateConfig (some dispA) (some regA) (some bseiA) (some stseiA)
    (some 4) (some rewardA) none)) [])).1

end Krp
