/-
  Reward.lean — contracts/basset_sei_reward (bSei reward contract).
  Decimals are atomics (scale D). `calculate_decimal_rewards` = (G − g)·balance exactly,
  because the balance is an integer: Decimal256 mul is floor((G−g)·(balance·D)/D).
-/
import Krp.Types
namespace Krp

structure RewardSt where
  owner : Addr
  newOwner : Addr
  hub : Addr
  rewardDenom : Denom
  swapContract : Addr
  swapDenoms : List Denom
  globalIndex : Nat            -- atomics
  totalBalance : Nat
  prevRewardBalance : Nat
  hBal : Addr → Nat            -- Holder.balance
  hIdx : Addr → Nat            -- Holder.index (atomics)
  hPend : Addr → Nat           -- Holder.pending_rewards (atomics)
  holders : List Addr          -- ghost key list
  deriving Inhabited

namespace RewardSt

/-- `calculate_decimal_rewards(global, user_index, balance)` in atomics; the Rust asserts
    `global ≥ user_index` inside Decimal256 subtraction. -/
def accrual (r : RewardSt) (a : Addr) : Res Nat :=
  if r.globalIndex < r.hIdx a then .error "index underflow"
  else .ok ((r.globalIndex - r.hIdx a) * r.hBal a)

def setHolder (r : RewardSt) (a : Addr) (bal idx pend : Nat) : RewardSt :=
  { r with hBal := upd r.hBal a bal, hIdx := upd r.hIdx a idx, hPend := upd r.hPend a pend,
           holders := addKey r.holders a }

/-- `query_accrued_rewards` (whole units) -/
def accrued (r : RewardSt) (a : Addr) : Res Nat := do
  let acc ← r.accrual a
  pure ((acc + r.hPend a) / D)

end RewardSt

/-- `tokenAddr` / `dispAddr`: the bSei token and dispatcher registered in the hub's config, as
    the reward contract queries them (`Err` if the hub has none registered). -/
def rewardExec (r : RewardSt) (self : Addr) (tokenAddr dispAddr : Res Addr) (bankBal : Denom → Nat)
    (sender : Addr) (m : RewMsg) : Res (RewardSt × List Msg) :=
  match m with
  | .claim recipient => do
    let acc ← r.accrual sender
    let all := acc + r.hPend sender
    let rewards := all / D
    if rewards = 0 then throw "No rewards have accrued yet"
    if r.prevRewardBalance < rewards then throw "overflow"       -- checked_sub
    let r1 := { r with prevRewardBalance := r.prevRewardBalance - rewards }
    let r2 := r1.setHolder sender (r.hBal sender) r.globalIndex (all % D)
    pure (r2, [.bankSend self (recipient.getD sender) r.rewardDenom rewards])
  | .updateConfig hub denom swap =>
    if sender ≠ r.owner then throw "unauthorized"
    else pure ({ r with hub := hub.getD r.hub, rewardDenom := denom.getD r.rewardDenom,
                        swapContract := swap.getD r.swapContract }, [])
  | .setOwner a =>
    if sender ≠ r.owner then throw "unauthorized" else pure ({ r with newOwner := a }, [])
  | .acceptOwnership =>
    if sender ≠ r.newOwner then throw "unauthorized" else pure ({ r with owner := r.newOwner }, [])
  | .swapToRewardDenom => do
    let d ← dispAddr
    if sender ≠ d then throw "unauthorized"
    -- one swap message per held coin whose denom is in swap_denoms (balances ascending by denom)
    let msgs := ([0, 1, 2] : List Denom).filterMap (fun dn =>
      if r.swapDenoms.contains dn && bankBal dn > 0 then
        some (Msg.wasm self r.swapContract (.swapDenom dn (bankBal dn) r.rewardDenom (some self))
                [(dn, bankBal dn)])
      else none)
    pure (r, msgs)
  | .updateGlobalIndex => do
    let d ← dispAddr
    if sender ≠ d then throw "unauthorized"
    if r.totalBalance = 0 then pure (r, [])
    else
      if bankBal r.rewardDenom < r.prevRewardBalance then throw "overflow"     -- checked_sub
      else
        pure ({ r with prevRewardBalance := bankBal r.rewardDenom,
                       globalIndex := r.globalIndex +
                         fromRatio (bankBal r.rewardDenom - r.prevRewardBalance) r.totalBalance }, [])
  | .increase a amt => do
    let t ← tokenAddr
    if sender ≠ t then throw "unauthorized"
    let acc ← r.accrual a
    let r1 := r.setHolder a (r.hBal a + amt) r.globalIndex (acc + r.hPend a)
    pure ({ r1 with totalBalance := r.totalBalance + amt }, [])
  | .decrease a amt => do
    let t ← tokenAddr
    if sender ≠ t then throw "unauthorized"
    if r.hBal a < amt then throw "Decrease amount cannot exceed user balance"
    let acc ← r.accrual a
    if r.totalBalance < amt then throw "overflow"              -- checked_sub
    let r1 := r.setHolder a (r.hBal a - amt) r.globalIndex (acc + r.hPend a)
    pure ({ r1 with totalBalance := r.totalBalance - amt }, [])
  | .updateSwapDenom d add =>
    if sender ≠ r.owner then throw "unauthorized"
    else if add then pure ({ r with swapDenoms := r.swapDenoms ++ [d] }, [])
    else pure ({ r with swapDenoms := r.swapDenoms.filter (· ≠ d) }, [])

end Krp
