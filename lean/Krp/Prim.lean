/-
  Prim.lean — number semantics of the Rust code on naturals.

  Uint128 / Uint256 values are naturals; `Decimal` / `Decimal256` values are their *atomics*
  (scale `D = 10^18`).  Overflow of the machine types is not modelled here (DESIGN.md §3),
  except where a property is about it (C12, see Registry.lean).
-/
namespace Krp

/-- `DECIMAL_FRACTIONAL` = 10^18. -/
def D : Nat := 1000000000000000000

theorem D_pos : 0 < D := by decide

/-- `Decimal::from_ratio(a, b)` / `Decimal256::from_ratio` (atomics); caller guards `b ≠ 0`
    (the Rust panics on a zero denominator). -/
def fromRatio (a b : Nat) : Nat := a * D / b

/-- `Uint128 * Decimal`, `Decimal * Uint128`, `Uint256 * Decimal256`: `floor(a * r / 10^18)`. -/
def mulDec (a r : Nat) : Nat := a * r / D

/-- hub `math::decimal_division(a, r)` = `Decimal::from_ratio(a, r * 10^18) * 10^18`
    = `floor(a * 10^18 / r_atomics)`; caller guards `r ≠ 0` (the Rust panics). -/
def decDiv (a r : Nat) : Nat := a * D / r

/-- `Decimal::inv` (atomics): `10^36 / r`, `None` for zero. -/
def decInv (r : Nat) : Option Nat := if r = 0 then none else some (D * D / r)

/-- `Uint128::multiply_ratio(a, n, d)`; caller guards `d ≠ 0`. -/
def mulRatio (a n d : Nat) : Nat := a * n / d

/-- `SignedInt::from_subtraction(a, b)`: (|a − b|, a < b). -/
def signedSub (a b : Nat) : Nat × Bool := if a < b then (b - a, true) else (a - b, false)

/-- 2^128, the first value a `u128` cannot hold. -/
def U128 : Nat := 340282366920938463463374607431768211456

end Krp
