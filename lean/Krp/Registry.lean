/-
  Registry.lean — model of contracts/basset_sei_validators_registry/src/common.rs

  `calculate_delegations` / `calculate_undelegations` on lists of existing delegations.
  The validator addresses play no role in the arithmetic; callers zip the plan with the list.
-/
import Krp.Prim
namespace Krp

/-- `extra_coin` of the Rust loops: 1 for the first `rem` positions (0-based index `idx`). -/
def extraCoin (idx rem : Nat) : Nat := if idx + 1 ≤ rem then 1 else 0

/-- The `for` loop of `calculate_delegations`, from position `idx` with `amt` still to place.
    Returns (remaining amount, plan for the rest of the list). -/
def delegPass (cpv rem : Nat) : Nat → Nat → List Nat → Nat × List Nat
  | _, amt, [] => (amt, [])
  | idx, amt, d :: ds =>
    if cpv + extraCoin idx rem < d then
      ((delegPass cpv rem (idx + 1) amt ds).1, 0 :: (delegPass cpv rem (idx + 1) amt ds).2)
    else if amt - min (cpv + extraCoin idx rem - d) amt = 0 then      -- `break`
      (0, min (cpv + extraCoin idx rem - d) amt :: List.replicate ds.length 0)
    else
      ((delegPass cpv rem (idx + 1) (amt - min (cpv + extraCoin idx rem - d) amt) ds).1,
        min (cpv + extraCoin idx rem - d) amt ::
          (delegPass cpv rem (idx + 1) (amt - min (cpv + extraCoin idx rem - d) amt) ds).2)

/-- `calculate_delegations(amount, validators)`; `none` = `Err`/panic
    (empty list, or `Σ + amount` does not fit a `u128`). -/
def calculateDelegations (amount : Nat) (ds : List Nat) : Option (Nat × List Nat) :=
  if ds = [] then none
  else if ds.sum + amount ≥ U128 then none
  else
    some (delegPass ((ds.sum + amount) / ds.length) ((ds.sum + amount) % ds.length) 0 amount ds)

/-- One `for` pass of `calculate_undelegations` from position `idx`.
    Returns (remaining amount, per-validator amounts taken in this pass). -/
def undelegPass (cpv rem : Nat) : Nat → Nat → List Nat → Nat × List Nat
  | _, amt, [] => (amt, [])
  | idx, amt, d :: ds =>
    if amt - min (d - min (cpv + extraCoin idx rem) d) amt = 0 then       -- `break`
      (0, min (d - min (cpv + extraCoin idx rem) d) amt :: List.replicate ds.length 0)
    else
      ((undelegPass cpv rem (idx + 1) (amt - min (d - min (cpv + extraCoin idx rem) d) amt) ds).1,
        min (d - min (cpv + extraCoin idx rem) d) amt ::
          (undelegPass cpv rem (idx + 1) (amt - min (d - min (cpv + extraCoin idx rem) d) amt) ds).2)

/-- `l[j]`, 0 beyond the end -/
def nth : List Nat → Nat → Nat
  | [], _ => 0
  | a :: _, 0 => a
  | _ :: as, j + 1 => nth as j

def zipAdd : List Nat → List Nat → List Nat
  | a :: as, b :: bs => (a + b) :: zipAdd as bs
  | as, [] => as
  | [], bs => bs

def zipSub : List Nat → List Nat → List Nat
  | a :: as, b :: bs => (a - b) :: zipSub as bs
  | as, [] => as
  | [], _ => []

/-- The `while !undelegation_amount.is_zero()` loop, with fuel. `none` = fuel exhausted
    (the Rust would keep looping). -/
def undelegLoop : Nat → Nat → List Nat → List Nat → Option (List Nat)
  | _, 0, _, acc => some acc
  | 0, _ + 1, _, _ => none
  | fuel + 1, amt + 1, ds, acc =>
    undelegLoop fuel
      (undelegPass ((ds.sum - (amt + 1)) / ds.length) ((ds.sum - (amt + 1)) % ds.length) 0 (amt + 1) ds).1
      (zipSub ds
        (undelegPass ((ds.sum - (amt + 1)) / ds.length) ((ds.sum - (amt + 1)) % ds.length) 0 (amt + 1) ds).2)
      (zipAdd acc
        (undelegPass ((ds.sum - (amt + 1)) / ds.length) ((ds.sum - (amt + 1)) % ds.length) 0 (amt + 1) ds).2)

/-- `calculate_undelegations(amount, validators)` with `fuel` iterations of the `while` allowed;
    `none` = `Err` (empty list, amount above total) or out of fuel. -/
def calculateUndelegations (fuel amount : Nat) (ds : List Nat) : Option (List Nat) :=
  if ds = [] then none
  else if ds.sum ≥ U128 then none
  else if amount > ds.sum then none
  else undelegLoop fuel amount ds (List.replicate ds.length 0)

end Krp
