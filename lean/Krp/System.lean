/-
  System.lean — the six contracts on the chain model (A-CHAIN, DESIGN.md §3): bank, staking,
  distribution, message routing and all-or-nothing transactions.
-/
import Krp.Cw20
import Krp.Reward
import Krp.Dispatcher
import Krp.Hub
namespace Krp

def hubA : Addr := 100
def bseiA : Addr := 101
def stseiA : Addr := 102
def rewardA : Addr := 103
def dispA : Addr := 104
def regA : Addr := 105
def swapA : Addr := 106
def oracleA : Addr := 107
def keeperA : Addr := 108
-- sinkA = 109 (Hub.lean)

/-- validators known to the chain -/
def valUniverse : List Addr := [201, 202, 203, 204, 205, 206, 207, 208, 209, 210, 211, 212]

structure RegSt where
  owner : Addr
  newOwner : Addr
  hub : Addr
  vals : List Addr            -- REGISTRY keys, ascending
  deriving Inhabited

def insAsc (x : Nat) : List Nat → List Nat
  | [] => [x]
  | y :: ys => if x < y then x :: y :: ys else if x = y then y :: ys else y :: insAsc x ys

structure Chain where
  time : Nat
  height : Nat
  bank : Addr → Denom → Nat
  deleg : Addr → Nat                         -- the hub's delegation per validator
  delegSet : Addr → Bool                     -- a delegation object exists (survives a slash to 0)
  unbondingQ : List (Addr × Nat × Nat)       -- (validator, amount, completion time), creation order
  pending : Addr → Denom → Nat               -- undistributed rewards of (hub, validator)
  withdrawAddr : Addr
  noRedelegate : Addr → Bool
  noUndelegate : Addr → Bool                 -- the staking module refuses undelegations from this validator (entry limit)
  inactive : Addr → Bool                     -- the validator has left the active (bonded) set; staking messages to it still work
  unbondingTime : Nat
  oracleOk : Bool
  oraclePrice : Nat
  swapOk : Bool
  swapP2 : Nat
  deriving Inhabited

structure Sys where
  hub : HubSt
  bsei : Token
  stsei : Token
  reward : RewardSt
  disp : DispSt
  reg : RegSt
  chain : Chain
  deriving Inhabited

namespace Sys

def block (s : Sys) : Block := { height := s.chain.height, time := s.chain.time }

/-- `query_all_delegations(who)`; only the hub delegates -/
def delegationsOf (s : Sys) (who : Addr) : List (Addr × Nat) :=
  if who = hubA then
    (valUniverse.filter (fun v => s.chain.delegSet v)).map (fun v => (v, s.chain.deleg v))
  else []

/-- stable insertion sort ascending by amount (`sort_by(|a,b| a.cmp(b))`) -/
def insAscAmt (x : Addr × Nat) : List (Addr × Nat) → List (Addr × Nat)
  | [] => [x]
  | y :: ys => if x.2 ≤ y.2 then x :: y :: ys else y :: insAscAmt x ys

def sortAscAmt (l : List (Addr × Nat)) : List (Addr × Nat) := l.foldr insAscAmt []

/-- registry `query_validators` (unsorted: REGISTRY key order) -/
def regValidatorsRaw (s : Sys) : List (Addr × Nat) :=
  let ds := s.delegationsOf s.reg.hub
  s.reg.vals.map (fun v => (v, ((ds.find? (fun d => d.1 = v)).map (·.2)).getD 0))

def validatorsOf (s : Sys) (a : Addr) : Res (List (Addr × Nat)) :=
  if a = regA then .ok (sortAscAmt s.regValidatorsRaw) else .error "not a registry"

def supplyOf (s : Sys) (a : Addr) : Res Nat :=
  if a = bseiA then .ok s.bsei.supply
  else if a = stseiA then .ok s.stsei.supply
  else .error "not a token"

def hubEnv (s : Sys) : HubEnv :=
  { self := hubA, now := s.chain.time, hubBalance := s.chain.bank hubA 0,
    delegations := s.delegationsOf hubA, supplyOf := s.supplyOf, validatorsOf := s.validatorsOf }

/-- hub `Config` query as seen from contract at address `a` -/
def hubTokenOf (s : Sys) (a : Addr) : Res Addr :=
  if a = hubA then
    match s.hub.bsei with
    | some t => .ok t
    | none => .error "the token contract must have been registered"
  else .error "not a hub"

def hubDispatcherOf (s : Sys) (a : Addr) : Res Addr :=
  if a = hubA then
    match s.hub.dispatcher with
    | some t => .ok t
    | none => .error "the rewards dispatcher contract must have been registered"
  else .error "not a hub"

/-- bSei `query_reward_contract` -/
def bseiRewardAddr (s : Sys) : Res Addr := do
  let d ← s.hubDispatcherOf s.bsei.hub
  if d = dispA then pure s.disp.rewardContract else throw "not a dispatcher"

def swapPrice (s : Sys) (src dst : Denom) : Option Nat :=
  if src = dst then some D
  else if src = 0 ∧ dst = 1 then some s.chain.oraclePrice
  else if src = 1 ∧ dst = 0 then decInv s.chain.oraclePrice
  else some s.chain.swapP2

def dispEnv (s : Sys) : DispEnv :=
  { bal := s.chain.bank dispA,
    oraclePrice := if s.disp.oracle = oracleA ∧ s.chain.oracleOk then some s.chain.oraclePrice else none,
    simulate := fun src amt dst =>
      if s.disp.swapContract = swapA ∧ s.chain.swapOk then
        (s.swapPrice src dst).map (fun p => mulDec amt p)
      else none }

def setBank (s : Sys) (a : Addr) (d : Denom) (v : Nat) : Sys :=
  { s with chain := { s.chain with bank := upd s.chain.bank a (upd (s.chain.bank a) d v) } }

/-- bank transfer; zero-amount coins and overdrafts are rejected (A-CHAIN-2) -/
def bankMove (s : Sys) (src dst : Addr) (d : Denom) (amt : Nat) : Res Sys :=
  if amt = 0 then .error "zero coin"
  else if s.chain.bank src d < amt then .error "insufficient funds"
  else
    let s1 := s.setBank src d (s.chain.bank src d - amt)
    .ok (s1.setBank dst d (s1.chain.bank dst d + amt))

def moveFunds (s : Sys) (src dst : Addr) : List (Denom × Nat) → Res Sys
  | [] => .ok s
  | (d, amt) :: rest =>
    match s.bankMove src dst d amt with
    | .error e => .error e
    | .ok s1 => moveFunds s1 src dst rest

def regExec (s : Sys) (sender : Addr) (m : RegMsg) : Res (RegSt × List Msg) :=
  let r := s.reg
  let redelegate (vals : List Addr) (v : Addr) : Res (List Msg) :=
    -- shared tail of remove_validator / redelegations
    let s' := { s with reg := { r with vals := vals } }
    let validators := sortAscAmt s'.regValidatorsRaw
    let d := if r.hub = hubA then s.chain.deleg v else 0
    if !(r.hub = hubA ∧ s.chain.delegSet v) then .ok []    -- query_delegation returned None
    else if s.chain.noRedelegate v ∧ 0 < d then .ok []     -- can_redelegate (0 when blocked) < amount
    else
      match calculateDelegations d (validators.map (·.2)) with
      | none => .error "Empty validators set"
      | some p =>
        .ok [Msg.wasm regA r.hub (.hub (.redelegateProxy v
                ((validators.zip p.2).filterMap (fun x => if x.2 = 0 then none else some (x.1.1, x.2))))) [],
             Msg.wasm regA r.hub (.hub .updateGlobalIndex) []]
  match m with
  | .add v =>
    if sender ≠ r.owner ∧ sender ≠ r.hub then throw "unauthorized"
    else pure ({ r with vals := insAsc v r.vals }, [])
  | .remove v => do
    if sender ≠ r.owner then throw "unauthorized"
    let vals := r.vals.filter (· ≠ v)
    if vals = [] then throw "Cannot remove the last validator in the registry"
    let ms ← redelegate vals v
    pure ({ r with vals := vals }, ms)
  | .redelegations v => do
    if r.vals.contains v then throw "registered validators cannot be redelegated"
    let ms ← redelegate r.vals v
    pure (r, ms)
  | .updateConfig hub =>
    if sender ≠ r.owner then throw "unauthorized" else pure ({ r with hub := hub.getD r.hub }, [])
  | .setOwner a =>
    if sender ≠ r.owner then throw "unauthorized" else pure ({ r with newOwner := a }, [])
  | .acceptOwnership =>
    if sender ≠ r.newOwner then throw "unauthorized" else pure ({ r with owner := r.newOwner }, [])

/-- execute one message; returns the new system and the messages it emitted -/
def handle (s : Sys) (m : Msg) : Res (Sys × List Msg) :=
  match m with
  | .bankSend src dst d amt => do
    let s' ← s.bankMove src dst d amt
    pure (s', [])
  | .delegate who v amt => do
    if who ≠ hubA then throw "unsupported delegator"
    if amt = 0 then throw "zero delegation"
    if !valUniverse.contains v then throw "unknown validator"
    if s.chain.bank who 0 < amt then throw "insufficient funds"
    let s1 := s.setBank who 0 (s.chain.bank who 0 - amt)
    pure ({ s1 with chain := { s1.chain with deleg := upd s1.chain.deleg v (s1.chain.deleg v + amt),
                                             delegSet := upd s1.chain.delegSet v true } }, [])
  | .undelegate who v amt => do
    if who ≠ hubA then throw "unsupported delegator"
    if amt = 0 then throw "zero undelegation"
    if s.chain.deleg v < amt then throw "insufficient delegation"
    if s.chain.noUndelegate v then throw "too many unbonding entries"
    pure ({ s with chain := { s.chain with
              deleg := upd s.chain.deleg v (s.chain.deleg v - amt),
              delegSet := upd s.chain.delegSet v (decide (s.chain.deleg v - amt > 0)),
              unbondingQ := s.chain.unbondingQ ++ [(v, amt, s.chain.time + s.chain.unbondingTime)] } }, [])
  | .redelegate who src dst amt => do
    if who ≠ hubA then throw "unsupported delegator"
    if amt = 0 then throw "zero redelegation"
    if !valUniverse.contains dst then throw "unknown validator"
    if src = dst then throw "self redelegation"
    if s.chain.noRedelegate src then throw "redelegation in progress"
    if s.chain.deleg src < amt then throw "insufficient delegation"
    let d1 := upd s.chain.deleg src (s.chain.deleg src - amt)
    let e1 := upd s.chain.delegSet src (decide (s.chain.deleg src - amt > 0))
    pure ({ s with chain := { s.chain with deleg := upd d1 dst (d1 dst + amt), delegSet := upd e1 dst true } }, [])
  | .withdrawReward who v => do
    if who ≠ hubA then throw "unsupported delegator"
    if !s.chain.delegSet v then throw "no delegation"
    -- pay every pending coin to the withdraw address
    let pay (acc : Sys) (d : Denom) : Sys :=
      let amt := acc.chain.pending v d
      let acc1 := acc.setBank acc.chain.withdrawAddr d (acc.chain.bank acc.chain.withdrawAddr d + amt)
      { acc1 with chain := { acc1.chain with pending := upd acc1.chain.pending v (upd (acc1.chain.pending v) d 0) } }
    pure (([0, 1, 2] : List Denom).foldl pay s, [])
  | .setWithdrawAddr who a => do
    if who ≠ hubA then throw "unsupported delegator"
    pure ({ s with chain := { s.chain with withdrawAddr := a } }, [])
  | .wasm sender target call funds => do
    let s1 ← s.moveFunds sender target funds
    if target = hubA then
      match call with
      | .hub hm =>
        let (h', ms) ← hubExec s1.hub s1.hubEnv sender funds hm
        pure ({ s1 with hub := h' }, ms)
      | _ => throw "parse error"
    else if target = bseiA then
      match call with
      | .tok tm =>
        let (t', ms) ← bseiExec s1.bsei s1.block bseiA s1.bseiRewardAddr hubA sender tm
        pure ({ s1 with bsei := t' }, ms)
      | _ => throw "parse error"
    else if target = stseiA then
      match call with
      | .tok tm =>
        let (t', ms) ← stseiExec s1.stsei s1.block stseiA hubA sender tm
        pure ({ s1 with stsei := t' }, ms)
      | _ => throw "parse error"
    else if target = rewardA then
      match call with
      | .reward rm =>
        let (r', ms) ← rewardExec s1.reward rewardA (s1.hubTokenOf s1.reward.hub)
            (s1.hubDispatcherOf s1.reward.hub) (s1.chain.bank rewardA) sender rm
        pure ({ s1 with reward := r' }, ms)
      | _ => throw "parse error"
    else if target = dispA then
      match call with
      | .disp dm =>
        let (d', ms) ← dispExec s1.disp dispA s1.dispEnv sender dm
        pure ({ s1 with disp := d' }, ms)
      | _ => throw "parse error"
    else if target = regA then
      match call with
      | .reg rm =>
        let (r', ms) ← s1.regExec sender rm
        pure ({ s1 with reg := r' }, ms)
      | _ => throw "parse error"
    else if target = swapA then
      match call with
      | .swapDenom src amt dst to =>
        if !s1.chain.swapOk then throw "swap stub failing"
        else
          match s1.swapPrice src dst with
          | none => throw "no price"
          | some p =>
            let out := mulDec amt p
            if out = 0 then pure (s1, [])
            else pure (s1, [Msg.bankSend swapA (to.getD sender) dst out])
      | _ => throw "parse error"
    else if target = sinkA then pure (s1, [])
    else throw "no such contract"

/-- depth-first execution of a message queue (CosmWasm submessage order), with fuel -/
def run : Nat → Sys → List Msg → Res Sys
  | _, s, [] => .ok s
  | 0, _, _ :: _ => .error "out of fuel"
  | fuel + 1, s, m :: rest =>
    match s.handle m with
    | .error e => .error e
    | .ok (s', subs) => run fuel s' (subs ++ rest)

/-- a transaction: everything or nothing (A-CHAIN-1) -/
def exec (s : Sys) (m : Msg) : Sys × Res Unit :=
  match run 400 s [m] with
  | .ok s' => (s', .ok ())
  | .error e => (s, .error e)

/-- the JSON variant name of a contract call (first key of the serialized message) -/
def callName : Call → String
  | .hub m => match m with
    | .updateConfig .. => "update_config" | .updateParams .. => "update_params" | .setOwner _ => "set_owner"
    | .acceptOwnership => "accept_ownership" | .bond => "bond" | .bondForStSei => "bond_for_st_sei"
    | .bondRewards => "bond_rewards" | .updateGlobalIndex => "update_global_index"
    | .withdrawUnbonded => "withdraw_unbonded" | .checkSlashing => "check_slashing" | .receive .. => "receive"
    | .claimAirdrop => "claim_airdrop" | .swapHook => "swap_hook" | .redelegateProxy .. => "redelegate_proxy"
    | .migrateWaitList _ => "migrate_unbond_wait_list"
  | .tok m => match m with
    | .transfer .. => "transfer" | .burn _ => "burn" | .send .. => "send" | .mint .. => "mint"
    | .incAllow .. => "increase_allowance" | .decAllow .. => "decrease_allowance"
    | .transferFrom .. => "transfer_from" | .burnFrom .. => "burn_from" | .sendFrom .. => "send_from"
    | .updateMinter _ => "update_minter" | .updateMarketing => "update_marketing"
  | .reward m => match m with
    | .claim _ => "claim_rewards" | .updateConfig .. => "update_config" | .setOwner _ => "set_owner"
    | .acceptOwnership => "accept_ownership" | .swapToRewardDenom => "swap_to_reward_denom"
    | .updateGlobalIndex => "update_global_index" | .increase .. => "increase_balance"
    | .decrease .. => "decrease_balance" | .updateSwapDenom .. => "update_swap_denom"
  | .disp m => match m with
    | .swap .. => "swap_to_reward_denom" | .dispatch => "dispatch_rewards" | .updateConfig .. => "update_config"
    | .setOwner _ => "set_owner" | .acceptOwnership => "accept_ownership"
    | .updateSwapContract _ => "update_swap_contract" | .updateSwapDenom .. => "update_swap_denom"
    | .updateOracle _ => "update_oracle_contract"
  | .reg m => match m with
    | .add _ => "add_validator" | .remove _ => "remove_validator" | .updateConfig _ => "update_config"
    | .redelegations _ => "redelegations" | .setOwner _ => "set_owner" | .acceptOwnership => "accept_ownership"
  | .swapDenom .. => "swap_denom"
  | .receiveHook .. => "receive"

/-- trace token of a message (what the harness logs for the implementation) -/
def msgTok : Msg → String
  | .bankSend src dst d amt => s!"B{src}>{dst}.{d}.{amt}"
  | .delegate _ v amt => s!"D{v}.{amt}"
  | .undelegate _ v amt => s!"U{v}.{amt}"
  | .redelegate _ src dst amt => s!"R{src}>{dst}.{amt}"
  | .withdrawReward _ v => s!"W{v}"
  | .setWithdrawAddr _ a => s!"A{a}"
  | .wasm _ t c _ => if t = sinkA then s!"X{t}.*" else s!"X{t}.{callName c}"

/-- `run` with the pre-order trace of every message handled (the failing one marked `!`) -/
def runT : Nat → Sys → List Msg → List String → Res Sys × List String
  | _, s, [], tr => (.ok s, tr)
  | 0, _, _ :: _, tr => (.error "out of fuel", tr)
  | fuel + 1, s, m :: rest, tr =>
    match s.handle m with
    | .error e => (.error e, tr ++ [msgTok m ++ "!"])
    | .ok (s', subs) => runT fuel s' (subs ++ rest) (tr ++ [msgTok m])

/-- `exec` with the trace -/
def execT (s : Sys) (m : Msg) : (Sys × Res Unit) × List String :=
  match runT 400 s [m] [] with
  | (.ok s', tr) => ((s', .ok ()), tr)
  | (.error e, tr) => ((s, .error e), tr)

theorem runT_fst : ∀ (fuel : Nat) (s : Sys) (q : List Msg) (tr : List String), (runT fuel s q tr).1 = run fuel s q := by
  intro fuel
  induction fuel with
  | zero => intro s q tr; cases q <;> rfl
  | succ n ih =>
    intro s q tr
    cases q with
    | nil => rfl
    | cons m rest =>
      simp only [runT, run]
      cases s.handle m with
      | error e => rfl
      | ok r => exact ih _ _ _

/-- the traced executor is the executor the theorems are about -/
theorem execT_fst (s : Sys) (m : Msg) : (s.execT m).1 = s.exec m := by
  unfold execT exec
  have := runT_fst 400 s [m] []
  cases h : runT 400 s [m] [] with
  | mk r tr =>
    rw [h] at this
    simp only [] at this
    rw [← this]
    cases r <;> rfl

end Sys

/-- environment events -/
inductive EnvOp where
  | advance (dt : Nat)
  | slash (v : Addr) (num den : Nat)
  | slashUnbonding (v : Addr) (num den : Nat)
  | accrue (v : Addr) (d : Denom) (amt : Nat)
  | donate (a : Addr) (d : Denom) (amt : Nat)
  | blockRedelegation (v : Addr) (on : Bool)
  | blockUndelegation (v : Addr) (on : Bool)
  | setInactive (v : Addr) (on : Bool)
  | oracle (ok : Bool) (price : Nat)
  | swap (ok : Bool) (p2 : Nat)
  | seedLegacy (u : Addr) (batch amt : Nat)
  deriving Repr, Inhabited

def Sys.env (s : Sys) (op : EnvOp) : Sys :=
  match op with
  | .advance dt =>
    let t := s.chain.time + dt
    let matured := s.chain.unbondingQ.filter (fun e => e.2.2 ≤ t)
    let paid := (matured.map (fun e => e.2.1)).sum
    let s1 := s.setBank hubA 0 (s.chain.bank hubA 0 + paid)
    let q := s.chain.unbondingQ.filter (fun e => !(decide (e.2.2 ≤ t)))
    let hgt := s.chain.height + 1
    { s1 with chain := { s1.chain with time := t, height := hgt, unbondingQ := q } }
  | .slash v num den =>
    if den = 0 ∨ num > den then s
    else { s with chain := { s.chain with deleg := upd s.chain.deleg v (s.chain.deleg v * (den - num) / den) } }
  | .slashUnbonding v num den =>
    if den = 0 ∨ num > den then s
    else { s with chain := { s.chain with unbondingQ := s.chain.unbondingQ.map (fun e =>
            if e.1 = v then (e.1, e.2.1 * (den - num) / den, e.2.2) else e) } }
  | .accrue v d amt =>
    { s with chain := { s.chain with pending := upd s.chain.pending v (upd (s.chain.pending v) d (s.chain.pending v d + amt)) } }
  | .donate a d amt => s.setBank a d (s.chain.bank a d + amt)
  | .blockRedelegation v on =>
    { s with chain := { s.chain with noRedelegate := upd s.chain.noRedelegate v on } }
  | .blockUndelegation v on =>
    { s with chain := { s.chain with noUndelegate := upd s.chain.noUndelegate v on } }
  | .setInactive v on =>
    { s with chain := { s.chain with inactive := upd s.chain.inactive v on } }
  | .oracle ok p => { s with chain := { s.chain with oracleOk := ok, oraclePrice := p } }
  | .swap ok p => { s with chain := { s.chain with swapOk := ok, swapP2 := p } }
  | .seedLegacy u b amt => { s with hub := { s.hub with legacy := HubSt.insLegacy (u, b, amt) s.hub.legacy } }

end Krp
