import Krp.Types
namespace Krp

/-- sum of `f` over a key list -/
def sumOn {α : Type} (ks : List α) (f : α → Nat) : Nat := (ks.map f).sum

@[simp] theorem sumOn_nil {α : Type} (f : α → Nat) : sumOn [] f = 0 := rfl
@[simp] theorem sumOn_cons {α : Type} (k : α) (ks : List α) (f : α → Nat) :
    sumOn (k :: ks) f = f k + sumOn ks f := by simp [sumOn]

theorem sumOn_congr {α : Type} (ks : List α) (f g : α → Nat) (h : ∀ k ∈ ks, f k = g k) :
    sumOn ks f = sumOn ks g := by
  induction ks with
  | nil => rfl
  | cons k ks ih =>
    simp only [sumOn_cons]
    rw [h k (by simp), ih (fun x hx => h x (by simp [hx]))]

/-- `g` differs from `f` at most at `a`, and `a` is not a key: same sum -/
theorem sumOn_except_notin {α : Type} (ks : List α) (f g : α → Nat) (a : α)
    (h : ∀ k, k ≠ a → g k = f k) (ha : a ∉ ks) : sumOn ks g = sumOn ks f := by
  apply sumOn_congr
  intro k hk
  exact h k (fun e => ha (e ▸ hk))

/-- `g` differs from `f` at most at `a`, a key of a duplicate-free list: the sums differ by the
    change at `a` -/
theorem sumOn_except_in {α : Type} (ks : List α) (f g : α → Nat) (a : α)
    (h : ∀ k, k ≠ a → g k = f k) (hn : ks.Nodup) (ha : a ∈ ks) :
    sumOn ks g + f a = sumOn ks f + g a := by
  induction ks with
  | nil => cases ha
  | cons k ks ih =>
    simp only [sumOn_cons]
    have hn' := List.nodup_cons.mp hn
    by_cases hk : k = a
    · subst hk
      have := sumOn_except_notin ks f g k h hn'.1
      omega
    · have ha' : a ∈ ks := by
        cases ha with
        | head => exact absurd rfl hk
        | tail _ h' => exact h'
      have := ih hn'.2 ha'
      have := h k hk
      omega

theorem mem_addKey {α : Type} [DecidableEq α] (ks : List α) (k x : α) :
    x ∈ addKey ks k ↔ x = k ∨ x ∈ ks := by
  unfold addKey
  split
  · constructor
    · intro h; exact Or.inr h
    · intro h; cases h with
      | inl e => subst e; assumption
      | inr h => exact h
  · simp

theorem nodup_addKey {α : Type} [DecidableEq α] (ks : List α) (k : α) (h : ks.Nodup) :
    (addKey ks k).Nodup := by
  unfold addKey
  split
  · exact h
  · exact List.nodup_cons.mpr ⟨by assumption, h⟩

/-- adding a key whose value was zero under `f` and changing only that key -/
theorem sumOn_addKey {α : Type} [DecidableEq α] (ks : List α) (f g : α → Nat) (a : α)
    (h : ∀ k, k ≠ a → g k = f k) (hn : ks.Nodup) (hz : a ∉ ks → f a = 0) :
    sumOn (addKey ks a) g + f a = sumOn ks f + g a := by
  unfold addKey
  split
  · exact sumOn_except_in ks f g a h hn (by assumption)
  · rename_i hni
    simp only [sumOn_cons]
    have := sumOn_except_notin ks f g a h hni
    have := hz hni
    omega

end Krp
