import Krp.Lemmas.RateHub
namespace Krp
open HubSt

/-! ### arithmetic of closing a batch, with the scale as a variable -/

theorem tr_close_same (d r B S R M : Nat) (h : r * (S + R) ≤ B * d) (hM : M * d ≤ R * r) (hMB : M ≤ B) :
    r * S ≤ (B - M) * d := by
  rw [Nat.sub_mul]
  rw [Nat.mul_add, Nat.mul_comm r R] at h
  have : M * d ≤ B * d := Nat.mul_le_mul_right _ hMB
  omega

theorem tr_close_burn (d r B S R a M : Nat) (h : r * (S + R) ≤ B * d) (hM : M * d ≤ (R + a) * r) (hMB : M ≤ B) :
    r * S ≤ (B - M) * d + r * a := by
  rw [Nat.sub_mul]
  rw [Nat.mul_add, Nat.mul_comm r R] at h
  rw [Nat.add_mul, Nat.mul_comm a r] at hM
  have : M * d ≤ B * d := Nat.mul_le_mul_right _ hMB
  omega

theorem tr_request (d r B S R a : Nat) (h : r * (S + R) ≤ B * d) : r * (S + (R + a)) ≤ B * d + r * a := by
  rw [show S + (R + a) = (S + R) + a by omega, Nat.mul_add]
  omega


/-- Unbond (stSei), on fresh pools: the request joins the open batch (and the tokens are burnt
    later), or the whole batch is undelegated at the stored rates -/
theorem flow_unbondS (h h' : HubSt) (e : HubEnv) (amount : Nat) (user : Addr) (ms : List Msg)
    (hx : h.unbondS e amount user = .ok (h', ms))
    (hself : e.self = hubA) (hb : h.bsei = some bseiA) (hs : h.stsei = some stseiA)
    (bs ss : Nat) (hbs : e.supplyOf bseiA = .ok bs) (hss : e.supplyOf stseiA = .ok ss)
    (ns : h.bBond + h.sBond ≤ (e.delegations.map (·.2)).sum)
    (hd : e.delegations ≠ []) (hz : h.bBond + h.sBond ≠ 0)
    (trb : TR (rateOf h.bBond bs h.reqB) h.bBond bs h.reqB 0 0)
    (trs : TR (rateOf h.sBond ss h.reqS) h.sBond ss h.reqS 0 0) :
    TR (rateOf h.bBond bs h.reqB) h'.bBond bs h'.reqB (mintsTo bseiA ms) (burnsBy bseiA ms) ∧
    TR (rateOf h.sBond ss h.reqS) h'.sBond ss h'.reqS (mintsTo stseiA ms) (burnsBy stseiA ms) := by
  obtain ⟨st, tok, hst, _, htok, hcase⟩ := unbondS_spec h h' e amount user ms hx
  have f := fresh_state h st e hst hb hs bs ss hbs hss ns hd hz
  obtain ⟨f1, f2, f3, f4, f5, f6, _⟩ := f
  have htk : tok = stseiA := by rw [hs] at htok; injection htok with h1; exact h1.symm
  subst htk
  have trb' : rateOf h.bBond bs h.reqB * (bs + h.reqB) ≤ h.bBond * D := by
    unfold TR at trb; simpa using trb
  have trs' : rateOf h.sBond ss h.reqS * (ss + h.reqS) ≤ h.sBond * D := by
    unfold TR at trs; simpa using trs
  rcases hcase with ⟨_, um, hp, hms⟩ | ⟨_, hh, hms⟩
  · -- the batch is closed
    obtain ⟨hpick, hls, hlb, es, eb, _, _, rb0', rs0', _⟩ := processUndelegations_spec _ _ _ _ hp
    have st1 := flows_of_stake bseiA um (undelegs_stake e _ um hself hpick).1
    have st2 := flows_of_stake stseiA um (undelegs_stake e _ um hself hpick).1
    have e1 : (st.afterUnbondS user amount).reqB = h.reqB := f3
    have e2 : (st.afterUnbondS user amount).reqS = h.reqS + amount := by show st.reqS + amount = _; rw [f4]
    have e3 : (st.afterUnbondS user amount).bRate = rateOf h.bBond bs h.reqB := f5
    have e4 : (st.afterUnbondS user amount).sRate = rateOf h.sBond ss h.reqS := f6
    have e5 : (st.afterUnbondS user amount).bBond = h.bBond := f1
    have e6 : (st.afterUnbondS user amount).sBond = h.sBond := f2
    rw [e1, e3, e5] at hlb eb
    rw [e2, e4, e6] at hls es
    subst hms
    rw [hself]
    have fb := flows_burn bseiA stseiA amount
    have fs := flows_burn stseiA stseiA amount
    rw [if_neg bsei_ne_stsei.symm] at fb
    rw [if_pos rfl] at fs
    rw [mintsTo_append, burnsBy_append, mintsTo_append, burnsBy_append, st1.1, st1.2, st2.1, st2.2, fb.1, fb.2, fs.1, fs.2,
      rb0', rs0', es, eb]
    unfold TR
    constructor
    · have := tr_close_same D _ h.bBond bs h.reqB _ trb' (mulDec_mul_le _ _) hlb
      simpa using this
    · have := tr_close_burn D _ h.sBond ss h.reqS amount _ trs' (mulDec_mul_le _ _) hls
      simpa using this
  · subst hms; subst hh
    rw [hself]
    have fb := flows_burn bseiA stseiA amount
    have fs := flows_burn stseiA stseiA amount
    rw [if_neg bsei_ne_stsei.symm] at fb
    rw [if_pos rfl] at fs
    rw [fb.1, fb.2, fs.1, fs.2]
    show TR _ st.bBond bs st.reqB 0 0 ∧ TR _ st.sBond ss (st.reqS + amount) 0 amount
    rw [f1, f2, f3, f4]
    unfold TR
    constructor
    · simpa using trb'
    · have := tr_request D _ h.sBond ss h.reqS amount trs'
      simpa using this


theorem tr_close_repriced (d r ρ B S a w R M : Nat) (h : r * (S + R) ≤ B * d) (ha : a ≤ S)
    (hρ : B = 0 ∨ (S - a) + (R + w) = 0 ∨ (r ≤ ρ ∧ ρ * ((S - a) + (R + w)) ≤ B * d))
    (hM : M * d ≤ (R + w) * ρ) (hMB : M ≤ B) :
    r * S ≤ (B - M) * d + r * a := by
  have k3 : r * S = r * (S - a) + r * a := by rw [← Nat.mul_add, Nat.sub_add_cancel ha]
  rcases hρ with hB | hC | ⟨hr, hρ⟩
  · subst hB
    have : r * S ≤ r * (S + R) := Nat.mul_le_mul_left _ (Nat.le_add_right _ _)
    omega
  · have h1 : S - a = 0 := by omega
    rw [k3, h1]; simp
  · rw [Nat.sub_mul]
    rw [Nat.mul_add] at hρ
    rw [Nat.mul_comm (R + w) ρ] at hM
    have k2 : r * (S - a) ≤ ρ * (S - a) := Nat.mul_le_mul_right _ hr
    have : M * d ≤ B * d := Nat.mul_le_mul_right _ hMB
    omega

theorem tr_request_fee (d r B S R a w : Nat) (h : r * (S + R) ≤ B * d) (hw : w ≤ a) :
    r * (S + (R + w)) ≤ B * d + r * a := by
  have := tr_request d r B S R w h
  have : r * w ≤ r * a := Nat.mul_le_mul_left _ hw
  omega

/-- Unbond (bSei), on fresh pools -/
theorem flow_unbondB (h h' : HubSt) (e : HubEnv) (amount : Nat) (user : Addr) (ms : List Msg)
    (hx : h.unbondB e amount user = .ok (h', ms))
    (hself : e.self = hubA) (hb : h.bsei = some bseiA) (hs : h.stsei = some stseiA)
    (bs ss : Nat) (hbs : e.supplyOf bseiA = .ok bs) (hss : e.supplyOf stseiA = .ok ss)
    (ns : h.bBond + h.sBond ≤ (e.delegations.map (·.2)).sum)
    (hd : e.delegations ≠ []) (hz : h.bBond + h.sBond ≠ 0)
    (trb : TR (rateOf h.bBond bs h.reqB) h.bBond bs h.reqB 0 0)
    (trs : TR (rateOf h.sBond ss h.reqS) h.sBond ss h.reqS 0 0) :
    TR (rateOf h.bBond bs h.reqB) h'.bBond bs h'.reqB (mintsTo bseiA ms) (burnsBy bseiA ms) ∧
    TR (rateOf h.sBond ss h.reqS) h'.sBond ss h'.reqS (mintsTo stseiA ms) (burnsBy stseiA ms) := by
  obtain ⟨st, supply, withFee, tok, hst, hsup, hfee, hle, _, htok, hcase⟩ := unbondB_spec h h' e amount user ms hx
  have f := fresh_state h st e hst hb hs bs ss hbs hss ns hd hz
  obtain ⟨f1, f2, f3, f4, f5, f6, f7, _⟩ := f
  have htk : tok = bseiA := by rw [hb] at htok; injection htok with h1; exact h1.symm
  subst htk
  have esup : supply = bs := by rw [f7] at hsup; injection hsup with h1; exact h1.symm
  subst esup
  have hw : withFee ≤ amount := (pegFeeOnBurn_spec st _ _ _ hfee).1
  have trb' : rateOf h.bBond supply h.reqB * (supply + h.reqB) ≤ h.bBond * D := by
    unfold TR at trb; simpa using trb
  have trs' : rateOf h.sBond ss h.reqS * (ss + h.reqS) ≤ h.sBond * D := by
    unfold TR at trs; simpa using trs
  have fb := flows_burn bseiA bseiA amount
  have fs := flows_burn stseiA bseiA amount
  rw [if_pos rfl] at fb
  rw [if_neg bsei_ne_stsei] at fs
  rcases hcase with ⟨_, um, hp, hms⟩ | ⟨_, hh, hms⟩
  · obtain ⟨hpick, hls, hlb, es, eb, _, _, rb0', rs0', _⟩ := processUndelegations_spec _ _ _ _ hp
    have st1 := flows_of_stake bseiA um (undelegs_stake e _ um hself hpick).1
    have st2 := flows_of_stake stseiA um (undelegs_stake e _ um hself hpick).1
    have e1 : (st.afterUnbondB user supply amount withFee).reqB = h.reqB + withFee := by
      show st.reqB + withFee = _; rw [f3]
    have e2 : (st.afterUnbondB user supply amount withFee).reqS = h.reqS := f4
    have e3 : (st.afterUnbondB user supply amount withFee).bRate = rateOf h.bBond (supply - amount) (h.reqB + withFee) := by
      show rateOf st.bBond (supply - amount) (st.reqB + withFee) = _; rw [f1, f3]
    have e4 : (st.afterUnbondB user supply amount withFee).sRate = rateOf h.sBond ss h.reqS := f6
    have e5 : (st.afterUnbondB user supply amount withFee).bBond = h.bBond := f1
    have e6 : (st.afterUnbondB user supply amount withFee).sBond = h.sBond := f2
    rw [e1, e3, e5] at hlb eb
    rw [e2, e4, e6] at hls es
    subst hms
    rw [hself]
    rw [mintsTo_append, burnsBy_append, mintsTo_append, burnsBy_append, st1.1, st1.2, st2.1, st2.2, fb.1, fb.2, fs.1, fs.2,
      rb0', rs0', es, eb]
    unfold TR
    constructor
    · have hρ : h.bBond = 0 ∨ (supply - amount) + (h.reqB + withFee) = 0 ∨
          (rateOf h.bBond supply h.reqB ≤ rateOf h.bBond (supply - amount) (h.reqB + withFee) ∧
           rateOf h.bBond (supply - amount) (h.reqB + withFee) * ((supply - amount) + (h.reqB + withFee)) ≤ h.bBond * D) := by
        by_cases hB : h.bBond = 0
        · exact Or.inl hB
        · by_cases hC : (supply - amount) + (h.reqB + withFee) = 0
          · exact Or.inr (Or.inl hC)
          · refine Or.inr (Or.inr ⟨?_, rateOf_mul_le _ _ _ (Or.inl (Nat.pos_of_ne_zero hB))⟩)
            apply le_rateOf _ _ _ _ (Nat.pos_of_ne_zero hB) (Nat.pos_of_ne_zero hC)
            refine Nat.le_trans (Nat.mul_le_mul_left _ ?_) trb'
            omega
      have := tr_close_repriced D _ _ h.bBond supply amount withFee h.reqB _ trb' (by omega) hρ (mulDec_mul_le _ _) hlb
      simpa using this
    · have := tr_close_same D _ h.sBond ss h.reqS _ trs' (mulDec_mul_le _ _) hls
      simpa using this
  · subst hms; subst hh
    rw [hself, fb.1, fb.2, fs.1, fs.2]
    show TR _ st.bBond supply (st.reqB + withFee) 0 amount ∧ TR _ st.sBond ss st.reqS 0 0
    rw [f1, f2, f3, f4]
    unfold TR
    constructor
    · have := tr_request_fee D _ h.bBond supply h.reqB amount withFee trb' hw
      simpa using this
    · simpa using trs'


theorem TR.keep {r B S R m u B' R' : Nat} (h : TR r B S R m u) (hB : B' = B) (hR : R' = R) : TR r B' S R' m u := by
  subst hB; subst hR; exact h

/-- **every hub message that is not still** (Lemmas/Still), in one statement: the minting handlers
    (the triggers) on fresh pools, the others with anything in flight -/
theorem hub_flow (h h' : HubSt) (e : HubEnv) (sender : Addr) (funds : List (Denom × Nat)) (m : HubMsg)
    (ms : List Msg) (hx : hubExec h e sender funds m = .ok (h', ms))
    (hns : Still (.wasm sender hubA (.hub m) funds) = false)
    (hself : e.self = hubA) (hb : h.bsei = some bseiA) (hs : h.stsei = some stseiA)
    (bs ss : Nat) (hbs : e.supplyOf bseiA = .ok bs) (hss : e.supplyOf stseiA = .ok ss)
    (ns : h.bBond + h.sBond ≤ (e.delegations.map (·.2)).sum)
    (rb rs mb ub m2 u2 : Nat)
    (trb : TR rb h.bBond bs h.reqB mb ub) (trs : TR rs h.sBond ss h.reqS m2 u2)
    (fresh : Trg (.wasm sender hubA (.hub m) funds) = true →
      mb = 0 ∧ ub = 0 ∧ m2 = 0 ∧ u2 = 0 ∧ rb = rateOf h.bBond bs h.reqB ∧ rs = rateOf h.sBond ss h.reqS ∧
      e.delegations ≠ [] ∧ h.bBond + h.sBond ≠ 0) :
    TR rb h'.bBond bs h'.reqB (mintsTo bseiA ms + mb) (burnsBy bseiA ms + ub) ∧
    TR rs h'.sBond ss h'.reqS (mintsTo stseiA ms + m2) (burnsBy stseiA ms + u2) := by
  cases m with
  | migrateWaitList limit => simp [Still] at hns
  | updateParams a b c d p r => simp [Still] at hns
  | withdrawUnbonded => simp [Still] at hns
  | setOwner a => simp [Still] at hns
  | acceptOwnership => simp [Still] at hns
  | swapHook => simp [Still] at hns
  | claimAirdrop => simp [Still] at hns
  | bond =>
    obtain ⟨rfl, rfl, rfl, rfl, rfl, rfl, hd, hz⟩ := fresh rfl
    simp only [hubExec] at hx; split at hx
    · cases hx
    · simpa using flow_bondB h h' e sender funds ms hx hself hb hs bs ss hbs hss ns hd hz _ trb trs
  | bondForStSei =>
    obtain ⟨rfl, rfl, rfl, rfl, rfl, rfl, hd, hz⟩ := fresh rfl
    simp only [hubExec] at hx; split at hx
    · cases hx
    · simpa using flow_bondS h h' e sender funds ms hx hself hb hs bs ss hbs hss ns hd hz _ trb trs
  | bondRewards =>
    simp only [hubExec] at hx; split at hx
    · cases hx
    · exact flow_bondR h h' e sender funds ms hx hself ns rb rs bs ss mb ub m2 u2 trb trs
  | receive user amt hook =>
    obtain ⟨rfl, rfl, rfl, rfl, rfl, rfl, hd, hz⟩ := fresh rfl
    simp only [hubExec] at hx
    split at hx
    · cases hx
    · exc_norm at hx
      split at hx
      · cases hx
      · split at hx
        · cases hx
        · cases hook with
          | other => simp only [] at hx; cases hx
          | convert =>
            simp only [] at hx
            split at hx
            · simpa using flow_convertBS h h' e amt user ms hx hself hb hs bs ss hbs hss ns hd hz trb trs
            · split at hx
              · simpa using flow_convertSB h h' e amt user ms hx hself hb hs bs ss hbs hss ns hd hz trb trs
              · cases hx
          | unbond =>
            simp only [] at hx
            split at hx
            · simpa using flow_unbondB h h' e amt user ms hx hself hb hs bs ss hbs hss ns hd hz trb trs
            · split at hx
              · simpa using flow_unbondS h h' e amt user ms hx hself hb hs bs ss hbs hss ns hd hz trb trs
              · cases hx
  | checkSlashing =>
    simp only [hubExec] at hx; split at hx
    · cases hx
    · exc_norm at hx
      split at hx
      · cases hx
      · rename_i st hst
        injection hx with hx; injection hx with e1 e2; subst e1; subst e2
        have c := calm_state h st e hst ns
        simp only [mintsTo, burnsBy, Nat.zero_add]
        exact ⟨trb.keep c.1 c.2.2.1, trs.keep c.2.1 c.2.2.2⟩
  | updateGlobalIndex =>
    simp only [hubExec] at hx; split at hx
    · cases hx
    · unfold updateGlobal at hx
      exc_norm at hx
      exc_split at hx
      all_goals
        simp only [mintsTo_append, burnsBy_append]
        have w1 : ∀ t, mintsTo t (List.map (fun d => Msg.withdrawReward e.self d.1) e.delegations) = 0 ∧
            burnsBy t (List.map (fun d => Msg.withdrawReward e.self d.1) e.delegations) = 0 := by
          intro t
          apply flows_of_plain
          intro x hx' a b c d hc
          simp only [List.mem_map] at hx'
          obtain ⟨_, _, rfl⟩ := hx'
          cases hc
        simp only [(w1 bseiA).1, (w1 bseiA).2, (w1 stseiA).1, (w1 stseiA).2, mintsTo, burnsBy, Nat.zero_add, Nat.add_zero]
        exact ⟨trb, trs⟩
  | updateConfig a b c d f g u =>
    simp only [hubExec] at hx; split at hx
    · cases hx
    · unfold updateConfig at hx
      exc_norm at hx
      exc_split at hx
      cases a with
      | none => simp only [mintsTo, burnsBy, Nat.zero_add]; exact ⟨trb, trs⟩
      | some d' => simp only [mintsTo, burnsBy, Nat.zero_add]; exact ⟨trb, trs⟩
  | redelegateProxy src plan =>
    simp only [hubExec] at hx; exc_norm at hx; exc_split at hx
    have w1 : ∀ t, mintsTo t (List.map (fun p => Msg.redelegate e.self src p.1 p.2) plan) = 0 ∧
        burnsBy t (List.map (fun p => Msg.redelegate e.self src p.1 p.2) plan) = 0 := by
      intro t
      apply flows_of_plain
      intro x hx' a b c d hc
      simp only [List.mem_map] at hx'
      obtain ⟨_, _, rfl⟩ := hx'
      cases hc
    simp only [(w1 bseiA).1, (w1 bseiA).2, (w1 stseiA).1, (w1 stseiA).2, Nat.zero_add]
    exact ⟨trb, trs⟩

end Krp
