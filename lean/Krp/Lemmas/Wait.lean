import Krp.Lemmas.HubFrame
import Krp.Lemmas.Maps
namespace Krp
namespace HubSt

/-- wait-list keys of batch `i` -/
def keysOf (h : HubSt) (i : Nat) : List (Addr × Nat) := h.waitKeys.filter (fun k => k.2 = i)

/-- Σ over all users of their recorded bSei / stSei claims in batch `i` -/
def claimsB (h : HubSt) (i : Nat) : Nat := sumOn (h.keysOf i) (fun k => h.waitB k.1 k.2)
def claimsS (h : HubSt) (i : Nat) : Nat := sumOn (h.keysOf i) (fun k => h.waitS k.1 k.2)

structure WaitWF (h : HubSt) : Prop where
  nodup : h.waitKeys.Nodup
  zeroB : ∀ u i, (u, i) ∉ h.waitKeys → h.waitB u i = 0
  zeroS : ∀ u i, (u, i) ∉ h.waitKeys → h.waitS u i = 0

theorem nodup_filter {α : Type} (p : α → Bool) (l : List α) (h : l.Nodup) : (l.filter p).Nodup :=
  List.Pairwise.sublist List.filter_sublist h

theorem filter_addKey {α : Type} [DecidableEq α] (ks : List α) (k : α) (p : α → Bool) :
    (addKey ks k).filter p = if p k then addKey (ks.filter p) k else ks.filter p := by
  unfold addKey
  by_cases hm : k ∈ ks
  · simp only [hm, if_true]
    by_cases hp : p k
    · simp [hp, List.mem_filter, hm]
    · simp [hp]
  · simp only [hm, if_false]
    by_cases hp : p k
    · simp [hp, List.mem_filter, hm, List.filter_cons]
    · simp [hp, List.filter_cons]

/-- effect of recording a request of `x` bSei and `y` stSei for (u, b) on the per-batch sums -/
theorem addWait_claims (h : HubSt) (wf : h.WaitWF) (u : Addr) (b x y : Nat) :
    (h.addWait u b x y).WaitWF ∧
    (∀ i, (h.addWait u b x y).claimsB i = h.claimsB i + (if i = b then x else 0)) ∧
    (∀ i, (h.addWait u b x y).claimsS i = h.claimsS i + (if i = b then y else 0)) ∧
    (∀ u' i, (u', i) ≠ (u, b) → (h.addWait u b x y).waitB u' i = h.waitB u' i ∧
                                 (h.addWait u b x y).waitS u' i = h.waitS u' i) ∧
    (h.addWait u b x y).waitB u b = h.waitB u b + x ∧ (h.addWait u b x y).waitS u b = h.waitS u b + y := by
  have hother : ∀ u' i, (u', i) ≠ (u, b) → (h.addWait u b x y).waitB u' i = h.waitB u' i ∧
      (h.addWait u b x y).waitS u' i = h.waitS u' i := by
    intro u' i hne
    simp only [addWait, upd]
    by_cases hu : u' = u
    · subst hu
      have hi : i ≠ b := fun e => hne (by rw [e])
      simp [hi]
    · simp [hu]
  refine ⟨⟨nodup_addKey _ _ wf.nodup, ?_, ?_⟩, ?_, ?_, hother, by simp [addWait], by simp [addWait]⟩
  · intro u' i hn
    simp only [addWait, mem_addKey, not_or] at hn
    rw [(hother u' i hn.1).1]; exact wf.zeroB u' i hn.2
  · intro u' i hn
    simp only [addWait, mem_addKey, not_or] at hn
    rw [(hother u' i hn.1).2]; exact wf.zeroS u' i hn.2
  · intro i
    unfold claimsB keysOf
    show sumOn ((addKey h.waitKeys (u, b)).filter (fun k => k.2 = i)) _ = _
    rw [filter_addKey]
    by_cases hib : i = b
    · subst hib
      simp only [decide_true, if_true]
      have := sumOn_addKey (h.waitKeys.filter (fun k => decide (k.2 = i))) (fun k => h.waitB k.1 k.2)
        (fun k => (h.addWait u i x y).waitB k.1 k.2) (u, i)
        (fun k hk => (hother k.1 k.2 hk).1) (nodup_filter _ _ wf.nodup)
        (fun hn => wf.zeroB u i (fun hm => hn (List.mem_filter.mpr ⟨hm, by simp⟩)))
      simp only [addWait, upd_same] at this ⊢
      omega
    · have : ¬ (b = i) := fun e => hib e.symm
      simp only [this, decide_false, Bool.false_eq_true, if_false, hib, Nat.add_zero]
      apply sumOn_congr
      intro k hk
      have hk2 := (List.mem_filter.mp hk).2
      simp at hk2
      exact (hother k.1 k.2 (fun e => hib (by rw [← hk2]; exact (Prod.mk.inj e).2))).1
  · intro i
    unfold claimsS keysOf
    show sumOn ((addKey h.waitKeys (u, b)).filter (fun k => k.2 = i)) _ = _
    rw [filter_addKey]
    by_cases hib : i = b
    · subst hib
      simp only [decide_true, if_true]
      have := sumOn_addKey (h.waitKeys.filter (fun k => decide (k.2 = i))) (fun k => h.waitS k.1 k.2)
        (fun k => (h.addWait u i x y).waitS k.1 k.2) (u, i)
        (fun k hk => (hother k.1 k.2 hk).2) (nodup_filter _ _ wf.nodup)
        (fun hn => wf.zeroS u i (fun hm => hn (List.mem_filter.mpr ⟨hm, by simp⟩)))
      simp only [addWait, upd_same] at this ⊢
      omega
    · have : ¬ (b = i) := fun e => hib e.symm
      simp only [this, decide_false, Bool.false_eq_true, if_false, hib, Nat.add_zero]
      apply sumOn_congr
      intro k hk
      have hk2 := (List.mem_filter.mp hk).2
      simp at hk2
      exact (hother k.1 k.2 (fun e => hib (by rw [← hk2]; exact (Prod.mk.inj e).2))).2

/-- deleting the entry (u, b): sums of batch `b` fall by the entry, other batches untouched -/
theorem delWait_claims (h : HubSt) (wf : h.WaitWF) (u : Addr) (b : Nat) :
    (h.delWait u b).WaitWF ∧
    (∀ i, (h.delWait u b).claimsB i + (if i = b then h.waitB u b else 0) = h.claimsB i) ∧
    (∀ i, (h.delWait u b).claimsS i + (if i = b then h.waitS u b else 0) = h.claimsS i) ∧
    (∀ u' i, (u', i) ≠ (u, b) → (h.delWait u b).waitB u' i = h.waitB u' i ∧
                                 (h.delWait u b).waitS u' i = h.waitS u' i) := by
  have hother : ∀ u' i, (u', i) ≠ (u, b) → (h.delWait u b).waitB u' i = h.waitB u' i ∧
      (h.delWait u b).waitS u' i = h.waitS u' i := by
    intro u' i hne
    simp only [delWait, upd]
    by_cases hu : u' = u
    · subst hu
      have hi : i ≠ b := fun e => hne (by rw [e])
      simp [hi]
    · simp [hu]
  have hkeys : (h.delWait u b).waitKeys = h.waitKeys := rfl
  refine ⟨⟨wf.nodup, ?_, ?_⟩, ?_, ?_, hother⟩
  · intro u' i hn
    by_cases he : (u', i) = (u, b)
    · injection he with e1 e2; subst e1; subst e2; simp [delWait]
    · rw [(hother u' i he).1]; exact wf.zeroB u' i hn
  · intro u' i hn
    by_cases he : (u', i) = (u, b)
    · injection he with e1 e2; subst e1; subst e2; simp [delWait]
    · rw [(hother u' i he).2]; exact wf.zeroS u' i hn
  · intro i
    unfold claimsB keysOf
    rw [hkeys]
    by_cases hib : i = b
    · subst hib
      simp only [if_true]
      by_cases hm : (u, i) ∈ h.waitKeys.filter (fun k => decide (k.2 = i))
      · have := sumOn_except_in (h.waitKeys.filter (fun k => decide (k.2 = i))) (fun k => h.waitB k.1 k.2)
          (fun k => (h.delWait u i).waitB k.1 k.2) (u, i) (fun k hk => (hother k.1 k.2 hk).1)
          (nodup_filter _ _ wf.nodup) hm
        simp only [delWait, upd_same] at this ⊢
        omega
      · have := sumOn_except_notin (h.waitKeys.filter (fun k => decide (k.2 = i))) (fun k => h.waitB k.1 k.2)
          (fun k => (h.delWait u i).waitB k.1 k.2) (u, i) (fun k hk => (hother k.1 k.2 hk).1) hm
        have hz : h.waitB u i = 0 := wf.zeroB u i (fun hm' => hm (List.mem_filter.mpr ⟨hm', by simp⟩))
        rw [this, hz, Nat.add_zero]
    · simp only [hib, if_false, Nat.add_zero]
      apply sumOn_congr
      intro k hk
      have hk2 := (List.mem_filter.mp hk).2
      simp at hk2
      exact (hother k.1 k.2 (fun e => hib (by rw [← hk2]; exact (Prod.mk.inj e).2))).1
  · intro i
    unfold claimsS keysOf
    rw [hkeys]
    by_cases hib : i = b
    · subst hib
      simp only [if_true]
      by_cases hm : (u, i) ∈ h.waitKeys.filter (fun k => decide (k.2 = i))
      · have := sumOn_except_in (h.waitKeys.filter (fun k => decide (k.2 = i))) (fun k => h.waitS k.1 k.2)
          (fun k => (h.delWait u i).waitS k.1 k.2) (u, i) (fun k hk => (hother k.1 k.2 hk).2)
          (nodup_filter _ _ wf.nodup) hm
        simp only [delWait, upd_same] at this ⊢
        omega
      · have := sumOn_except_notin (h.waitKeys.filter (fun k => decide (k.2 = i))) (fun k => h.waitS k.1 k.2)
          (fun k => (h.delWait u i).waitS k.1 k.2) (u, i) (fun k hk => (hother k.1 k.2 hk).2) hm
        have hz : h.waitS u i = 0 := wf.zeroS u i (fun hm' => hm (List.mem_filter.mpr ⟨hm', by simp⟩))
        rw [this, hz, Nat.add_zero]
    · simp only [hib, if_false, Nat.add_zero]
      apply sumOn_congr
      intro k hk
      have hk2 := (List.mem_filter.mp hk).2
      simp at hk2
      exact (hother k.1 k.2 (fun e => hib (by rw [← hk2]; exact (Prod.mk.inj e).2))).2

end HubSt
end Krp

namespace Krp
namespace HubSt

theorem releasable_mem (h : HubSt) (cutoff fuel start i : Nat) (hi : i ∈ h.releasable cutoff fuel start) :
    ∃ x, h.hist i = some x ∧ x.released = false ∧ x.time ≤ cutoff := by
  induction fuel generalizing start with
  | zero => simp [releasable] at hi
  | succ f ih =>
    unfold releasable at hi
    split at hi
    · simp at hi
    · rename_i x hx
      split at hi
      · simp at hi
      · split at hi
        · simp at hi
        · rename_i ht hr
          simp only [List.mem_cons] at hi
          rcases hi with hi | hi
          · subst hi; exact ⟨x, hx, by simpa using hr, by omega⟩
          · exact ih _ hi

theorem foldl_upd_hist (ids : List Nat) (g : Nat → History) (hs : Nat → Option History) (j : Nat) :
    (ids.foldl (fun acc i => upd acc i (some (g i))) hs) j = if j ∈ ids then some (g j) else hs j := by
  induction ids generalizing hs with
  | nil => simp
  | cons i is ih =>
    simp only [List.foldl_cons, ih, List.mem_cons]
    by_cases h1 : j ∈ is
    · simp [h1]
    · by_cases h2 : j = i
      · subst h2; simp [h1]
      · simp [h1, h2, upd]

/-- `process_withdraw_rate`: only history entries that are unreleased and matured are rewritten,
    they keep their time, amounts and applied rates and become released; everything else — other
    entries, wait lists, batch, pools — is untouched. -/
theorem processWithdrawRate_spec (h h' : HubSt) (cutoff bal : Nat)
    (hx : h.processWithdrawRate cutoff bal = .ok h') :
    h'.waitB = h.waitB ∧ h'.waitS = h.waitS ∧ h'.waitKeys = h.waitKeys ∧ h'.waitSet = h.waitSet ∧
    h'.batchId = h.batchId ∧ h'.reqB = h.reqB ∧ h'.reqS = h.reqS ∧ h'.legacy = h.legacy ∧
    h'.bBond = h.bBond ∧ h'.sBond = h.sBond ∧ h'.prevHubBalance = h.prevHubBalance ∧
    ∀ i, (h.hist i = none → h'.hist i = none) ∧
      ∀ x, h.hist i = some x → ∃ x', h'.hist i = some x' ∧ x'.time = x.time ∧ x'.bAmt = x.bAmt ∧
        x'.sAmt = x.sAmt ∧ x'.bApplied = x.bApplied ∧ x'.sApplied = x.sApplied ∧
        (x.released = true → x' = x) ∧ (x.released = false → x'.released = true → x.time ≤ cutoff) ∧
        (x'.released = false → x' = x) := by
  unfold processWithdrawRate at hx
  simp only [] at hx
  split at hx
  · injection hx with hx; subst hx
    refine ⟨rfl, rfl, rfl, rfl, rfl, rfl, rfl, rfl, rfl, rfl, rfl, fun i => ⟨id, fun x hx' => ⟨x, hx', rfl, rfl, rfl, rfl, rfl, fun _ => rfl, (fun h1 h2 => by rw [h1] at h2; cases h2), fun _ => rfl⟩⟩⟩
  · split at hx
    · cases hx
    · injection hx with hx; subst hx
      refine ⟨rfl, rfl, rfl, rfl, rfl, rfl, rfl, rfl, rfl, rfl, rfl, fun i => ?_⟩
      simp only []
      rw [foldl_upd_hist]
      by_cases hi : i ∈ h.releasable cutoff (h.batchId + 1) (h.lastProcessedBatch + 1)
      · obtain ⟨x, hxs, hrel, htime⟩ := releasable_mem h cutoff _ _ i hi
        simp only [hi, if_true]
        constructor
        · intro hn; rw [hn] at hxs; cases hxs
        · intro y hy
          rw [hxs] at hy; injection hy with hy; subst hy
          have e : h.histOr i = x := by simp [histOr, hxs]
          refine ⟨_, rfl, by rw [e], by rw [e], by rw [e], by rw [e], by rw [e], ?_, fun _ _ => htime, ?_⟩
          · intro hr; rw [hrel] at hr; cases hr
          · intro hr; simp at hr
      · simp only [hi, if_false]
        exact ⟨id, fun x hx' => ⟨x, hx', rfl, rfl, rfl, rfl, rfl, fun _ => rfl, (fun h1 h2 => by rw [h1] at h2; cases h2), fun _ => rfl⟩⟩

end HubSt
end Krp

namespace Krp
namespace HubSt

/-- exact effect of deleting a user's entries for a list of batches -/
theorem delWait_fold_spec (ids : List Nat) (u : Addr) (h : HubSt) :
    let r := ids.foldl (fun hh i => hh.delWait u i) h
    r.hist = h.hist ∧ r.batchId = h.batchId ∧ r.reqB = h.reqB ∧ r.reqS = h.reqS ∧
    r.lastProcessedBatch = h.lastProcessedBatch ∧ r.bBond = h.bBond ∧ r.sBond = h.sBond ∧
    (∀ u' i, u' ≠ u → r.waitSet u' i = h.waitSet u' i ∧ r.waitB u' i = h.waitB u' i ∧ r.waitS u' i = h.waitS u' i) ∧
    (∀ i, r.waitSet u i = (if i ∈ ids then false else h.waitSet u i) ∧
          r.waitB u i = (if i ∈ ids then 0 else h.waitB u i) ∧
          r.waitS u i = (if i ∈ ids then 0 else h.waitS u i)) := by
  induction ids generalizing h with
  | nil => simp
  | cons b bs ih =>
    simp only [List.foldl_cons]
    have r := ih (h.delWait u b)
    simp only [] at r
    refine ⟨r.1, r.2.1, r.2.2.1, r.2.2.2.1, r.2.2.2.2.1, r.2.2.2.2.2.1, r.2.2.2.2.2.2.1, ?_, ?_⟩
    · intro u' i hne
      have := r.2.2.2.2.2.2.2.1 u' i hne
      simp only [delWait, upd, hne, if_false] at this
      exact this
    · intro i
      have := r.2.2.2.2.2.2.2.2 i
      simp only [List.mem_cons]
      by_cases h1 : i ∈ bs
      · simp only [h1, if_true, or_true] at this ⊢; exact this
      · simp only [h1, if_false, or_false] at this ⊢
        by_cases h2 : i = b
        · subst h2; simp [delWait] at this ⊢; exact this
        · simp [delWait, upd, h2] at this ⊢; exact this

end HubSt
end Krp

namespace Krp
namespace HubSt

/-- characterisation of a successful WithdrawUnbonded -/
theorem withdraw_spec (h h' : HubSt) (e : HubEnv) (sender : Addr) (ms : List Msg)
    (hx : h.withdraw e sender = .ok (h', ms)) :
    h.unbonding ≤ e.now ∧
    ∃ h1, h.processWithdrawRate (e.now - h.unbonding) e.hubBalance = .ok h1 ∧
      (h1.finished sender).1 ≠ 0 ∧ (h1.finished sender).1 ≤ e.hubBalance ∧
      h' = { ((h1.finished sender).2.foldl (fun hh i => hh.delWait sender i) h1) with
               prevHubBalance := e.hubBalance - (h1.finished sender).1 } ∧
      ms = [Msg.bankSend e.self sender 0 (h1.finished sender).1] := by
  unfold withdraw at hx
  split at hx
  · cases hx
  · rename_i hnow
    split at hx
    · cases hx
    · rename_i h1 hp
      split at hx
      · cases hx
      · rename_i hne
        split at hx
        · cases hx
        · rename_i hle
          injection hx with hx; injection hx with e1 e2
          exact ⟨by omega, h1, hp, hne, by omega, e1.symm, e2.symm⟩

end HubSt
end Krp
