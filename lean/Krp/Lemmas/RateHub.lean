/-
  RateHub.lean — what each pricing handler of the hub does to the true-ratio predicate `TR`
  (Lemmas/RateFlow): the minting handlers, run on the pools of the start with nothing in flight; the
  others, with anything in flight.
-/
import Krp.Lemmas.RateInv
import Krp.Props.C06
namespace Krp
open HubSt

/-- the slashing check at the head of a handler, when nothing was slashed and the state is not
    degenerate: pools and requests as stored, rates re-derived from the supplies -/
theorem fresh_state (h st : HubSt) (e : HubEnv) (hst : h.actualState e = .ok st)
    (hb : h.bsei = some bseiA) (hs : h.stsei = some stseiA)
    (bs ss : Nat) (hbs : e.supplyOf bseiA = .ok bs) (hss : e.supplyOf stseiA = .ok ss)
    (ns : h.bBond + h.sBond ≤ (e.delegations.map (·.2)).sum)
    (hd : e.delegations ≠ []) (hz : h.bBond + h.sBond ≠ 0) :
    st.bBond = h.bBond ∧ st.sBond = h.sBond ∧ st.reqB = h.reqB ∧ st.reqS = h.reqS ∧
    st.bRate = rateOf h.bBond bs h.reqB ∧ st.sRate = rateOf h.sBond ss h.reqS ∧
    st.bSupplyQ e = .ok bs ∧ st.sSupplyQ e = .ok ss ∧ st.bsei = some bseiA ∧ st.stsei = some stseiA := by
  have nsl := C06_no_slash_no_change h st e hst ns
  have sp := actualState_spec h st e hst
  have sb := sp.1
  have q1 : st.bSupplyQ e = .ok bs := by simp only [bSupplyQ, sb.bsei, hb]; exact hbs
  have q2 : st.sSupplyQ e = .ok ss := by simp only [sSupplyQ, sb.stsei, hs]; exact hss
  rcases sp.2 with ⟨hc, _⟩ | ⟨bs', ss', _, _, hbs', hss', hrb, hrs, _⟩
  · rcases hc with hc | hc
    · exact absurd hc hd
    · exact absurd hc hz
  · have e1 : bs' = bs := by
      simp only [bSupplyQ, hb] at hbs'; rw [hbs] at hbs'; injection hbs' with h1; exact h1.symm
    have e2 : ss' = ss := by
      simp only [sSupplyQ, hs] at hss'; rw [hss] at hss'; injection hss' with h1; exact h1.symm
    subst e1; subst e2
    refine ⟨nsl.1, nsl.2.1, sb.reqB, sb.reqS, ?_, ?_, q1, q2, by rw [sb.bsei]; exact hb, by rw [sb.stsei]; exact hs⟩
    · rw [hrb, nsl.1]
    · rw [hrs, nsl.2.1]

/-- the slashing check when nothing was slashed, degenerate or not: pools and requests as stored -/
theorem calm_state (h st : HubSt) (e : HubEnv) (hst : h.actualState e = .ok st)
    (ns : h.bBond + h.sBond ≤ (e.delegations.map (·.2)).sum) :
    st.bBond = h.bBond ∧ st.sBond = h.sBond ∧ st.reqB = h.reqB ∧ st.reqS = h.reqS := by
  have nsl := C06_no_slash_no_change h st e hst ns
  exact ⟨nsl.1, nsl.2.1, nsl.2.2.reqB, nsl.2.2.reqS⟩

/-- Bond (bSei), on fresh pools -/
theorem flow_bondB (h h' : HubSt) (e : HubEnv) (sender : Addr) (funds : List (Denom × Nat)) (ms : List Msg)
    (hx : h.bondB e sender funds = .ok (h', ms))
    (hself : e.self = hubA) (hb : h.bsei = some bseiA) (hs : h.stsei = some stseiA)
    (bs ss : Nat) (hbs : e.supplyOf bseiA = .ok bs) (hss : e.supplyOf stseiA = .ok ss)
    (ns : h.bBond + h.sBond ≤ (e.delegations.map (·.2)).sum)
    (hd : e.delegations ≠ []) (hz : h.bBond + h.sBond ≠ 0) (rs : Nat)
    (trb : TR (rateOf h.bBond bs h.reqB) h.bBond bs h.reqB 0 0) (trs : TR rs h.sBond ss h.reqS 0 0) :
    TR (rateOf h.bBond bs h.reqB) h'.bBond bs h'.reqB (mintsTo bseiA ms) (burnsBy bseiA ms) ∧
    TR rs h'.sBond ss h'.reqS (mintsTo stseiA ms) (burnsBy stseiA ms) := by
  obtain ⟨p, st, mint, delegs, tok, hp, hst, _, hfee, hdel, htok, hh, hms⟩ := bondB_spec h h' e sender funds ms hx
  have f := fresh_state h st e hst hb hs bs ss hbs hss ns hd hz
  have htk : tok = bseiA := by rw [hb] at htok; injection htok with h1; exact h1.symm
  have hf := pegFeeOnMint_spec st _ _ _ _ hfee
  have hm : mint * rateOf h.bBond bs h.reqB ≤ p * D := by
    rw [← f.2.2.2.2.1]
    exact Nat.le_trans (Nat.mul_le_mul_right _ hf.1) (decDiv_mul_le p st.bRate)
  have dl := flows_of_stake bseiA delegs (delegs_stake h e p delegs hself hdel).1
  have dl2 := flows_of_stake stseiA delegs (delegs_stake h e p delegs hself hdel).1
  subst hms; subst hh; subst htk
  rw [hself]
  simp only [mintsTo_append, burnsBy_append, dl.1, dl.2, dl2.1, dl2.2, (flows_mint bseiA bseiA sender mint).1,
    (flows_mint bseiA bseiA sender mint).2, (flows_mint stseiA bseiA sender mint).1,
    (flows_mint stseiA bseiA sender mint).2, if_true, if_neg bsei_ne_stsei, Nat.zero_add, f.1, f.2.1, f.2.2.1, f.2.2.2.1]
  constructor
  · unfold TR at *
    have k := rate_mono_add (rateOf h.bBond bs h.reqB) h.bBond (bs + 0 + h.reqB) p mint (by simpa using trb) hm
    simp only [Nat.mul_zero, Nat.add_zero] at k ⊢
    rw [show bs + mint + h.reqB = bs + h.reqB + mint by omega]
    exact k
  · exact trs


/-- BondForStSei, on fresh pools -/
theorem flow_bondS (h h' : HubSt) (e : HubEnv) (sender : Addr) (funds : List (Denom × Nat)) (ms : List Msg)
    (hx : h.bondS e sender funds = .ok (h', ms))
    (hself : e.self = hubA) (hb : h.bsei = some bseiA) (hs : h.stsei = some stseiA)
    (bs ss : Nat) (hbs : e.supplyOf bseiA = .ok bs) (hss : e.supplyOf stseiA = .ok ss)
    (ns : h.bBond + h.sBond ≤ (e.delegations.map (·.2)).sum)
    (hd : e.delegations ≠ []) (hz : h.bBond + h.sBond ≠ 0) (rb : Nat)
    (trb : TR rb h.bBond bs h.reqB 0 0) (trs : TR (rateOf h.sBond ss h.reqS) h.sBond ss h.reqS 0 0) :
    TR rb h'.bBond bs h'.reqB (mintsTo bseiA ms) (burnsBy bseiA ms) ∧
    TR (rateOf h.sBond ss h.reqS) h'.sBond ss h'.reqS (mintsTo stseiA ms) (burnsBy stseiA ms) := by
  obtain ⟨p, st, delegs, tok, hp, hst, _, hdel, htok, hh, hms⟩ := bondS_spec h h' e sender funds ms hx
  have f := fresh_state h st e hst hb hs bs ss hbs hss ns hd hz
  have htk : tok = stseiA := by rw [hs] at htok; injection htok with h1; exact h1.symm
  have hm : decDiv p st.sRate * rateOf h.sBond ss h.reqS ≤ p * D := by
    rw [← f.2.2.2.2.2.1]; exact decDiv_mul_le p st.sRate
  have dl := flows_of_stake bseiA delegs (delegs_stake h e p delegs hself hdel).1
  have dl2 := flows_of_stake stseiA delegs (delegs_stake h e p delegs hself hdel).1
  subst hms; subst hh; subst htk
  rw [hself]
  simp only [mintsTo_append, burnsBy_append, dl.1, dl.2, dl2.1, dl2.2,
    (flows_mint bseiA stseiA sender (decDiv p st.sRate)).1, (flows_mint bseiA stseiA sender (decDiv p st.sRate)).2,
    (flows_mint stseiA stseiA sender (decDiv p st.sRate)).1, (flows_mint stseiA stseiA sender (decDiv p st.sRate)).2,
    if_true, if_neg bsei_ne_stsei.symm, Nat.zero_add, f.1, f.2.1, f.2.2.1, f.2.2.2.1]
  constructor
  · exact trb
  · unfold TR at *
    have k := rate_mono_add (rateOf h.sBond ss h.reqS) h.sBond (ss + 0 + h.reqS) p (decDiv p st.sRate) (by simpa using trs) hm
    simp only [Nat.mul_zero, Nat.add_zero] at k ⊢
    rw [show ss + decDiv p st.sRate + h.reqS = ss + h.reqS + decDiv p st.sRate by omega]
    exact k

/-- BondRewards, with anything in flight: the stSei pool grows, nothing else moves, nothing is minted -/
theorem flow_bondR (h h' : HubSt) (e : HubEnv) (sender : Addr) (funds : List (Denom × Nat)) (ms : List Msg)
    (hx : h.bondR e sender funds = .ok (h', ms)) (hself : e.self = hubA)
    (ns : h.bBond + h.sBond ≤ (e.delegations.map (·.2)).sum)
    (rb rs bs ss mb ub m2 u2 : Nat)
    (trb : TR rb h.bBond bs h.reqB mb ub) (trs : TR rs h.sBond ss h.reqS m2 u2) :
    TR rb h'.bBond bs h'.reqB (mintsTo bseiA ms + mb) (burnsBy bseiA ms + ub) ∧
    TR rs h'.sBond ss h'.reqS (mintsTo stseiA ms + m2) (burnsBy stseiA ms + u2) := by
  obtain ⟨p, st, _, hp, hst, hdel, hh⟩ := bondR_spec h h' e sender funds ms hx
  have c := calm_state h st e hst ns
  have dl := flows_of_stake bseiA ms (delegs_stake h e p ms hself hdel).1
  have dl2 := flows_of_stake stseiA ms (delegs_stake h e p ms hself hdel).1
  subst hh
  simp only [dl.1, dl.2, dl2.1, dl2.2, Nat.zero_add, c.1, c.2.1, c.2.2.1, c.2.2.2]
  exact ⟨trb, trs.mono (Nat.le_add_right _ _)⟩


/-- Convert stSei→bSei, on fresh pools -/
theorem flow_convertSB (h h' : HubSt) (e : HubEnv) (amount : Nat) (user : Addr) (ms : List Msg)
    (hx : h.convertSB e amount user = .ok (h', ms))
    (hself : e.self = hubA) (hb : h.bsei = some bseiA) (hs : h.stsei = some stseiA)
    (bs ss : Nat) (hbs : e.supplyOf bseiA = .ok bs) (hss : e.supplyOf stseiA = .ok ss)
    (ns : h.bBond + h.sBond ≤ (e.delegations.map (·.2)).sum)
    (hd : e.delegations ≠ []) (hz : h.bBond + h.sBond ≠ 0)
    (trb : TR (rateOf h.bBond bs h.reqB) h.bBond bs h.reqB 0 0)
    (trs : TR (rateOf h.sBond ss h.reqS) h.sBond ss h.reqS 0 0) :
    TR (rateOf h.bBond bs h.reqB) h'.bBond bs h'.reqB (mintsTo bseiA ms) (burnsBy bseiA ms) ∧
    TR (rateOf h.sBond ss h.reqS) h'.sBond ss h'.reqS (mintsTo stseiA ms) (burnsBy stseiA ms) := by
  obtain ⟨st, sTok, bTok, bs', ss', mint, hst, hsT, hbT, _, hbs', hss', hfee, hle, _, hh, hms⟩ :=
    convertSB_spec h h' e amount user ms hx
  have f := fresh_state h st e hst hb hs bs ss hbs hss ns hd hz
  have hbt : bTok = bseiA := by rw [hb] at hbT; injection hbT with h1; exact h1.symm
  have hstk : sTok = stseiA := by rw [hs] at hsT; injection hsT with h1; exact h1.symm
  have e1 : bs' = bs := by rw [f.2.2.2.2.2.2.1] at hbs'; injection hbs' with h1; exact h1.symm
  have hf := pegFeeOnMint_spec st _ _ _ _ hfee
  have hv : mulDec amount st.sRate * D ≤ amount * rateOf h.sBond ss h.reqS := by
    rw [← f.2.2.2.2.2.1]; exact mulDec_mul_le _ _
  have hm : mint * rateOf h.bBond bs h.reqB ≤ mulDec amount st.sRate * D := by
    rw [← f.2.2.2.2.1]
    exact Nat.le_trans (Nat.mul_le_mul_right _ hf.1) (decDiv_mul_le _ _)
  have hle' : mulDec amount st.sRate ≤ h.sBond := by rw [← f.2.1]; exact hle
  subst hms; subst hh; subst hbt; subst hstk
  rw [hself]
  simp only [mintsTo, burnsBy, tokMsg, if_true, if_neg bsei_ne_stsei, if_neg bsei_ne_stsei.symm, true_and, and_true,
    Nat.add_zero, Nat.zero_add, f.1, f.2.1, f.2.2.1, f.2.2.2.1]
  constructor
  · unfold TR at *
    have k := rate_mono_add (rateOf h.bBond bs h.reqB) h.bBond (bs + 0 + h.reqB) _ mint (by simpa using trb) hm
    simp only [Nat.mul_zero, Nat.add_zero] at k ⊢
    rw [show bs + mint + h.reqB = bs + h.reqB + mint by omega]
    exact k
  · unfold TR at *
    simp only [Nat.mul_zero, Nat.add_zero] at trs ⊢
    rw [Nat.sub_mul, Nat.mul_comm (rateOf h.sBond ss h.reqS) amount]
    have : mulDec amount st.sRate * D ≤ h.sBond * D := Nat.mul_le_mul_right _ hle'
    omega

/-- Convert bSei→stSei, on fresh pools -/
theorem flow_convertBS (h h' : HubSt) (e : HubEnv) (amount : Nat) (user : Addr) (ms : List Msg)
    (hx : h.convertBS e amount user = .ok (h', ms))
    (hself : e.self = hubA) (hb : h.bsei = some bseiA) (hs : h.stsei = some stseiA)
    (bs ss : Nat) (hbs : e.supplyOf bseiA = .ok bs) (hss : e.supplyOf stseiA = .ok ss)
    (ns : h.bBond + h.sBond ≤ (e.delegations.map (·.2)).sum)
    (hd : e.delegations ≠ []) (hz : h.bBond + h.sBond ≠ 0)
    (trb : TR (rateOf h.bBond bs h.reqB) h.bBond bs h.reqB 0 0)
    (trs : TR (rateOf h.sBond ss h.reqS) h.sBond ss h.reqS 0 0) :
    TR (rateOf h.bBond bs h.reqB) h'.bBond bs h'.reqB (mintsTo bseiA ms) (burnsBy bseiA ms) ∧
    TR (rateOf h.sBond ss h.reqS) h'.sBond ss h'.reqS (mintsTo stseiA ms) (burnsBy stseiA ms) := by
  obtain ⟨st, sTok, bTok, bs', ss', withFee, hst, hsT, hbT, hbs', hss', hfee, _, hle, _, hh, hms⟩ :=
    convertBS_spec h h' e amount user ms hx
  have f := fresh_state h st e hst hb hs bs ss hbs hss ns hd hz
  have hbt : bTok = bseiA := by rw [hb] at hbT; injection hbT with h1; exact h1.symm
  have hstk : sTok = stseiA := by rw [hs] at hsT; injection hsT with h1; exact h1.symm
  have hf := pegFeeOnBurn_spec st _ _ _ hfee
  have hv : mulDec withFee st.bRate * D ≤ amount * rateOf h.bBond bs h.reqB := by
    rw [← f.2.2.2.2.1]
    exact Nat.le_trans (mulDec_mul_le _ _) (Nat.mul_le_mul_right _ hf.1)
  have hm : decDiv (mulDec withFee st.bRate) st.sRate * rateOf h.sBond ss h.reqS ≤ mulDec withFee st.bRate * D := by
    rw [← f.2.2.2.2.2.1]; exact decDiv_mul_le _ _
  have hle' : mulDec withFee st.bRate ≤ h.bBond := by rw [← f.1]; exact hle
  subst hms; subst hh; subst hbt; subst hstk
  rw [hself]
  simp only [mintsTo, burnsBy, tokMsg, if_true, if_neg bsei_ne_stsei, if_neg bsei_ne_stsei.symm, true_and, and_true,
    Nat.add_zero, Nat.zero_add, f.1, f.2.1, f.2.2.1, f.2.2.2.1]
  constructor
  · unfold TR at *
    simp only [Nat.mul_zero, Nat.add_zero] at trb ⊢
    rw [Nat.sub_mul, Nat.mul_comm (rateOf h.bBond bs h.reqB) amount]
    have : mulDec withFee st.bRate * D ≤ h.bBond * D := Nat.mul_le_mul_right _ hle'
    omega
  · unfold TR at *
    have k := rate_mono_add (rateOf h.sBond ss h.reqS) h.sBond (ss + 0 + h.reqS) _ _ (by simpa using trs) hm
    simp only [Nat.mul_zero, Nat.add_zero] at k ⊢
    rw [show ss + decDiv (mulDec withFee st.bRate) st.sRate + h.reqS = ss + h.reqS + decDiv (mulDec withFee st.bRate) st.sRate by omega]
    exact k


end Krp
