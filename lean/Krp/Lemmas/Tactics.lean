import Krp.Types
namespace Krp

/-- unfold the `Except` monad plumbing of a handler equation `h : handler … = .ok …` -/
macro "exc_norm" "at" h:ident : tactic =>
  `(tactic| simp only [bind, Except.bind, pure, Except.pure, throw, throwThe, MonadExceptOf.throw,
      csub, Option.getD] at $h:ident)

/-- split every `if`/`match` in `h`, closing the branches where `h` reads `error = ok` -/
macro "exc_split" "at" h:ident : tactic =>
  `(tactic| repeat' (split at $h:ident <;> try (first | cases $h:ident | contradiction)))

end Krp
