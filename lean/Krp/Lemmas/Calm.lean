/-
  Calm.lean — messages whose handling cannot depend on, or reach, the swap / oracle stubs.

  `Calm m`: by its call shape, `m` is none of: dispatcher `SwapToRewardDenom` (reads the oracle and the
  swap simulation), a swap-contract `SwapDenom`, hub `UpdateGlobalIndex` (emits the dispatcher swap),
  registry `RemoveValidator` / `Redelegations` (emit the hub index update), reward-contract
  `SwapToRewardDenom`.  Every contract, handling a calm message, emits only calm messages.
  Proof scripts generated from Emit.lean by replacing the predicate; the four non-calm handlers are
  excluded by hypothesis.
-/
import Krp.System
import Krp.Lemmas.Tactics
import Krp.Lemmas.HubSpec
import Krp.Lemmas.Wait
import Krp.Lemmas.Emit
import Krp.Lemmas.Reach
namespace Krp

def Calm : Msg → Bool
  | .wasm _ _ (.disp (.swap _ _)) _ => false
  | .wasm _ _ (.swapDenom _ _ _ _) _ => false
  | .wasm _ _ (.hub .updateGlobalIndex) _ => false
  | .wasm _ _ (.reg (.remove _)) _ => false
  | .wasm _ _ (.reg (.redelegations _)) _ => false
  | .wasm _ _ (.reward .swapToRewardDenom) _ => false
  | _ => true

def AllCalm (ms : List Msg) : Prop := ∀ m ∈ ms, Calm m = true

theorem AllCalm.nil : AllCalm [] := fun _ h => by cases h
theorem AllCalm.cons {m : Msg} {ms : List Msg} (h1 : Calm m = true) (h2 : AllCalm ms) : AllCalm (m :: ms) := by
  intro x hx
  rcases List.mem_cons.mp hx with rfl | h
  · exact h1
  · exact h2 x h
theorem AllCalm.append {x y : List Msg} (h1 : AllCalm x) (h2 : AllCalm y) : AllCalm (x ++ y) := by
  intro m hm
  rcases List.mem_append.mp hm with h | h
  · exact h1 m h
  · exact h2 m h

namespace HubSt

theorem zipMsgs_calm (mk : Addr → Nat → Msg) (hmk : ∀ v p, Calm (mk v p) = true) :
    ∀ (vs : List (Addr × Nat)) (ps : List Nat), AllCalm (zipMsgs mk vs ps) := by
  intro vs
  induction vs with
  | nil => intro ps; simp only [zipMsgs]; exact AllCalm.nil
  | cons v vs ih =>
    intro ps
    cases ps with
    | nil => simp only [zipMsgs]; exact AllCalm.nil
    | cons p ps =>
      obtain ⟨v1, v2⟩ := v
      simp only [zipMsgs]
      apply AllCalm.append
      · split
        · exact AllCalm.nil
        · exact AllCalm.cons (hmk v1 p) (AllCalm.nil)
      · exact ih ps

theorem pickValidator_calm (e : HubEnv) (claim : Nat) (ms : List Msg)
    (hx : pickValidator e claim = .ok ms) : AllCalm ms := by
  unfold pickValidator at hx
  simp only [] at hx
  split at hx
  · cases hx
  · injection hx with hx; subst hx
    exact zipMsgs_calm (fun v p => Msg.undelegate e.self v p) (fun _ _ => rfl) _ _

theorem delegMsgs_calm (h : HubSt) (e : HubEnv) (p : Nat) (ms : List Msg)
    (hx : h.delegMsgs e p = .ok ms) : AllCalm ms := by
  unfold delegMsgs at hx
  exc_split at hx
  exact zipMsgs_calm (fun v a => Msg.delegate e.self v a) (fun _ _ => rfl) _ _

theorem processUndelegations_calm (h h' : HubSt) (e : HubEnv) (ms : List Msg)
    (hx : h.processUndelegations e = .ok (h', ms)) : AllCalm ms :=
  pickValidator_calm e _ ms (processUndelegations_spec h h' e ms hx).1

end HubSt

open HubSt in
theorem hubExec_calm (h h' : HubSt) (e : HubEnv) (sender : Addr) (funds : List (Denom × Nat))
    (m : HubMsg) (ms : List Msg) (hm : m ≠ .updateGlobalIndex) (hx : hubExec h e sender funds m = .ok (h', ms)) : AllCalm ms := by
  cases m with
  | migrateWaitList limit =>
    simp only [hubExec] at hx; exc_norm at hx; exc_split at hx; exact AllCalm.nil
  | updateParams a b c d p r =>
    simp only [hubExec] at hx; exc_norm at hx; exc_split at hx; exact AllCalm.nil
  | receive user amt hook =>
    simp only [hubExec] at hx
    split at hx
    · cases hx
    · exc_norm at hx
      split at hx
      · cases hx
      · split at hx
        · cases hx
        · cases hook with
          | other => simp only [] at hx; cases hx
          | convert =>
            simp only [] at hx
            split at hx
            · obtain ⟨_, _, _, _, _, _, _, _, _, _, _, _, _, _, _, _, hm⟩ := convertBS_spec _ _ _ _ _ _ hx
              subst hm; exact AllCalm.cons rfl (AllCalm.cons rfl (AllCalm.nil))
            · split at hx
              · obtain ⟨_, _, _, _, _, _, _, _, _, _, _, _, _, _, _, _, hm⟩ := convertSB_spec _ _ _ _ _ _ hx
                subst hm; exact AllCalm.cons rfl (AllCalm.cons rfl (AllCalm.nil))
              · cases hx
          | unbond =>
            simp only [] at hx
            split at hx
            · obtain ⟨st, supply, wf, tok, _, _, _, _, _, _, hcase⟩ := unbondB_spec _ _ _ _ _ _ hx
              rcases hcase with ⟨_, um, hp, hm⟩ | ⟨_, _, hm⟩
              · subst hm
                exact AllCalm.append (processUndelegations_calm _ _ _ _ hp) (AllCalm.cons rfl (AllCalm.nil))
              · subst hm; exact AllCalm.cons rfl (AllCalm.nil)
            · split at hx
              · obtain ⟨st, tok, _, _, _, hcase⟩ := unbondS_spec _ _ _ _ _ _ hx
                rcases hcase with ⟨_, um, hp, hm⟩ | ⟨_, _, hm⟩
                · subst hm
                  exact AllCalm.append (processUndelegations_calm _ _ _ _ hp) (AllCalm.cons rfl (AllCalm.nil))
                · subst hm; exact AllCalm.cons rfl (AllCalm.nil)
              · cases hx
  | bond =>
    simp only [hubExec] at hx; split at hx
    · cases hx
    · obtain ⟨p, st, mint, dl, tok, _, _, _, _, hd, _, _, hm⟩ := bondB_spec _ _ _ _ _ _ hx
      subst hm
      exact AllCalm.append (delegMsgs_calm _ _ _ _ hd) (AllCalm.cons rfl (AllCalm.nil))
  | bondForStSei =>
    simp only [hubExec] at hx; split at hx
    · cases hx
    · obtain ⟨p, st, dl, tok, _, _, _, hd, _, _, hm⟩ := bondS_spec _ _ _ _ _ _ hx
      subst hm
      exact AllCalm.append (delegMsgs_calm _ _ _ _ hd) (AllCalm.cons rfl (AllCalm.nil))
  | bondRewards =>
    simp only [hubExec] at hx; split at hx
    · cases hx
    · obtain ⟨p, st, _, _, _, hd, _⟩ := bondR_spec _ _ _ _ _ _ hx
      exact delegMsgs_calm _ _ _ _ hd
  | updateGlobalIndex => exact absurd rfl hm
  | withdrawUnbonded =>
    simp only [hubExec] at hx; split at hx
    · cases hx
    · obtain ⟨_, h1, _, _, _, _, hm⟩ := withdraw_spec _ _ _ _ _ hx
      subst hm; exact AllCalm.cons rfl (AllCalm.nil)
  | checkSlashing =>
    simp only [hubExec] at hx; exc_norm at hx; exc_split at hx; exact AllCalm.nil
  | updateConfig a b c d f g u =>
    simp only [hubExec] at hx; split at hx
    · cases hx
    · unfold updateConfig at hx
      exc_norm at hx
      exc_split at hx
      cases a with
      | none => exact AllCalm.nil
      | some d => exact AllCalm.cons rfl (AllCalm.nil)
  | setOwner a => simp only [hubExec] at hx; exc_norm at hx; exc_split at hx; exact AllCalm.nil
  | acceptOwnership => simp only [hubExec] at hx; exc_norm at hx; exc_split at hx; exact AllCalm.nil
  | swapHook =>
    simp only [hubExec] at hx; exc_norm at hx; exc_split at hx
    exact AllCalm.cons rfl (AllCalm.nil)
  | claimAirdrop =>
    simp only [hubExec] at hx; exc_norm at hx; exc_split at hx
    exact AllCalm.cons rfl (AllCalm.cons rfl (AllCalm.nil))
  | redelegateProxy src plan =>
    simp only [hubExec] at hx; exc_norm at hx; exc_split at hx
    intro x hx'
    simp only [List.mem_map] at hx'
    obtain ⟨p, _, rfl⟩ := hx'
    rfl

theorem receiveMsg_calmMsg (self cw c hubc : Addr) (amt : Nat) (hook : Hook) :
    Calm (receiveMsg self cw c hubc amt hook) = true := by
  unfold receiveMsg; split <;> rfl

/-- close a goal `AllCalm [m₁, …]` whose elements are literal messages or `receiveMsg` -/
macro "calm_list" : tactic =>
  `(tactic| repeat' (first
      | exact AllCalm.nil
      | refine AllCalm.append ?_ ?_
      | refine AllCalm.cons (by first | rfl | exact receiveMsg_calmMsg ..) ?_))

theorem bseiExec_calm (t t' : Token) (b : Block) (self : Addr) (rw : Res Addr) (hubc sender : Addr)
    (m : TokMsg) (ms : List Msg) (hx : bseiExec t b self rw hubc sender m = .ok (t', ms)) :
    AllCalm ms := by
  cases m <;> simp only [bseiExec] at hx <;> exc_norm at hx <;> (try cases hx) <;> exc_split at hx <;> (try calm_list)

theorem stseiExec_calm (t t' : Token) (b : Block) (self hubc sender : Addr)
    (m : TokMsg) (ms : List Msg) (hx : stseiExec t b self hubc sender m = .ok (t', ms)) :
    AllCalm ms := by
  cases m <;> simp only [stseiExec] at hx <;> exc_norm at hx <;> (try cases hx) <;> exc_split at hx <;> (try calm_list)

theorem rewardExec_calm (r r' : RewardSt) (self : Addr) (tok dsp : Res Addr) (bal : Denom → Nat)
    (sender : Addr) (m : RewMsg) (ms : List Msg) (hm : m ≠ .swapToRewardDenom)
    (hx : rewardExec r self tok dsp bal sender m = .ok (r', ms)) : AllCalm ms := by
  cases m with
  | swapToRewardDenom => exact absurd rfl hm
  | _ => simp only [rewardExec] at hx <;> exc_norm at hx <;> (try cases hx) <;> exc_split at hx <;> (try calm_list)

theorem coinMsgs_calm (c : DispSt) (self : Addr) (x : Nat) :
    (∀ ms, coinMsgsB c self x = .ok ms → AllCalm ms) ∧
    (∀ ms, coinMsgsSt c self x = .ok ms → AllCalm ms) := by
  constructor
  · intro ms hx; unfold coinMsgsB at hx; exc_split at hx <;> (try calm_list)
  · intro ms hx; unfold coinMsgsSt at hx; exc_split at hx <;> (try calm_list)

theorem dispatchMsgs_calm (c : DispSt) (self : Addr) (a b : Nat) (ms : List Msg)
    (hx : dispatchMsgs c self a b = .ok ms) : AllCalm ms := by
  unfold dispatchMsgs at hx
  split at hx
  · cases hx
  · rename_i m1 h1
    split at hx
    · cases hx
    · rename_i m2 h2
      injection hx with hx; subst hx
      exact AllCalm.append (AllCalm.append ((coinMsgs_calm c self b).1 m1 h1) ((coinMsgs_calm c self a).2 m2 h2))
        (AllCalm.cons rfl (AllCalm.nil))

theorem foldl_calm (f : Res (Nat × Nat × List Msg) → Denom → Res (Nat × Nat × List Msg))
    (hstep : ∀ acc dn v, f acc dn = .ok v → ∃ v0, acc = .ok v0 ∧ (AllCalm v0.2.2 → AllCalm v.2.2)) :
    ∀ (l : List Denom) (acc : Res (Nat × Nat × List Msg)) (v : Nat × Nat × List Msg),
      l.foldl f acc = .ok v → ∃ v0, acc = .ok v0 ∧ (AllCalm v0.2.2 → AllCalm v.2.2) := by
  intro l
  induction l with
  | nil => intro acc v hx; exact ⟨v, hx, id⟩
  | cons d ds ih =>
    intro acc v hx
    simp only [List.foldl_cons] at hx
    obtain ⟨v1, h1, k1⟩ := ih (f acc d) v hx
    obtain ⟨v0, h0, k0⟩ := hstep acc d v1 h1
    exact ⟨v0, h0, fun h => k1 (k0 h)⟩

theorem dispExec_calm (c c' : DispSt) (self : Addr) (env : DispEnv) (sender : Addr) (m : DispMsg)
    (ms : List Msg) (hm : ∀ a b, m ≠ .swap a b) (hx : dispExec c self env sender m = .ok (c', ms)) : AllCalm ms := by
  cases m with
  | swap a b => exact absurd rfl (hm a b)
  | dispatch =>
    simp only [dispExec] at hx; exc_norm at hx
    split at hx
    · cases hx
    · split at hx
      · cases hx
      · rename_i ms' hd
        injection hx with hx; injection hx with _ h2; subst h2
        exact dispatchMsgs_calm _ _ _ _ _ hd
  | _ => simp only [dispExec] at hx <;> exc_norm at hx <;> (try cases hx) <;> exc_split at hx <;> (try calm_list)

theorem regExec_calm (s : Sys) (sender : Addr) (m : RegMsg) (r' : RegSt) (ms : List Msg)
    (hm : (∀ v, m ≠ .remove v) ∧ (∀ v, m ≠ .redelegations v))
    (hx : s.regExec sender m = .ok (r', ms)) : AllCalm ms := by
  cases m with
  | remove v => exact absurd rfl (hm.1 v)
  | redelegations v => exact absurd rfl (hm.2 v)
  | _ => simp only [Sys.regExec] at hx <;> exc_norm at hx <;> (try cases hx) <;> exc_split at hx <;> (try calm_list)

/-- handling a calm message emits only calm messages -/
theorem handle_calm (s s' : Sys) (m : Msg) (ms : List Msg) (hc : Calm m = true)
    (hx : s.handle m = .ok (s', ms)) : AllCalm ms := by
  cases handle_touch s s' m ms hx with
  | none _ _ _ hb =>
    intro x hx'
    obtain ⟨t, d, a, he⟩ := hb x hx'
    subst he; rfl
  | hub s1 sender funds hm heq _ _ _ hx' _ _ _ _ _ =>
    subst heq
    exact hubExec_calm _ _ _ _ _ _ _ (by intro h; subst h; simp [Calm] at hc) hx'
  | bsei s1 sender funds tm _ _ hx' _ _ _ _ _ => exact bseiExec_calm _ _ _ _ _ _ _ _ _ hx'
  | stsei blk sender funds tm _ hx' _ _ _ _ _ => exact stseiExec_calm _ _ _ _ _ _ _ _ hx'
  | reward s1 sender funds rm heq _ _ _ hx' _ _ _ _ _ =>
    subst heq
    exact rewardExec_calm _ _ _ _ _ _ _ _ _ (by intro h; subst h; simp [Calm] at hc) hx'
  | disp env sender funds dm heq _ _ hx' _ _ _ _ _ =>
    subst heq
    exact dispExec_calm _ _ _ _ _ _ _ (by intro a b h; subst h; simp [Calm] at hc) hx'
  | reg s1 sender funds rm heq _ _ _ hx' _ _ _ _ _ =>
    subst heq
    exact regExec_calm _ _ _ _ _ ⟨by intro v h; subst h; simp [Calm] at hc, by intro v h; subst h; simp [Calm] at hc⟩ hx'

end Krp
