/-
  TokensFixed.lean — the two token addresses registered in the hub are write-once: no hub message,
  by any sender (the owner included), changes one that is set.
-/
import Krp.Lemmas.Wiring
namespace Krp
open HubSt

/-- a registered token address stays registered, to the same contract -/
structure TokensKept (h h' : HubSt) : Prop where
  bsei : ∀ t, h.bsei = some t → h'.bsei = some t
  stsei : ∀ t, h.stsei = some t → h'.stsei = some t

theorem TokensKept.of_config {h h' : HubSt} (c : SameConfig h h') : TokensKept h h' :=
  ⟨fun t ht => by rw [c.bsei]; exact ht, fun t ht => by rw [c.stsei]; exact ht⟩


/-- every successful hub message, whoever sends it, keeps the registered token addresses -/
theorem hubExec_tokens (h h' : HubSt) (e : HubEnv) (sender : Addr) (funds : List (Denom × Nat))
    (m : HubMsg) (ms : List Msg) (hx : hubExec h e sender funds m = .ok (h', ms)) :
    TokensKept h h' := by
  cases m with
  | migrateWaitList limit =>
    simp only [hubExec] at hx; exc_split at hx
    exact TokensKept.of_config (migrate_frame h limit).1
  | updateParams a b c d p r =>
    simp only [hubExec] at hx; exc_norm at hx
    split at hx
    · cases hx
    · rename_i h1 hp
      injection hx with hx; injection hx with e1 _; subst e1
      unfold updateParams at hp; exc_norm at hp; exc_split at hp
      all_goals exact TokensKept.of_config ⟨rfl, rfl, rfl, rfl, rfl, rfl, rfl, rfl, rfl⟩
  | receive user amt hook =>
    simp only [hubExec] at hx
    split at hx
    · cases hx
    · exc_norm at hx
      split at hx
      · cases hx
      · split at hx
        · cases hx
        · cases hook with
          | other => simp only [] at hx; cases hx
          | convert =>
            simp only [] at hx
            split at hx
            · exact TokensKept.of_config (convertBS_frame _ _ _ _ _ _ hx).2
            · split at hx
              · exact TokensKept.of_config (convertSB_frame _ _ _ _ _ _ hx).2
              · cases hx
          | unbond =>
            simp only [] at hx
            split at hx
            · exact TokensKept.of_config (unbondB_frame _ _ _ _ _ _ hx).2
            · split at hx
              · exact TokensKept.of_config (unbondS_frame _ _ _ _ _ _ hx).2
              · cases hx
  | bond => simp only [hubExec] at hx; split at hx; · cases hx
            · exact TokensKept.of_config ((bond_frame _ _ _ _ _ _).1 hx).2
  | bondForStSei => simp only [hubExec] at hx; split at hx; · cases hx
                    · exact TokensKept.of_config ((bond_frame _ _ _ _ _ _).2.1 hx).2
  | bondRewards => simp only [hubExec] at hx; split at hx; · cases hx
                   · exact TokensKept.of_config ((bond_frame _ _ _ _ _ _).2.2 hx).2
  | updateGlobalIndex =>
    simp only [hubExec] at hx; split at hx; · cases hx
    · unfold updateGlobal at hx; exc_norm at hx; exc_split at hx
      all_goals exact TokensKept.of_config ⟨rfl, rfl, rfl, rfl, rfl, rfl, rfl, rfl, rfl⟩
  | withdrawUnbonded =>
    simp only [hubExec] at hx; split at hx; · cases hx
    · exact TokensKept.of_config (withdraw_frame _ _ _ _ _ hx).2
  | checkSlashing =>
    simp only [hubExec] at hx; split at hx; · cases hx
    · exc_norm at hx
      split at hx
      · cases hx
      · rename_i st hst
        injection hx with hx; injection hx with e1 _; subst e1
        exact TokensKept.of_config (actualState_frame _ _ _ hst).2
  | updateConfig a b c d f g u =>
    simp only [hubExec] at hx; split at hx; · cases hx
    · unfold updateConfig at hx; exc_norm at hx
      split at hx
      · cases hx
      · split at hx
        · cases hx
        · rename_i hb
          split at hx
          · cases hx
          · rename_i hs
            injection hx with hx; injection hx with e1 _; subst e1
            constructor
            · intro t ht; simp only []
              cases c with
              | none => simpa [Option.orElse] using ht
              | some c' => exact absurd ⟨rfl, by rw [ht]; rfl⟩ hb
            · intro t ht; simp only []
              cases d with
              | none => simpa [Option.orElse] using ht
              | some d' => exact absurd ⟨rfl, by rw [ht]; rfl⟩ hs
  | setOwner a =>
    simp only [hubExec] at hx; split at hx; · cases hx
    · split at hx
      · cases hx
      · injection hx with hx; injection hx with e1 _; subst e1
        exact ⟨fun t ht => ht, fun t ht => ht⟩
  | acceptOwnership =>
    simp only [hubExec] at hx; split at hx; · cases hx
    · split at hx
      · cases hx
      · injection hx with hx; injection hx with e1 _; subst e1
        exact ⟨fun t ht => ht, fun t ht => ht⟩
  | swapHook =>
    simp only [hubExec] at hx; exc_norm at hx; exc_split at hx
    exact TokensKept.of_config (SameConfig.refl _)
  | claimAirdrop =>
    simp only [hubExec] at hx; exc_norm at hx; exc_split at hx
    exact TokensKept.of_config (SameConfig.refl _)
  | redelegateProxy src plan =>
    simp only [hubExec] at hx; exc_norm at hx; exc_split at hx
    exact TokensKept.of_config (SameConfig.refl _)

/-- … and so does every message handled by the composed system -/
theorem handle_tokens (s s' : Sys) (m : Msg) (ms : List Msg) (hx : s.handle m = .ok (s', ms)) :
    TokensKept s.hub s'.hub := by
  cases handle_touch s s' m ms hx with
  | none h _ _ _ => rw [h.hub]; exact ⟨fun _ h => h, fun _ h => h⟩
  | hub s1 sender funds hm _ _ _ _ hx' b t r d g => exact hubExec_tokens _ _ _ _ _ _ _ hx'
  | bsei s1 sender funds tm _ _ hx' h t r d g => rw [h]; exact ⟨fun _ h => h, fun _ h => h⟩
  | stsei blk sender funds tm _ hx' h b r d g => rw [h]; exact ⟨fun _ h => h, fun _ h => h⟩
  | reward s1 sender funds rm _ _ _ _ hx' h b t d g => rw [h]; exact ⟨fun _ h => h, fun _ h => h⟩
  | disp env sender funds dm _ _ _ hx' h b t r g => rw [h]; exact ⟨fun _ h => h, fun _ h => h⟩
  | reg s1 sender funds rm _ h1 _ _ hx' h b t r d => rw [h]; exact ⟨fun _ h => h, fun _ h => h⟩

end Krp
