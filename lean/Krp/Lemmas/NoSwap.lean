/-
  NoSwap.lean — no contract ever emits the reward contract's `SwapToRewardDenom` message (the only
  message that would make the reward contract send away coins other than claim payouts).  Generated
  from Emit.lean's proofs by replacing the predicate; same structure, contract by contract.
-/
import Krp.System
import Krp.Lemmas.Tactics
import Krp.Lemmas.HubSpec
import Krp.Lemmas.Wait
import Krp.Lemmas.Emit
import Krp.Lemmas.Reach
namespace Krp

/-- the reward contract's SwapToRewardDenom, from anyone to anyone -/
def isRwSwap : Msg → Bool
  | .wasm _ _ (.reward .swapToRewardDenom) _ => true
  | _ => false

def NoSwap (ms : List Msg) : Prop := ∀ m ∈ ms, isRwSwap m = false

theorem NoSwap.nil : NoSwap [] := fun _ h => by cases h
theorem NoSwap.cons {m : Msg} {ms : List Msg} (h1 : isRwSwap m = false) (h2 : NoSwap ms) :
    NoSwap (m :: ms) := by
  intro x hx
  rcases List.mem_cons.mp hx with rfl | h
  · exact h1
  · exact h2 x h
theorem NoSwap.append {x y : List Msg} (h1 : NoSwap x) (h2 : NoSwap y) : NoSwap (x ++ y) := by
  intro m hm
  rcases List.mem_append.mp hm with h | h
  · exact h1 m h
  · exact h2 m h

namespace HubSt

theorem zipMsgs_noSwap (mk : Addr → Nat → Msg) (hmk : ∀ v p, isRwSwap (mk v p) = false) :
    ∀ (vs : List (Addr × Nat)) (ps : List Nat), NoSwap (zipMsgs mk vs ps) := by
  intro vs
  induction vs with
  | nil => intro ps; simp only [zipMsgs]; exact NoSwap.nil
  | cons v vs ih =>
    intro ps
    cases ps with
    | nil => simp only [zipMsgs]; exact NoSwap.nil
    | cons p ps =>
      obtain ⟨v1, v2⟩ := v
      simp only [zipMsgs]
      apply NoSwap.append
      · split
        · exact NoSwap.nil
        · exact NoSwap.cons (hmk v1 p) (NoSwap.nil)
      · exact ih ps

theorem pickValidator_noSwap (e : HubEnv) (claim : Nat) (ms : List Msg)
    (hx : pickValidator e claim = .ok ms) : NoSwap ms := by
  unfold pickValidator at hx
  simp only [] at hx
  split at hx
  · cases hx
  · injection hx with hx; subst hx
    exact zipMsgs_noSwap (fun v p => Msg.undelegate e.self v p) (fun _ _ => rfl) _ _

theorem delegMsgs_noSwap (h : HubSt) (e : HubEnv) (p : Nat) (ms : List Msg)
    (hx : h.delegMsgs e p = .ok ms) : NoSwap ms := by
  unfold delegMsgs at hx
  exc_split at hx
  exact zipMsgs_noSwap (fun v a => Msg.delegate e.self v a) (fun _ _ => rfl) _ _

theorem processUndelegations_noSwap (h h' : HubSt) (e : HubEnv) (ms : List Msg)
    (hx : h.processUndelegations e = .ok (h', ms)) : NoSwap ms :=
  pickValidator_noSwap e _ ms (processUndelegations_spec h h' e ms hx).1

end HubSt

open HubSt in
theorem hubExec_noSwap (h h' : HubSt) (e : HubEnv) (sender : Addr) (funds : List (Denom × Nat))
    (m : HubMsg) (ms : List Msg) (hx : hubExec h e sender funds m = .ok (h', ms)) : NoSwap ms := by
  cases m with
  | migrateWaitList limit =>
    simp only [hubExec] at hx; exc_norm at hx; exc_split at hx; exact NoSwap.nil
  | updateParams a b c d p r =>
    simp only [hubExec] at hx; exc_norm at hx; exc_split at hx; exact NoSwap.nil
  | receive user amt hook =>
    simp only [hubExec] at hx
    split at hx
    · cases hx
    · exc_norm at hx
      split at hx
      · cases hx
      · split at hx
        · cases hx
        · cases hook with
          | other => simp only [] at hx; cases hx
          | convert =>
            simp only [] at hx
            split at hx
            · obtain ⟨_, _, _, _, _, _, _, _, _, _, _, _, _, _, _, _, hm⟩ := convertBS_spec _ _ _ _ _ _ hx
              subst hm; exact NoSwap.cons rfl (NoSwap.cons rfl (NoSwap.nil))
            · split at hx
              · obtain ⟨_, _, _, _, _, _, _, _, _, _, _, _, _, _, _, _, hm⟩ := convertSB_spec _ _ _ _ _ _ hx
                subst hm; exact NoSwap.cons rfl (NoSwap.cons rfl (NoSwap.nil))
              · cases hx
          | unbond =>
            simp only [] at hx
            split at hx
            · obtain ⟨st, supply, wf, tok, _, _, _, _, _, _, hcase⟩ := unbondB_spec _ _ _ _ _ _ hx
              rcases hcase with ⟨_, um, hp, hm⟩ | ⟨_, _, hm⟩
              · subst hm
                exact NoSwap.append (processUndelegations_noSwap _ _ _ _ hp) (NoSwap.cons rfl (NoSwap.nil))
              · subst hm; exact NoSwap.cons rfl (NoSwap.nil)
            · split at hx
              · obtain ⟨st, tok, _, _, _, hcase⟩ := unbondS_spec _ _ _ _ _ _ hx
                rcases hcase with ⟨_, um, hp, hm⟩ | ⟨_, _, hm⟩
                · subst hm
                  exact NoSwap.append (processUndelegations_noSwap _ _ _ _ hp) (NoSwap.cons rfl (NoSwap.nil))
                · subst hm; exact NoSwap.cons rfl (NoSwap.nil)
              · cases hx
  | bond =>
    simp only [hubExec] at hx; split at hx
    · cases hx
    · obtain ⟨p, st, mint, dl, tok, _, _, _, _, hd, _, _, hm⟩ := bondB_spec _ _ _ _ _ _ hx
      subst hm
      exact NoSwap.append (delegMsgs_noSwap _ _ _ _ hd) (NoSwap.cons rfl (NoSwap.nil))
  | bondForStSei =>
    simp only [hubExec] at hx; split at hx
    · cases hx
    · obtain ⟨p, st, dl, tok, _, _, _, hd, _, _, hm⟩ := bondS_spec _ _ _ _ _ _ hx
      subst hm
      exact NoSwap.append (delegMsgs_noSwap _ _ _ _ hd) (NoSwap.cons rfl (NoSwap.nil))
  | bondRewards =>
    simp only [hubExec] at hx; split at hx
    · cases hx
    · obtain ⟨p, st, _, _, _, hd, _⟩ := bondR_spec _ _ _ _ _ _ hx
      exact delegMsgs_noSwap _ _ _ _ hd
  | updateGlobalIndex =>
    simp only [hubExec] at hx; split at hx
    · cases hx
    · unfold updateGlobal at hx
      exc_norm at hx
      exc_split at hx
      all_goals
        intro x hx'
        simp only [List.mem_append, List.mem_map, List.mem_cons, List.mem_nil_iff, or_false] at hx'
        rcases hx' with ⟨d, _, rfl⟩ | rfl | rfl <;> rfl
  | withdrawUnbonded =>
    simp only [hubExec] at hx; split at hx
    · cases hx
    · obtain ⟨_, h1, _, _, _, _, hm⟩ := withdraw_spec _ _ _ _ _ hx
      subst hm; exact NoSwap.cons rfl (NoSwap.nil)
  | checkSlashing =>
    simp only [hubExec] at hx; exc_norm at hx; exc_split at hx; exact NoSwap.nil
  | updateConfig a b c d f g u =>
    simp only [hubExec] at hx; split at hx
    · cases hx
    · unfold updateConfig at hx
      exc_norm at hx
      exc_split at hx
      cases a with
      | none => exact NoSwap.nil
      | some d => exact NoSwap.cons rfl (NoSwap.nil)
  | setOwner a => simp only [hubExec] at hx; exc_norm at hx; exc_split at hx; exact NoSwap.nil
  | acceptOwnership => simp only [hubExec] at hx; exc_norm at hx; exc_split at hx; exact NoSwap.nil
  | swapHook =>
    simp only [hubExec] at hx; exc_norm at hx; exc_split at hx
    exact NoSwap.cons rfl (NoSwap.nil)
  | claimAirdrop =>
    simp only [hubExec] at hx; exc_norm at hx; exc_split at hx
    exact NoSwap.cons rfl (NoSwap.cons rfl (NoSwap.nil))
  | redelegateProxy src plan =>
    simp only [hubExec] at hx; exc_norm at hx; exc_split at hx
    intro x hx'
    simp only [List.mem_map] at hx'
    obtain ⟨p, _, rfl⟩ := hx'
    rfl

theorem receiveMsg_noSwapMsg (self cw c hubc : Addr) (amt : Nat) (hook : Hook) :
    isRwSwap (receiveMsg self cw c hubc amt hook) = false := by
  unfold receiveMsg; split <;> rfl

/-- close a goal `NoSwap [m₁, …]` whose elements are literal messages or `receiveMsg` -/
macro "no_swap_list" : tactic =>
  `(tactic| repeat' (first
      | exact NoSwap.nil
      | refine NoSwap.append ?_ ?_
      | refine NoSwap.cons (by first | rfl | exact receiveMsg_noSwapMsg ..) ?_))

theorem bseiExec_noSwap (t t' : Token) (b : Block) (self : Addr) (rw : Res Addr) (hubc sender : Addr)
    (m : TokMsg) (ms : List Msg) (hx : bseiExec t b self rw hubc sender m = .ok (t', ms)) :
    NoSwap ms := by
  cases m <;> simp only [bseiExec] at hx <;> exc_norm at hx <;> (try cases hx) <;> exc_split at hx <;> (try no_swap_list)

theorem stseiExec_noSwap (t t' : Token) (b : Block) (self hubc sender : Addr)
    (m : TokMsg) (ms : List Msg) (hx : stseiExec t b self hubc sender m = .ok (t', ms)) :
    NoSwap ms := by
  cases m <;> simp only [stseiExec] at hx <;> exc_norm at hx <;> (try cases hx) <;> exc_split at hx <;> (try no_swap_list)

theorem rewardExec_noSwap (r r' : RewardSt) (self : Addr) (tok dsp : Res Addr) (bal : Denom → Nat)
    (sender : Addr) (m : RewMsg) (ms : List Msg)
    (hx : rewardExec r self tok dsp bal sender m = .ok (r', ms)) : NoSwap ms := by
  cases m with
  | swapToRewardDenom =>
    simp only [rewardExec] at hx; exc_norm at hx; exc_split at hx
    intro x hx'
    simp only [List.mem_filterMap] at hx'
    obtain ⟨dn, _, h2⟩ := hx'
    split at h2
    · injection h2 with h2; subst h2; rfl
    · cases h2
  | _ => simp only [rewardExec] at hx <;> exc_norm at hx <;> (try cases hx) <;> exc_split at hx <;> (try no_swap_list)

theorem coinMsgs_noSwap (c : DispSt) (self : Addr) (x : Nat) :
    (∀ ms, coinMsgsB c self x = .ok ms → NoSwap ms) ∧
    (∀ ms, coinMsgsSt c self x = .ok ms → NoSwap ms) := by
  constructor
  · intro ms hx; unfold coinMsgsB at hx; exc_split at hx <;> (try no_swap_list)
  · intro ms hx; unfold coinMsgsSt at hx; exc_split at hx <;> (try no_swap_list)

theorem dispatchMsgs_noSwap (c : DispSt) (self : Addr) (a b : Nat) (ms : List Msg)
    (hx : dispatchMsgs c self a b = .ok ms) : NoSwap ms := by
  unfold dispatchMsgs at hx
  split at hx
  · cases hx
  · rename_i m1 h1
    split at hx
    · cases hx
    · rename_i m2 h2
      injection hx with hx; subst hx
      exact NoSwap.append (NoSwap.append ((coinMsgs_noSwap c self b).1 m1 h1) ((coinMsgs_noSwap c self a).2 m2 h2))
        (NoSwap.cons rfl (NoSwap.nil))

theorem foldl_noSwap (f : Res (Nat × Nat × List Msg) → Denom → Res (Nat × Nat × List Msg))
    (hstep : ∀ acc dn v, f acc dn = .ok v → ∃ v0, acc = .ok v0 ∧ (NoSwap v0.2.2 → NoSwap v.2.2)) :
    ∀ (l : List Denom) (acc : Res (Nat × Nat × List Msg)) (v : Nat × Nat × List Msg),
      l.foldl f acc = .ok v → ∃ v0, acc = .ok v0 ∧ (NoSwap v0.2.2 → NoSwap v.2.2) := by
  intro l
  induction l with
  | nil => intro acc v hx; exact ⟨v, hx, id⟩
  | cons d ds ih =>
    intro acc v hx
    simp only [List.foldl_cons] at hx
    obtain ⟨v1, h1, k1⟩ := ih (f acc d) v hx
    obtain ⟨v0, h0, k0⟩ := hstep acc d v1 h1
    exact ⟨v0, h0, fun h => k1 (k0 h)⟩

theorem dispExec_noSwap (c c' : DispSt) (self : Addr) (env : DispEnv) (sender : Addr) (m : DispMsg)
    (ms : List Msg) (hx : dispExec c self env sender m = .ok (c', ms)) : NoSwap ms := by
  cases m with
  | swap a b =>
    simp only [dispExec] at hx
    exc_norm at hx
    split at hx
    · cases hx
    · split at hx
      · cases hx
      · rename_i v hv
        have hs : NoSwap v.2.2 := by
          obtain ⟨v0, h0, k⟩ := foldl_noSwap _ (by
            intro acc dn v' hf
            cases acc with
            | error e => simp only [] at hf; cases hf
            | ok v0 =>
              refine ⟨v0, rfl, fun h0 => ?_⟩
              simp only [] at hf
              repeat' (split at hf <;> try (first | cases hf | contradiction))
              all_goals (first | exact h0 | exact NoSwap.append h0 (NoSwap.cons rfl (NoSwap.nil)))) _ _ v hv
          injection h0 with h0; subst h0
          exact k (NoSwap.nil)
        repeat' (split at hx <;> try (first | cases hx | contradiction))
        all_goals (first | exact hs | exact NoSwap.append hs (NoSwap.cons rfl (NoSwap.nil)))
  | dispatch =>
    simp only [dispExec] at hx; exc_norm at hx
    split at hx
    · cases hx
    · split at hx
      · cases hx
      · rename_i ms' hd
        injection hx with hx; injection hx with _ h2; subst h2
        exact dispatchMsgs_noSwap _ _ _ _ _ hd
  | _ => simp only [dispExec] at hx <;> exc_norm at hx <;> (try cases hx) <;> exc_split at hx <;> (try no_swap_list)

theorem regExec_noSwap (s : Sys) (sender : Addr) (m : RegMsg) (r' : RegSt) (ms : List Msg)
    (hx : s.regExec sender m = .ok (r', ms)) : NoSwap ms := by
  cases m with
  | remove v =>
    simp only [Sys.regExec] at hx; exc_norm at hx; exc_split at hx
    rename_i hq; exc_split at hq <;> no_swap_list
  | redelegations v =>
    simp only [Sys.regExec] at hx; exc_norm at hx; exc_split at hx
    rename_i hq; exc_split at hq <;> no_swap_list
  | _ => simp only [Sys.regExec] at hx <;> exc_norm at hx <;> (try cases hx) <;> exc_split at hx <;> (try no_swap_list)

/-- whatever message is handled, nothing it emits is a SwapToRewardDenom -/
theorem handle_noSwap (s s' : Sys) (m : Msg) (ms : List Msg) (hx : s.handle m = .ok (s', ms)) : NoSwap ms := by
  cases handle_touch s s' m ms hx with
  | none _ _ _ hb =>
    intro x hx'
    obtain ⟨t, d, a, he⟩ := hb x hx'
    subst he; rfl
  | hub s1 sender funds hm _ _ _ _ hx' _ _ _ _ _ => exact hubExec_noSwap _ _ _ _ _ _ _ hx'
  | bsei s1 sender funds tm _ _ hx' _ _ _ _ _ => exact bseiExec_noSwap _ _ _ _ _ _ _ _ _ hx'
  | stsei blk sender funds tm _ hx' _ _ _ _ _ => exact stseiExec_noSwap _ _ _ _ _ _ _ _ hx'
  | reward s1 sender funds rm _ _ _ _ hx' _ _ _ _ _ => exact rewardExec_noSwap _ _ _ _ _ _ _ _ _ hx'
  | disp env sender funds dm _ _ _ hx' _ _ _ _ _ => exact dispExec_noSwap _ _ _ _ _ _ _ hx'
  | reg s1 sender funds rm _ _ _ _ hx' _ _ _ _ _ => exact regExec_noSwap _ _ _ _ _ hx'

end Krp
