/-
  Still.lean — messages that cannot move an exchange rate (C04).

  `Still m`: by its call shape `m` is none of the pricing operations (hub Bond / BondForStSei /
  BondRewards / Receive{Unbond, Convert} / CheckSlashing / UpdateGlobalIndex / UpdateConfig /
  RedelegateProxy), no token Mint / Burn / BurnFrom / Send-to-the-hub, no dispatcher DispatchRewards,
  no registry RemoveValidator / Redelegations, no staking message.  Handling a still message leaves
  the two pools, the pending requests, the stored rates, the token registration, both token supplies
  and the delegations exactly as they were, and emits only still messages — so a whole transaction
  started by a still message leaves both reported exchange rates unchanged.
-/
import Krp.System
import Krp.Lemmas.Tactics
import Krp.Lemmas.HubSpec
import Krp.Lemmas.Wait
import Krp.Lemmas.Emit
import Krp.Lemmas.Reach
import Krp.Lemmas.Wiring
import Krp.Lemmas.Bank
namespace Krp
open HubSt

def Still : Msg → Bool
  | .bankSend .. => true
  | .setWithdrawAddr .. => true
  | .withdrawReward .. => true
  | .delegate .. => false
  | .undelegate .. => false
  | .redelegate .. => false
  | .wasm _ _ (.hub hm) _ =>
    match hm with
    | .withdrawUnbonded => true
    | .updateParams .. => true
    | .setOwner _ => true
    | .acceptOwnership => true
    | .swapHook => true
    | .claimAirdrop => true
    | .migrateWaitList _ => true
    | _ => false
  | .wasm _ _ (.tok tm) _ =>
    match tm with
    | .transfer .. => true
    | .transferFrom .. => true
    | .incAllow .. => true
    | .decAllow .. => true
    | .send c _ _ => c != hubA
    | .sendFrom _ c _ _ => c != hubA
    | _ => false
  | .wasm _ _ (.reward _) _ => true
  | .wasm _ _ (.disp dm) _ =>
    match dm with
    | .dispatch => false
    | _ => true
  | .wasm _ _ (.reg rm) _ =>
    match rm with
    | .remove _ => false
    | .redelegations _ => false
    | _ => true
  | .wasm _ _ (.swapDenom ..) _ => true
  | .wasm _ _ (.receiveHook ..) _ => true

def AllStill (ms : List Msg) : Prop := ∀ m ∈ ms, Still m = true

theorem AllStill.nil : AllStill [] := fun _ h => by cases h
theorem AllStill.cons {m : Msg} {ms : List Msg} (h1 : Still m = true) (h2 : AllStill ms) : AllStill (m :: ms) := by
  intro x hx
  rcases List.mem_cons.mp hx with rfl | h
  · exact h1
  · exact h2 x h
theorem AllStill.append {x y : List Msg} (h1 : AllStill x) (h2 : AllStill y) : AllStill (x ++ y) := by
  intro m hm
  rcases List.mem_append.mp hm with h | h
  · exact h1 m h
  · exact h2 m h

/-- everything the reported exchange rates are computed from -/
structure SamePools (s s' : Sys) : Prop where
  bBond : s'.hub.bBond = s.hub.bBond
  sBond : s'.hub.sBond = s.hub.sBond
  reqB : s'.hub.reqB = s.hub.reqB
  reqS : s'.hub.reqS = s.hub.reqS
  bRate : s'.hub.bRate = s.hub.bRate
  sRate : s'.hub.sRate = s.hub.sRate
  btok : s'.hub.bsei = s.hub.bsei
  stok : s'.hub.stsei = s.hub.stsei
  bSupply : s'.bsei.supply = s.bsei.supply
  sSupply : s'.stsei.supply = s.stsei.supply
  deleg : s'.chain.deleg = s.chain.deleg
  delegSet : s'.chain.delegSet = s.chain.delegSet

theorem SamePools.refl (s : Sys) : SamePools s s := ⟨rfl, rfl, rfl, rfl, rfl, rfl, rfl, rfl, rfl, rfl, rfl, rfl⟩

theorem SamePools.trans {a b c : Sys} (x : SamePools a b) (y : SamePools b c) : SamePools a c :=
  ⟨y.bBond.trans x.bBond, y.sBond.trans x.sBond, y.reqB.trans x.reqB, y.reqS.trans x.reqS,
   y.bRate.trans x.bRate, y.sRate.trans x.sRate, y.btok.trans x.btok, y.stok.trans x.stok,
   y.bSupply.trans x.bSupply, y.sSupply.trans x.sSupply, y.deleg.trans x.deleg, y.delegSet.trans x.delegSet⟩

/-- the hub part of `SamePools` -/
structure SameHubPools (h h' : HubSt) : Prop where
  bBond : h'.bBond = h.bBond
  sBond : h'.sBond = h.sBond
  reqB : h'.reqB = h.reqB
  reqS : h'.reqS = h.reqS
  bRate : h'.bRate = h.bRate
  sRate : h'.sRate = h.sRate
  btok : h'.bsei = h.bsei
  stok : h'.stsei = h.stsei

theorem delWait_fold_pools (ids : List Nat) (u : Addr) (h : HubSt) :
    SameHubPools h (ids.foldl (fun hh i => hh.delWait u i) h) := by
  induction ids generalizing h with
  | nil => exact ⟨rfl, rfl, rfl, rfl, rfl, rfl, rfl, rfl⟩
  | cons b bs ih =>
    simp only [List.foldl_cons]
    have r := ih (h.delWait u b)
    exact ⟨r.bBond, r.sBond, r.reqB, r.reqS, r.bRate, r.sRate, r.btok, r.stok⟩

theorem processWithdrawRate_pools (h h' : HubSt) (c b : Nat) (hx : h.processWithdrawRate c b = .ok h') :
    SameHubPools h h' := by
  unfold processWithdrawRate at hx
  simp only [] at hx
  exc_split at hx
  all_goals exact ⟨rfl, rfl, rfl, rfl, rfl, rfl, rfl, rfl⟩

theorem migrate_pools (h : HubSt) (limit : Option Nat) : SameHubPools h (h.migrate limit) := by
  unfold migrate
  simp only []
  split
  · exact ⟨rfl, rfl, rfl, rfl, rfl, rfl, rfl, rfl⟩
  · have key : ∀ (l : List (Addr × Nat × Nat)) (x : HubSt), SameHubPools x (l.foldl migrateOne x) := by
      intro l
      induction l with
      | nil => intro x; exact ⟨rfl, rfl, rfl, rfl, rfl, rfl, rfl, rfl⟩
      | cons a l ih =>
        intro x
        simp only [List.foldl_cons]
        have r := ih (migrateOne x a)
        exact ⟨r.bBond, r.sBond, r.reqB, r.reqS, r.bRate, r.sRate, r.btok, r.stok⟩
    have r := key (h.legacy.take (limit.getD 1000)) h
    exact ⟨r.bBond, r.sBond, r.reqB, r.reqS, r.bRate, r.sRate, r.btok, r.stok⟩

/-- a still hub message: pools untouched, only still messages out -/
theorem hubExec_still (h h' : HubSt) (e : HubEnv) (sender : Addr) (funds : List (Denom × Nat))
    (m : HubMsg) (ms : List Msg) (hs : Still (.wasm sender e.self (.hub m) funds) = true)
    (hx : hubExec h e sender funds m = .ok (h', ms)) : SameHubPools h h' ∧ AllStill ms := by
  cases m with
  | withdrawUnbonded =>
    simp only [hubExec] at hx
    split at hx
    · cases hx
    · obtain ⟨_, h1, hp, _, _, hh, hms⟩ := withdraw_spec h h' e sender ms hx
      have p1 := processWithdrawRate_pools h h1 _ _ hp
      have p2 := delWait_fold_pools (h1.finished sender).2 sender h1
      subst hh; subst hms
      exact ⟨⟨p2.bBond.trans p1.bBond, p2.sBond.trans p1.sBond, p2.reqB.trans p1.reqB, p2.reqS.trans p1.reqS,
        p2.bRate.trans p1.bRate, p2.sRate.trans p1.sRate, p2.btok.trans p1.btok, p2.stok.trans p1.stok⟩,
        AllStill.cons rfl AllStill.nil⟩
  | migrateWaitList limit =>
    simp only [hubExec] at hx
    split at hx
    · injection hx with hx; injection hx with h1 h2; subst h1; subst h2
      exact ⟨migrate_pools h limit, AllStill.nil⟩
    · cases hx
  | updateParams a b c d p r =>
    simp only [hubExec] at hx
    exc_norm at hx
    split at hx
    · cases hx
    · rename_i h1 hp
      injection hx with hx; injection hx with e1 e2; subst e1; subst e2
      unfold updateParams at hp; exc_norm at hp; exc_split at hp
      all_goals exact ⟨⟨rfl, rfl, rfl, rfl, rfl, rfl, rfl, rfl⟩, AllStill.nil⟩
  | setOwner a =>
    simp only [hubExec] at hx; exc_norm at hx; exc_split at hx
    exact ⟨⟨rfl, rfl, rfl, rfl, rfl, rfl, rfl, rfl⟩, AllStill.nil⟩
  | acceptOwnership =>
    simp only [hubExec] at hx; exc_norm at hx; exc_split at hx
    exact ⟨⟨rfl, rfl, rfl, rfl, rfl, rfl, rfl, rfl⟩, AllStill.nil⟩
  | swapHook =>
    simp only [hubExec] at hx; exc_norm at hx; exc_split at hx
    exact ⟨⟨rfl, rfl, rfl, rfl, rfl, rfl, rfl, rfl⟩, AllStill.cons rfl AllStill.nil⟩
  | claimAirdrop =>
    simp only [hubExec] at hx; exc_norm at hx; exc_split at hx
    exact ⟨⟨rfl, rfl, rfl, rfl, rfl, rfl, rfl, rfl⟩, AllStill.cons rfl (AllStill.cons rfl AllStill.nil)⟩
  | _ => simp [Still] at hs

theorem receiveMsg_still (self cw c hubc : Addr) (amt : Nat) (hook : Hook) (hc : c ≠ hubc) :
    Still (receiveMsg self cw c hubc amt hook) = true := by
  unfold receiveMsg; rw [if_neg hc]; rfl

/-- close a goal `AllStill [m₁, …]` whose elements are literal messages -/
macro "still_list" : tactic =>
  `(tactic| repeat' (first
      | exact AllStill.nil
      | refine AllStill.append ?_ ?_
      | refine AllStill.cons (by first | rfl | assumption) ?_))

theorem move_supply (t t' : Token) (a b : Addr) (n : Nat) (hx : t.move a b n = .ok t') : t'.supply = t.supply := by
  unfold Token.move at hx; exc_split at hx; rfl

theorem transfer_supply (t t' : Token) (a b : Addr) (n : Nat) (hx : t.transfer a b n = .ok t') : t'.supply = t.supply := by
  unfold Token.transfer at hx; exc_split at hx; exact move_supply _ _ _ _ _ hx

theorem deduct_supply (t t' : Token) (blk : Block) (o s : Addr) (n : Nat) (hx : t.deduct blk o s n = .ok t') :
    t'.supply = t.supply := by
  unfold Token.deduct at hx; exc_split at hx <;> rfl

theorem transferFrom_supply (t t' : Token) (blk : Block) (s o b : Addr) (n : Nat)
    (hx : t.transferFrom blk s o b n = .ok t') : t'.supply = t.supply := by
  unfold Token.transferFrom at hx
  split at hx
  · cases hx
  · rename_i t1 h1
    rw [move_supply _ _ _ _ _ hx, deduct_supply _ _ _ _ _ _ h1]

theorem incAllow_supply (t t' : Token) (blk : Block) (o s : Addr) (n : Nat) (e : Option Expiry)
    (hx : t.incAllow blk o s n e = .ok t') : t'.supply = t.supply := by
  unfold Token.incAllow at hx; exc_split at hx <;> rfl

theorem decAllow_supply (t t' : Token) (blk : Block) (o s : Addr) (n : Nat) (e : Option Expiry)
    (hx : t.decAllow blk o s n e = .ok t') : t'.supply = t.supply := by
  unfold Token.decAllow at hx; exc_split at hx <;> rfl

theorem bseiExec_still (t t' : Token) (b : Block) (self : Addr) (rw : Res Addr) (sender : Addr)
    (m : TokMsg) (ms : List Msg) (funds : List (Denom × Nat)) (tgt : Addr)
    (hs : Still (.wasm sender tgt (.tok m) funds) = true)
    (hx : bseiExec t b self rw hubA sender m = .ok (t', ms)) : t'.supply = t.supply ∧ AllStill ms := by
  cases m with
  | transfer to amt =>
    simp only [bseiExec] at hx; exc_norm at hx; exc_split at hx
    rename_i t1 h1
    exact ⟨transfer_supply _ _ _ _ _ h1, by still_list⟩
  | transferFrom o to amt =>
    simp only [bseiExec] at hx; exc_norm at hx; exc_split at hx
    rename_i t1 h1
    exact ⟨transferFrom_supply _ _ _ _ _ _ _ h1, by still_list⟩
  | incAllow s amt e =>
    simp only [bseiExec] at hx; exc_norm at hx; exc_split at hx
    rename_i t1 h1
    exact ⟨incAllow_supply _ _ _ _ _ _ _ h1, AllStill.nil⟩
  | decAllow s amt e =>
    simp only [bseiExec] at hx; exc_norm at hx; exc_split at hx
    rename_i t1 h1
    exact ⟨decAllow_supply _ _ _ _ _ _ _ h1, AllStill.nil⟩
  | send c amt hook =>
    have hc : c ≠ hubA := by simpa [Still] using hs
    simp only [bseiExec] at hx; exc_norm at hx; exc_split at hx
    rename_i t1 h1
    exact ⟨transfer_supply _ _ _ _ _ h1,
      AllStill.cons rfl (AllStill.cons rfl (AllStill.cons (receiveMsg_still _ _ _ _ _ _ hc) AllStill.nil))⟩
  | sendFrom o c amt hook =>
    have hc : c ≠ hubA := by simpa [Still] using hs
    simp only [bseiExec] at hx; exc_norm at hx; exc_split at hx
    rename_i t1 h1
    exact ⟨transferFrom_supply _ _ _ _ _ _ _ h1,
      AllStill.cons rfl (AllStill.cons rfl (AllStill.cons (receiveMsg_still _ _ _ _ _ _ hc) AllStill.nil))⟩
  | _ => simp [Still] at hs

theorem stseiExec_still (t t' : Token) (b : Block) (self : Addr) (sender : Addr)
    (m : TokMsg) (ms : List Msg) (funds : List (Denom × Nat)) (tgt : Addr)
    (hs : Still (.wasm sender tgt (.tok m) funds) = true)
    (hx : stseiExec t b self hubA sender m = .ok (t', ms)) : t'.supply = t.supply ∧ AllStill ms := by
  cases m with
  | transfer to amt =>
    simp only [stseiExec] at hx; exc_norm at hx; exc_split at hx
    rename_i t1 h1
    exact ⟨transfer_supply _ _ _ _ _ h1, AllStill.nil⟩
  | transferFrom o to amt =>
    simp only [stseiExec] at hx; exc_norm at hx; exc_split at hx
    rename_i t1 h1
    exact ⟨transferFrom_supply _ _ _ _ _ _ _ h1, AllStill.nil⟩
  | incAllow s amt e =>
    simp only [stseiExec] at hx; exc_norm at hx; exc_split at hx
    rename_i t1 h1
    exact ⟨incAllow_supply _ _ _ _ _ _ _ h1, AllStill.nil⟩
  | decAllow s amt e =>
    simp only [stseiExec] at hx; exc_norm at hx; exc_split at hx
    rename_i t1 h1
    exact ⟨decAllow_supply _ _ _ _ _ _ _ h1, AllStill.nil⟩
  | send c amt hook =>
    have hc : c ≠ hubA := by simpa [Still] using hs
    simp only [stseiExec] at hx; exc_norm at hx; exc_split at hx
    rename_i t1 h1
    exact ⟨transfer_supply _ _ _ _ _ h1, AllStill.cons (receiveMsg_still _ _ _ _ _ _ hc) AllStill.nil⟩
  | sendFrom o c amt hook =>
    have hc : c ≠ hubA := by simpa [Still] using hs
    simp only [stseiExec] at hx; exc_norm at hx; exc_split at hx
    rename_i t1 h1
    exact ⟨transferFrom_supply _ _ _ _ _ _ _ h1, AllStill.cons (receiveMsg_still _ _ _ _ _ _ hc) AllStill.nil⟩
  | _ => simp [Still] at hs


theorem rewardExec_still (r r' : RewardSt) (self : Addr) (tok dsp : Res Addr) (bal : Denom → Nat)
    (sender : Addr) (m : RewMsg) (ms : List Msg)
    (hx : rewardExec r self tok dsp bal sender m = .ok (r', ms)) : AllStill ms := by
  cases m with
  | swapToRewardDenom =>
    simp only [rewardExec] at hx; exc_norm at hx; exc_split at hx
    intro x hx'
    simp only [List.mem_filterMap] at hx'
    obtain ⟨dn, _, he⟩ := hx'
    split at he
    · injection he with he; subst he; rfl
    · cases he
  | _ => simp only [rewardExec] at hx <;> exc_norm at hx <;> (try cases hx) <;> exc_split at hx <;> (try still_list)

theorem foldl_still (f : Res (Nat × Nat × List Msg) → Denom → Res (Nat × Nat × List Msg))
    (hstep : ∀ acc dn v, f acc dn = .ok v → ∃ v0, acc = .ok v0 ∧ (AllStill v0.2.2 → AllStill v.2.2)) :
    ∀ (l : List Denom) (acc : Res (Nat × Nat × List Msg)) (v : Nat × Nat × List Msg),
      l.foldl f acc = .ok v → ∃ v0, acc = .ok v0 ∧ (AllStill v0.2.2 → AllStill v.2.2) := by
  intro l
  induction l with
  | nil => intro acc v hx; exact ⟨v, hx, id⟩
  | cons d ds ih =>
    intro acc v hx
    simp only [List.foldl_cons] at hx
    obtain ⟨v1, h1, k1⟩ := ih (f acc d) v hx
    obtain ⟨v0, h0, k0⟩ := hstep acc d v1 h1
    exact ⟨v0, h0, fun h => k1 (k0 h)⟩

theorem dispExec_still (c c' : DispSt) (self : Addr) (env : DispEnv) (sender : Addr) (m : DispMsg)
    (ms : List Msg) (hm : m ≠ .dispatch) (hx : dispExec c self env sender m = .ok (c', ms)) : AllStill ms := by
  cases m with
  | dispatch => exact absurd rfl hm
  | swap a b =>
    simp only [dispExec] at hx
    exc_norm at hx
    split at hx
    · cases hx
    · split at hx
      · cases hx
      · rename_i v hv
        have hs : AllStill v.2.2 := by
          obtain ⟨v0, h0, k⟩ := foldl_still _ (by
            intro acc dn v' hf
            cases acc with
            | error e => simp only [] at hf; cases hf
            | ok v0 =>
              refine ⟨v0, rfl, fun h0 => ?_⟩
              simp only [] at hf
              repeat' (split at hf <;> try (first | cases hf | contradiction))
              all_goals (first | exact h0 | exact AllStill.append h0 (AllStill.cons rfl AllStill.nil))) _ _ v hv
          injection h0 with h0; subst h0
          exact k AllStill.nil
        repeat' (split at hx <;> try (first | cases hx | contradiction))
        all_goals (first | exact hs | exact AllStill.append hs (AllStill.cons rfl AllStill.nil))
  | _ => simp only [dispExec] at hx <;> exc_norm at hx <;> (try cases hx) <;> exc_split at hx <;> (try still_list)

theorem regExec_still (s : Sys) (sender : Addr) (m : RegMsg) (r' : RegSt) (ms : List Msg)
    (hm : (∀ v, m ≠ .remove v) ∧ (∀ v, m ≠ .redelegations v))
    (hx : s.regExec sender m = .ok (r', ms)) : AllStill ms := by
  cases m with
  | remove v => exact absurd rfl (hm.1 v)
  | redelegations v => exact absurd rfl (hm.2 v)
  | _ => simp only [Sys.regExec] at hx <;> exc_norm at hx <;> (try cases hx) <;> exc_split at hx <;> (try still_list)

theorem moveFunds_staking' (src dst : Addr) (l : List (Denom × Nat)) (s s' : Sys)
    (hx : s.moveFunds src dst l = .ok s') : s'.chain.deleg = s.chain.deleg ∧ s'.chain.delegSet = s.chain.delegSet :=
  moveFunds_staking src dst l s s' hx

/-- handling a still message leaves the pools alone and emits only still messages -/
theorem handle_still (s s' : Sys) (m : Msg) (ms : List Msg) (hc : Still m = true)
    (hx : s.handle m = .ok (s', ms)) : SamePools s s' ∧ AllStill ms := by
  -- staking fields: only the three staking messages touch them, and those are not still
  have hstake : s'.chain.deleg = s.chain.deleg ∧ s'.chain.delegSet = s.chain.delegSet := by
    cases m with
    | bankSend src dst d amt =>
      simp only [Sys.handle] at hx; exc_norm at hx
      split at hx
      · cases hx
      · rename_i s1 h1
        injection hx with hx; injection hx with e1 _; subst e1
        unfold Sys.bankMove at h1; exc_split at h1; exact ⟨rfl, rfl⟩
    | setWithdrawAddr who a =>
      simp only [Sys.handle] at hx; exc_norm at hx; exc_split at hx; exact ⟨rfl, rfl⟩
    | withdrawReward who v =>
      simp only [Sys.handle] at hx; exc_norm at hx; exc_split at hx; exact ⟨rfl, rfl⟩
    | delegate who v amt => simp [Still] at hc
    | undelegate who v amt => simp [Still] at hc
    | redelegate who a b amt => simp [Still] at hc
    | wasm sender target call funds =>
      obtain ⟨s1, hmv, hch⟩ := handle_wasm_chain_eq s s' sender target call funds ms hx
      have r := moveFunds_staking sender target funds s s1 hmv
      rw [hch]; exact r
  cases handle_touch s s' m ms hx with
  | none h _ _ hb =>
    refine ⟨⟨by rw [h.hub], by rw [h.hub], by rw [h.hub], by rw [h.hub], by rw [h.hub], by rw [h.hub],
      by rw [h.hub], by rw [h.hub], by rw [h.bsei], by rw [h.stsei], hstake.1, hstake.2⟩, ?_⟩
    intro x hx'
    obtain ⟨t, d, a, he⟩ := hb x hx'
    subst he; rfl
  | hub s1 sender funds hm heq h1 _ _ hx' b t _ _ _ =>
    subst heq
    have r := hubExec_still s.hub s'.hub s1.hubEnv sender funds hm ms hc hx'
    exact ⟨⟨r.1.bBond, r.1.sBond, r.1.reqB, r.1.reqS, r.1.bRate, r.1.sRate, r.1.btok, r.1.stok,
      by rw [b], by rw [t], hstake.1, hstake.2⟩, r.2⟩
  | bsei s1 sender funds tm heq _ hx' h t _ _ _ =>
    subst heq
    have r := bseiExec_still _ _ _ _ _ _ _ _ funds bseiA hc hx'
    exact ⟨⟨by rw [h], by rw [h], by rw [h], by rw [h], by rw [h], by rw [h], by rw [h], by rw [h],
      r.1, by rw [t], hstake.1, hstake.2⟩, r.2⟩
  | stsei blk sender funds tm heq hx' h b _ _ _ =>
    subst heq
    have r := stseiExec_still _ _ _ _ _ _ _ funds stseiA hc hx'
    exact ⟨⟨by rw [h], by rw [h], by rw [h], by rw [h], by rw [h], by rw [h], by rw [h], by rw [h],
      by rw [b], r.1, hstake.1, hstake.2⟩, r.2⟩
  | reward s1 sender funds rm heq _ _ _ hx' h b t _ _ =>
    exact ⟨⟨by rw [h], by rw [h], by rw [h], by rw [h], by rw [h], by rw [h], by rw [h], by rw [h],
      by rw [b], by rw [t], hstake.1, hstake.2⟩, rewardExec_still _ _ _ _ _ _ _ _ _ hx'⟩
  | disp env sender funds dm heq _ _ hx' h b t _ _ =>
    subst heq
    exact ⟨⟨by rw [h], by rw [h], by rw [h], by rw [h], by rw [h], by rw [h], by rw [h], by rw [h],
      by rw [b], by rw [t], hstake.1, hstake.2⟩,
      dispExec_still _ _ _ _ _ _ _ (by intro e; subst e; simp [Still] at hc) hx'⟩
  | reg s1 sender funds rm heq _ _ _ hx' h b t _ _ =>
    subst heq
    exact ⟨⟨by rw [h], by rw [h], by rw [h], by rw [h], by rw [h], by rw [h], by rw [h], by rw [h],
      by rw [b], by rw [t], hstake.1, hstake.2⟩,
      regExec_still _ _ _ _ _ ⟨by intro v e; subst e; simp [Still] at hc, by intro v e; subst e; simp [Still] at hc⟩ hx'⟩

/-- a whole transaction started by a still message leaves the pools alone -/
theorem exec_still (s : Sys) (m : Msg) (hc : Still m = true) : SamePools s (s.exec m).1 := by
  unfold Sys.exec
  split
  · rename_i s' hrun
    have fin := run_inv2 (fun a q => SamePools s a ∧ AllStill q)
      (fun a b r a' sb hp hxx => by
        have st := handle_still a a' b sb (hp.2 b (List.mem_cons_self ..)) hxx
        exact ⟨hp.1.trans st.1, AllStill.append st.2 (fun x hx => hp.2 x (List.mem_cons_of_mem _ hx))⟩)
      400 s [m] s' ⟨SamePools.refl s, AllStill.cons hc AllStill.nil⟩ hrun
    exact fin.1
  · exact SamePools.refl s

end Krp
