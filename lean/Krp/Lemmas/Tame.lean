/-
  Tame.lean — which messages can start a minting pricing handler, and who emits them.

  `Trg m`: hub Bond / BondForStSei / Receive (the cw20 hook), token Send / SendFrom to the hub.
  No contract emits a Bond, a BondForStSei or a token Send; the hook is emitted only by a token
  handling a Send / SendFrom to the hub. So (`handle_noTrg`) handling any message that is not such a
  Send emits no trigger — within one transaction only its top-level message (and the hook that message
  produces) can reach a minting handler.  Generated from NoWd.lean by replacing the predicate; the two
  token lemmas carry the exclusion.
-/
import Krp.System
import Krp.Lemmas.Tactics
import Krp.Lemmas.HubSpec
import Krp.Lemmas.Wait
import Krp.Lemmas.Emit
import Krp.Lemmas.Reach
namespace Krp

/-- messages that lead to a pricing handler which mints tokens (Bond, BondForStSei, the cw20 hook
    and the token Sends to the hub that produce it), and token mints themselves -/
def Trg : Msg → Bool
  | .wasm _ _ (.hub .bond) _ => true
  | .wasm _ _ (.hub .bondForStSei) _ => true
  | .wasm _ _ (.hub (.receive _ _ _)) _ => true
  | .wasm _ _ (.tok (.send c _ _)) _ => c == hubA
  | .wasm _ _ (.tok (.sendFrom _ c _ _)) _ => c == hubA
  | _ => false

def NoTrg (ms : List Msg) : Prop := ∀ m ∈ ms, Trg m = false

theorem NoTrg.nil : NoTrg [] := fun _ h => by cases h
theorem NoTrg.cons {m : Msg} {ms : List Msg} (h1 : Trg m = false) (h2 : NoTrg ms) :
    NoTrg (m :: ms) := by
  intro x hx
  rcases List.mem_cons.mp hx with rfl | h
  · exact h1
  · exact h2 x h
theorem NoTrg.append {x y : List Msg} (h1 : NoTrg x) (h2 : NoTrg y) : NoTrg (x ++ y) := by
  intro m hm
  rcases List.mem_append.mp hm with h | h
  · exact h1 m h
  · exact h2 m h

namespace HubSt

theorem zipMsgs_noTrg (mk : Addr → Nat → Msg) (hmk : ∀ v p, Trg (mk v p) = false) :
    ∀ (vs : List (Addr × Nat)) (ps : List Nat), NoTrg (zipMsgs mk vs ps) := by
  intro vs
  induction vs with
  | nil => intro ps; simp only [zipMsgs]; exact NoTrg.nil
  | cons v vs ih =>
    intro ps
    cases ps with
    | nil => simp only [zipMsgs]; exact NoTrg.nil
    | cons p ps =>
      obtain ⟨v1, v2⟩ := v
      simp only [zipMsgs]
      apply NoTrg.append
      · split
        · exact NoTrg.nil
        · exact NoTrg.cons (hmk v1 p) (NoTrg.nil)
      · exact ih ps

theorem pickValidator_noTrg (e : HubEnv) (claim : Nat) (ms : List Msg)
    (hx : pickValidator e claim = .ok ms) : NoTrg ms := by
  unfold pickValidator at hx
  simp only [] at hx
  split at hx
  · cases hx
  · injection hx with hx; subst hx
    exact zipMsgs_noTrg (fun v p => Msg.undelegate e.self v p) (fun _ _ => rfl) _ _

theorem delegMsgs_noTrg (h : HubSt) (e : HubEnv) (p : Nat) (ms : List Msg)
    (hx : h.delegMsgs e p = .ok ms) : NoTrg ms := by
  unfold delegMsgs at hx
  exc_split at hx
  exact zipMsgs_noTrg (fun v a => Msg.delegate e.self v a) (fun _ _ => rfl) _ _

theorem processUndelegations_noTrg (h h' : HubSt) (e : HubEnv) (ms : List Msg)
    (hx : h.processUndelegations e = .ok (h', ms)) : NoTrg ms :=
  pickValidator_noTrg e _ ms (processUndelegations_spec h h' e ms hx).1

end HubSt

open HubSt in
theorem hubExec_noTrg (h h' : HubSt) (e : HubEnv) (sender : Addr) (funds : List (Denom × Nat))
    (m : HubMsg) (ms : List Msg) (hx : hubExec h e sender funds m = .ok (h', ms)) : NoTrg ms := by
  cases m with
  | migrateWaitList limit =>
    simp only [hubExec] at hx; exc_norm at hx; exc_split at hx; exact NoTrg.nil
  | updateParams a b c d p r =>
    simp only [hubExec] at hx; exc_norm at hx; exc_split at hx; exact NoTrg.nil
  | receive user amt hook =>
    simp only [hubExec] at hx
    split at hx
    · cases hx
    · exc_norm at hx
      split at hx
      · cases hx
      · split at hx
        · cases hx
        · cases hook with
          | other => simp only [] at hx; cases hx
          | convert =>
            simp only [] at hx
            split at hx
            · obtain ⟨_, _, _, _, _, _, _, _, _, _, _, _, _, _, _, _, hm⟩ := convertBS_spec _ _ _ _ _ _ hx
              subst hm; exact NoTrg.cons rfl (NoTrg.cons rfl (NoTrg.nil))
            · split at hx
              · obtain ⟨_, _, _, _, _, _, _, _, _, _, _, _, _, _, _, _, hm⟩ := convertSB_spec _ _ _ _ _ _ hx
                subst hm; exact NoTrg.cons rfl (NoTrg.cons rfl (NoTrg.nil))
              · cases hx
          | unbond =>
            simp only [] at hx
            split at hx
            · obtain ⟨st, supply, wf, tok, _, _, _, _, _, _, hcase⟩ := unbondB_spec _ _ _ _ _ _ hx
              rcases hcase with ⟨_, um, hp, hm⟩ | ⟨_, _, hm⟩
              · subst hm
                exact NoTrg.append (processUndelegations_noTrg _ _ _ _ hp) (NoTrg.cons rfl (NoTrg.nil))
              · subst hm; exact NoTrg.cons rfl (NoTrg.nil)
            · split at hx
              · obtain ⟨st, tok, _, _, _, hcase⟩ := unbondS_spec _ _ _ _ _ _ hx
                rcases hcase with ⟨_, um, hp, hm⟩ | ⟨_, _, hm⟩
                · subst hm
                  exact NoTrg.append (processUndelegations_noTrg _ _ _ _ hp) (NoTrg.cons rfl (NoTrg.nil))
                · subst hm; exact NoTrg.cons rfl (NoTrg.nil)
              · cases hx
  | bond =>
    simp only [hubExec] at hx; split at hx
    · cases hx
    · obtain ⟨p, st, mint, dl, tok, _, _, _, _, hd, _, _, hm⟩ := bondB_spec _ _ _ _ _ _ hx
      subst hm
      exact NoTrg.append (delegMsgs_noTrg _ _ _ _ hd) (NoTrg.cons rfl (NoTrg.nil))
  | bondForStSei =>
    simp only [hubExec] at hx; split at hx
    · cases hx
    · obtain ⟨p, st, dl, tok, _, _, _, hd, _, _, hm⟩ := bondS_spec _ _ _ _ _ _ hx
      subst hm
      exact NoTrg.append (delegMsgs_noTrg _ _ _ _ hd) (NoTrg.cons rfl (NoTrg.nil))
  | bondRewards =>
    simp only [hubExec] at hx; split at hx
    · cases hx
    · obtain ⟨p, st, _, _, _, hd, _⟩ := bondR_spec _ _ _ _ _ _ hx
      exact delegMsgs_noTrg _ _ _ _ hd
  | updateGlobalIndex =>
    simp only [hubExec] at hx; split at hx
    · cases hx
    · unfold updateGlobal at hx
      exc_norm at hx
      exc_split at hx
      all_goals
        intro x hx'
        simp only [List.mem_append, List.mem_map, List.mem_cons, List.mem_nil_iff, or_false] at hx'
        rcases hx' with ⟨d, _, rfl⟩ | rfl | rfl <;> rfl
  | withdrawUnbonded =>
    simp only [hubExec] at hx; split at hx
    · cases hx
    · obtain ⟨_, h1, _, _, _, _, hm⟩ := withdraw_spec _ _ _ _ _ hx
      subst hm; exact NoTrg.cons rfl (NoTrg.nil)
  | checkSlashing =>
    simp only [hubExec] at hx; exc_norm at hx; exc_split at hx; exact NoTrg.nil
  | updateConfig a b c d f g u =>
    simp only [hubExec] at hx; split at hx
    · cases hx
    · unfold updateConfig at hx
      exc_norm at hx
      exc_split at hx
      cases a with
      | none => exact NoTrg.nil
      | some d => exact NoTrg.cons rfl (NoTrg.nil)
  | setOwner a => simp only [hubExec] at hx; exc_norm at hx; exc_split at hx; exact NoTrg.nil
  | acceptOwnership => simp only [hubExec] at hx; exc_norm at hx; exc_split at hx; exact NoTrg.nil
  | swapHook =>
    simp only [hubExec] at hx; exc_norm at hx; exc_split at hx
    exact NoTrg.cons rfl (NoTrg.nil)
  | claimAirdrop =>
    simp only [hubExec] at hx; exc_norm at hx; exc_split at hx
    exact NoTrg.cons rfl (NoTrg.cons rfl (NoTrg.nil))
  | redelegateProxy src plan =>
    simp only [hubExec] at hx; exc_norm at hx; exc_split at hx
    intro x hx'
    simp only [List.mem_map] at hx'
    obtain ⟨p, _, rfl⟩ := hx'
    rfl

theorem receiveMsg_noTrgMsg (self cw c hubc : Addr) (amt : Nat) (hook : Hook) (hc : c ≠ hubc) :
    Trg (receiveMsg self cw c hubc amt hook) = false := by
  unfold receiveMsg; rw [if_neg hc]; rfl

/-- close a goal `NoTrg [m₁, …]` whose elements are literal messages -/
macro "no_trg_list" : tactic =>
  `(tactic| repeat' (first
      | exact NoTrg.nil
      | refine NoTrg.append ?_ ?_
      | refine NoTrg.cons (by rfl) ?_))

/-- a token Send / SendFrom whose destination is the hub -/
def sendsToHub (hubc : Addr) : TokMsg → Bool
  | .send c _ _ => c == hubc
  | .sendFrom _ c _ _ => c == hubc
  | _ => false

theorem bseiExec_noTrg (t t' : Token) (b : Block) (self : Addr) (rw : Res Addr) (hubc sender : Addr)
    (m : TokMsg) (ms : List Msg) (hm : sendsToHub hubc m = false)
    (hx : bseiExec t b self rw hubc sender m = .ok (t', ms)) :
    NoTrg ms := by
  cases m with
  | send c amt hook =>
    have hc : c ≠ hubc := by simpa [sendsToHub] using hm
    simp only [bseiExec] at hx; exc_norm at hx; exc_split at hx
    exact NoTrg.cons rfl (NoTrg.cons rfl (NoTrg.cons (receiveMsg_noTrgMsg _ _ _ _ _ _ hc) NoTrg.nil))
  | sendFrom o c amt hook =>
    have hc : c ≠ hubc := by simpa [sendsToHub] using hm
    simp only [bseiExec] at hx; exc_norm at hx; exc_split at hx
    exact NoTrg.cons rfl (NoTrg.cons rfl (NoTrg.cons (receiveMsg_noTrgMsg _ _ _ _ _ _ hc) NoTrg.nil))
  | _ => simp only [bseiExec] at hx <;> exc_norm at hx <;> (try cases hx) <;> exc_split at hx <;> (try no_trg_list)

theorem stseiExec_noTrg (t t' : Token) (b : Block) (self hubc sender : Addr)
    (m : TokMsg) (ms : List Msg) (hm : sendsToHub hubc m = false)
    (hx : stseiExec t b self hubc sender m = .ok (t', ms)) :
    NoTrg ms := by
  cases m with
  | send c amt hook =>
    have hc : c ≠ hubc := by simpa [sendsToHub] using hm
    simp only [stseiExec] at hx; exc_norm at hx; exc_split at hx
    exact NoTrg.cons (receiveMsg_noTrgMsg _ _ _ _ _ _ hc) NoTrg.nil
  | sendFrom o c amt hook =>
    have hc : c ≠ hubc := by simpa [sendsToHub] using hm
    simp only [stseiExec] at hx; exc_norm at hx; exc_split at hx
    exact NoTrg.cons (receiveMsg_noTrgMsg _ _ _ _ _ _ hc) NoTrg.nil
  | _ => simp only [stseiExec] at hx <;> exc_norm at hx <;> (try cases hx) <;> exc_split at hx <;> (try no_trg_list)

theorem rewardExec_noTrg (r r' : RewardSt) (self : Addr) (tok dsp : Res Addr) (bal : Denom → Nat)
    (sender : Addr) (m : RewMsg) (ms : List Msg)
    (hx : rewardExec r self tok dsp bal sender m = .ok (r', ms)) : NoTrg ms := by
  cases m with
  | swapToRewardDenom =>
    simp only [rewardExec] at hx; exc_norm at hx; exc_split at hx
    intro x hx'
    simp only [List.mem_filterMap] at hx'
    obtain ⟨dn, _, h2⟩ := hx'
    split at h2
    · injection h2 with h2; subst h2; rfl
    · cases h2
  | _ => simp only [rewardExec] at hx <;> exc_norm at hx <;> (try cases hx) <;> exc_split at hx <;> (try no_trg_list)

theorem coinMsgs_noTrg (c : DispSt) (self : Addr) (x : Nat) :
    (∀ ms, coinMsgsB c self x = .ok ms → NoTrg ms) ∧
    (∀ ms, coinMsgsSt c self x = .ok ms → NoTrg ms) := by
  constructor
  · intro ms hx; unfold coinMsgsB at hx; exc_split at hx <;> (try no_trg_list)
  · intro ms hx; unfold coinMsgsSt at hx; exc_split at hx <;> (try no_trg_list)

theorem dispatchMsgs_noTrg (c : DispSt) (self : Addr) (a b : Nat) (ms : List Msg)
    (hx : dispatchMsgs c self a b = .ok ms) : NoTrg ms := by
  unfold dispatchMsgs at hx
  split at hx
  · cases hx
  · rename_i m1 h1
    split at hx
    · cases hx
    · rename_i m2 h2
      injection hx with hx; subst hx
      exact NoTrg.append (NoTrg.append ((coinMsgs_noTrg c self b).1 m1 h1) ((coinMsgs_noTrg c self a).2 m2 h2))
        (NoTrg.cons rfl (NoTrg.nil))

theorem foldl_noTrg (f : Res (Nat × Nat × List Msg) → Denom → Res (Nat × Nat × List Msg))
    (hstep : ∀ acc dn v, f acc dn = .ok v → ∃ v0, acc = .ok v0 ∧ (NoTrg v0.2.2 → NoTrg v.2.2)) :
    ∀ (l : List Denom) (acc : Res (Nat × Nat × List Msg)) (v : Nat × Nat × List Msg),
      l.foldl f acc = .ok v → ∃ v0, acc = .ok v0 ∧ (NoTrg v0.2.2 → NoTrg v.2.2) := by
  intro l
  induction l with
  | nil => intro acc v hx; exact ⟨v, hx, id⟩
  | cons d ds ih =>
    intro acc v hx
    simp only [List.foldl_cons] at hx
    obtain ⟨v1, h1, k1⟩ := ih (f acc d) v hx
    obtain ⟨v0, h0, k0⟩ := hstep acc d v1 h1
    exact ⟨v0, h0, fun h => k1 (k0 h)⟩

theorem dispExec_noTrg (c c' : DispSt) (self : Addr) (env : DispEnv) (sender : Addr) (m : DispMsg)
    (ms : List Msg) (hx : dispExec c self env sender m = .ok (c', ms)) : NoTrg ms := by
  cases m with
  | swap a b =>
    simp only [dispExec] at hx
    exc_norm at hx
    split at hx
    · cases hx
    · split at hx
      · cases hx
      · rename_i v hv
        have hs : NoTrg v.2.2 := by
          obtain ⟨v0, h0, k⟩ := foldl_noTrg _ (by
            intro acc dn v' hf
            cases acc with
            | error e => simp only [] at hf; cases hf
            | ok v0 =>
              refine ⟨v0, rfl, fun h0 => ?_⟩
              simp only [] at hf
              repeat' (split at hf <;> try (first | cases hf | contradiction))
              all_goals (first | exact h0 | exact NoTrg.append h0 (NoTrg.cons rfl (NoTrg.nil)))) _ _ v hv
          injection h0 with h0; subst h0
          exact k (NoTrg.nil)
        repeat' (split at hx <;> try (first | cases hx | contradiction))
        all_goals (first | exact hs | exact NoTrg.append hs (NoTrg.cons rfl (NoTrg.nil)))
  | dispatch =>
    simp only [dispExec] at hx; exc_norm at hx
    split at hx
    · cases hx
    · split at hx
      · cases hx
      · rename_i ms' hd
        injection hx with hx; injection hx with _ h2; subst h2
        exact dispatchMsgs_noTrg _ _ _ _ _ hd
  | _ => simp only [dispExec] at hx <;> exc_norm at hx <;> (try cases hx) <;> exc_split at hx <;> (try no_trg_list)

theorem regExec_noTrg (s : Sys) (sender : Addr) (m : RegMsg) (r' : RegSt) (ms : List Msg)
    (hx : s.regExec sender m = .ok (r', ms)) : NoTrg ms := by
  cases m with
  | remove v =>
    simp only [Sys.regExec] at hx; exc_norm at hx; exc_split at hx
    rename_i hq; exc_split at hq <;> no_trg_list
  | redelegations v =>
    simp only [Sys.regExec] at hx; exc_norm at hx; exc_split at hx
    rename_i hq; exc_split at hq <;> no_trg_list
  | _ => simp only [Sys.regExec] at hx <;> exc_norm at hx <;> (try cases hx) <;> exc_split at hx <;> (try no_trg_list)

/-- handling a message that is not itself a trigger emits no trigger: the hook is produced only by a
    token Send / SendFrom to the hub, and nobody emits those, a Bond or a BondForStSei -/
theorem handle_noTrg (s s' : Sys) (m : Msg) (ms : List Msg) (hm : Trg m = false)
    (hx : s.handle m = .ok (s', ms)) : NoTrg ms := by
  cases handle_touch s s' m ms hx with
  | none _ _ _ hb =>
    intro x hx'
    obtain ⟨t, d, a, he⟩ := hb x hx'
    subst he; rfl
  | hub s1 sender funds hm _ _ _ _ hx' _ _ _ _ _ => exact hubExec_noTrg _ _ _ _ _ _ _ hx'
  | bsei s1 sender funds tm heq _ hx' _ _ _ _ _ =>
    subst heq
    refine bseiExec_noTrg _ _ _ _ _ _ _ _ _ ?_ hx'
    cases tm <;> first | rfl | (simpa [Trg, sendsToHub] using hm)
  | stsei blk sender funds tm heq hx' _ _ _ _ _ =>
    subst heq
    refine stseiExec_noTrg _ _ _ _ _ _ _ _ ?_ hx'
    cases tm <;> first | rfl | (simpa [Trg, sendsToHub] using hm)
  | reward s1 sender funds rm _ _ _ _ hx' _ _ _ _ _ => exact rewardExec_noTrg _ _ _ _ _ _ _ _ _ hx'
  | disp env sender funds dm _ _ _ hx' _ _ _ _ _ => exact dispExec_noTrg _ _ _ _ _ _ _ hx'
  | reg s1 sender funds rm _ _ _ _ hx' _ _ _ _ _ => exact regExec_noTrg _ _ _ _ _ hx'

end Krp
