/-
  NoWd.lean — no contract ever emits the hub's `WithdrawUnbonded` message: a release of matured
  batches can only be started by a top-level transaction.  Generated from NoSwap.lean (itself
  generated from Emit.lean's proofs) by replacing the predicate; same structure, contract by contract.
-/
import Krp.System
import Krp.Lemmas.Tactics
import Krp.Lemmas.HubSpec
import Krp.Lemmas.Wait
import Krp.Lemmas.Emit
import Krp.Lemmas.Reach
namespace Krp

/-- the hub's WithdrawUnbonded, from anyone to anyone -/
def isHubWd : Msg → Bool
  | .wasm _ _ (.hub .withdrawUnbonded) _ => true
  | _ => false

def NoWd (ms : List Msg) : Prop := ∀ m ∈ ms, isHubWd m = false

theorem NoWd.nil : NoWd [] := fun _ h => by cases h
theorem NoWd.cons {m : Msg} {ms : List Msg} (h1 : isHubWd m = false) (h2 : NoWd ms) :
    NoWd (m :: ms) := by
  intro x hx
  rcases List.mem_cons.mp hx with rfl | h
  · exact h1
  · exact h2 x h
theorem NoWd.append {x y : List Msg} (h1 : NoWd x) (h2 : NoWd y) : NoWd (x ++ y) := by
  intro m hm
  rcases List.mem_append.mp hm with h | h
  · exact h1 m h
  · exact h2 m h

namespace HubSt

theorem zipMsgs_noWd (mk : Addr → Nat → Msg) (hmk : ∀ v p, isHubWd (mk v p) = false) :
    ∀ (vs : List (Addr × Nat)) (ps : List Nat), NoWd (zipMsgs mk vs ps) := by
  intro vs
  induction vs with
  | nil => intro ps; simp only [zipMsgs]; exact NoWd.nil
  | cons v vs ih =>
    intro ps
    cases ps with
    | nil => simp only [zipMsgs]; exact NoWd.nil
    | cons p ps =>
      obtain ⟨v1, v2⟩ := v
      simp only [zipMsgs]
      apply NoWd.append
      · split
        · exact NoWd.nil
        · exact NoWd.cons (hmk v1 p) (NoWd.nil)
      · exact ih ps

theorem pickValidator_noWd (e : HubEnv) (claim : Nat) (ms : List Msg)
    (hx : pickValidator e claim = .ok ms) : NoWd ms := by
  unfold pickValidator at hx
  simp only [] at hx
  split at hx
  · cases hx
  · injection hx with hx; subst hx
    exact zipMsgs_noWd (fun v p => Msg.undelegate e.self v p) (fun _ _ => rfl) _ _

theorem delegMsgs_noWd (h : HubSt) (e : HubEnv) (p : Nat) (ms : List Msg)
    (hx : h.delegMsgs e p = .ok ms) : NoWd ms := by
  unfold delegMsgs at hx
  exc_split at hx
  exact zipMsgs_noWd (fun v a => Msg.delegate e.self v a) (fun _ _ => rfl) _ _

theorem processUndelegations_noWd (h h' : HubSt) (e : HubEnv) (ms : List Msg)
    (hx : h.processUndelegations e = .ok (h', ms)) : NoWd ms :=
  pickValidator_noWd e _ ms (processUndelegations_spec h h' e ms hx).1

end HubSt

open HubSt in
theorem hubExec_noWd (h h' : HubSt) (e : HubEnv) (sender : Addr) (funds : List (Denom × Nat))
    (m : HubMsg) (ms : List Msg) (hx : hubExec h e sender funds m = .ok (h', ms)) : NoWd ms := by
  cases m with
  | migrateWaitList limit =>
    simp only [hubExec] at hx; exc_norm at hx; exc_split at hx; exact NoWd.nil
  | updateParams a b c d p r =>
    simp only [hubExec] at hx; exc_norm at hx; exc_split at hx; exact NoWd.nil
  | receive user amt hook =>
    simp only [hubExec] at hx
    split at hx
    · cases hx
    · exc_norm at hx
      split at hx
      · cases hx
      · split at hx
        · cases hx
        · cases hook with
          | other => simp only [] at hx; cases hx
          | convert =>
            simp only [] at hx
            split at hx
            · obtain ⟨_, _, _, _, _, _, _, _, _, _, _, _, _, _, _, _, hm⟩ := convertBS_spec _ _ _ _ _ _ hx
              subst hm; exact NoWd.cons rfl (NoWd.cons rfl (NoWd.nil))
            · split at hx
              · obtain ⟨_, _, _, _, _, _, _, _, _, _, _, _, _, _, _, _, hm⟩ := convertSB_spec _ _ _ _ _ _ hx
                subst hm; exact NoWd.cons rfl (NoWd.cons rfl (NoWd.nil))
              · cases hx
          | unbond =>
            simp only [] at hx
            split at hx
            · obtain ⟨st, supply, wf, tok, _, _, _, _, _, _, hcase⟩ := unbondB_spec _ _ _ _ _ _ hx
              rcases hcase with ⟨_, um, hp, hm⟩ | ⟨_, _, hm⟩
              · subst hm
                exact NoWd.append (processUndelegations_noWd _ _ _ _ hp) (NoWd.cons rfl (NoWd.nil))
              · subst hm; exact NoWd.cons rfl (NoWd.nil)
            · split at hx
              · obtain ⟨st, tok, _, _, _, hcase⟩ := unbondS_spec _ _ _ _ _ _ hx
                rcases hcase with ⟨_, um, hp, hm⟩ | ⟨_, _, hm⟩
                · subst hm
                  exact NoWd.append (processUndelegations_noWd _ _ _ _ hp) (NoWd.cons rfl (NoWd.nil))
                · subst hm; exact NoWd.cons rfl (NoWd.nil)
              · cases hx
  | bond =>
    simp only [hubExec] at hx; split at hx
    · cases hx
    · obtain ⟨p, st, mint, dl, tok, _, _, _, _, hd, _, _, hm⟩ := bondB_spec _ _ _ _ _ _ hx
      subst hm
      exact NoWd.append (delegMsgs_noWd _ _ _ _ hd) (NoWd.cons rfl (NoWd.nil))
  | bondForStSei =>
    simp only [hubExec] at hx; split at hx
    · cases hx
    · obtain ⟨p, st, dl, tok, _, _, _, hd, _, _, hm⟩ := bondS_spec _ _ _ _ _ _ hx
      subst hm
      exact NoWd.append (delegMsgs_noWd _ _ _ _ hd) (NoWd.cons rfl (NoWd.nil))
  | bondRewards =>
    simp only [hubExec] at hx; split at hx
    · cases hx
    · obtain ⟨p, st, _, _, _, hd, _⟩ := bondR_spec _ _ _ _ _ _ hx
      exact delegMsgs_noWd _ _ _ _ hd
  | updateGlobalIndex =>
    simp only [hubExec] at hx; split at hx
    · cases hx
    · unfold updateGlobal at hx
      exc_norm at hx
      exc_split at hx
      all_goals
        intro x hx'
        simp only [List.mem_append, List.mem_map, List.mem_cons, List.mem_nil_iff, or_false] at hx'
        rcases hx' with ⟨d, _, rfl⟩ | rfl | rfl <;> rfl
  | withdrawUnbonded =>
    simp only [hubExec] at hx; split at hx
    · cases hx
    · obtain ⟨_, h1, _, _, _, _, hm⟩ := withdraw_spec _ _ _ _ _ hx
      subst hm; exact NoWd.cons rfl (NoWd.nil)
  | checkSlashing =>
    simp only [hubExec] at hx; exc_norm at hx; exc_split at hx; exact NoWd.nil
  | updateConfig a b c d f g u =>
    simp only [hubExec] at hx; split at hx
    · cases hx
    · unfold updateConfig at hx
      exc_norm at hx
      exc_split at hx
      cases a with
      | none => exact NoWd.nil
      | some d => exact NoWd.cons rfl (NoWd.nil)
  | setOwner a => simp only [hubExec] at hx; exc_norm at hx; exc_split at hx; exact NoWd.nil
  | acceptOwnership => simp only [hubExec] at hx; exc_norm at hx; exc_split at hx; exact NoWd.nil
  | swapHook =>
    simp only [hubExec] at hx; exc_norm at hx; exc_split at hx
    exact NoWd.cons rfl (NoWd.nil)
  | claimAirdrop =>
    simp only [hubExec] at hx; exc_norm at hx; exc_split at hx
    exact NoWd.cons rfl (NoWd.cons rfl (NoWd.nil))
  | redelegateProxy src plan =>
    simp only [hubExec] at hx; exc_norm at hx; exc_split at hx
    intro x hx'
    simp only [List.mem_map] at hx'
    obtain ⟨p, _, rfl⟩ := hx'
    rfl

theorem receiveMsg_noWdMsg (self cw c hubc : Addr) (amt : Nat) (hook : Hook) :
    isHubWd (receiveMsg self cw c hubc amt hook) = false := by
  unfold receiveMsg; split <;> rfl

/-- close a goal `NoWd [m₁, …]` whose elements are literal messages or `receiveMsg` -/
macro "no_wd_list" : tactic =>
  `(tactic| repeat' (first
      | exact NoWd.nil
      | refine NoWd.append ?_ ?_
      | refine NoWd.cons (by first | rfl | exact receiveMsg_noWdMsg ..) ?_))

theorem bseiExec_noWd (t t' : Token) (b : Block) (self : Addr) (rw : Res Addr) (hubc sender : Addr)
    (m : TokMsg) (ms : List Msg) (hx : bseiExec t b self rw hubc sender m = .ok (t', ms)) :
    NoWd ms := by
  cases m <;> simp only [bseiExec] at hx <;> exc_norm at hx <;> (try cases hx) <;> exc_split at hx <;> (try no_wd_list)

theorem stseiExec_noWd (t t' : Token) (b : Block) (self hubc sender : Addr)
    (m : TokMsg) (ms : List Msg) (hx : stseiExec t b self hubc sender m = .ok (t', ms)) :
    NoWd ms := by
  cases m <;> simp only [stseiExec] at hx <;> exc_norm at hx <;> (try cases hx) <;> exc_split at hx <;> (try no_wd_list)

theorem rewardExec_noWd (r r' : RewardSt) (self : Addr) (tok dsp : Res Addr) (bal : Denom → Nat)
    (sender : Addr) (m : RewMsg) (ms : List Msg)
    (hx : rewardExec r self tok dsp bal sender m = .ok (r', ms)) : NoWd ms := by
  cases m with
  | swapToRewardDenom =>
    simp only [rewardExec] at hx; exc_norm at hx; exc_split at hx
    intro x hx'
    simp only [List.mem_filterMap] at hx'
    obtain ⟨dn, _, h2⟩ := hx'
    split at h2
    · injection h2 with h2; subst h2; rfl
    · cases h2
  | _ => simp only [rewardExec] at hx <;> exc_norm at hx <;> (try cases hx) <;> exc_split at hx <;> (try no_wd_list)

theorem coinMsgs_noWd (c : DispSt) (self : Addr) (x : Nat) :
    (∀ ms, coinMsgsB c self x = .ok ms → NoWd ms) ∧
    (∀ ms, coinMsgsSt c self x = .ok ms → NoWd ms) := by
  constructor
  · intro ms hx; unfold coinMsgsB at hx; exc_split at hx <;> (try no_wd_list)
  · intro ms hx; unfold coinMsgsSt at hx; exc_split at hx <;> (try no_wd_list)

theorem dispatchMsgs_noWd (c : DispSt) (self : Addr) (a b : Nat) (ms : List Msg)
    (hx : dispatchMsgs c self a b = .ok ms) : NoWd ms := by
  unfold dispatchMsgs at hx
  split at hx
  · cases hx
  · rename_i m1 h1
    split at hx
    · cases hx
    · rename_i m2 h2
      injection hx with hx; subst hx
      exact NoWd.append (NoWd.append ((coinMsgs_noWd c self b).1 m1 h1) ((coinMsgs_noWd c self a).2 m2 h2))
        (NoWd.cons rfl (NoWd.nil))

theorem foldl_noWd (f : Res (Nat × Nat × List Msg) → Denom → Res (Nat × Nat × List Msg))
    (hstep : ∀ acc dn v, f acc dn = .ok v → ∃ v0, acc = .ok v0 ∧ (NoWd v0.2.2 → NoWd v.2.2)) :
    ∀ (l : List Denom) (acc : Res (Nat × Nat × List Msg)) (v : Nat × Nat × List Msg),
      l.foldl f acc = .ok v → ∃ v0, acc = .ok v0 ∧ (NoWd v0.2.2 → NoWd v.2.2) := by
  intro l
  induction l with
  | nil => intro acc v hx; exact ⟨v, hx, id⟩
  | cons d ds ih =>
    intro acc v hx
    simp only [List.foldl_cons] at hx
    obtain ⟨v1, h1, k1⟩ := ih (f acc d) v hx
    obtain ⟨v0, h0, k0⟩ := hstep acc d v1 h1
    exact ⟨v0, h0, fun h => k1 (k0 h)⟩

theorem dispExec_noWd (c c' : DispSt) (self : Addr) (env : DispEnv) (sender : Addr) (m : DispMsg)
    (ms : List Msg) (hx : dispExec c self env sender m = .ok (c', ms)) : NoWd ms := by
  cases m with
  | swap a b =>
    simp only [dispExec] at hx
    exc_norm at hx
    split at hx
    · cases hx
    · split at hx
      · cases hx
      · rename_i v hv
        have hs : NoWd v.2.2 := by
          obtain ⟨v0, h0, k⟩ := foldl_noWd _ (by
            intro acc dn v' hf
            cases acc with
            | error e => simp only [] at hf; cases hf
            | ok v0 =>
              refine ⟨v0, rfl, fun h0 => ?_⟩
              simp only [] at hf
              repeat' (split at hf <;> try (first | cases hf | contradiction))
              all_goals (first | exact h0 | exact NoWd.append h0 (NoWd.cons rfl (NoWd.nil)))) _ _ v hv
          injection h0 with h0; subst h0
          exact k (NoWd.nil)
        repeat' (split at hx <;> try (first | cases hx | contradiction))
        all_goals (first | exact hs | exact NoWd.append hs (NoWd.cons rfl (NoWd.nil)))
  | dispatch =>
    simp only [dispExec] at hx; exc_norm at hx
    split at hx
    · cases hx
    · split at hx
      · cases hx
      · rename_i ms' hd
        injection hx with hx; injection hx with _ h2; subst h2
        exact dispatchMsgs_noWd _ _ _ _ _ hd
  | _ => simp only [dispExec] at hx <;> exc_norm at hx <;> (try cases hx) <;> exc_split at hx <;> (try no_wd_list)

theorem regExec_noWd (s : Sys) (sender : Addr) (m : RegMsg) (r' : RegSt) (ms : List Msg)
    (hx : s.regExec sender m = .ok (r', ms)) : NoWd ms := by
  cases m with
  | remove v =>
    simp only [Sys.regExec] at hx; exc_norm at hx; exc_split at hx
    rename_i hq; exc_split at hq <;> no_wd_list
  | redelegations v =>
    simp only [Sys.regExec] at hx; exc_norm at hx; exc_split at hx
    rename_i hq; exc_split at hq <;> no_wd_list
  | _ => simp only [Sys.regExec] at hx <;> exc_norm at hx <;> (try cases hx) <;> exc_split at hx <;> (try no_wd_list)

/-- whatever message is handled, nothing it emits is a SwapToRewardDenom -/
theorem handle_noWd (s s' : Sys) (m : Msg) (ms : List Msg) (hx : s.handle m = .ok (s', ms)) : NoWd ms := by
  cases handle_touch s s' m ms hx with
  | none _ _ _ hb =>
    intro x hx'
    obtain ⟨t, d, a, he⟩ := hb x hx'
    subst he; rfl
  | hub s1 sender funds hm _ _ _ _ hx' _ _ _ _ _ => exact hubExec_noWd _ _ _ _ _ _ _ hx'
  | bsei s1 sender funds tm _ _ hx' _ _ _ _ _ => exact bseiExec_noWd _ _ _ _ _ _ _ _ _ hx'
  | stsei blk sender funds tm _ hx' _ _ _ _ _ => exact stseiExec_noWd _ _ _ _ _ _ _ _ hx'
  | reward s1 sender funds rm _ _ _ _ hx' _ _ _ _ _ => exact rewardExec_noWd _ _ _ _ _ _ _ _ _ hx'
  | disp env sender funds dm _ _ _ hx' _ _ _ _ _ => exact dispExec_noWd _ _ _ _ _ _ _ hx'
  | reg s1 sender funds rm _ _ _ _ hx' _ _ _ _ _ => exact regExec_noWd _ _ _ _ _ hx'

end Krp
