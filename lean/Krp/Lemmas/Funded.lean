/-
  Funded.lean — the hub's released, unpaid claims ("owed") against `prev_hub_balance` (C01).

  `owed h` = Σ over all wait-list entries of released batches of the entry's value at the batch's
  final withdraw rates — what the hub still has to pay out for batches it has released.  The
  lemmas here show how a release, a payout, an unbond request and an undelegation move it.
-/
import Krp.Lemmas.Release
import Krp.Lemmas.Wait
namespace Krp

theorem sumOn_filter_split {α : Type} (ks : List α) (p : α → Bool) (f : α → Nat) :
    sumOn ks f = sumOn (ks.filter p) f + sumOn (ks.filter (fun k => !p k)) f := by
  induction ks with
  | nil => rfl
  | cons k ks ih =>
    simp only [sumOn_cons, List.filter_cons]
    cases hp : p k <;> simp only [Bool.not_true, Bool.not_false, Bool.false_eq_true, if_false, if_true, sumOn_cons] <;> omega

theorem sumOn_add {α : Type} (ks : List α) (f g : α → Nat) :
    sumOn ks (fun k => f k + g k) = sumOn ks f + sumOn ks g := by
  induction ks with
  | nil => rfl
  | cons k ks ih => simp only [sumOn_cons, ih]; omega

theorem sumOn_zero {α : Type} (ks : List α) (f : α → Nat) (h : ∀ k ∈ ks, f k = 0) : sumOn ks f = 0 := by
  induction ks with
  | nil => rfl
  | cons k ks ih =>
    simp only [sumOn_cons]
    rw [h k (by simp), ih (fun x hx => h x (by simp [hx]))]

theorem mulDec_zero_left (r : Nat) : mulDec 0 r = 0 := by
  unfold mulDec; rw [Nat.zero_mul, Nat.zero_div]

theorem mulDec_mono_left (a b r : Nat) (h : a ≤ b) : mulDec a r ≤ mulDec b r := by
  unfold mulDec; exact Nat.div_le_div_right (Nat.mul_le_mul_right r h)

theorem mulDec_le_of_rate_le_one (a r : Nat) (hr : r ≤ D) : mulDec a r ≤ a := by
  unfold mulDec
  apply Nat.div_le_of_le_mul
  rw [Nat.mul_comm D a]
  exact Nat.mul_le_mul_left a hr

/-- Σ ⌊x_k·r⌋ ≤ ⌊(Σ x_k)·r⌋ over a key list -/
theorem sumOn_mulDec_le {α : Type} (ks : List α) (f : α → Nat) (r : Nat) :
    sumOn ks (fun k => mulDec (f k) r) ≤ mulDec (sumOn ks f) r := by
  induction ks with
  | nil => simp [mulDec]
  | cons k ks ih =>
    simp only [sumOn_cons]
    have : mulDec (f k) r + mulDec (sumOn ks f) r ≤ mulDec (f k + sumOn ks f) r := by
      unfold mulDec
      rw [Nat.add_mul]
      apply (Nat.le_div_iff_mul_le D_pos).mpr
      have h1 : f k * r / D * D ≤ f k * r := Nat.div_mul_le_self _ _
      have h2 : sumOn ks f * r / D * D ≤ sumOn ks f * r := Nat.div_mul_le_self _ _
      rw [Nat.add_mul]; omega
    omega

theorem sum_map_add (ids : List Nat) (a b : Nat → Nat) :
    (ids.map (fun i => a i + b i)).sum = (ids.map a).sum + (ids.map b).sum := by
  induction ids with
  | nil => rfl
  | cons i ids ih => simp only [List.map_cons, List.sum_cons, ih]; omega

namespace HubSt

/-- value of the wait entry `k = (user, batch)` if its batch is released under history `hs` -/
def relValWith (hs : Nat → Option History) (h : HubSt) (k : Addr × Nat) : Nat :=
  match hs k.2 with
  | some x => if x.released then entryValue x (h.waitB k.1 k.2) (h.waitS k.1 k.2) else 0
  | none => 0

def owedWith (hs : Nat → Option History) (h : HubSt) : Nat := sumOn h.waitKeys (relValWith hs h)

/-- what the hub still has to pay for released batches: Σ over all users' entries of released batches -/
def owed (h : HubSt) : Nat := owedWith h.hist h

/-- released, unpaid claims are covered by the balance the hub recorded at its last payout -/
def Funded (h : HubSt) : Prop := h.owed ≤ h.prevHubBalance

theorem entryValue_zero (x : History) : entryValue x 0 0 = 0 := by
  unfold entryValue; rw [mulDec_zero_left, mulDec_zero_left]

theorem owed_congr (h h' : HubSt) (k : h'.waitKeys = h.waitKeys) (b : h'.waitB = h.waitB)
    (s : h'.waitS = h.waitS) (hh : h'.hist = h.hist) : h'.owed = h.owed := by
  unfold owed owedWith relValWith; rw [k, b, s, hh]

/-- releasing batch `i` (unreleased so far) at the rates in `x'` adds exactly the value of its entries -/
theorem owedWith_upd (hs : Nat → Option History) (h : HubSt) (i : Nat) (x' : History)
    (hrel : x'.released = true) (hold : ∀ x, hs i = some x → x.released = false) :
    owedWith (upd hs i (some x')) h =
      owedWith hs h + sumOn (h.keysOf i) (fun k => entryValue x' (h.waitB k.1 k.2) (h.waitS k.1 k.2)) := by
  unfold owedWith keysOf
  rw [sumOn_filter_split h.waitKeys (fun k => decide (k.2 = i)) (relValWith (upd hs i (some x')) h),
      sumOn_filter_split h.waitKeys (fun k => decide (k.2 = i)) (relValWith hs h)]
  have e1 : sumOn (h.waitKeys.filter (fun k => decide (k.2 = i))) (relValWith (upd hs i (some x')) h) =
      sumOn (h.waitKeys.filter (fun k => decide (k.2 = i)))
        (fun k => entryValue x' (h.waitB k.1 k.2) (h.waitS k.1 k.2)) := by
    apply sumOn_congr
    intro k hk
    have hk2 : k.2 = i := by simpa using (List.mem_filter.mp hk).2
    unfold relValWith
    rw [hk2, upd_same]
    simp only [hrel, if_true]
  have e2 : sumOn (h.waitKeys.filter (fun k => decide (k.2 = i))) (relValWith hs h) = 0 := by
    apply sumOn_zero
    intro k hk
    have hk2 : k.2 = i := by simpa using (List.mem_filter.mp hk).2
    unfold relValWith
    rw [hk2]
    cases hx : hs i with
    | none => rfl
    | some x => simp only [hold x hx, Bool.false_eq_true, if_false]
  have e3 : sumOn (h.waitKeys.filter (fun k => !decide (k.2 = i))) (relValWith (upd hs i (some x')) h) =
      sumOn (h.waitKeys.filter (fun k => !decide (k.2 = i))) (relValWith hs h) := by
    apply sumOn_congr
    intro k hk
    have hk2 : k.2 ≠ i := by simpa using (List.mem_filter.mp hk).2
    unfold relValWith
    rw [upd_other _ _ _ _ hk2]
  rw [e1, e2, e3]; omega

/-- the entries of one batch, valued at its rates, are worth at most the batch's claim sums at those rates -/
theorem batch_entries_le (h : HubSt) (i : Nat) (x' : History) :
    sumOn (h.keysOf i) (fun k => entryValue x' (h.waitB k.1 k.2) (h.waitS k.1 k.2)) ≤
      mulDec (h.claimsS i) x'.sWithdraw + mulDec (h.claimsB i) x'.bWithdraw := by
  unfold entryValue
  rw [sumOn_add]
  have a := sumOn_mulDec_le (h.keysOf i) (fun k => h.waitS k.1 k.2) x'.sWithdraw
  have b := sumOn_mulDec_le (h.keysOf i) (fun k => h.waitB k.1 k.2) x'.bWithdraw
  unfold claimsS claimsB
  omega

/-- releasing a group of batches raises `owed` by at most the group's allocation -/
theorem owedWith_fold_le (h : HubSt) (g : Nat → History) (hg : ∀ i, (g i).released = true) :
    ∀ (ids : List Nat) (hs : Nat → Option History), ids.Nodup →
      (∀ i ∈ ids, ∀ x, hs i = some x → x.released = false) →
      (∀ i ∈ ids, h.claimsB i ≤ (g i).bAmt ∧ h.claimsS i ≤ (g i).sAmt) →
      owedWith (ids.foldl (fun acc i => upd acc i (some (g i))) hs) h ≤
        owedWith hs h + (ids.map (fun i => mulDec (g i).sAmt (g i).sWithdraw + mulDec (g i).bAmt (g i).bWithdraw)).sum := by
  intro ids
  induction ids with
  | nil => intro hs _ _ _; simp
  | cons i ids ih =>
    intro hs hnd hun hcl
    have hnd' := List.nodup_cons.mp hnd
    simp only [List.foldl_cons, List.map_cons, List.sum_cons]
    have step := owedWith_upd hs h i (g i) (hg i) (hun i (by simp))
    have r := ih (upd hs i (some (g i))) hnd'.2
      (fun j hj x hx => by
        have hji : j ≠ i := fun e => hnd'.1 (e ▸ hj)
        rw [upd_other _ _ _ _ hji] at hx
        exact hun j (by simp [hj]) x hx)
      (fun j hj => hcl j (by simp [hj]))
    have be := batch_entries_le h i (g i)
    have c := hcl i (by simp)
    have m1 := mulDec_mono_left _ _ (g i).sWithdraw c.2
    have m2 := mulDec_mono_left _ _ (g i).bWithdraw c.1
    omega

theorem releasable_ge (h : HubSt) (cutoff fuel start j : Nat) (hj : j ∈ h.releasable cutoff fuel start) :
    start ≤ j := by
  induction fuel generalizing start with
  | zero => simp [releasable] at hj
  | succ f ih =>
    unfold releasable at hj
    split at hj
    · simp at hj
    · split at hj
      · simp at hj
      · split at hj
        · simp at hj
        · simp only [List.mem_cons] at hj
          rcases hj with hj | hj
          · omega
          · have := ih _ hj; omega

theorem releasable_nodup (h : HubSt) (cutoff fuel start : Nat) : (h.releasable cutoff fuel start).Nodup := by
  induction fuel generalizing start with
  | zero => simp [releasable]
  | succ f ih =>
    unfold releasable
    split
    · simp
    · split
      · simp
      · split
        · simp
        · apply List.nodup_cons.mpr
          refine ⟨fun hm => ?_, ih _⟩
          have := releasable_ge h cutoff f (start + 1) start hm
          omega

/-- the batches one release processes -/
def relIds (h : HubSt) (cutoff : Nat) : List Nat := h.releasable cutoff (h.batchId + 1) (h.lastProcessedBatch + 1)

def pairsB (h : HubSt) (ids : List Nat) : List (Nat × Nat) :=
  ids.map (fun i => ((h.histOr i).bAmt, (h.histOr i).bWithdraw))
def pairsS (h : HubSt) (ids : List Nat) : List (Nat × Nat) :=
  ids.map (fun i => ((h.histOr i).sAmt, (h.histOr i).sWithdraw))

/-- the side condition under which a release never allocates more than arrived: for each token
    side of the group, either the side lost nothing, or `batches · loss ≤ 10^18` (D5 lies outside) -/
def GroupSafe (h : HubSt) (cutoff bal : Nat) : Prop :=
  SideSafe (h.relIds cutoff).length (sideTotal (h.pairsB (h.relIds cutoff)))
    (mulDec (bal - h.prevHubBalance)
      (if sideTotal (h.pairsS (h.relIds cutoff)) + sideTotal (h.pairsB (h.relIds cutoff)) > 0
       then D - fromRatio (sideTotal (h.pairsS (h.relIds cutoff)))
                  (sideTotal (h.pairsS (h.relIds cutoff)) + sideTotal (h.pairsB (h.relIds cutoff)))
       else 0)) ∧
  SideSafe (h.relIds cutoff).length (sideTotal (h.pairsS (h.relIds cutoff)))
    (bal - h.prevHubBalance - mulDec (bal - h.prevHubBalance)
      (if sideTotal (h.pairsS (h.relIds cutoff)) + sideTotal (h.pairsB (h.relIds cutoff)) > 0
       then D - fromRatio (sideTotal (h.pairsS (h.relIds cutoff)))
                  (sideTotal (h.pairsS (h.relIds cutoff)) + sideTotal (h.pairsB (h.relIds cutoff)))
       else 0))

theorem sideTotal_pairsB (h : HubSt) (ids : List Nat) :
    sideTotal (h.pairsB ids) = (ids.map (fun i => mulDec (h.histOr i).bAmt (h.histOr i).bWithdraw)).sum := by
  unfold sideTotal pairsB; rw [List.map_map]; rfl

theorem sideTotal_pairsS (h : HubSt) (ids : List Nat) :
    sideTotal (h.pairsS ids) = (ids.map (fun i => mulDec (h.histOr i).sAmt (h.histOr i).sWithdraw)).sum := by
  unfold sideTotal pairsS; rw [List.map_map]; rfl

theorem sideAlloc_pairsB (h : HubSt) (ids : List Nat) (T : Nat) (sl : Nat × Bool) :
    sideAlloc (h.pairsB ids) T sl =
      (ids.map (fun i => mulDec (h.histOr i).bAmt (newWithdrawRate (h.histOr i).bAmt (h.histOr i).bWithdraw T sl))).sum := by
  unfold sideAlloc pairsB; rw [List.map_map]; rfl

theorem sideAlloc_pairsS (h : HubSt) (ids : List Nat) (T : Nat) (sl : Nat × Bool) :
    sideAlloc (h.pairsS ids) T sl =
      (ids.map (fun i => mulDec (h.histOr i).sAmt (newWithdrawRate (h.histOr i).sAmt (h.histOr i).sWithdraw T sl))).sum := by
  unfold sideAlloc pairsS; rw [List.map_map]; rfl

/-- **A release raises what the hub owes by at most what arrived.** `cb`: no batch has more
    recorded claims than its history entry (C07). -/
theorem release_owed_le (h h1 : HubSt) (cutoff bal : Nat)
    (hx : h.processWithdrawRate cutoff bal = .ok h1)
    (cb : ∀ i x, h.hist i = some x → h.claimsB i ≤ x.bAmt ∧ h.claimsS i ≤ x.sAmt)
    (hs : h.GroupSafe cutoff bal) :
    h1.owed ≤ h.owed + (bal - h.prevHubBalance) := by
  unfold processWithdrawRate at hx
  simp only [] at hx
  split at hx
  · injection hx with hx; subst hx; omega
  · rename_i hne
    split at hx
    · cases hx
    · rename_i hch
      injection hx with hx; subst hx
      -- name the pieces
      obtain ⟨hsB, hsS⟩ := hs
      rw [sideTotal_pairsB, sideTotal_pairsS] at hsB hsS
      unfold relIds at hsB hsS
      generalize hids : h.releasable cutoff (h.batchId + 1) (h.lastProcessedBatch + 1) = ids at *
      generalize hsT : (ids.map (fun i => mulDec (h.histOr i).sAmt (h.histOr i).sWithdraw)).sum = sT at *
      generalize hbT : (ids.map (fun i => mulDec (h.histOr i).bAmt (h.histOr i).bWithdraw)).sum = bT at *
      generalize hact : (signedSub bal h.prevHubBalance).1 = act at *
      have hact' : bal - h.prevHubBalance = act := by
        rw [← hact]
        unfold signedSub at hch ⊢
        split
        · rename_i hlt; rw [if_pos hlt] at hch; exact absurd rfl hch
        · rfl
      rw [hact'] at hsB hsS ⊢
      generalize hbR : (if sT + bT > 0 then D - fromRatio sT (sT + bT) else 0) = bR at *
      have hbRle : bR ≤ D := by rw [← hbR]; split <;> omega
      have hbA : mulDec act bR ≤ act := mulDec_le_of_rate_le_one act bR hbRle
      -- the new history entries
      let g : Nat → History := fun i =>
        { h.histOr i with
          sWithdraw := newWithdrawRate (h.histOr i).sAmt (h.histOr i).sWithdraw sT (signedSub sT (act - mulDec act bR)),
          bWithdraw := newWithdrawRate (h.histOr i).bAmt (h.histOr i).bWithdraw bT (signedSub bT (mulDec act bR)),
          released := true }
      have hnd : ids.Nodup := by rw [← hids]; exact releasable_nodup _ _ _ _
      have hun : ∀ i ∈ ids, ∀ x, h.hist i = some x → x.released = false := by
        intro i hi x hxi
        rw [← hids] at hi
        obtain ⟨y, hy, hr, _⟩ := releasable_mem h cutoff _ _ i hi
        rw [hy] at hxi; injection hxi with hxi; subst hxi; exact hr
      have hcl : ∀ i ∈ ids, h.claimsB i ≤ (g i).bAmt ∧ h.claimsS i ≤ (g i).sAmt := by
        intro i hi
        rw [← hids] at hi
        obtain ⟨y, hy, _, _⟩ := releasable_mem h cutoff _ _ i hi
        have e : h.histOr i = y := by simp [histOr, hy]
        show h.claimsB i ≤ (h.histOr i).bAmt ∧ h.claimsS i ≤ (h.histOr i).sAmt
        rw [e]; exact cb i y hy
      have fold := owedWith_fold_le h g (fun _ => rfl) ids h.hist hnd hun hcl
      have eS := sideAlloc_pairsS h ids sT (signedSub sT (act - mulDec act bR))
      have eB := sideAlloc_pairsB h ids bT (signedSub bT (mulDec act bR))
      have aB := side_alloc_le (h.pairsB ids) (mulDec act bR)
        (by rw [sideTotal_pairsB, hbT]; simpa [pairsB] using hsB)
      have aS := side_alloc_le (h.pairsS ids) (act - mulDec act bR)
        (by rw [sideTotal_pairsS, hsT]; simpa [pairsS] using hsS)
      rw [sideTotal_pairsB, hbT, eB] at aB
      rw [sideTotal_pairsS, hsT, eS] at aS
      have split := sum_map_add ids
        (fun i => mulDec (g i).sAmt (g i).sWithdraw) (fun i => mulDec (g i).bAmt (g i).bWithdraw)
      show owedWith _ h ≤ _
      have : owed h = owedWith h.hist h := rfl
      rw [this]
      refine Nat.le_trans fold ?_
      rw [split]
      show owedWith h.hist h + ((ids.map (fun i => mulDec (h.histOr i).sAmt
          (newWithdrawRate (h.histOr i).sAmt (h.histOr i).sWithdraw sT (signedSub sT (act - mulDec act bR))))).sum +
        (ids.map (fun i => mulDec (h.histOr i).bAmt
          (newWithdrawRate (h.histOr i).bAmt (h.histOr i).bWithdraw bT (signedSub bT (mulDec act bR))))).sum) ≤ _
      omega

/-- deleting one entry lowers `owed` by that entry's released value -/
theorem owed_delWait (h : HubSt) (wf : h.WaitWF) (u : Addr) (b : Nat) :
    (h.delWait u b).owed + relValWith h.hist h (u, b) = h.owed := by
  unfold owed owedWith
  have hkeys : (h.delWait u b).waitKeys = h.waitKeys := rfl
  have hhist : (h.delWait u b).hist = h.hist := rfl
  rw [hkeys, hhist]
  have hother : ∀ k, k ≠ (u, b) → relValWith h.hist (h.delWait u b) k = relValWith h.hist h k := by
    intro k hk
    have o := (delWait_claims h wf u b).2.2.2 k.1 k.2 (by
      intro e; apply hk; cases k; simp at e ⊢; exact e)
    unfold relValWith; rw [o.1, o.2]
  have hz : relValWith h.hist (h.delWait u b) (u, b) = 0 := by
    unfold relValWith
    simp only [delWait, upd_same]
    split
    · split
      · exact entryValue_zero _
      · rfl
    · rfl
  by_cases hm : (u, b) ∈ h.waitKeys
  · have := sumOn_except_in h.waitKeys (relValWith h.hist h) (relValWith h.hist (h.delWait u b)) (u, b) hother wf.nodup hm
    omega
  · have := sumOn_except_notin h.waitKeys (relValWith h.hist h) (relValWith h.hist (h.delWait u b)) (u, b) hother hm
    have z : relValWith h.hist h (u, b) = 0 := by
      unfold relValWith
      simp only [wf.zeroB u b hm, wf.zeroS u b hm]
      split
      · split
        · exact entryValue_zero _
        · rfl
      · rfl
    omega

/-- a payout: deleting the caller's entries of released batches lowers `owed` by exactly their value -/
theorem owed_delWait_fold (u : Addr) : ∀ (ids : List Nat) (h : HubSt), h.WaitWF → ids.Nodup →
    (∀ i ∈ ids, ∃ x, h.hist i = some x ∧ x.released = true) →
    (ids.foldl (fun hh i => hh.delWait u i) h).owed +
      (ids.map (fun i => entryValue (h.histOr i) (h.waitB u i) (h.waitS u i))).sum = h.owed := by
  intro ids
  induction ids with
  | nil => intro h _ _ _; simp
  | cons b bs ih =>
    intro h wf hnd hrel
    have hnd' := List.nodup_cons.mp hnd
    simp only [List.foldl_cons, List.map_cons, List.sum_cons]
    have d := delWait_claims h wf u b
    have one := owed_delWait h wf u b
    obtain ⟨x, hxb, hxr⟩ := hrel b (by simp)
    have ev : relValWith h.hist h (u, b) = entryValue (h.histOr b) (h.waitB u b) (h.waitS u b) := by
      unfold relValWith histOr
      simp only [hxb, hxr, if_true, Option.getD]
    have r := ih (h.delWait u b) d.1 hnd'.2 (fun i hi => hrel i (by simp [hi]))
    have same : (bs.map (fun i => entryValue ((h.delWait u b).histOr i) ((h.delWait u b).waitB u i) ((h.delWait u b).waitS u i))) =
        (bs.map (fun i => entryValue (h.histOr i) (h.waitB u i) (h.waitS u i))) := by
      apply List.map_congr_left
      intro i hi
      have hib : i ≠ b := fun e => hnd'.1 (e ▸ hi)
      have o := d.2.2.2 u i (by intro e; apply hib; simpa using e)
      rw [o.1, o.2]; rfl
    rw [same] at r
    omega


/-! ### lower bounds: absent slashing and unsolicited transfers only dust is lost -/

theorem mulDec_add_le (a b r : Nat) : mulDec (a + b) r ≤ mulDec a r + mulDec b r + 1 := by
  unfold mulDec
  have hD : 0 < D := D_pos
  have h1 := lt_div_add_one_mul (a * r) D hD
  have h2 := lt_div_add_one_mul (b * r) D hD
  have : (a + b) * r / D < a * r / D + b * r / D + 2 := by
    apply (Nat.div_lt_iff_lt_mul hD).mpr
    have e1 : (a + b) * r = a * r + b * r := Nat.add_mul a b r
    have e2 : (a * r / D + b * r / D + 2) * D = (a * r / D + 1) * D + (b * r / D + 1) * D := by ring
    omega
  omega

/-- ⌊(Σ x_k)·r⌋ ≤ Σ ⌊x_k·r⌋ + one unit per entry -/
theorem sumOn_mulDec_ge {α : Type} (ks : List α) (f : α → Nat) (r : Nat) :
    mulDec (sumOn ks f) r ≤ sumOn ks (fun k => mulDec (f k) r) + ks.length := by
  induction ks with
  | nil => simp [mulDec_zero_left]
  | cons k ks ih =>
    simp only [sumOn_cons, List.length_cons]
    have := mulDec_add_le (f k) (sumOn ks f) r
    omega

/-- the entries of one batch are worth at least the batch's claim sums at its rates, less one unit
    per entry and token side -/
theorem batch_entries_ge (h : HubSt) (i : Nat) (x' : History) :
    mulDec (h.claimsS i) x'.sWithdraw + mulDec (h.claimsB i) x'.bWithdraw ≤
      sumOn (h.keysOf i) (fun k => entryValue x' (h.waitB k.1 k.2) (h.waitS k.1 k.2)) + 2 * (h.keysOf i).length := by
  unfold entryValue
  rw [sumOn_add]
  have a := sumOn_mulDec_ge (h.keysOf i) (fun k => h.waitS k.1 k.2) x'.sWithdraw
  have b := sumOn_mulDec_ge (h.keysOf i) (fun k => h.waitB k.1 k.2) x'.bWithdraw
  unfold claimsS claimsB
  omega

/-- releasing a group of batches whose recorded amounts are exactly their claim sums raises `owed`
    by at least the group's allocation less two units per entry -/
theorem owedWith_fold_ge (h : HubSt) (g : Nat → History) (hg : ∀ i, (g i).released = true) :
    ∀ (ids : List Nat) (hs : Nat → Option History), ids.Nodup →
      (∀ i ∈ ids, ∀ x, hs i = some x → x.released = false) →
      (∀ i ∈ ids, h.claimsB i = (g i).bAmt ∧ h.claimsS i = (g i).sAmt) →
      owedWith hs h + (ids.map (fun i => mulDec (g i).sAmt (g i).sWithdraw + mulDec (g i).bAmt (g i).bWithdraw)).sum ≤
        owedWith (ids.foldl (fun acc i => upd acc i (some (g i))) hs) h +
          (ids.map (fun i => 2 * (h.keysOf i).length)).sum := by
  intro ids
  induction ids with
  | nil => intro hs _ _ _; simp
  | cons i ids ih =>
    intro hs hnd hun hcl
    have hnd' := List.nodup_cons.mp hnd
    simp only [List.foldl_cons, List.map_cons, List.sum_cons]
    have step := owedWith_upd hs h i (g i) (hg i) (hun i (by simp))
    have r := ih (upd hs i (some (g i))) hnd'.2
      (fun j hj x hx => by
        have hji : j ≠ i := fun e => hnd'.1 (e ▸ hj)
        rw [upd_other _ _ _ _ hji] at hx
        exact hun j (by simp [hj]) x hx)
      (fun j hj => hcl j (by simp [hj]))
    have be := batch_entries_ge h i (g i)
    have c := hcl i (by simp)
    rw [c.1, c.2] at be
    omega

/-- releasing batches never lowers what is owed -/
theorem owedWith_fold_mono (h : HubSt) (g : Nat → History) (hg : ∀ i, (g i).released = true) :
    ∀ (ids : List Nat) (hs : Nat → Option History), ids.Nodup →
      (∀ i ∈ ids, ∀ x, hs i = some x → x.released = false) →
      owedWith hs h ≤ owedWith (ids.foldl (fun acc i => upd acc i (some (g i))) hs) h := by
  intro ids
  induction ids with
  | nil => intro hs _ _; exact Nat.le_refl _
  | cons i ids ih =>
    intro hs hnd hun
    have hnd' := List.nodup_cons.mp hnd
    simp only [List.foldl_cons]
    have step := owedWith_upd hs h i (g i) (hg i) (hun i (by simp))
    refine Nat.le_trans ?_ (ih (upd hs i (some (g i))) hnd'.2 (fun j hj x hx => by
      have hji : j ≠ i := fun e => hnd'.1 (e ▸ hj)
      rw [upd_other _ _ _ _ hji] at hx
      exact hun j (by simp [hj]) x hx))
    rw [step]; omega

theorem release_owed_mono (h h1 : HubSt) (cutoff bal : Nat)
    (hx : h.processWithdrawRate cutoff bal = .ok h1) : h.owed ≤ h1.owed := by
  unfold processWithdrawRate at hx
  simp only [] at hx
  split at hx
  · injection hx with hx; subst hx; exact Nat.le_refl _
  · split at hx
    · cases hx
    · injection hx with hx; subst hx
      have hun : ∀ i ∈ h.releasable cutoff (h.batchId + 1) (h.lastProcessedBatch + 1),
          ∀ x, h.hist i = some x → x.released = false := by
        intro i hi x hxi
        obtain ⟨y, hy, hr, _⟩ := releasable_mem h cutoff _ _ i hi
        rw [hy] at hxi; injection hxi with hxi; subst hxi; exact hr
      exact owedWith_fold_mono h _ (fun _ => rfl) _ h.hist (releasable_nodup _ _ _ _) hun

/-- **Absent slashing and unsolicited transfers a release loses only dust.** If exactly the amount
    undelegated for the group arrived (`bal − prev = Σ undelegated`, within the envelope 10^18), what
    the hub owes afterwards covers everything that arrived up to two base units per batch and two per
    wait entry of the released batches. `ce`: unreleased batches record exactly their claim sums (C07). -/
theorem release_owed_ge (h h1 : HubSt) (cutoff bal : Nat)
    (hx : h.processWithdrawRate cutoff bal = .ok h1)
    (ce : ∀ i x, h.hist i = some x → x.released = false → h.claimsB i = x.bAmt ∧ h.claimsS i = x.sAmt)
    (hexact : bal - h.prevHubBalance =
      sideTotal (h.pairsS (h.relIds cutoff)) + sideTotal (h.pairsB (h.relIds cutoff)))
    (hle : bal - h.prevHubBalance ≤ D)
    (hamt : ∀ i x, h.hist i = some x → x.bAmt ≤ D ∧ x.sAmt ≤ D) :
    h.owed + (bal - h.prevHubBalance) ≤
      h1.owed + 2 * (h.relIds cutoff).length + ((h.relIds cutoff).map (fun i => 2 * (h.keysOf i).length)).sum := by
  by_cases hzero : bal - h.prevHubBalance = 0
  · have := release_owed_mono h h1 cutoff bal hx
    omega
  unfold processWithdrawRate at hx
  simp only [] at hx
  split at hx
  · rename_i hnil
    injection hx with hx; subst hx
    have : h.relIds cutoff = [] := hnil
    rw [this] at hexact ⊢
    simp only [pairsS, pairsB, sideTotal, List.map_nil, List.sum_nil] at hexact
    simp only [List.length_nil, List.map_nil, List.sum_nil]
    omega
  · rename_i hne
    split at hx
    · cases hx
    · rename_i hch
      injection hx with hx; subst hx
      rw [sideTotal_pairsB, sideTotal_pairsS] at hexact
      unfold relIds at hexact ⊢
      generalize hids : h.releasable cutoff (h.batchId + 1) (h.lastProcessedBatch + 1) = ids at *
      generalize hsT : (ids.map (fun i => mulDec (h.histOr i).sAmt (h.histOr i).sWithdraw)).sum = sT at *
      generalize hbT : (ids.map (fun i => mulDec (h.histOr i).bAmt (h.histOr i).bWithdraw)).sum = bT at *
      generalize hact : (signedSub bal h.prevHubBalance).1 = act at *
      have hact' : bal - h.prevHubBalance = act := by
        rw [← hact]
        unfold signedSub at hch ⊢
        split
        · rename_i hlt; rw [if_pos hlt] at hch; exact absurd rfl hch
        · rfl
      rw [hact'] at hexact hle ⊢
      subst hexact
      by_cases hpos : 0 < sT + bT
      · have hsplit := split_exact sT bT hpos hle
        simp only [hpos, gt_iff_lt, if_true] at *
        rw [hsplit]
        have hsS : sT + bT - bT = sT := by omega
        rw [hsS]
        let g : Nat → History := fun i =>
          { h.histOr i with
            sWithdraw := newWithdrawRate (h.histOr i).sAmt (h.histOr i).sWithdraw sT (signedSub sT sT),
            bWithdraw := newWithdrawRate (h.histOr i).bAmt (h.histOr i).bWithdraw bT (signedSub bT bT),
            released := true }
        have hnd : ids.Nodup := by rw [← hids]; exact releasable_nodup _ _ _ _
        have hun : ∀ i ∈ ids, ∀ x, h.hist i = some x → x.released = false := by
          intro i hi x hxi
          rw [← hids] at hi
          obtain ⟨y, hy, hr, _⟩ := releasable_mem h cutoff _ _ i hi
          rw [hy] at hxi; injection hxi with hxi; subst hxi; exact hr
        have hcl : ∀ i ∈ ids, h.claimsB i = (g i).bAmt ∧ h.claimsS i = (g i).sAmt := by
          intro i hi
          rw [← hids] at hi
          obtain ⟨y, hy, hr, _⟩ := releasable_mem h cutoff _ _ i hi
          have e : h.histOr i = y := by simp [histOr, hy]
          show h.claimsB i = (h.histOr i).bAmt ∧ h.claimsS i = (h.histOr i).sAmt
          rw [e]; exact ce i y hy hr
        have hD : ∀ i ∈ ids, (h.histOr i).bAmt ≤ D ∧ (h.histOr i).sAmt ≤ D := by
          intro i hi
          rw [← hids] at hi
          obtain ⟨y, hy, _, _⟩ := releasable_mem h cutoff _ _ i hi
          have e : h.histOr i = y := by simp [histOr, hy]
          rw [e]; exact hamt i y hy
        have fold := owedWith_fold_ge h g (fun _ => rfl) ids h.hist hnd hun hcl
        have gB := side_alloc_ge (h.pairsB ids) (by
          intro x hx'
          simp only [pairsB, List.mem_map] at hx'
          obtain ⟨i, hi, rfl⟩ := hx'
          exact (hD i hi).1)
        have gS := side_alloc_ge (h.pairsS ids) (by
          intro x hx'
          simp only [pairsS, List.mem_map] at hx'
          obtain ⟨i, hi, rfl⟩ := hx'
          exact (hD i hi).2)
        rw [sideTotal_pairsB, hbT, sideAlloc_pairsB] at gB
        rw [sideTotal_pairsS, hsT, sideAlloc_pairsS] at gS
        have lenB : (h.pairsB ids).length = ids.length := by simp [pairsB]
        have lenS : (h.pairsS ids).length = ids.length := by simp [pairsS]
        rw [lenB] at gB
        rw [lenS] at gS
        have split := sum_map_add ids
          (fun i => mulDec (g i).sAmt (g i).sWithdraw) (fun i => mulDec (g i).bAmt (g i).bWithdraw)
        rw [split] at fold
        have e0 : owed h = owedWith h.hist h := rfl
        rw [e0]
        show owedWith h.hist h + (sT + bT) ≤ owedWith (ids.foldl (fun acc i => upd acc i (some (g i))) h.hist) h + _ + _
        have gS' : sT ≤ (ids.map (fun i => mulDec (g i).sAmt (g i).sWithdraw)).sum + ids.length := gS
        have gB' : bT ≤ (ids.map (fun i => mulDec (g i).bAmt (g i).bWithdraw)).sum + ids.length := gB
        omega
      · omega

end HubSt
end Krp
