/-
  Arrive.lean — the coins of matured undelegations are in the hub's account (C01).

  `maturedSum h ub t` = Σ over the unreleased batches whose undelegation the chain has paid by time
  `t` (entry time + the chain's unbonding time ≤ t) of the coins undelegated for them.
  `ArriveQ s q` (a queue invariant, like C02's `HubFund`): the hub's balance covers
  `prev_hub_balance`, the hub's pending outflows and `maturedSum`; every immature unreleased batch is
  covered by unbonding-queue entries completing exactly at its maturity (plus, for the batch being
  closed in this very transaction, the Undelegate messages still queued).
-/
import Krp.Lemmas.Shape
import Krp.Lemmas.Funded
import Krp.Lemmas.NoWd
import Krp.Props.C02
namespace Krp
open HubSt

theorem hubExec_balance_irrelevant (h : HubSt) (e : HubEnv) (x : Nat) (sender : Addr)
    (funds : List (Denom × Nat)) (m : HubMsg) (hm : m ≠ .withdrawUnbonded) :
    hubExec h { e with hubBalance := x } sender funds m = hubExec h e sender funds m := by
  cases m with
  | withdrawUnbonded => exact absurd rfl hm
  | _ => rfl

/-- coins undelegated for a batch (for an unreleased batch the withdraw rates are still the rates
    applied at undelegation) -/
def batchU (x : History) : Nat := mulDec x.sAmt x.sWithdraw + mulDec x.bAmt x.bWithdraw

/-- is batch `i` unreleased and paid by the chain at time `t`? -/
def isMatured (h : HubSt) (ub t i : Nat) : Bool :=
  match h.hist i with
  | some x => !x.released && decide (x.time + ub ≤ t)
  | none => false

def maturedIds (h : HubSt) (ub t : Nat) : List Nat := (List.range h.batchId).filter (isMatured h ub t)

def maturedSum (h : HubSt) (ub t : Nat) : Nat := ((maturedIds h ub t).map (fun i => batchU (h.histOr i))).sum

/-- amount in the unbonding queue that completes exactly at `c` -/
def qAt (q : List (Addr × Nat × Nat)) (c : Nat) : Nat := ((q.filter (fun e => e.2.2 = c)).map (·.2.1)).sum

theorem qAt_append (q : List (Addr × Nat × Nat)) (e : Addr × Nat × Nat) (c : Nat) :
    qAt (q ++ [e]) c = qAt q c + (if e.2.2 = c then e.2.1 else 0) := by
  unfold qAt
  rw [List.filter_append, List.map_append, List.sum_append]
  by_cases h : e.2.2 = c <;> simp [h]

theorem undelegatedBy_append (a b : List Msg) : undelegatedBy (a ++ b) = undelegatedBy a + undelegatedBy b := by
  induction a with
  | nil => simp [undelegatedBy]
  | cons m a ih =>
    cases m <;> simp only [List.cons_append, undelegatedBy, ih] <;> omega

/-- sums over a filtered range agree when predicate and summand agree on the range -/
theorem sum_filter_congr (l : List Nat) (p q : Nat → Bool) (f g : Nat → Nat)
    (hp : ∀ i ∈ l, p i = q i) (hf : ∀ i ∈ l, p i = true → f i = g i) :
    ((l.filter p).map f).sum = ((l.filter q).map g).sum := by
  induction l with
  | nil => rfl
  | cons i l ih =>
    have hi := hp i (List.mem_cons_self ..)
    simp only [List.filter_cons]
    rw [← hi]
    have r := ih (fun j hj => hp j (List.mem_cons_of_mem _ hj)) (fun j hj => hf j (List.mem_cons_of_mem _ hj))
    by_cases hpi : p i = true
    · simp only [hpi, if_true, List.map_cons, List.sum_cons]
      rw [hf i (List.mem_cons_self ..) hpi, r]
    · simp only [hpi, Bool.false_eq_true, if_false]; exact r

/-- a sum over ids with `p` false everywhere is empty -/
theorem filter_none (l : List Nat) (p : Nat → Bool) (hp : ∀ i ∈ l, p i = false) : l.filter p = [] := by
  apply List.filter_eq_nil_iff.mpr
  intro i hi; rw [hp i hi]; simp

theorem qAt_nil_sum (cs : List Nat) : (cs.map (qAt [])).sum = 0 := by
  induction cs with
  | nil => rfl
  | cons c cs ih =>
    simp only [List.map_cons, List.sum_cons, ih]
    rfl

/-- distinct completion times select disjoint parts of the unbonding queue -/
theorem qAt_sum_le (q : List (Addr × Nat × Nat)) (t : Nat) :
    ∀ (cs : List Nat), cs.Nodup → (∀ c ∈ cs, c ≤ t) →
      (cs.map (qAt q)).sum ≤ ((q.filter (fun e => e.2.2 ≤ t)).map (·.2.1)).sum := by
  induction q with
  | nil =>
    intro cs _ _
    have := qAt_nil_sum cs
    omega
  | cons e q ih =>
    intro cs hnd hle
    have r := ih cs hnd hle
    -- Σ_c qAt (e :: q) c = Σ_c [e.2.2 = c]·amt + Σ_c qAt q c
    have split : (cs.map (qAt (e :: q))).sum =
        (cs.map (fun c => if e.2.2 = c then e.2.1 else 0)).sum + (cs.map (qAt q)).sum := by
      clear r hnd hle
      induction cs with
      | nil => rfl
      | cons c cs ihc =>
        simp only [List.map_cons, List.sum_cons, ihc]
        have : qAt (e :: q) c = (if e.2.2 = c then e.2.1 else 0) + qAt q c := by
          unfold qAt
          simp only [List.filter_cons]
          by_cases h : e.2.2 = c <;> simp [h]
        omega
    have one : (cs.map (fun c => if e.2.2 = c then e.2.1 else 0)).sum ≤ (if e.2.2 ≤ t then e.2.1 else 0) := by
      clear r split
      induction cs with
      | nil => simp
      | cons c cs ihc =>
        have hnd' := List.nodup_cons.mp hnd
        have r' := ihc hnd'.2 (fun x hx => hle x (List.mem_cons_of_mem _ hx))
        simp only [List.map_cons, List.sum_cons]
        by_cases h : e.2.2 = c
        · -- then no later key equals it
          have z : (cs.map (fun c => if e.2.2 = c then e.2.1 else 0)).sum = 0 := by
            have : ∀ x ∈ cs, (if e.2.2 = x then e.2.1 else 0) = 0 := by
              intro x hx
              have : e.2.2 ≠ x := fun he => hnd'.1 (by rw [← h, he]; exact hx)
              simp [this]
            clear r' ihc
            induction cs with
            | nil => rfl
            | cons y ys ihy =>
              simp only [List.map_cons, List.sum_cons]
              rw [this y (List.mem_cons_self ..), ihy (List.nodup_cons.mpr ⟨fun hm => hnd'.1 (List.mem_cons_of_mem _ hm), (List.nodup_cons.mp hnd'.2).2⟩)
                (fun x hx => hle x (by
                  rcases List.mem_cons.mp hx with rfl | hx'
                  · exact List.mem_cons_self ..
                  · exact List.mem_cons_of_mem _ (List.mem_cons_of_mem _ hx')))
                ⟨fun hm => hnd'.1 (List.mem_cons_of_mem _ hm), (List.nodup_cons.mp hnd'.2).2⟩
                (fun x hx => this x (List.mem_cons_of_mem _ hx))]
          have hct : e.2.2 ≤ t := by rw [h]; exact hle c (List.mem_cons_self ..)
          simp only [h, if_true] at z ⊢
          rw [z]; simp [hle c (List.mem_cons_self ..)]
        · simp only [h, if_false, Nat.zero_add]; exact r'
    simp only [List.filter_cons]
    by_cases ht : e.2.2 ≤ t
    · simp only [ht, decide_true, if_true, List.map_cons, List.sum_cons] at one ⊢
      omega
    · simp only [ht, decide_false, Bool.false_eq_true, if_false] at one ⊢
      omega


/-! ### what one message does to time and to the unbonding queue -/

theorem bankMove_rest (s s' : Sys) (src dst : Addr) (d : Denom) (amt : Nat)
    (hx : s.bankMove src dst d amt = .ok s') :
    s'.chain.time = s.chain.time ∧ s'.chain.unbondingTime = s.chain.unbondingTime ∧
    s'.chain.unbondingQ = s.chain.unbondingQ := by
  unfold Sys.bankMove at hx
  exc_split at hx
  exact ⟨rfl, rfl, rfl⟩

theorem moveFunds_rest (src dst : Addr) : ∀ (l : List (Denom × Nat)) (s s' : Sys),
    s.moveFunds src dst l = .ok s' →
    s'.chain.time = s.chain.time ∧ s'.chain.unbondingTime = s.chain.unbondingTime ∧
    s'.chain.unbondingQ = s.chain.unbondingQ := by
  intro l
  induction l with
  | nil => intro s s' hx; simp only [Sys.moveFunds] at hx; cases hx; exact ⟨rfl, rfl, rfl⟩
  | cons c rest ih =>
    intro s s' hx
    obtain ⟨d, amt⟩ := c
    simp only [Sys.moveFunds] at hx
    split at hx
    · cases hx
    · rename_i s1 h1
      have a := bankMove_rest s s1 src dst d amt h1
      have b := ih s1 s' hx
      exact ⟨b.1.trans a.1, b.2.1.trans a.2.1, b.2.2.trans a.2.2⟩

/-- handling a message never changes block time or the chain's unbonding time, and changes the
    unbonding queue only by appending the entry of an Undelegate message of the hub -/
theorem handle_queue (s s' : Sys) (m : Msg) (subs : List Msg) (hx : s.handle m = .ok (s', subs)) :
    s'.chain.time = s.chain.time ∧ s'.chain.unbondingTime = s.chain.unbondingTime ∧
    ((∀ w v a, m ≠ .undelegate w v a) → s'.chain.unbondingQ = s.chain.unbondingQ) ∧
    (∀ w v a, m = .undelegate w v a → subs = [] ∧ s'.hub = s.hub ∧ s'.chain.bank = s.chain.bank ∧
      s'.chain.unbondingQ = s.chain.unbondingQ ++ [(v, a, s.chain.time + s.chain.unbondingTime)]) := by
  cases m with
  | bankSend src dst d amt =>
    simp only [Sys.handle] at hx; exc_norm at hx
    split at hx
    · cases hx
    · rename_i s1 h1
      injection hx with hx; injection hx with e1 _; subst e1
      have r := bankMove_rest s s1 src dst d amt h1
      exact ⟨r.1, r.2.1, fun _ => r.2.2, fun w v a he => by cases he⟩
  | delegate who v amt =>
    simp only [Sys.handle] at hx; exc_norm at hx; exc_split at hx
    exact ⟨rfl, rfl, fun _ => rfl, fun w v a he => by cases he⟩
  | undelegate who v amt =>
    simp only [Sys.handle] at hx; exc_norm at hx; exc_split at hx
    refine ⟨rfl, rfl, fun hne => absurd rfl (hne who v amt), fun w v' a he => ?_⟩
    injection he with e1 e2 e3; subst e1; subst e2; subst e3
    exact ⟨rfl, rfl, rfl, rfl⟩
  | redelegate who src dst amt =>
    simp only [Sys.handle] at hx; exc_norm at hx; exc_split at hx
    exact ⟨rfl, rfl, fun _ => rfl, fun w v a he => by cases he⟩
  | withdrawReward who v =>
    simp only [Sys.handle] at hx; exc_norm at hx; exc_split at hx
    exact ⟨rfl, rfl, fun _ => rfl, fun w v a he => by cases he⟩
  | setWithdrawAddr who a =>
    simp only [Sys.handle] at hx; exc_norm at hx; exc_split at hx
    exact ⟨rfl, rfl, fun _ => rfl, fun w v a he => by cases he⟩
  | wasm sender target call funds =>
    obtain ⟨s1, hmv, hch⟩ := handle_wasm_chain_eq s s' sender target call funds subs hx
    have r := moveFunds_rest sender target funds s s1 hmv
    rw [hch]
    exact ⟨r.1, r.2.1, fun _ => r.2.2, fun w v a he => by cases he⟩

/-! ### the invariant -/

structure ArriveQ (s : Sys) (q : List Msg) : Prop where
  ubpos : 0 < s.chain.unbondingTime
  fresh : ∀ e ∈ s.chain.unbondingQ, s.chain.time < e.2.2
  lastUnb : s.hub.lastUnbondedTime ≤ s.chain.time
  cover : ∀ i x, s.hub.hist i = some x → x.released = false →
    s.chain.time < x.time + s.chain.unbondingTime →
    batchU x ≤ qAt s.chain.unbondingQ (x.time + s.chain.unbondingTime) +
      (if x.time = s.chain.time then undelegatedBy q else 0)
  split : ∃ A rest, q = A ++ rest ∧ (∀ x ∈ A, isLeaf x = true) ∧ (∀ x ∈ rest, isOut x = false) ∧
    s.hub.prevHubBalance + hubOutAll A + maturedSum s.hub s.chain.unbondingTime s.chain.time ≤ s.chain.bank hubA 0

/-- `maturedSum` only depends on the history, the open batch id, and the two times -/
theorem maturedSum_congr (h h' : HubSt) (ub t : Nat) (hh : h'.hist = h.hist) (hb : h'.batchId = h.batchId) :
    maturedSum h' ub t = maturedSum h ub t := by
  unfold maturedSum maturedIds isMatured histOr
  rw [hh, hb]

/-- closing the open batch at time `now` does not change what has matured (the chain pays it
    `ub > 0` later) -/
theorem maturedSum_undelegation (h h' : HubSt) (e : HubEnv) (ms : List Msg) (ub : Nat) (hub : 0 < ub)
    (inv : HistInv h) (hx : h.processUndelegations e = .ok (h', ms)) :
    maturedSum h' ub e.now = maturedSum h ub e.now := by
  obtain ⟨_, _, _, _, _, _, _, _, _, bid, _, hh, _⟩ := processUndelegations_spec h h' e ms hx
  have hnone : h.hist h.batchId = none := by
    cases hc : h.hist h.batchId with
    | none => rfl
    | some z => exact absurd ((inv.dom h.batchId).mp (by rw [hc]; simp)).2 (Nat.lt_irrefl _)
  unfold maturedSum maturedIds
  rw [bid, List.range_succ, List.filter_append]
  have hnew : isMatured h' ub e.now h.batchId = false := by
    unfold isMatured; rw [hh, upd_same]
    simp only [Bool.not_false, Bool.true_and, decide_eq_false_iff_not]
    omega
  simp only [List.filter_cons, hnew, Bool.false_eq_true, if_false, List.filter_nil, List.append_nil]
  apply sum_filter_congr
  · intro i hi
    have hne : i ≠ h.batchId := by have := List.mem_range.mp hi; omega
    unfold isMatured; rw [hh, upd_other _ _ _ _ hne]
  · intro i hi _
    have hne : i ≠ h.batchId := by have := List.mem_range.mp hi; omega
    unfold histOr; rw [hh, upd_other _ _ _ _ hne]

/-- after a release nothing matured is left unreleased -/
theorem maturedSum_released (h1 : HubSt) (ub t cutoff : Nat) (hc : t ≤ cutoff + ub)
    (hrel : ∀ i x1, h1.hist i = some x1 → x1.released = false → x1.time > cutoff) :
    maturedSum h1 ub t = 0 := by
  unfold maturedSum maturedIds
  rw [filter_none]
  · rfl
  · intro i _
    unfold isMatured
    cases hx : h1.hist i with
    | none => rfl
    | some x =>
      simp only []
      cases hr : x.released with
      | true => rfl
      | false =>
        have := hrel i x hx hr
        simp only [Bool.not_false, Bool.true_and, decide_eq_false_iff_not]
        omega


theorem undelegatedBy_cons_other (m : Msg) (q : List Msg) (h : ∀ w v a, m ≠ .undelegate w v a) :
    undelegatedBy (m :: q) = undelegatedBy q := by
  cases m with
  | undelegate w v a => exact absurd rfl (h w v a)
  | _ => rfl

theorem qAt_mono_append (q : List (Addr × Nat × Nat)) (e : Addr × Nat × Nat) (c : Nat) :
    qAt q c ≤ qAt (q ++ [e]) c := by rw [qAt_append]; omega

/-- **One message.** `he2`: when the message is a WithdrawUnbonded the hub's unbonding period equals
    the chain's unbonding time (E2). -/
theorem ArriveQ.step (s s' : Sys) (m : Msg) (rest0 subs : List Msg) (inv : ArriveQ s (m :: rest0))
    (hi : HistInv s.hub) (hl : s.hub.legacy = [])
    (he2 : ∀ sender funds, m = .wasm sender hubA (.hub .withdrawUnbonded) funds → s.hub.unbonding = s.chain.unbondingTime)
    (hx : s.handle m = .ok (s', subs)) : ArriveQ s' (subs ++ rest0) := by
  obtain ⟨htime, hub, hqsame, hqund⟩ := handle_queue s s' m subs hx
  obtain ⟨A, rest, hq, hA, hrest, hle⟩ := inv.split
  have sent := handle_sentBy s s' m subs hx
  -- ---------------------------------------------------------------- chain-level head of the hub's outflows
  cases A with
  | cons p A' =>
    simp only [List.cons_append] at hq
    injection hq with h1 h2
    subst h1
    have hm := hA m (List.mem_cons_self ..)
    have hA' : ∀ x ∈ A', isLeaf x = true := fun x hx' => hA x (List.mem_cons_of_mem _ hx')
    simp only [hubOutAll, List.map_cons, List.sum_cons] at hle
    have hsub : subs = [] := by
      cases m with
      | wasm a b c d => simp [isLeaf] at hm
      | _ => exact sent.2 (fun _ _ _ _ h => by cases h)
    have hhub : s'.hub = s.hub := by
      cases handle_touch s s' m subs hx with
      | none h _ _ _ => exact h.hub
      | hub _ _ _ _ heq _ _ _ _ _ _ _ _ _ => subst heq; simp [isLeaf] at hm
      | bsei _ _ _ _ heq _ _ h _ _ _ _ => exact h
      | stsei _ _ _ _ heq _ h _ _ _ _ => exact h
      | reward _ _ _ _ heq _ _ _ _ h _ _ _ _ => exact h
      | disp _ _ _ _ heq _ _ _ h _ _ _ _ => exact h
      | reg _ _ _ _ heq _ _ _ _ h _ _ _ _ => exact h
    have hnu : ∀ w v a, m ≠ .undelegate w v a := by
      intro w v a he; subst he; simp [isLeaf] at hm
    have hQ := hqsame hnu
    subst hsub
    refine ⟨by rw [hub]; exact inv.ubpos, by rw [hQ, htime]; exact inv.fresh,
      by rw [hhub, htime]; exact inv.lastUnb, ?_, ?_⟩
    · intro i x hxi hr hlt
      rw [hhub] at hxi
      rw [hub, htime] at hlt ⊢
      have c := inv.cover i x hxi hr hlt
      rw [undelegatedBy_cons_other m rest0 hnu] at c
      rw [hQ]; simpa using c
    · refine ⟨A', rest, by simp [h2], hA', hrest, ?_⟩
      rw [hhub, hub, htime]
      cases m with
      | bankSend src dst d amt =>
        have hs : src = hubA := by simpa [isLeaf] using hm
        subst hs
        by_cases hd : d = 0
        · subst hd
          have := (handle_bank_out s s' _ [] hx hubA 0).1 dst amt rfl
          simp only [hubOut, and_self, if_true] at hle
          simp only [hubOutAll] at hle ⊢; omega
        · have := (handle_bank_out s s' _ [] hx hubA 0).2.1 dst d amt rfl hd
          simp only [hubOut, hd, and_false, if_false] at hle
          simp only [hubOutAll] at hle ⊢; omega
      | delegate who v amt =>
        have hs : who = hubA := by simpa [isLeaf] using hm
        subst hs
        simp only [Sys.handle] at hx
        exc_norm at hx
        exc_split at hx
        simp only [hubOut, if_true] at hle
        simp only [Sys.setBank, upd_same]
        simp only [hubOutAll] at hle ⊢
        omega
      | _ => simp [isLeaf] at hm
  | nil =>
    simp only [List.nil_append] at hq
    have hmo : isOut m = false := hrest m (by rw [← hq]; exact List.mem_cons_self ..)
    have hr0 : ∀ x ∈ rest0, isOut x = false := fun x hx' => hrest x (by rw [← hq]; exact List.mem_cons_of_mem _ hx')
    have hB : s.hub.prevHubBalance + maturedSum s.hub s.chain.unbondingTime s.chain.time ≤ s.chain.bank hubA 0 := by
      simpa [hubOutAll] using hle
    have bank' := handle_bank_noOut s s' m subs hx hmo
    -- messages that leave the hub's state alone
    have other : s'.hub = s.hub → (∀ x ∈ subs, isOut x = false) → ArriveQ s' (subs ++ rest0) := by
      intro hh hsub
      by_cases hund : ∃ w v a, m = .undelegate w v a
      · obtain ⟨w, v, a, he⟩ := hund
        obtain ⟨hs0, _, hbank, hQ⟩ := hqund w v a he
        subst hs0
        refine ⟨by rw [hub]; exact inv.ubpos, ?_, by rw [hh, htime]; exact inv.lastUnb, ?_, ?_⟩
        · intro e he'
          rw [hQ] at he'
          rw [htime]
          rcases List.mem_append.mp he' with h | h
          · exact inv.fresh e h
          · simp at h; subst h; simp only []; have := inv.ubpos; omega
        · intro i x hxi hr hlt
          rw [hh] at hxi
          rw [hub, htime] at hlt ⊢
          have c := inv.cover i x hxi hr hlt
          rw [he] at c
          simp only [undelegatedBy] at c
          rw [hQ, qAt_append]
          simp only [List.nil_append]
          by_cases ht : x.time = s.chain.time
          · simp only [ht, if_true] at c ⊢; omega
          · simp only [ht, if_false] at c ⊢; omega
        · refine ⟨[], rest0, rfl, (fun _ h => by cases h), hr0, ?_⟩
          rw [hh, hub, htime, hbank]
          simpa [hubOutAll] using hB
      · have hnu : ∀ w v a, m ≠ .undelegate w v a := fun w v a he => hund ⟨w, v, a, he⟩
        have hQ := hqsame hnu
        refine ⟨by rw [hub]; exact inv.ubpos, by rw [hQ, htime]; exact inv.fresh,
          by rw [hh, htime]; exact inv.lastUnb, ?_, ?_⟩
        · intro i x hxi hr hlt
          rw [hh] at hxi
          rw [hub, htime] at hlt ⊢
          have c := inv.cover i x hxi hr hlt
          rw [undelegatedBy_cons_other m rest0 hnu] at c
          rw [hQ, undelegatedBy_append]
          by_cases ht : x.time = s.chain.time
          · rw [if_pos ht] at c ⊢; omega
          · rw [if_neg ht] at c ⊢; omega
        · refine ⟨[], subs ++ rest0, rfl, (fun _ h => by cases h), ?_, ?_⟩
          · intro x hx'
            rcases List.mem_append.mp hx' with h | h
            · exact hsub x h
            · exact hr0 x h
          · rw [hh, hub, htime]
            simp only [hubOutAll, List.map_nil, List.sum_nil, Nat.add_zero]
            omega
    cases handle_touch s s' m subs hx with
    | none h _ hs _ => exact other h.hub (sentBy_noOut swapA (by decide) subs hs)
    | bsei s1 sender funds tm heq _ _ h _ _ _ _ =>
      exact other h (sentBy_noOut bseiA (by decide) subs (sent.1 _ _ _ _ heq))
    | stsei blk sender funds tm heq _ h _ _ _ _ =>
      exact other h (sentBy_noOut stseiA (by decide) subs (sent.1 _ _ _ _ heq))
    | reward s1 sender funds rm heq _ _ _ _ h _ _ _ _ =>
      exact other h (sentBy_noOut rewardA (by decide) subs (sent.1 _ _ _ _ heq))
    | disp env sender funds dm heq _ _ _ h _ _ _ _ =>
      exact other h (sentBy_noOut dispA (by decide) subs (sent.1 _ _ _ _ heq))
    | reg s1 sender funds rm heq _ _ _ _ h _ _ _ _ =>
      exact other h (sentBy_noOut regA (by decide) subs (sent.1 _ _ _ _ heq))
    | hub s1 sender funds hm' heq h1 hmv hc hx' _ _ _ _ _ =>
      have hnu : ∀ w v a, m ≠ .undelegate w v a := by intro w v a he; rw [heq] at he; cases he
      have hQ := hqsame hnu
      have r1 := moveFunds_rest sender hubA funds s s1 hmv
      have hnow : s1.hubEnv.now = s.chain.time := r1.1
      have hbal : s1.hubEnv.hubBalance = s1.chain.bank hubA 0 := rfl
      have hB1 : s1.chain.bank hubA 0 ≥ s.chain.bank hubA 0 + fundsOf 0 funds := by
        by_cases hsd : sender = hubA
        · have hf : funds = [] := by
            subst heq
            simp only [isOut, hsd, beq_self_eq_true, Bool.true_and, Bool.not_eq_false'] at hmo
            simpa using hmo
          subst hf
          simp only [Sys.moveFunds] at hmv
          injection hmv with hmv; subst hmv
          simp [fundsOf]
        · exact moveFunds_bank_in sender hubA hsd funds s s1 hmv 0
      have hbank' : s'.chain.bank hubA 0 = s1.chain.bank hubA 0 := by rw [hc.2.2]
      -- outflows of a message other than WithdrawUnbonded are covered by the attached funds
      have outs_le : hm' ≠ .withdrawUnbonded → s'.hub.prevHubBalance = s.hub.prevHubBalance →
          ∃ pre rest', subs = pre ++ rest' ∧ (∀ x ∈ pre, isLeaf x = true) ∧ (∀ x ∈ rest', isOut x = false) ∧
            hubOutAll pre ≤ fundsOf 0 funds := by
        intro hne hprev
        have hx2 : hubExec s.hub { s1.hubEnv with hubBalance := s.hub.prevHubBalance + fundsOf 0 funds } sender funds hm' =
            .ok (s'.hub, subs) := by rw [hubExec_balance_irrelevant _ _ _ _ _ _ hne]; exact hx'
        obtain ⟨pre, rest', hms, hp, hr, hle'⟩ := hub_fund_step _ _ _ _ _ _ _ s.hub.prevHubBalance rfl
          (Nat.le_refl _) (Nat.le_refl _) hx2
        refine ⟨pre, rest', hms, hp, hr, ?_⟩
        rw [hprev] at hle'
        simp only [] at hle'
        omega
      have mkSplit : ∀ (pre rest' : List Msg), subs = pre ++ rest' → (∀ x ∈ pre, isLeaf x = true) →
          (∀ x ∈ rest', isOut x = false) →
          s'.hub.prevHubBalance + hubOutAll pre + maturedSum s'.hub s'.chain.unbondingTime s'.chain.time ≤ s'.chain.bank hubA 0 →
          ∃ A rest, subs ++ rest0 = A ++ rest ∧ (∀ x ∈ A, isLeaf x = true) ∧ (∀ x ∈ rest, isOut x = false) ∧
            s'.hub.prevHubBalance + hubOutAll A + maturedSum s'.hub s'.chain.unbondingTime s'.chain.time ≤ s'.chain.bank hubA 0 := by
        intro pre rest' hms hp hr hle'
        refine ⟨pre, rest' ++ rest0, by rw [hms, List.append_assoc], hp, ?_, hle'⟩
        intro x hx''
        rcases List.mem_append.mp hx'' with h | h
        · exact hr x h
        · exact hr0 x h
      have coverSame : s'.hub.hist = s.hub.hist →
          ∀ i x, s'.hub.hist i = some x → x.released = false →
            s'.chain.time < x.time + s'.chain.unbondingTime →
            batchU x ≤ qAt s'.chain.unbondingQ (x.time + s'.chain.unbondingTime) +
              (if x.time = s'.chain.time then undelegatedBy (subs ++ rest0) else 0) := by
        intro hh i x hxi hr hlt
        rw [hh] at hxi
        rw [hub, htime] at hlt ⊢
        have c := inv.cover i x hxi hr hlt
        rw [undelegatedBy_cons_other m rest0 hnu] at c
        rw [hQ, undelegatedBy_append]
        by_cases ht : x.time = s.chain.time
        · rw [if_pos ht] at c ⊢; omega
        · rw [if_neg ht] at c ⊢; omega
      cases hubExec_classify s.hub s'.hub s1.hubEnv sender funds hm' subs hl hx' with
      | quiet q hne =>
        obtain ⟨pre, rest', hms, hp, hr, hout⟩ := outs_le hne q.prev
        refine ⟨by rw [hub]; exact inv.ubpos, by rw [hQ, htime]; exact inv.fresh,
          by rw [q.lastUnb, htime]; exact inv.lastUnb, coverSame q.keeps.same.hist, ?_⟩
        apply mkSplit pre rest' hms hp hr
        rw [q.prev, maturedSum_congr _ _ _ _ q.keeps.same.hist q.keeps.same.batchId, hub, htime, hbank']
        omega
      | withdraw hwm hp hw =>
        obtain ⟨hunb, h1', hpw, _, hle1, hh, hms⟩ := withdraw_spec s.hub s'.hub s1.hubEnv sender subs hw
        have e2 := he2 sender funds (by rw [heq, hwm])
        have rc := release_complete s.hub h1' _ _ hi hpw
        have d := delWait_fold_shape (h1'.finished sender).2 sender h1'
        have hhist' : s'.hub.hist = h1'.hist := by rw [hh]; exact d.1
        have hbid' : s'.hub.batchId = h1'.batchId := by rw [hh]; exact d.2.1
        have hlu' : s'.hub.lastUnbondedTime = s.hub.lastUnbondedTime := by
          rw [hh]; exact d.2.2.2.trans (processWithdrawRate_lastUnb _ _ _ _ hpw).1
        have sp := processWithdrawRate_spec s.hub h1' _ _ hpw
        refine ⟨by rw [hub]; exact inv.ubpos, by rw [hQ, htime]; exact inv.fresh,
          by rw [hlu', htime]; exact inv.lastUnb, ?_, ?_⟩
        · -- unreleased entries are exactly as before
          intro i x hxi hr hlt
          rw [hhist'] at hxi
          rw [hub, htime] at hlt ⊢
          cases hxo : s.hub.hist i with
          | none => rw [(sp.2.2.2.2.2.2.2.2.2.2.2 i).1 hxo] at hxi; cases hxi
          | some xo =>
            obtain ⟨x', hx'', _, _, _, _, _, _, _, hkeep⟩ := (sp.2.2.2.2.2.2.2.2.2.2.2 i).2 xo hxo
            rw [hx''] at hxi; injection hxi with hxi; subst hxi
            have e := hkeep hr
            subst e
            have c := inv.cover i x' hxo hr hlt
            rw [undelegatedBy_cons_other m rest0 hnu] at c
            rw [hQ, undelegatedBy_append]
            by_cases ht : x'.time = s.chain.time
            · rw [if_pos ht] at c ⊢; omega
            · rw [if_neg ht] at c ⊢; omega
        · refine mkSplit subs [] (by simp) ?leaf (fun _ h => by cases h) ?ineq
          case ineq =>
            have hm0 : maturedSum s'.hub s'.chain.unbondingTime s'.chain.time = 0 := by
              rw [maturedSum_congr h1' s'.hub _ _ hhist' hbid', hub, htime]
              apply maturedSum_released h1' _ _ (s1.hubEnv.now - s.hub.unbonding) ?_ rc.2.2
              have h1u : s.hub.unbonding ≤ s1.hubEnv.now := hunb
              rw [← e2, ← hnow]
              omega
            rw [hm0, hbank', hms]
            have hprev : s'.hub.prevHubBalance = s1.hubEnv.hubBalance - (h1'.finished sender).1 := by rw [hh]
            rw [hprev, hbal] at *
            simp only [hubOutAll, List.map_cons, List.map_nil, List.sum_cons, List.sum_nil, hubOut]
            have : s1.hubEnv.self = hubA := rfl
            simp only [this, and_self, if_true]
            rw [hbal] at hle1
            omega
          case leaf =>
            intro x hx''
            rw [hms] at hx''
            simp at hx''
            subst hx''
            simp only [isLeaf]
            show (hubA == hubA) = true
            simp
      | unbond st h0 hne hst sh _ hcase =>
        have sb := (actualState_spec s.hub st s1.hubEnv hst).1
        have inv0 : HistInv h0 := hi.of_same (sh.hist.trans sb.hist) (sh.batchId.trans sb.batchId)
          (sh.lastProc.trans sb.lastProc) (sh.lastUnb.trans sb.lastUnb)
        rcases hcase with ⟨hg, um, last, hp, hms, hlast⟩ | ⟨hh, _⟩
        · -- the open batch is closed: a new unreleased entry with time = now, covered by the queued Undelegates
          obtain ⟨hpick, _, _, _, _, _, _, _, _, bid, lu, hhist, _, _, _, pv, _⟩ := processUndelegations_spec h0 s'.hub s1.hubEnv um hp
          have hprev : s'.hub.prevHubBalance = s.hub.prevHubBalance := pv.trans (sh.prev.trans sb.prev)
          obtain ⟨pre, rest', hms', hpp, hr, hout⟩ := outs_le hne hprev
          have hsum := C03_undelegate_messages_sum _ _ _ hpick
          have hM : maturedSum s'.hub s'.chain.unbondingTime s'.chain.time =
              maturedSum s.hub s.chain.unbondingTime s.chain.time := by
            rw [hub, htime, ← hnow, maturedSum_undelegation h0 s'.hub s1.hubEnv um _ inv.ubpos inv0 hp]
            exact maturedSum_congr _ _ _ _ (sh.hist.trans sb.hist) (sh.batchId.trans sb.batchId)
          refine ⟨by rw [hub]; exact inv.ubpos, by rw [hQ, htime]; exact inv.fresh,
            by rw [lu, htime, hnow], ?_, ?_⟩
          · intro i x hxi hr' hlt
            rw [hhist] at hxi
            rw [hub, htime] at hlt ⊢
            by_cases hib : i = h0.batchId
            · subst hib
              simp only [upd_same] at hxi
              injection hxi with hxi; subst hxi
              simp only [hnow, if_true]
              rw [hms, undelegatedBy_append, undelegatedBy_append, hsum]
              unfold batchU
              simp only []
              omega
            · rw [upd_other _ _ _ _ hib, sh.hist, sb.hist] at hxi
              have c := inv.cover i x hxi hr' hlt
              rw [undelegatedBy_cons_other m rest0 hnu] at c
              rw [hQ, undelegatedBy_append]
              by_cases ht : x.time = s.chain.time
              · rw [if_pos ht] at c ⊢; omega
              · rw [if_neg ht] at c ⊢; omega
          · apply mkSplit pre rest' hms' hpp hr
            rw [hprev, hM, hbank']
            omega
        · have hhist : s'.hub.hist = s.hub.hist := by rw [hh]; exact sh.hist.trans sb.hist
          have hbid : s'.hub.batchId = s.hub.batchId := by rw [hh]; exact sh.batchId.trans sb.batchId
          have hprev : s'.hub.prevHubBalance = s.hub.prevHubBalance := by rw [hh]; exact sh.prev.trans sb.prev
          obtain ⟨pre, rest', hms', hpp, hr, hout⟩ := outs_le hne hprev
          refine ⟨by rw [hub]; exact inv.ubpos, by rw [hQ, htime]; exact inv.fresh,
            by rw [hh, sh.lastUnb, sb.lastUnb, htime]; exact inv.lastUnb, coverSame hhist, ?_⟩
          apply mkSplit pre rest' hms' hpp hr
          rw [hprev, maturedSum_congr _ _ _ _ hhist hbid, hub, htime, hbank']
          omega


/-! ### sums over id lists -/

theorem sum_filter_or (l : List Nat) (p q : Nat → Bool) (f : Nat → Nat)
    (hd : ∀ i ∈ l, ¬ (p i = true ∧ q i = true)) :
    ((l.filter (fun i => p i || q i)).map f).sum = ((l.filter p).map f).sum + ((l.filter q).map f).sum := by
  induction l with
  | nil => rfl
  | cons i l ih =>
    have r := ih (fun j hj => hd j (List.mem_cons_of_mem _ hj))
    have hi := hd i (List.mem_cons_self ..)
    simp only [List.filter_cons]
    cases hp : p i <;> cases hq : q i <;> simp only [hp, hq, Bool.or_self, Bool.or_true, Bool.or_false,
      Bool.true_or, Bool.false_eq_true, if_true, if_false, List.map_cons, List.sum_cons] <;> try omega
    exact absurd ⟨hp, hq⟩ hi

theorem filter_eq_singleton (l : List Nat) (a : Nat) (hn : l.Nodup) (ha : a ∈ l) :
    l.filter (fun i => i == a) = [a] := by
  induction l with
  | nil => cases ha
  | cons b l ih =>
    have hn' := List.nodup_cons.mp hn
    simp only [List.filter_cons]
    by_cases hb : b = a
    · subst hb
      simp only [beq_self_eq_true, if_true]
      have : l.filter (fun i => i == b) = [] := by
        apply List.filter_eq_nil_iff.mpr
        intro i hi
        simp only [beq_iff_eq]
        intro e; subst e; exact hn'.1 hi
      rw [this]
    · have hne : (b == a) = false := by simpa using hb
      simp only [hne, Bool.false_eq_true, if_false]
      have ha' : a ∈ l := by
        rcases List.mem_cons.mp ha with h | h
        · exact absurd h.symm hb
        · exact h
      exact ih hn'.2 ha'

/-- a duplicate-free list contained in another one has the smaller sum -/
theorem sum_le_of_nodup_subset (f : Nat → Nat) : ∀ (l2 l1 : List Nat), l1.Nodup → (∀ i ∈ l1, i ∈ l2) →
    (l1.map f).sum ≤ (l2.map f).sum := by
  intro l2
  induction l2 with
  | nil =>
    intro l1 _ hs
    cases l1 with
    | nil => exact Nat.le_refl _
    | cons a l => exact absurd (hs a (List.mem_cons_self ..)) (by simp)
  | cons a l2 ih =>
    intro l1 hn hs
    simp only [List.map_cons, List.sum_cons]
    by_cases ha : a ∈ l1
    · -- split l1 into a and the rest
      have hsplit := sum_filter_or l1 (fun i => i == a) (fun i => !(i == a)) f (by
        intro i _ h; cases hh : (i == a) <;> simp [hh] at h)
      have hall : l1.filter (fun i => (i == a) || !(i == a)) = l1 := by
        apply List.filter_eq_self.mpr
        intro i _; cases (i == a) <;> rfl
      rw [hall, filter_eq_singleton l1 a hn ha] at hsplit
      have r := ih (l1.filter (fun i => !(i == a))) (List.Pairwise.sublist List.filter_sublist hn)
        (by
          intro i hi
          have hm := List.mem_filter.mp hi
          have hne : i ≠ a := by simpa using hm.2
          rcases List.mem_cons.mp (hs i hm.1) with h | h
          · exact absurd h hne
          · exact h)
      simp only [List.map_cons, List.map_nil, List.sum_cons, List.sum_nil] at hsplit
      omega
    · have r := ih l1 hn (by
        intro i hi
        rcases List.mem_cons.mp (hs i hi) with h | h
        · subst h; exact absurd hi ha
        · exact h)
      omega

theorem map_nodup_of_inj (l : List Nat) (g : Nat → Nat) (hn : l.Nodup)
    (hinj : ∀ i ∈ l, ∀ j ∈ l, g i = g j → i = j) : (l.map g).Nodup := by
  induction l with
  | nil => simp
  | cons a l ih =>
    have hn' := List.nodup_cons.mp hn
    simp only [List.map_cons]
    apply List.nodup_cons.mpr
    refine ⟨?_, ih hn'.2 (fun i hi j hj => hinj i (List.mem_cons_of_mem _ hi) j (List.mem_cons_of_mem _ hj))⟩
    intro hm
    obtain ⟨b, hb, he⟩ := List.mem_map.mp hm
    have := hinj a (List.mem_cons_self ..) b (List.mem_cons_of_mem _ hb) he.symm
    subst this
    exact hn'.1 hb

/-! ### time passes -/

/-- when block time moves from `t` to `t'`, what newly counts as matured is paid by the unbonding
    queue entries that complete in between -/
theorem maturedSum_advance (h : HubSt) (ub t t' : Nat) (q : List (Addr × Nat × Nat)) (htt : t ≤ t')
    (hi : HistInv h)
    (cover : ∀ i x, h.hist i = some x → x.released = false → t < x.time + ub → batchU x ≤ qAt q (x.time + ub)) :
    maturedSum h ub t' ≤ maturedSum h ub t + ((q.filter (fun e => e.2.2 ≤ t')).map (·.2.1)).sum := by
  -- newly matured ids
  let isNew : Nat → Bool := fun i => match h.hist i with
    | some x => !x.released && decide (t < x.time + ub) && decide (x.time + ub ≤ t')
    | none => false
  have hsplit : maturedSum h ub t' =
      maturedSum h ub t + (((List.range h.batchId).filter isNew).map (fun i => batchU (h.histOr i))).sum := by
    unfold maturedSum maturedIds
    rw [← sum_filter_or]
    · apply sum_filter_congr
      · intro i _
        unfold isMatured
        cases hx : h.hist i with
        | none => simp [isNew, hx]
        | some x =>
          simp only [isNew, hx]
          by_cases h1 : x.time + ub ≤ t <;> by_cases h2 : x.time + ub ≤ t' <;>
            cases x.released <;> simp [h1, h2] <;> omega
      · intro _ _ _; rfl
    · intro i _ hc
      unfold isMatured at hc
      cases hx : h.hist i with
      | none => simp [isNew, hx] at hc
      | some x =>
        simp only [isNew, hx] at hc
        cases hr : x.released <;> simp [hr] at hc
        omega
  rw [hsplit]
  apply Nat.add_le_add_left
  -- each newly matured batch is covered by the queue entries completing exactly at its maturity
  have hnd : ((List.range h.batchId).filter isNew).Nodup := List.Pairwise.sublist List.filter_sublist List.nodup_range
  have facts : ∀ i ∈ (List.range h.batchId).filter isNew, ∃ x, h.hist i = some x ∧ x.released = false ∧
      t < x.time + ub ∧ x.time + ub ≤ t' := by
    intro i hi'
    have hm := (List.mem_filter.mp hi').2
    cases hx : h.hist i with
    | none => simp [isNew, hx] at hm
    | some x =>
      simp only [isNew, hx] at hm
      cases hr : x.released <;> simp [hr] at hm
      exact ⟨x, rfl, hr, hm.1, hm.2⟩
  have h1 : (((List.range h.batchId).filter isNew).map (fun i => batchU (h.histOr i))).sum ≤
      ((((List.range h.batchId).filter isNew).map (fun i => (h.histOr i).time + ub)).map (qAt q)).sum := by
    rw [List.map_map]
    generalize hl : (List.range h.batchId).filter isNew = l at facts
    clear hl hnd
    induction l with
    | nil => exact Nat.le_refl _
    | cons i l ih =>
      simp only [List.map_cons, List.sum_cons, Function.comp]
      obtain ⟨x, hx, hr, hlt, _⟩ := facts i (List.mem_cons_self ..)
      have e : h.histOr i = x := by simp [histOr, hx]
      have c := cover i x hx hr hlt
      have r := ih (fun j hj => facts j (List.mem_cons_of_mem _ hj))
      try simp only [Function.comp] at r
      rw [e]; omega
  refine Nat.le_trans h1 ?_
  apply qAt_sum_le
  · apply map_nodup_of_inj _ _ hnd
    intro i hi' j hj' he
    obtain ⟨x, hx, _, _, _⟩ := facts i hi'
    obtain ⟨y, hy, _, _, _⟩ := facts j hj'
    have ex : h.histOr i = x := by simp [histOr, hx]
    have ey : h.histOr j = y := by simp [histOr, hy]
    rw [ex, ey] at he
    by_cases hlt : i < j
    · have := hi.mono i j x y hx hy hlt; omega
    · by_cases hgt : j < i
      · have := hi.mono j i y x hy hx hgt; omega
      · omega
  · intro c hc
    obtain ⟨i, hi', he⟩ := List.mem_map.mp hc
    obtain ⟨x, hx, _, _, hle⟩ := facts i hi'
    have ex : h.histOr i = x := by simp [histOr, hx]
    rw [ex] at he; omega

/-- environment events other than slashing of the unbonding stake (and the test-only legacy
    seeding) keep the invariant between transactions -/
theorem ArriveQ.env (s : Sys) (e : EnvOp) (inv : ArriveQ s []) (hi : HistInv s.hub)
    (hns : ∀ v n d, e ≠ .slashUnbonding v n d) (hnl : ∀ u b a, e ≠ .seedLegacy u b a) :
    ArriveQ (s.env e) [] := by
  obtain ⟨A, rest, hq, _, _, hle⟩ := inv.split
  have hA : A = [] := by
    cases A with
    | nil => rfl
    | cons p t => simp only [List.cons_append] at hq; cases hq
  subst hA
  have hB : s.hub.prevHubBalance + maturedSum s.hub s.chain.unbondingTime s.chain.time ≤ s.chain.bank hubA 0 := by
    simpa [hubOutAll] using hle
  have mk : ∀ (s' : Sys), s'.hub = s.hub → s'.chain.unbondingTime = s.chain.unbondingTime →
      s'.chain.time = s.chain.time → s'.chain.unbondingQ = s.chain.unbondingQ →
      s.chain.bank hubA 0 ≤ s'.chain.bank hubA 0 → ArriveQ s' [] := by
    intro s' hh hu ht hQ hb
    refine ⟨by rw [hu]; exact inv.ubpos, by rw [hQ, ht]; exact inv.fresh, by rw [hh, ht]; exact inv.lastUnb, ?_, ?_⟩
    · intro i x hx hr hlt
      rw [hh] at hx; rw [hu, ht] at hlt ⊢; rw [hQ]
      exact inv.cover i x hx hr hlt
    · refine ⟨[], [], rfl, (fun _ h => by cases h), (fun _ h => by cases h), ?_⟩
      rw [hh, hu, ht]; simp only [hubOutAll, List.map_nil, List.sum_nil, Nat.add_zero]; omega
  cases e with
  | slashUnbonding v n d => exact absurd rfl (hns v n d)
  | seedLegacy u b a => exact absurd rfl (hnl u b a)
  | slash v n d =>
    simp only [Sys.env]
    split
    · exact mk s rfl rfl rfl rfl (Nat.le_refl _)
    · exact mk _ rfl rfl rfl rfl (Nat.le_refl _)
  | accrue v d amt => exact mk _ rfl rfl rfl rfl (Nat.le_refl _)
  | blockRedelegation v on => exact mk _ rfl rfl rfl rfl (Nat.le_refl _)
  | blockUndelegation v on => exact mk _ rfl rfl rfl rfl (Nat.le_refl _)
  | setInactive v on => exact mk _ rfl rfl rfl rfl (Nat.le_refl _)
  | oracle ok p => exact mk _ rfl rfl rfl rfl (Nat.le_refl _)
  | swap ok p => exact mk _ rfl rfl rfl rfl (Nat.le_refl _)
  | donate a d amt =>
    apply mk (s.env (.donate a d amt)) rfl rfl rfl rfl
    show s.chain.bank hubA 0 ≤ (s.setBank a d (s.chain.bank a d + amt)).chain.bank hubA 0
    simp only [Sys.setBank, upd]
    by_cases h1 : hubA = a
    · subst h1
      by_cases h2 : (0 : Denom) = d
      · subst h2; simp
      · simp [h2]
    · simp [h1]
  | advance dt =>
    have hcov : ∀ i x, s.hub.hist i = some x → x.released = false →
        s.chain.time < x.time + s.chain.unbondingTime →
        batchU x ≤ qAt s.chain.unbondingQ (x.time + s.chain.unbondingTime) := by
      intro i x hx hr hlt
      have := inv.cover i x hx hr hlt
      simp only [undelegatedBy] at this
      split at this <;> omega
    have hadv := maturedSum_advance s.hub s.chain.unbondingTime s.chain.time (s.chain.time + dt)
      s.chain.unbondingQ (by omega) hi hcov
    refine ⟨inv.ubpos, ?_, ?_, ?_, ?_⟩
    · intro e he
      simp only [Sys.env] at he ⊢
      have := (List.mem_filter.mp he).2
      simp only [Bool.not_eq_eq_eq_not, Bool.not_true, decide_eq_false_iff_not] at this
      omega
    · show s.hub.lastUnbondedTime ≤ s.chain.time + dt
      have := inv.lastUnb; omega
    · intro i x hx hr hlt
      have hx' : s.hub.hist i = some x := hx
      have hlt' : s.chain.time + dt < x.time + s.chain.unbondingTime := hlt
      have c := hcov i x hx' hr (by omega)
      show batchU x ≤ qAt (s.chain.unbondingQ.filter (fun e => !(decide (e.2.2 ≤ s.chain.time + dt))))
        (x.time + s.chain.unbondingTime) + _
      have same : qAt (s.chain.unbondingQ.filter (fun e => !(decide (e.2.2 ≤ s.chain.time + dt))))
          (x.time + s.chain.unbondingTime) = qAt s.chain.unbondingQ (x.time + s.chain.unbondingTime) := by
        unfold qAt
        rw [List.filter_filter]
        congr 2
        apply List.filter_congr
        intro e _
        by_cases he : e.2.2 = x.time + s.chain.unbondingTime
        · simp [he]; omega
        · simp [he]
      rw [same]; omega
    · refine ⟨[], [], rfl, (fun _ h => by cases h), (fun _ h => by cases h), ?_⟩
      show s.hub.prevHubBalance + hubOutAll [] + maturedSum s.hub s.chain.unbondingTime (s.chain.time + dt) ≤
        (s.setBank hubA 0 (s.chain.bank hubA 0 + ((s.chain.unbondingQ.filter (fun e => e.2.2 ≤ s.chain.time + dt)).map (fun e => e.2.1)).sum)).chain.bank hubA 0
      simp only [Sys.setBank, upd_same, hubOutAll, List.map_nil, List.sum_nil, Nat.add_zero]
      omega

end Krp
