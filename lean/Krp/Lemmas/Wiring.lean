/-
  Wiring.lean — the trusted configuration (E3) as an invariant of the composed system, and the
  queue-carrying version of the reachability lift.

  `Wired s`: the six contracts point at each other (token → hub → dispatcher → reward contract →
  hub → token) and every owner / nominee is an outside account.  `Quiet m`: a top-level message of
  an outside account that is not one of the owner-only (re)configuration messages.  Every message a
  contract emits is sent by that contract (`handle_sentBy`), owner-only messages are accepted from
  the owner only, so inside a transaction started by a `Quiet` message the wiring cannot change.
-/
import Krp.Lemmas.Reach
import Krp.Lemmas.HubFrame
import Krp.Props.C18
namespace Krp
open Sys

/-- the queue-carrying lift: an invariant of (state, pending messages) that every message handling
    maintains holds, with an empty queue, when the transaction has run to completion -/
theorem run_inv2 (P : Sys → List Msg → Prop)
    (hh : ∀ s m rest s' subs, P s (m :: rest) → s.handle m = .ok (s', subs) → P s' (subs ++ rest)) :
    ∀ (fuel : Nat) (s : Sys) (q : List Msg) (s' : Sys), P s q → Sys.run fuel s q = .ok s' → P s' [] := by
  intro fuel
  induction fuel with
  | zero =>
    intro s q s' hp hx
    cases q with
    | nil => simp only [Sys.run] at hx; cases hx; exact hp
    | cons m rest => simp only [Sys.run] at hx; cases hx
  | succ n ih =>
    intro s q s' hp hx
    cases q with
    | nil => simp only [Sys.run] at hx; cases hx; exact hp
    | cons m rest =>
      simp only [Sys.run] at hx
      split at hx
      · cases hx
      · rename_i s1 subs h1
        exact ih s1 _ s' (hh s m rest s1 subs hp h1) hx

/-- system addresses: the six contracts and the two stubs that emit or receive messages -/
def internal : List Addr := [hubA, bseiA, stseiA, rewardA, dispA, regA, swapA, sinkA]

def External (a : Addr) : Prop := a ∉ internal

structure Wired (s : Sys) : Prop where
  tokHub : s.bsei.hub = hubA
  hubDisp : s.hub.dispatcher = some dispA
  dispRw : s.disp.rewardContract = rewardA
  rwHub : s.reward.hub = hubA
  hubTok : s.hub.bsei = some bseiA
  hubOwner : External s.hub.creator
  hubNominee : External s.hub.newOwner
  dispOwner : External s.disp.owner
  dispNominee : External s.disp.newOwner
  rwOwner : External s.reward.owner
  rwNominee : External s.reward.newOwner

/-- with the wiring in place the two cross-contract address queries answer as expected -/
theorem Wired.rewardAddr {s : Sys} (w : Wired s) : s.bseiRewardAddr = .ok rewardA := by
  unfold Sys.bseiRewardAddr Sys.hubDispatcherOf
  simp [w.tokHub, w.hubDisp, w.dispRw, bind, Except.bind, pure, Except.pure]

theorem Wired.tokenOf {s : Sys} (w : Wired s) : s.hubTokenOf s.reward.hub = .ok bseiA := by
  unfold Sys.hubTokenOf
  simp [w.rwHub, w.hubTok]

theorem Wired.of_same {s s' : Sys} (h : SameContracts s s') (w : Wired s) : Wired s' :=
  ⟨by rw [h.bsei]; exact w.tokHub, by rw [h.hub]; exact w.hubDisp, by rw [h.disp]; exact w.dispRw,
   by rw [h.reward]; exact w.rwHub, by rw [h.hub]; exact w.hubTok, by rw [h.hub]; exact w.hubOwner,
   by rw [h.hub]; exact w.hubNominee, by rw [h.disp]; exact w.dispOwner, by rw [h.disp]; exact w.dispNominee,
   by rw [h.reward]; exact w.rwOwner, by rw [h.reward]; exact w.rwNominee⟩

/-! ### which messages can change the configuration, and who may send them -/

open HubSt in
/-- the hub's addresses and owner change only through UpdateConfig / SetOwner sent by the owner or
    AcceptOwnership sent by the nominee -/
theorem hubExec_config (h h' : HubSt) (e : HubEnv) (sender : Addr) (funds : List (Denom × Nat))
    (m : HubMsg) (ms : List Msg) (hx : hubExec h e sender funds m = .ok (h', ms)) :
    SameConfig h h' ∨ sender = h.creator ∨ sender = h.newOwner := by
  cases m with
  | migrateWaitList limit =>
    simp only [hubExec] at hx; exc_split at hx
    exact Or.inl (migrate_frame h limit).1
  | updateParams a b c d p r =>
    simp only [hubExec] at hx; exc_norm at hx
    split at hx
    · cases hx
    · rename_i h1 hp
      injection hx with hx; injection hx with e1 _; subst e1
      unfold updateParams at hp; exc_norm at hp; exc_split at hp
      all_goals exact Or.inl ⟨rfl, rfl, rfl, rfl, rfl, rfl, rfl, rfl, rfl⟩
  | receive user amt hook =>
    simp only [hubExec] at hx
    split at hx
    · cases hx
    · exc_norm at hx
      split at hx
      · cases hx
      · split at hx
        · cases hx
        · cases hook with
          | other => simp only [] at hx; cases hx
          | convert =>
            simp only [] at hx
            split at hx
            · exact Or.inl (convertBS_frame _ _ _ _ _ _ hx).2
            · split at hx
              · exact Or.inl (convertSB_frame _ _ _ _ _ _ hx).2
              · cases hx
          | unbond =>
            simp only [] at hx
            split at hx
            · exact Or.inl (unbondB_frame _ _ _ _ _ _ hx).2
            · split at hx
              · exact Or.inl (unbondS_frame _ _ _ _ _ _ hx).2
              · cases hx
  | bond => simp only [hubExec] at hx; split at hx; · cases hx
            · exact Or.inl ((bond_frame _ _ _ _ _ _).1 hx).2
  | bondForStSei => simp only [hubExec] at hx; split at hx; · cases hx
                    · exact Or.inl ((bond_frame _ _ _ _ _ _).2.1 hx).2
  | bondRewards => simp only [hubExec] at hx; split at hx; · cases hx
                   · exact Or.inl ((bond_frame _ _ _ _ _ _).2.2 hx).2
  | updateGlobalIndex =>
    simp only [hubExec] at hx; split at hx; · cases hx
    · unfold updateGlobal at hx; exc_norm at hx; exc_split at hx
      all_goals exact Or.inl ⟨rfl, rfl, rfl, rfl, rfl, rfl, rfl, rfl, rfl⟩
  | withdrawUnbonded =>
    simp only [hubExec] at hx; split at hx; · cases hx
    · exact Or.inl (withdraw_frame _ _ _ _ _ hx).2
  | checkSlashing =>
    simp only [hubExec] at hx; split at hx; · cases hx
    · exc_norm at hx
      split at hx
      · cases hx
      · rename_i st hst
        injection hx with hx; injection hx with e1 _; subst e1
        exact Or.inl (actualState_frame _ _ _ hst).2
  | updateConfig a b c d f g u =>
    simp only [hubExec] at hx; split at hx; · cases hx
    · unfold updateConfig at hx; exc_norm at hx
      split at hx
      · cases hx
      · rename_i hs; exact Or.inr (Or.inl (Classical.not_not.mp hs))
  | setOwner a =>
    simp only [hubExec] at hx; split at hx; · cases hx
    · split at hx
      · cases hx
      · rename_i hs; exact Or.inr (Or.inl (Classical.not_not.mp hs))
  | acceptOwnership =>
    simp only [hubExec] at hx; split at hx; · cases hx
    · split at hx
      · cases hx
      · rename_i hs; exact Or.inr (Or.inr (Classical.not_not.mp hs))
  | swapHook =>
    simp only [hubExec] at hx; exc_norm at hx; exc_split at hx
    exact Or.inl (SameConfig.refl _)
  | claimAirdrop =>
    simp only [hubExec] at hx; exc_norm at hx; exc_split at hx
    exact Or.inl (SameConfig.refl _)
  | redelegateProxy src plan =>
    simp only [hubExec] at hx; exc_norm at hx; exc_split at hx
    exact Or.inl (SameConfig.refl _)

/-- the dispatcher's configuration changes only through messages of its owner / nominee -/
theorem dispExec_config (c c' : DispSt) (self : Addr) (env : DispEnv) (sender : Addr) (m : DispMsg)
    (ms : List Msg) (hx : dispExec c self env sender m = .ok (c', ms)) :
    (c'.rewardContract = c.rewardContract ∧ c'.owner = c.owner ∧ c'.newOwner = c.newOwner) ∨
    sender = c.owner ∨ sender = c.newOwner := by
  cases m with
  | swap a b =>
    left
    simp only [dispExec] at hx
    exc_norm at hx
    repeat' (split at hx <;> try (first | cases hx | contradiction))
    all_goals exact ⟨rfl, rfl, rfl⟩
  | dispatch =>
    left
    simp only [dispExec] at hx; exc_norm at hx; exc_split at hx; exact ⟨rfl, rfl, rfl⟩
  | updateConfig hub rw sd bd k kr =>
    simp only [dispExec] at hx; exc_norm at hx
    split at hx
    · cases hx
    · rename_i hs; exact Or.inr (Or.inl (Classical.not_not.mp hs))
  | setOwner a =>
    simp only [dispExec] at hx
    split at hx
    · cases hx
    · rename_i hs; exact Or.inr (Or.inl (Classical.not_not.mp hs))
  | acceptOwnership =>
    simp only [dispExec] at hx
    split at hx
    · cases hx
    · rename_i hs; exact Or.inr (Or.inr (Classical.not_not.mp hs))
  | updateSwapContract a =>
    simp only [dispExec] at hx
    split at hx
    · cases hx
    · rename_i hs; exact Or.inr (Or.inl (Classical.not_not.mp hs))
  | updateSwapDenom d add =>
    simp only [dispExec] at hx
    split at hx
    · cases hx
    · rename_i hs; exact Or.inr (Or.inl (Classical.not_not.mp hs))
  | updateOracle a =>
    simp only [dispExec] at hx
    split at hx
    · cases hx
    · rename_i hs; exact Or.inr (Or.inl (Classical.not_not.mp hs))

/-- the reward contract's configuration changes only through messages of its owner / nominee -/
theorem rewardExec_config (r r' : RewardSt) (self : Addr) (tok dsp : Res Addr) (bal : Denom → Nat)
    (sender : Addr) (m : RewMsg) (ms : List Msg)
    (hx : rewardExec r self tok dsp bal sender m = .ok (r', ms)) :
    (r'.hub = r.hub ∧ r'.owner = r.owner ∧ r'.newOwner = r.newOwner) ∨
    sender = r.owner ∨ sender = r.newOwner := by
  cases m with
  | updateConfig hub denom swap =>
    simp only [rewardExec] at hx
    split at hx
    · cases hx
    · rename_i hs; exact Or.inr (Or.inl (Classical.not_not.mp hs))
  | setOwner a =>
    simp only [rewardExec] at hx
    split at hx
    · cases hx
    · rename_i hs; exact Or.inr (Or.inl (Classical.not_not.mp hs))
  | acceptOwnership =>
    simp only [rewardExec] at hx
    split at hx
    · cases hx
    · rename_i hs; exact Or.inr (Or.inr (Classical.not_not.mp hs))
  | updateSwapDenom d add =>
    simp only [rewardExec] at hx
    split at hx
    · cases hx
    · rename_i hs; exact Or.inr (Or.inl (Classical.not_not.mp hs))
  | _ =>
    left
    simp only [rewardExec] at hx <;> exc_norm at hx <;> exc_split at hx <;>
      first | exact ⟨rfl, rfl, rfl⟩ | (simp only [RewardSt.setHolder]; exact ⟨rfl, rfl, rfl⟩)

/-- … and so do its reward denom and its swap settings -/
theorem rewardExec_config2 (r r' : RewardSt) (self : Addr) (tok dsp : Res Addr) (bal : Denom → Nat)
    (sender : Addr) (m : RewMsg) (ms : List Msg)
    (hx : rewardExec r self tok dsp bal sender m = .ok (r', ms)) :
    (r'.rewardDenom = r.rewardDenom ∧ r'.swapDenoms = r.swapDenoms ∧ r'.swapContract = r.swapContract) ∨
    sender = r.owner := by
  cases m with
  | updateConfig hub denom swap =>
    simp only [rewardExec] at hx
    split at hx
    · cases hx
    · rename_i hs; exact Or.inr (Classical.not_not.mp hs)
  | updateSwapDenom d add =>
    simp only [rewardExec] at hx
    split at hx
    · cases hx
    · rename_i hs; exact Or.inr (Classical.not_not.mp hs)
  | _ =>
    left
    simp only [rewardExec] at hx <;> exc_norm at hx <;> exc_split at hx <;>
      first | exact ⟨rfl, rfl, rfl⟩ | (simp only [RewardSt.setHolder]; exact ⟨rfl, rfl, rfl⟩)

/-- a message handled while the wiring is in place, sent by anyone who is none of the three owners or
    nominees, leaves the wiring in place -/
theorem handle_wired (s s' : Sys) (m : Msg) (ms : List Msg) (w : Wired s) (hwf : s.bsei.WF)
    (hx : s.handle m = .ok (s', ms))
    (hsender : ∀ a b c d, m = .wasm a b c d →
      a ≠ s.hub.creator ∧ a ≠ s.hub.newOwner ∧ a ≠ s.disp.owner ∧ a ≠ s.disp.newOwner ∧
      a ≠ s.reward.owner ∧ a ≠ s.reward.newOwner) : Wired s' := by
  cases handle_touch s s' m ms hx with
  | none h _ _ _ => exact w.of_same h
  | hub s1 sender funds hm heq h1 _ hc hx' b t r d g =>
    have hs := hsender _ _ _ _ heq
    rcases hubExec_config _ _ _ _ _ _ _ hx' with c | c | c
    · exact ⟨by rw [b]; exact w.tokHub, by rw [c.dispatcher]; exact w.hubDisp, by rw [d]; exact w.dispRw,
        by rw [r]; exact w.rwHub, by rw [c.bsei]; exact w.hubTok, by rw [c.creator]; exact w.hubOwner,
        by rw [c.newOwner]; exact w.hubNominee, by rw [d]; exact w.dispOwner, by rw [d]; exact w.dispNominee,
        by rw [r]; exact w.rwOwner, by rw [r]; exact w.rwNominee⟩
    · exact absurd c hs.1
    · exact absurd c hs.2.1
  | bsei s1 sender funds tm heq h1 hx' h t r d g =>
    have hub' : s'.bsei.hub = s.bsei.hub := (C18_bsei_step _ _ _ _ _ _ _ _ _ hwf hx').2.2.2
    exact ⟨by rw [hub']; exact w.tokHub, by rw [h]; exact w.hubDisp, by rw [d]; exact w.dispRw,
      by rw [r]; exact w.rwHub, by rw [h]; exact w.hubTok, by rw [h]; exact w.hubOwner,
      by rw [h]; exact w.hubNominee, by rw [d]; exact w.dispOwner, by rw [d]; exact w.dispNominee,
      by rw [r]; exact w.rwOwner, by rw [r]; exact w.rwNominee⟩
  | stsei blk sender funds tm heq hx' h b r d g =>
    exact ⟨by rw [b]; exact w.tokHub, by rw [h]; exact w.hubDisp, by rw [d]; exact w.dispRw,
      by rw [r]; exact w.rwHub, by rw [h]; exact w.hubTok, by rw [h]; exact w.hubOwner,
      by rw [h]; exact w.hubNominee, by rw [d]; exact w.dispOwner, by rw [d]; exact w.dispNominee,
      by rw [r]; exact w.rwOwner, by rw [r]; exact w.rwNominee⟩
  | reward s1 sender funds rm heq h1 _ _ hx' h b t d g =>
    have hs := hsender _ _ _ _ heq
    rcases rewardExec_config _ _ _ _ _ _ _ _ _ hx' with c | c | c
    · exact ⟨by rw [b]; exact w.tokHub, by rw [h]; exact w.hubDisp, by rw [d]; exact w.dispRw,
        by rw [c.1]; exact w.rwHub, by rw [h]; exact w.hubTok, by rw [h]; exact w.hubOwner,
        by rw [h]; exact w.hubNominee, by rw [d]; exact w.dispOwner, by rw [d]; exact w.dispNominee,
        by rw [c.2.1]; exact w.rwOwner, by rw [c.2.2]; exact w.rwNominee⟩
    · exact absurd c hs.2.2.2.2.1
    · exact absurd c hs.2.2.2.2.2
  | disp env sender funds dm heq _ _ hx' h b t r g =>
    have hs := hsender _ _ _ _ heq
    rcases dispExec_config _ _ _ _ _ _ _ hx' with c | c | c
    · exact ⟨by rw [b]; exact w.tokHub, by rw [h]; exact w.hubDisp, by rw [c.1]; exact w.dispRw,
        by rw [r]; exact w.rwHub, by rw [h]; exact w.hubTok, by rw [h]; exact w.hubOwner,
        by rw [h]; exact w.hubNominee, by rw [c.2.1]; exact w.dispOwner, by rw [c.2.2]; exact w.dispNominee,
        by rw [r]; exact w.rwOwner, by rw [r]; exact w.rwNominee⟩
    · exact absurd c hs.2.2.1
    · exact absurd c hs.2.2.2.1
  | reg s1 sender funds rm heq h1 _ _ hx' h b t r d =>
    exact ⟨by rw [b]; exact w.tokHub, by rw [h]; exact w.hubDisp, by rw [d]; exact w.dispRw,
      by rw [r]; exact w.rwHub, by rw [h]; exact w.hubTok, by rw [h]; exact w.hubOwner,
      by rw [h]; exact w.hubNominee, by rw [d]; exact w.dispOwner, by rw [d]; exact w.dispNominee,
      by rw [r]; exact w.rwOwner, by rw [r]; exact w.rwNominee⟩

end Krp
