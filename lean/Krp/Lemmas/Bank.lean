/-
  Bank.lean — who can lower an account's bank balance: only a message sent from that account
  (a bank transfer out of it, funds attached to a call it makes, or — for the hub — a delegation),
  and then by at most what the message names.
-/
import Krp.Lemmas.Reach
namespace Krp
open Sys

/-- coins of denom `d` attached to a call -/
def fundsOf (d : Denom) (l : List (Denom × Nat)) : Nat := ((l.filter (fun c => c.1 = d)).map (·.2)).sum

theorem fundsOf_cons (d : Denom) (c : Denom × Nat) (l : List (Denom × Nat)) :
    fundsOf d (c :: l) = (if c.1 = d then c.2 else 0) + fundsOf d l := by
  unfold fundsOf
  simp only [List.filter_cons]
  split <;> simp_all

theorem bankMove_bank (s s' : Sys) (src dst : Addr) (d : Denom) (amt : Nat)
    (hx : s.bankMove src dst d amt = .ok s') (a : Addr) (d' : Denom) :
    s'.chain.bank a d' + (if a = src ∧ d' = d then amt else 0) ≥ s.chain.bank a d' := by
  unfold Sys.bankMove at hx
  exc_split at hx
  rename_i hz hge
  simp only [Sys.setBank, upd]
  by_cases h1 : a = dst <;> by_cases h2 : a = src <;> by_cases h3 : d' = d <;> simp_all <;> omega

theorem moveFunds_bank (src dst : Addr) : ∀ (l : List (Denom × Nat)) (s s' : Sys),
    s.moveFunds src dst l = .ok s' → ∀ (a : Addr) (d : Denom),
    s'.chain.bank a d + (if a = src then fundsOf d l else 0) ≥ s.chain.bank a d := by
  intro l
  induction l with
  | nil => intro s s' hx a d; simp only [Sys.moveFunds] at hx; cases hx; omega
  | cons c rest ih =>
    intro s s' hx a d
    obtain ⟨dn, amt⟩ := c
    simp only [Sys.moveFunds] at hx
    split at hx
    · cases hx
    · rename_i s1 h1
      have b1 := bankMove_bank s s1 src dst dn amt h1 a d
      have b2 := ih s1 s' hx a d
      rw [fundsOf_cons]
      by_cases ha : a = src
      · simp only [ha, true_and, if_true] at b1 b2 ⊢
        by_cases hd : d = dn
        · subst hd; simp only [if_true] at b1 ⊢; omega
        · have : ¬ dn = d := fun h => hd h.symm
          simp only [hd, this, if_false] at b1 ⊢; omega
      · simp only [ha, false_and, if_false] at b1 b2 ⊢; omega

/-- the chain part of a contract call: funds move, the contract's handler does not touch the chain -/
theorem handle_wasm_chain_eq (s s' : Sys) (a b : Addr) (c : Call) (d : List (Denom × Nat)) (ms : List Msg)
    (hx : s.handle (.wasm a b c d) = .ok (s', ms)) :
    ∃ s1, s.moveFunds a b d = .ok s1 ∧ s'.chain = s1.chain := by
  simp only [Sys.handle] at hx
  exc_norm at hx
  split at hx
  · cases hx
  · rename_i s1 h1
    refine ⟨s1, h1, ?_⟩
    exc_split at hx
    all_goals rfl

/-- **Nobody else can take your coins.** Handling a message never lowers the bank balance of an
    account other than the message's sender. -/
theorem handle_bank_ge (s s' : Sys) (m : Msg) (ms : List Msg) (hx : s.handle m = .ok (s', ms))
    (a : Addr) (d : Denom) (hne : m.sentFrom ≠ a) : s'.chain.bank a d ≥ s.chain.bank a d := by
  cases m with
  | bankSend src dst dn amt =>
    simp only [Sys.handle] at hx
    exc_norm at hx
    split at hx
    · cases hx
    · rename_i s1 h1
      have b := bankMove_bank s s1 src dst dn amt h1 a d
      cases hx
      have : ¬ a = src := fun h => hne h.symm
      simp only [this, false_and, if_false] at b; omega
  | delegate who v amt =>
    simp only [Sys.handle] at hx
    exc_norm at hx
    exc_split at hx
    have : a ≠ who := fun h => hne h.symm
    simp [Sys.setBank, upd, this]
  | undelegate who v amt =>
    simp only [Sys.handle] at hx; exc_norm at hx; exc_split at hx; exact Nat.le_refl _
  | redelegate who src dst amt =>
    simp only [Sys.handle] at hx; exc_norm at hx; exc_split at hx; exact Nat.le_refl _
  | withdrawReward who v =>
    simp only [Sys.handle] at hx
    exc_norm at hx
    exc_split at hx
    simp only [List.foldl, Sys.setBank]
    by_cases h : a = s.chain.withdrawAddr
    · subst h
      simp only [upd_same]
      by_cases h0 : d = 0 <;> by_cases h1 : d = 1 <;> by_cases h2 : d = 2 <;> simp [upd, *] <;> omega
    · simp [upd, h]
  | setWithdrawAddr who x =>
    simp only [Sys.handle] at hx; exc_norm at hx; exc_split at hx; exact Nat.le_refl _
  | wasm sender target call funds =>
    obtain ⟨s1, h1, hc⟩ := handle_wasm_chain_eq s s' _ _ _ _ ms hx
    have b := moveFunds_bank sender target funds s s1 h1 a d
    have : ¬ a = sender := fun h => hne h.symm
    simp only [this, if_false] at b
    rw [hc]; omega

/-- what the sender itself can lose: at most what the message names -/
theorem handle_bank_out (s s' : Sys) (m : Msg) (ms : List Msg) (hx : s.handle m = .ok (s', ms))
    (a : Addr) (d : Denom) :
    (∀ dst amt, m = .bankSend a dst d amt → s'.chain.bank a d + amt ≥ s.chain.bank a d) ∧
    (∀ dst d' amt, m = .bankSend a dst d' amt → d' ≠ d → s'.chain.bank a d ≥ s.chain.bank a d) ∧
    (∀ t c f, m = .wasm a t c f → s'.chain.bank a d + fundsOf d f ≥ s.chain.bank a d) := by
  refine ⟨fun dst amt hm => ?_, fun dst d' amt hm hd => ?_, fun t c f hm => ?_⟩
  · subst hm
    simp only [Sys.handle] at hx
    exc_norm at hx
    split at hx
    · cases hx
    · rename_i s1 h1
      have b := bankMove_bank s s1 a dst d amt h1 a d
      cases hx
      simpa using b
  · subst hm
    simp only [Sys.handle] at hx
    exc_norm at hx
    split at hx
    · cases hx
    · rename_i s1 h1
      have b := bankMove_bank s s1 a dst d' amt h1 a d
      cases hx
      have : ¬ d = d' := fun h => hd h.symm
      simp only [this, and_false, if_false] at b; omega
  · subst hm
    obtain ⟨s1, h1, hc⟩ := handle_wasm_chain_eq s s' _ _ _ _ ms hx
    have b := moveFunds_bank a t f s s1 h1 a d
    simp only [if_true] at b
    rw [hc]; omega

/-- funds attached to a call arrive in full on the callee's account -/
theorem moveFunds_bank_in (src dst : Addr) (hne : src ≠ dst) : ∀ (l : List (Denom × Nat)) (s s' : Sys),
    s.moveFunds src dst l = .ok s' → ∀ (d : Denom), s'.chain.bank dst d ≥ s.chain.bank dst d + fundsOf d l := by
  intro l
  induction l with
  | nil => intro s s' hx d; simp only [Sys.moveFunds] at hx; cases hx; simp [fundsOf]
  | cons c rest ih =>
    intro s s' hx d
    obtain ⟨dn, amt⟩ := c
    simp only [Sys.moveFunds] at hx
    split at hx
    · cases hx
    · rename_i s1 h1
      have b2 := ih s1 s' hx d
      rw [fundsOf_cons]
      have b1 : s1.chain.bank dst d ≥ s.chain.bank dst d + (if dn = d then amt else 0) := by
        unfold Sys.bankMove at h1
        exc_split at h1
        simp only [Sys.setBank, upd]
        have h2 : ¬ dst = src := fun h => hne h.symm
        by_cases h3 : d = dn
        · subst h3; simp [h2]
        · have : ¬ dn = d := fun h => h3 h.symm
          simp [h2, h3, this]
      simp only [] at b1 ⊢
      omega

theorem moveFunds_wa (src dst : Addr) : ∀ (l : List (Denom × Nat)) (s s' : Sys),
    s.moveFunds src dst l = .ok s' → s'.chain.withdrawAddr = s.chain.withdrawAddr := by
  intro l
  induction l with
  | nil => intro s s' hx; simp only [Sys.moveFunds] at hx; cases hx; rfl
  | cons c rest ih =>
    intro s s' hx
    obtain ⟨d, amt⟩ := c
    simp only [Sys.moveFunds] at hx
    split at hx
    · cases hx
    · rename_i s1 h1
      have := ih s1 s' hx
      unfold Sys.bankMove at h1
      exc_split at h1
      exact this

/-- only SetWithdrawAddress changes the withdraw address -/
theorem handle_withdrawAddr (s s' : Sys) (m : Msg) (ms : List Msg) (hx : s.handle m = .ok (s', ms))
    (hm : ∀ d a, m ≠ .setWithdrawAddr d a) : s'.chain.withdrawAddr = s.chain.withdrawAddr := by
  cases m with
  | setWithdrawAddr d a => exact absurd rfl (hm d a)
  | bankSend src dst d amt =>
    simp only [Sys.handle] at hx; exc_norm at hx
    split at hx
    · cases hx
    · rename_i s1 h1
      unfold Sys.bankMove at h1
      exc_split at h1
      cases hx; rfl
  | delegate who v amt => simp only [Sys.handle] at hx; exc_norm at hx; exc_split at hx; rfl
  | undelegate who v amt => simp only [Sys.handle] at hx; exc_norm at hx; exc_split at hx; rfl
  | redelegate who a b amt => simp only [Sys.handle] at hx; exc_norm at hx; exc_split at hx; rfl
  | withdrawReward who v => simp only [Sys.handle] at hx; exc_norm at hx; exc_split at hx; rfl
  | wasm a b c d =>
    obtain ⟨s1, h1, hc⟩ := handle_wasm_chain_eq s s' _ _ _ _ ms hx
    rw [hc]; exact moveFunds_wa a b d s s1 h1

/-- what a call of a stub can emit: the swap contract pays the proceeds to the named recipient (the
    caller when none is named); the sink emits nothing -/
theorem stub_payout (s s' : Sys) (a b : Addr) (sd : Denom) (am : Nat) (dd : Denom) (to : Option Addr)
    (f : List (Denom × Nat)) (ms : List Msg) (hb : b = swapA ∨ b = sinkA)
    (hx : s.handle (.wasm a b (.swapDenom sd am dd to) f) = .ok (s', ms)) :
    ∀ x ∈ ms, ∃ out, x = Msg.bankSend swapA (to.getD a) dd out := by
  simp only [Sys.handle] at hx
  exc_norm at hx
  split at hx
  · cases hx
  · rcases hb with hb | hb <;> subst hb
    · rw [if_neg (by decide), if_neg (by decide), if_neg (by decide), if_neg (by decide), if_neg (by decide),
        if_neg (by decide), if_pos rfl] at hx
      exc_split at hx
      · intro x hx'; cases hx'
      · intro x hx'
        simp only [List.mem_cons, List.mem_nil_iff, or_false] at hx'
        subst hx'
        cases to <;> exact ⟨_, rfl⟩
    · rw [if_neg (by decide), if_neg (by decide), if_neg (by decide), if_neg (by decide), if_neg (by decide),
        if_neg (by decide), if_neg (by decide), if_pos rfl] at hx
      cases hx
      intro x hx'; cases hx'

/-- a bank transfer leaves every third account alone -/
theorem bankMove_other (s s' : Sys) (src dst : Addr) (d : Denom) (amt : Nat)
    (hx : s.bankMove src dst d amt = .ok s') (a : Addr) (h1 : a ≠ src) (h2 : a ≠ dst) (d' : Denom) :
    s'.chain.bank a d' = s.chain.bank a d' := by
  unfold Sys.bankMove at hx
  exc_split at hx
  simp [Sys.setBank, upd, h1, h2]

theorem moveFunds_other (src dst : Addr) : ∀ (l : List (Denom × Nat)) (s s' : Sys),
    s.moveFunds src dst l = .ok s' → ∀ (a : Addr), a ≠ src → a ≠ dst → ∀ d, s'.chain.bank a d = s.chain.bank a d := by
  intro l
  induction l with
  | nil => intro s s' hx a _ _ d; simp only [Sys.moveFunds] at hx; cases hx; rfl
  | cons c rest ih =>
    intro s s' hx a h1 h2 d
    obtain ⟨dn, amt⟩ := c
    simp only [Sys.moveFunds] at hx
    split at hx
    · cases hx
    · rename_i s1 hm
      rw [ih s1 s' hx a h1 h2 d, bankMove_other s s1 src dst dn amt hm a h1 h2 d]

/-- funds attached to a call arrive exactly -/
theorem moveFunds_in_eq (src dst : Addr) (hne : src ≠ dst) : ∀ (l : List (Denom × Nat)) (s s' : Sys),
    s.moveFunds src dst l = .ok s' → ∀ (d : Denom), s'.chain.bank dst d = s.chain.bank dst d + fundsOf d l := by
  intro l
  induction l with
  | nil => intro s s' hx d; simp only [Sys.moveFunds] at hx; cases hx; simp [fundsOf]
  | cons c rest ih =>
    intro s s' hx d
    obtain ⟨dn, amt⟩ := c
    simp only [Sys.moveFunds] at hx
    split at hx
    · cases hx
    · rename_i s1 h1
      have b2 := ih s1 s' hx d
      rw [fundsOf_cons]
      have b1 : s1.chain.bank dst d = s.chain.bank dst d + (if dn = d then amt else 0) := by
        unfold Sys.bankMove at h1
        exc_split at h1
        simp only [Sys.setBank, upd]
        have h2 : ¬ dst = src := fun h => hne h.symm
        by_cases h3 : d = dn
        · subst h3; simp [h2]
        · have : ¬ dn = d := fun h => h3 h.symm
          simp [h2, h3, this]
      simp only [] at b1 ⊢
      omega

theorem moveFunds_pending (src dst : Addr) : ∀ (l : List (Denom × Nat)) (s s' : Sys),
    s.moveFunds src dst l = .ok s' → s'.chain.pending = s.chain.pending := by
  intro l
  induction l with
  | nil => intro s s' hx; simp only [Sys.moveFunds] at hx; cases hx; rfl
  | cons c rest ih =>
    intro s s' hx
    obtain ⟨d, amt⟩ := c
    simp only [Sys.moveFunds] at hx
    split at hx
    · cases hx
    · rename_i s1 h1
      have := ih s1 s' hx
      unfold Sys.bankMove at h1
      exc_split at h1
      exact this

/-- only WithdrawDelegatorReward touches pending rewards -/
theorem handle_pending (s s' : Sys) (m : Msg) (ms : List Msg) (hx : s.handle m = .ok (s', ms))
    (hm : ∀ d v, m ≠ .withdrawReward d v) : s'.chain.pending = s.chain.pending := by
  cases m with
  | withdrawReward d v => exact absurd rfl (hm d v)
  | bankSend src dst d amt =>
    simp only [Sys.handle] at hx; exc_norm at hx
    split at hx
    · cases hx
    · rename_i s1 h1
      unfold Sys.bankMove at h1
      exc_split at h1
      cases hx; rfl
  | delegate who v amt => simp only [Sys.handle] at hx; exc_norm at hx; exc_split at hx; rfl
  | undelegate who v amt => simp only [Sys.handle] at hx; exc_norm at hx; exc_split at hx; rfl
  | redelegate who a b amt => simp only [Sys.handle] at hx; exc_norm at hx; exc_split at hx; rfl
  | setWithdrawAddr who a => simp only [Sys.handle] at hx; exc_norm at hx; exc_split at hx; rfl
  | wasm a b c d =>
    obtain ⟨s1, h1, hc⟩ := handle_wasm_chain_eq s s' _ _ _ _ ms hx
    rw [hc]; exact moveFunds_pending a b d s s1 h1

/-- funds attached to a call leave the caller's account exactly -/
theorem moveFunds_out_eq (src dst : Addr) (hne : src ≠ dst) : ∀ (l : List (Denom × Nat)) (s s' : Sys),
    s.moveFunds src dst l = .ok s' → ∀ (d : Denom), s'.chain.bank src d + fundsOf d l = s.chain.bank src d := by
  intro l
  induction l with
  | nil => intro s s' hx d; simp only [Sys.moveFunds] at hx; cases hx; simp [fundsOf]
  | cons c rest ih =>
    intro s s' hx d
    obtain ⟨dn, amt⟩ := c
    simp only [Sys.moveFunds] at hx
    split at hx
    · cases hx
    · rename_i s1 h1
      have b2 := ih s1 s' hx d
      rw [fundsOf_cons]
      have b1 : s1.chain.bank src d + (if dn = d then amt else 0) = s.chain.bank src d := by
        unfold Sys.bankMove at h1
        exc_split at h1
        rename_i hz hge
        simp only [Sys.setBank, upd]
        by_cases h3 : d = dn
        · subst h3; simp [hne]; omega
        · have : ¬ dn = d := fun h => h3 h.symm
          simp [hne, h3, this]
      simp only [] at b1 ⊢
      omega

/-- a bank transfer to somebody else takes exactly the amount from the sender -/
theorem bankMove_src (s s' : Sys) (src dst : Addr) (d : Denom) (amt : Nat) (hne : src ≠ dst)
    (hx : s.bankMove src dst d amt = .ok s') :
    s'.chain.bank src d + amt = s.chain.bank src d ∧ ∀ d', d' ≠ d → s'.chain.bank src d' = s.chain.bank src d' := by
  unfold Sys.bankMove at hx
  exc_split at hx
  rename_i hz hge
  refine ⟨?_, fun d' hd => ?_⟩
  · simp [Sys.setBank, upd, hne]; omega
  · simp [Sys.setBank, upd, hne, hd]

end Krp
