/-
  Reach.lean — from handler steps to every reachable state of the composed system.

  A history is a list of `Step`s: top-level messages (executed atomically by `Sys.exec`, with all
  the sub-messages they cause, depth first) and environment events (`Sys.env`).  `steps_inv` lifts
  any predicate that every single message handling and every environment event preserve to all
  histories of any length; `handle_*` say what one message can do to each contract's state: nothing,
  or exactly one call of that contract's `…Exec` function on its current state.
-/
import Krp.System
import Krp.Lemmas.Tactics
namespace Krp
open Sys

/-- one step of a history -/
inductive Step where
  | tx (m : Msg)
  | env (e : EnvOp)

def Sys.step (s : Sys) : Step → Sys
  | .tx m => (s.exec m).1
  | .env e => s.env e

def Sys.steps (s : Sys) (l : List Step) : Sys := l.foldl Sys.step s

/-- the queue executor preserves whatever every single message handling preserves -/
theorem run_inv (P : Sys → Prop)
    (hh : ∀ s m s' ms, P s → s.handle m = .ok (s', ms) → P s') :
    ∀ (fuel : Nat) (s : Sys) (q : List Msg) (s' : Sys), P s → Sys.run fuel s q = .ok s' → P s' := by
  intro fuel
  induction fuel with
  | zero =>
    intro s q s' hp hx
    cases q with
    | nil => simp only [Sys.run] at hx; cases hx; exact hp
    | cons m rest => simp only [Sys.run] at hx; cases hx
  | succ n ih =>
    intro s q s' hp hx
    cases q with
    | nil => simp only [Sys.run] at hx; cases hx; exact hp
    | cons m rest =>
      simp only [Sys.run] at hx
      split at hx
      · cases hx
      · rename_i s1 subs h1
        exact ih s1 _ s' (hh s m s1 subs hp h1) hx

/-- a transaction is all or nothing, so it preserves it too -/
theorem exec_inv (P : Sys → Prop)
    (hh : ∀ s m s' ms, P s → s.handle m = .ok (s', ms) → P s') (s : Sys) (m : Msg) (hp : P s) :
    P (s.exec m).1 := by
  unfold Sys.exec
  split
  · rename_i s' h1; exact run_inv P hh 400 s [m] s' hp h1
  · exact hp

/-- … and so does every history -/
theorem steps_inv (P : Sys → Prop)
    (hh : ∀ s m s' ms, P s → s.handle m = .ok (s', ms) → P s')
    (he : ∀ s e, P s → P (s.env e)) :
    ∀ (l : List Step) (s : Sys), P s → P (s.steps l) := by
  intro l
  induction l with
  | nil => intro s hp; exact hp
  | cons st rest ih =>
    intro s hp
    show P ((s.step st).steps rest)
    apply ih
    cases st with
    | tx m => exact exec_inv P hh s m hp
    | env e => exact he s e hp

/-- a failed transaction changes nothing; a transaction whose top-level handler fails, fails -/
theorem exec_top_fails (s : Sys) (m : Msg) (e : String) (hx : s.handle m = .error e) :
    s.exec m = (s, .error e) := by
  unfold Sys.exec
  simp only [Sys.run, hx]

/-! ### what one message does to the contract states -/

structure SameContracts (s s' : Sys) : Prop where
  hub : s'.hub = s.hub
  bsei : s'.bsei = s.bsei
  stsei : s'.stsei = s.stsei
  reward : s'.reward = s.reward
  disp : s'.disp = s.disp
  reg : s'.reg = s.reg

theorem SameContracts.refl (s : Sys) : SameContracts s s := ⟨rfl, rfl, rfl, rfl, rfl, rfl⟩
theorem SameContracts.trans {a b c : Sys} (x : SameContracts a b) (y : SameContracts b c) : SameContracts a c :=
  ⟨y.hub.trans x.hub, y.bsei.trans x.bsei, y.stsei.trans x.stsei, y.reward.trans x.reward,
   y.disp.trans x.disp, y.reg.trans x.reg⟩

theorem setBank_same (s : Sys) (a : Addr) (d : Denom) (v : Nat) : SameContracts s (s.setBank a d v) :=
  ⟨rfl, rfl, rfl, rfl, rfl, rfl⟩

theorem bankMove_same (s s' : Sys) (src dst : Addr) (d : Denom) (amt : Nat)
    (hx : s.bankMove src dst d amt = .ok s') : SameContracts s s' := by
  unfold Sys.bankMove at hx
  exc_split at hx
  exact ⟨rfl, rfl, rfl, rfl, rfl, rfl⟩

theorem moveFunds_same (src dst : Addr) : ∀ (l : List (Denom × Nat)) (s s' : Sys),
    s.moveFunds src dst l = .ok s' → SameContracts s s' := by
  intro l
  induction l with
  | nil => intro s s' hx; simp only [Sys.moveFunds] at hx; cases hx; exact SameContracts.refl _
  | cons c rest ih =>
    intro s s' hx
    obtain ⟨d, amt⟩ := c
    simp only [Sys.moveFunds] at hx
    split at hx
    · cases hx
    · rename_i s1 h1
      exact (bankMove_same s s1 src dst d amt h1).trans (ih s1 s' hx)

/-- Environment events never touch a contract's state, except the test-only seeding of a legacy
    wait-list entry (which models storage written by the pre-migration hub). -/
theorem env_same (s : Sys) (e : EnvOp) (hl : ∀ u b a, e ≠ .seedLegacy u b a) : SameContracts s (s.env e) := by
  cases e with
  | seedLegacy u b a => exact absurd rfl (hl u b a)
  | slash v n d => simp only [Sys.env]; split <;> exact ⟨rfl, rfl, rfl, rfl, rfl, rfl⟩
  | slashUnbonding v n d => simp only [Sys.env]; split <;> exact ⟨rfl, rfl, rfl, rfl, rfl, rfl⟩
  | _ => exact ⟨rfl, rfl, rfl, rfl, rfl, rfl⟩

/-- the six ways a message can touch a contract: each is one call of that contract's executor on
    its current state (after the attached funds moved), everything else untouched -/
inductive Touch (s s' : Sys) (ms : List Msg) : Prop where
  | none (h : SameContracts s s')
  | hub (e : HubEnv) (sender : Addr) (funds : List (Denom × Nat)) (m : HubMsg)
      (hx : hubExec s.hub e sender funds m = .ok (s'.hub, ms))
      (b : s'.bsei = s.bsei) (t : s'.stsei = s.stsei) (r : s'.reward = s.reward) (d : s'.disp = s.disp) (g : s'.reg = s.reg)
  | bsei (blk : Block) (rw : Res Addr) (sender : Addr) (m : TokMsg)
      (hx : bseiExec s.bsei blk bseiA rw hubA sender m = .ok (s'.bsei, ms))
      (h : s'.hub = s.hub) (t : s'.stsei = s.stsei) (r : s'.reward = s.reward) (d : s'.disp = s.disp) (g : s'.reg = s.reg)
  | stsei (blk : Block) (sender : Addr) (m : TokMsg)
      (hx : stseiExec s.stsei blk stseiA hubA sender m = .ok (s'.stsei, ms))
      (h : s'.hub = s.hub) (b : s'.bsei = s.bsei) (r : s'.reward = s.reward) (d : s'.disp = s.disp) (g : s'.reg = s.reg)
  | reward (tok disp : Res Addr) (bal : Denom → Nat) (sender : Addr) (m : RewMsg)
      (hx : rewardExec s.reward rewardA tok disp bal sender m = .ok (s'.reward, ms))
      (h : s'.hub = s.hub) (b : s'.bsei = s.bsei) (t : s'.stsei = s.stsei) (d : s'.disp = s.disp) (g : s'.reg = s.reg)
  | disp (env : DispEnv) (sender : Addr) (m : DispMsg)
      (hx : dispExec s.disp dispA env sender m = .ok (s'.disp, ms))
      (h : s'.hub = s.hub) (b : s'.bsei = s.bsei) (t : s'.stsei = s.stsei) (r : s'.reward = s.reward) (g : s'.reg = s.reg)
  | reg (s1 : Sys) (sender : Addr) (m : RegMsg) (h1 : s1.reg = s.reg)
      (hx : s1.regExec sender m = .ok (s'.reg, ms))
      (h : s'.hub = s.hub) (b : s'.bsei = s.bsei) (t : s'.stsei = s.stsei) (r : s'.reward = s.reward) (d : s'.disp = s.disp)

theorem handle_touch (s s' : Sys) (m : Msg) (ms : List Msg) (hx : s.handle m = .ok (s', ms)) :
    Touch s s' ms := by
  cases m with
  | bankSend src dst d amt =>
    simp only [Sys.handle] at hx
    exc_norm at hx
    split at hx
    · cases hx
    · rename_i s1 h1
      have b := bankMove_same s s1 src dst d amt h1
      cases hx
      exact .none b
  | delegate who v amt =>
    simp only [Sys.handle] at hx
    exc_norm at hx
    exc_split at hx
    exact .none ⟨rfl, rfl, rfl, rfl, rfl, rfl⟩
  | undelegate who v amt =>
    simp only [Sys.handle] at hx
    exc_norm at hx
    exc_split at hx
    exact .none ⟨rfl, rfl, rfl, rfl, rfl, rfl⟩
  | redelegate who src dst amt =>
    simp only [Sys.handle] at hx
    exc_norm at hx
    exc_split at hx
    exact .none ⟨rfl, rfl, rfl, rfl, rfl, rfl⟩
  | withdrawReward who v =>
    simp only [Sys.handle] at hx
    exc_norm at hx
    exc_split at hx
    exact .none ⟨rfl, rfl, rfl, rfl, rfl, rfl⟩
  | setWithdrawAddr who a =>
    simp only [Sys.handle] at hx
    exc_norm at hx
    exc_split at hx
    exact .none ⟨rfl, rfl, rfl, rfl, rfl, rfl⟩
  | wasm sender target call funds =>
    simp only [Sys.handle] at hx
    exc_norm at hx
    split at hx
    · cases hx
    · rename_i s1 h1
      have sc := moveFunds_same sender target funds s s1 h1
      by_cases t1 : target = hubA
      · simp only [t1, if_true] at hx
        split at hx
        · rename_i hm
          split at hx
          · cases hx
          · rename_i r hr
            cases hx
            refine .hub s1.hubEnv sender funds hm ?_ sc.bsei sc.stsei sc.reward sc.disp sc.reg
            rw [← sc.hub]; exact hr
        · cases hx
      · simp only [t1, if_false] at hx
        by_cases t2 : target = bseiA
        · simp only [t2, if_true] at hx
          split at hx
          · rename_i tm
            split at hx
            · cases hx
            · rename_i r hr
              cases hx
              refine .bsei s1.block s1.bseiRewardAddr sender tm ?_ sc.hub sc.stsei sc.reward sc.disp sc.reg
              rw [← sc.bsei]; exact hr
          · cases hx
        · simp only [t2, if_false] at hx
          by_cases t3 : target = stseiA
          · simp only [t3, if_true] at hx
            split at hx
            · rename_i tm
              split at hx
              · cases hx
              · rename_i r hr
                cases hx
                refine .stsei s1.block sender tm ?_ sc.hub sc.bsei sc.reward sc.disp sc.reg
                rw [← sc.stsei]; exact hr
            · cases hx
          · simp only [t3, if_false] at hx
            by_cases t4 : target = rewardA
            · simp only [t4, if_true] at hx
              split at hx
              · rename_i rm
                split at hx
                · cases hx
                · rename_i r hr
                  cases hx
                  refine .reward (s1.hubTokenOf s1.reward.hub) (s1.hubDispatcherOf s1.reward.hub) (s1.chain.bank rewardA) sender rm ?_ sc.hub sc.bsei sc.stsei sc.disp sc.reg
                  rw [← sc.reward]; exact hr
              · cases hx
            · simp only [t4, if_false] at hx
              by_cases t5 : target = dispA
              · simp only [t5, if_true] at hx
                split at hx
                · rename_i dm
                  split at hx
                  · cases hx
                  · rename_i r hr
                    cases hx
                    refine .disp s1.dispEnv sender dm ?_ sc.hub sc.bsei sc.stsei sc.reward sc.reg
                    rw [← sc.disp]; exact hr
                · cases hx
              · simp only [t5, if_false] at hx
                by_cases t6 : target = regA
                · simp only [t6, if_true] at hx
                  split at hx
                  · rename_i rm
                    split at hx
                    · cases hx
                    · rename_i r hr
                      cases hx
                      exact .reg s1 sender rm sc.reg hr sc.hub sc.bsei sc.stsei sc.reward sc.disp
                  · cases hx
                · simp only [t6, if_false] at hx
                  by_cases t7 : target = swapA
                  · simp only [t7, if_true] at hx
                    exc_split at hx
                    all_goals exact .none sc
                  · simp only [t7, if_false] at hx
                    exc_split at hx
                    exact .none sc

end Krp
