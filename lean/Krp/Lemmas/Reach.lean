/-
  Reach.lean — from handler steps to every reachable state of the composed system.

  A history is a list of `Step`s: top-level messages (executed atomically by `Sys.exec`, with all
  the sub-messages they cause, depth first) and environment events (`Sys.env`).  `steps_inv` lifts
  any predicate that every single message handling and every environment event preserve to all
  histories of any length; `handle_*` say what one message can do to each contract's state: nothing,
  or exactly one call of that contract's `…Exec` function on its current state.
-/
import Krp.System
import Krp.Lemmas.Tactics
import Krp.Lemmas.Emit
namespace Krp
open Sys

/-- one step of a history -/
inductive Step where
  | tx (m : Msg)
  | env (e : EnvOp)

def Sys.step (s : Sys) : Step → Sys
  | .tx m => (s.exec m).1
  | .env e => s.env e

def Sys.steps (s : Sys) (l : List Step) : Sys := l.foldl Sys.step s

/-- the queue executor preserves whatever every single message handling preserves -/
theorem run_inv (P : Sys → Prop)
    (hh : ∀ s m s' ms, P s → s.handle m = .ok (s', ms) → P s') :
    ∀ (fuel : Nat) (s : Sys) (q : List Msg) (s' : Sys), P s → Sys.run fuel s q = .ok s' → P s' := by
  intro fuel
  induction fuel with
  | zero =>
    intro s q s' hp hx
    cases q with
    | nil => simp only [Sys.run] at hx; cases hx; exact hp
    | cons m rest => simp only [Sys.run] at hx; cases hx
  | succ n ih =>
    intro s q s' hp hx
    cases q with
    | nil => simp only [Sys.run] at hx; cases hx; exact hp
    | cons m rest =>
      simp only [Sys.run] at hx
      split at hx
      · cases hx
      · rename_i s1 subs h1
        exact ih s1 _ s' (hh s m s1 subs hp h1) hx

/-- a transaction is all or nothing, so it preserves it too -/
theorem exec_inv (P : Sys → Prop)
    (hh : ∀ s m s' ms, P s → s.handle m = .ok (s', ms) → P s') (s : Sys) (m : Msg) (hp : P s) :
    P (s.exec m).1 := by
  unfold Sys.exec
  split
  · rename_i s' h1; exact run_inv P hh 400 s [m] s' hp h1
  · exact hp

/-- … and so does every history -/
theorem steps_inv (P : Sys → Prop)
    (hh : ∀ s m s' ms, P s → s.handle m = .ok (s', ms) → P s')
    (he : ∀ s e, P s → P (s.env e)) :
    ∀ (l : List Step) (s : Sys), P s → P (s.steps l) := by
  intro l
  induction l with
  | nil => intro s hp; exact hp
  | cons st rest ih =>
    intro s hp
    show P ((s.step st).steps rest)
    apply ih
    cases st with
    | tx m => exact exec_inv P hh s m hp
    | env e => exact he s e hp

/-- a failed transaction changes nothing; a transaction whose top-level handler fails, fails -/
theorem exec_top_fails (s : Sys) (m : Msg) (e : String) (hx : s.handle m = .error e) :
    s.exec m = (s, .error e) := by
  unfold Sys.exec
  simp only [Sys.run, hx]

/-! ### what one message does to the contract states -/

structure SameContracts (s s' : Sys) : Prop where
  hub : s'.hub = s.hub
  bsei : s'.bsei = s.bsei
  stsei : s'.stsei = s.stsei
  reward : s'.reward = s.reward
  disp : s'.disp = s.disp
  reg : s'.reg = s.reg

theorem SameContracts.refl (s : Sys) : SameContracts s s := ⟨rfl, rfl, rfl, rfl, rfl, rfl⟩
theorem SameContracts.trans {a b c : Sys} (x : SameContracts a b) (y : SameContracts b c) : SameContracts a c :=
  ⟨y.hub.trans x.hub, y.bsei.trans x.bsei, y.stsei.trans x.stsei, y.reward.trans x.reward,
   y.disp.trans x.disp, y.reg.trans x.reg⟩

theorem setBank_same (s : Sys) (a : Addr) (d : Denom) (v : Nat) : SameContracts s (s.setBank a d v) :=
  ⟨rfl, rfl, rfl, rfl, rfl, rfl⟩

theorem bankMove_same (s s' : Sys) (src dst : Addr) (d : Denom) (amt : Nat)
    (hx : s.bankMove src dst d amt = .ok s') : SameContracts s s' := by
  unfold Sys.bankMove at hx
  exc_split at hx
  exact ⟨rfl, rfl, rfl, rfl, rfl, rfl⟩

theorem moveFunds_same (src dst : Addr) : ∀ (l : List (Denom × Nat)) (s s' : Sys),
    s.moveFunds src dst l = .ok s' → SameContracts s s' := by
  intro l
  induction l with
  | nil => intro s s' hx; simp only [Sys.moveFunds] at hx; cases hx; exact SameContracts.refl _
  | cons c rest ih =>
    intro s s' hx
    obtain ⟨d, amt⟩ := c
    simp only [Sys.moveFunds] at hx
    split at hx
    · cases hx
    · rename_i s1 h1
      exact (bankMove_same s s1 src dst d amt h1).trans (ih s1 s' hx)

/-- moving attached funds changes bank balances only -/
theorem moveFunds_staking (src dst : Addr) : ∀ (l : List (Denom × Nat)) (s s' : Sys),
    s.moveFunds src dst l = .ok s' → s'.chain.deleg = s.chain.deleg ∧ s'.chain.delegSet = s.chain.delegSet := by
  intro l
  induction l with
  | nil => intro s s' hx; simp only [Sys.moveFunds] at hx; cases hx; exact ⟨rfl, rfl⟩
  | cons c rest ih =>
    intro s s' hx
    obtain ⟨d, amt⟩ := c
    simp only [Sys.moveFunds] at hx
    split at hx
    · cases hx
    · rename_i s1 h1
      have := ih s1 s' hx
      unfold Sys.bankMove at h1
      exc_split at h1
      exact this

/-- Environment events never touch a contract's state, except the test-only seeding of a legacy
    wait-list entry (which models storage written by the pre-migration hub). -/
theorem env_same (s : Sys) (e : EnvOp) (hl : ∀ u b a, e ≠ .seedLegacy u b a) : SameContracts s (s.env e) := by
  cases e with
  | seedLegacy u b a => exact absurd rfl (hl u b a)
  | slash v n d => simp only [Sys.env]; split <;> exact ⟨rfl, rfl, rfl, rfl, rfl, rfl⟩
  | slashUnbonding v n d => simp only [Sys.env]; split <;> exact ⟨rfl, rfl, rfl, rfl, rfl, rfl⟩
  | _ => exact ⟨rfl, rfl, rfl, rfl, rfl, rfl⟩

/-- the ways a message can touch the contracts: a chain-level message or a call of a stub touches
    none (and emits at most a payout from the swap stub); otherwise it is exactly one call of one
    contract's executor on its current state (after the attached funds moved), by the message's own
    sender, and everything it emits is sent by that contract -/
inductive Touch (s s' : Sys) (m : Msg) (ms : List Msg) : Prop where
  | none (h : SameContracts s s')
      (hm : (∀ a b c d, m ≠ .wasm a b c d) ∨ ∃ a b c d, m = .wasm a b c d ∧ (b = swapA ∨ b = sinkA))
      (hs : SentBy swapA ms) (hb : ∀ x ∈ ms, ∃ t d a, x = Msg.bankSend swapA t d a)
  | hub (s1 : Sys) (sender : Addr) (funds : List (Denom × Nat)) (hm : HubMsg)
      (heq : m = .wasm sender hubA (.hub hm) funds) (h1 : SameContracts s s1)
      (hmv : s.moveFunds sender hubA funds = .ok s1)
      (hc : s1.chain.deleg = s.chain.deleg ∧ s1.chain.delegSet = s.chain.delegSet ∧ s'.chain = s1.chain)
      (hx : hubExec s.hub s1.hubEnv sender funds hm = .ok (s'.hub, ms))
      (b : s'.bsei = s.bsei) (t : s'.stsei = s.stsei) (r : s'.reward = s.reward) (d : s'.disp = s.disp) (g : s'.reg = s.reg)
  | bsei (s1 : Sys) (sender : Addr) (funds : List (Denom × Nat)) (tm : TokMsg)
      (heq : m = .wasm sender bseiA (.tok tm) funds) (h1 : SameContracts s s1)
      (hx : bseiExec s.bsei s1.block bseiA s1.bseiRewardAddr hubA sender tm = .ok (s'.bsei, ms))
      (h : s'.hub = s.hub) (t : s'.stsei = s.stsei) (r : s'.reward = s.reward) (d : s'.disp = s.disp) (g : s'.reg = s.reg)
  | stsei (blk : Block) (sender : Addr) (funds : List (Denom × Nat)) (tm : TokMsg)
      (heq : m = .wasm sender stseiA (.tok tm) funds)
      (hx : stseiExec s.stsei blk stseiA hubA sender tm = .ok (s'.stsei, ms))
      (h : s'.hub = s.hub) (b : s'.bsei = s.bsei) (r : s'.reward = s.reward) (d : s'.disp = s.disp) (g : s'.reg = s.reg)
  | reward (s1 : Sys) (sender : Addr) (funds : List (Denom × Nat)) (rm : RewMsg)
      (heq : m = .wasm sender rewardA (.reward rm) funds) (h1 : SameContracts s s1)
      (hmv : s.moveFunds sender rewardA funds = .ok s1) (hch : s'.chain = s1.chain)
      (hx : rewardExec s.reward rewardA (s1.hubTokenOf s1.reward.hub) (s1.hubDispatcherOf s1.reward.hub)
              (s1.chain.bank rewardA) sender rm = .ok (s'.reward, ms))
      (h : s'.hub = s.hub) (b : s'.bsei = s.bsei) (t : s'.stsei = s.stsei) (d : s'.disp = s.disp) (g : s'.reg = s.reg)
  | disp (s1 : Sys) (sender : Addr) (funds : List (Denom × Nat)) (dm : DispMsg)
      (heq : m = .wasm sender dispA (.disp dm) funds)
      (hmv : s.moveFunds sender dispA funds = .ok s1) (hch : s'.chain = s1.chain)
      (hx : dispExec s.disp dispA s1.dispEnv sender dm = .ok (s'.disp, ms))
      (h : s'.hub = s.hub) (b : s'.bsei = s.bsei) (t : s'.stsei = s.stsei) (r : s'.reward = s.reward) (g : s'.reg = s.reg)
  | reg (s1 : Sys) (sender : Addr) (funds : List (Denom × Nat)) (rm : RegMsg)
      (heq : m = .wasm sender regA (.reg rm) funds) (h1 : s1.reg = s.reg)
      (hmv : s.moveFunds sender regA funds = .ok s1) (hch : s'.chain = s1.chain)
      (hx : s1.regExec sender rm = .ok (s'.reg, ms))
      (h : s'.hub = s.hub) (b : s'.bsei = s.bsei) (t : s'.stsei = s.stsei) (r : s'.reward = s.reward) (d : s'.disp = s.disp)

theorem handle_touch (s s' : Sys) (m : Msg) (ms : List Msg) (hx : s.handle m = .ok (s', ms)) :
    Touch s s' m ms := by
  have chainMsg : ∀ {m : Msg}, (∀ a b c d, m ≠ .wasm a b c d) →
      (∀ a b c d, m ≠ .wasm a b c d) ∨ ∃ a b c d, m = .wasm a b c d ∧ (b = swapA ∨ b = sinkA) := fun h => Or.inl h
  cases m with
  | bankSend src dst d amt =>
    simp only [Sys.handle] at hx
    exc_norm at hx
    split at hx
    · cases hx
    · rename_i s1 h1
      have b := bankMove_same s s1 src dst d amt h1
      cases hx
      exact .none b (chainMsg (fun _ _ _ _ h => by cases h)) (SentBy.nil _) (fun _ h => by cases h)
  | delegate who v amt =>
    simp only [Sys.handle] at hx
    exc_norm at hx
    exc_split at hx
    exact .none ⟨rfl, rfl, rfl, rfl, rfl, rfl⟩ (chainMsg (fun _ _ _ _ h => by cases h)) (SentBy.nil _) (fun _ h => by cases h)
  | undelegate who v amt =>
    simp only [Sys.handle] at hx
    exc_norm at hx
    exc_split at hx
    exact .none ⟨rfl, rfl, rfl, rfl, rfl, rfl⟩ (chainMsg (fun _ _ _ _ h => by cases h)) (SentBy.nil _) (fun _ h => by cases h)
  | redelegate who src dst amt =>
    simp only [Sys.handle] at hx
    exc_norm at hx
    exc_split at hx
    exact .none ⟨rfl, rfl, rfl, rfl, rfl, rfl⟩ (chainMsg (fun _ _ _ _ h => by cases h)) (SentBy.nil _) (fun _ h => by cases h)
  | withdrawReward who v =>
    simp only [Sys.handle] at hx
    exc_norm at hx
    exc_split at hx
    exact .none ⟨rfl, rfl, rfl, rfl, rfl, rfl⟩ (chainMsg (fun _ _ _ _ h => by cases h)) (SentBy.nil _) (fun _ h => by cases h)
  | setWithdrawAddr who a =>
    simp only [Sys.handle] at hx
    exc_norm at hx
    exc_split at hx
    exact .none ⟨rfl, rfl, rfl, rfl, rfl, rfl⟩ (chainMsg (fun _ _ _ _ h => by cases h)) (SentBy.nil _) (fun _ h => by cases h)
  | wasm sender target call funds =>
    simp only [Sys.handle] at hx
    exc_norm at hx
    split at hx
    · cases hx
    · rename_i s1 h1
      have sc := moveFunds_same sender target funds s s1 h1
      have sk := moveFunds_staking sender target funds s s1 h1
      by_cases t1 : target = hubA
      · simp only [t1, if_true] at hx
        split at hx
        · rename_i hm
          split at hx
          · cases hx
          · rename_i r hr
            cases hx
            refine .hub s1 sender funds hm (by rw [t1]) sc (by rw [← t1]; exact h1) ⟨sk.1, sk.2, rfl⟩ ?_ sc.bsei sc.stsei sc.reward sc.disp sc.reg
            rw [← sc.hub]; exact hr
        · cases hx
      · simp only [t1, if_false] at hx
        by_cases t2 : target = bseiA
        · simp only [t2, if_true] at hx
          split at hx
          · rename_i tm
            split at hx
            · cases hx
            · rename_i r hr
              cases hx
              refine .bsei s1 sender funds tm (by rw [t2]) sc ?_ sc.hub sc.stsei sc.reward sc.disp sc.reg
              rw [← sc.bsei]; exact hr
          · cases hx
        · simp only [t2, if_false] at hx
          by_cases t3 : target = stseiA
          · simp only [t3, if_true] at hx
            split at hx
            · rename_i tm
              split at hx
              · cases hx
              · rename_i r hr
                cases hx
                refine .stsei s1.block sender funds tm (by rw [t3]) ?_ sc.hub sc.bsei sc.reward sc.disp sc.reg
                rw [← sc.stsei]; exact hr
            · cases hx
          · simp only [t3, if_false] at hx
            by_cases t4 : target = rewardA
            · simp only [t4, if_true] at hx
              split at hx
              · rename_i rm
                split at hx
                · cases hx
                · rename_i r hr
                  cases hx
                  refine .reward s1 sender funds rm (by rw [t4]) sc (by rw [← t4]; exact h1) rfl ?_ sc.hub sc.bsei sc.stsei sc.disp sc.reg
                  rw [← sc.reward]; exact hr
              · cases hx
            · simp only [t4, if_false] at hx
              by_cases t5 : target = dispA
              · simp only [t5, if_true] at hx
                split at hx
                · rename_i dm
                  split at hx
                  · cases hx
                  · rename_i r hr
                    cases hx
                    refine .disp s1 sender funds dm (by rw [t5]) (by rw [← t5]; exact h1) rfl ?_ sc.hub sc.bsei sc.stsei sc.reward sc.reg
                    rw [← sc.disp]; exact hr
                · cases hx
              · simp only [t5, if_false] at hx
                by_cases t6 : target = regA
                · simp only [t6, if_true] at hx
                  split at hx
                  · rename_i rm
                    split at hx
                    · cases hx
                    · rename_i r hr
                      cases hx
                      exact .reg s1 sender funds rm (by rw [t6]) sc.reg (by rw [← t6]; exact h1) rfl hr sc.hub sc.bsei sc.stsei sc.reward sc.disp
                  · cases hx
                · simp only [t6, if_false] at hx
                  by_cases t7 : target = swapA
                  · simp only [t7, if_true] at hx
                    exc_split at hx
                    all_goals
                      refine .none sc (Or.inr ⟨_, _, _, _, rfl, Or.inl t7⟩) ?_ ?_
                      · first | exact SentBy.nil _ | exact SentBy.cons rfl (SentBy.nil _)
                      · intro x hx'
                        simp only [List.mem_cons, List.mem_nil_iff, or_false] at hx'
                        try exact ⟨_, _, _, hx'⟩
                  · simp only [t7, if_false] at hx
                    exc_split at hx
                    rename_i t8
                    exact .none sc (Or.inr ⟨_, _, _, _, rfl, Or.inr t8⟩) (SentBy.nil _) (fun _ h => by cases h)

/-- every message emitted while handling `m` is sent by the contract that handled it -/
theorem handle_sentBy (s s' : Sys) (m : Msg) (ms : List Msg) (hx : s.handle m = .ok (s', ms)) :
    (∀ a b c d, m = .wasm a b c d → SentBy b ms) ∧ ((∀ a b c d, m ≠ .wasm a b c d) → ms = []) := by
  refine ⟨fun a b c d hm => ?_, fun hm => ?_⟩
  · cases handle_touch s s' m ms hx with
    | none h hm' hs _ =>
      rcases hm' with hm' | ⟨a', b', c', d', heq, ht⟩
      · exact absurd hm (hm' a b c d)
      · rw [hm] at heq; injection heq with _ e2 _ _
        subst e2
        intro x hx'
        have := hs x hx'
        cases ms with
        | nil => cases hx'
        | cons y ys =>
          rcases ht with ht | ht
          · rw [ht]; exact this
          · exfalso
            -- the sink emits nothing
            subst hm
            simp only [Sys.handle] at hx
            exc_norm at hx
            split at hx
            · cases hx
            · simp only [ht, sinkA, hubA, bseiA, stseiA, rewardA, dispA, regA, swapA] at hx
              simp at hx
    | hub s1 sender funds hm' heq h1 _ hc hx' b' t r d' g =>
      rw [hm] at heq; injection heq with _ e2 _ _; subst e2
      exact hubExec_sentBy _ _ _ _ _ _ _ hx'
    | bsei s1 sender funds tm heq h1 hx' h t r d' g =>
      rw [hm] at heq; injection heq with _ e2 _ _; subst e2
      exact bseiExec_sentBy _ _ _ _ _ _ _ _ _ hx'
    | stsei blk sender funds tm heq hx' h b' r d' g =>
      rw [hm] at heq; injection heq with _ e2 _ _; subst e2
      exact stseiExec_sentBy _ _ _ _ _ _ _ _ hx'
    | reward s1 sender funds rm heq h1 _ _ hx' h b' t d' g =>
      rw [hm] at heq; injection heq with _ e2 _ _; subst e2
      exact rewardExec_sentBy _ _ _ _ _ _ _ _ _ hx'
    | disp env sender funds dm heq _ _ hx' h b' t r g =>
      rw [hm] at heq; injection heq with _ e2 _ _; subst e2
      exact dispExec_sentBy _ _ _ _ _ _ _ hx'
    | reg s1 sender funds rm heq h1 _ _ hx' h b' t r d' =>
      rw [hm] at heq; injection heq with _ e2 _ _; subst e2
      exact regExec_sentBy _ _ _ _ _ hx'
  · cases m with
    | wasm a b c d => exact absurd rfl (hm a b c d)
    | bankSend src dst d amt =>
      simp only [Sys.handle] at hx; exc_norm at hx; exc_split at hx; rfl
    | delegate who v amt => simp only [Sys.handle] at hx; exc_norm at hx; exc_split at hx; rfl
    | undelegate who v amt => simp only [Sys.handle] at hx; exc_norm at hx; exc_split at hx; rfl
    | redelegate who src dst amt => simp only [Sys.handle] at hx; exc_norm at hx; exc_split at hx; rfl
    | withdrawReward who v => simp only [Sys.handle] at hx; exc_norm at hx; exc_split at hx; rfl
    | setWithdrawAddr who a => simp only [Sys.handle] at hx; exc_norm at hx; exc_split at hx; rfl

/-! ### a top-level call that the addressed contract rejects is a failed transaction: nothing
     changes anywhere, attached funds included -/

theorem exec_rejected_hub (s : Sys) (sender : Addr) (funds : List (Denom × Nat)) (hm : HubMsg)
    (h : ∀ e, e.self = hubA → ∃ err, hubExec s.hub e sender funds hm = .error err) :
    ∃ err, s.exec (.wasm sender hubA (.hub hm) funds) = (s, .error err) := by
  cases hh : s.handle (.wasm sender hubA (.hub hm) funds) with
  | error e => exact ⟨e, exec_top_fails s _ e hh⟩
  | ok r =>
    exfalso
    obtain ⟨s', ms⟩ := r
    cases handle_touch s s' _ ms hh with
    | none _ hm' _ _ =>
      rcases hm' with hm' | ⟨a, b, c, d, heq, ht⟩
      · exact hm' _ _ _ _ rfl
      · injection heq with _ e2 _ _
        rcases ht with ht | ht <;> (rw [ht] at e2; cases e2)
    | hub s1 sender' funds' hm' heq h1 _ hc hx' _ _ _ _ _ =>
      injection heq with e1 _ e3 e4
      injection e3 with e3
      subst e1; subst e3; subst e4
      obtain ⟨err, he⟩ := h s1.hubEnv rfl
      rw [he] at hx'; cases hx'
    | bsei s1 sender' funds' tm heq _ _ _ _ _ _ _ => injection heq with _ e2 _ _; cases e2
    | stsei blk sender' funds' tm heq _ _ _ _ _ _ => injection heq with _ e2 _ _; cases e2
    | reward s1 sender' funds' rm heq _ _ _ _ _ _ _ _ _ => injection heq with _ e2 _ _; cases e2
    | disp env sender' funds' dm heq _ _ _ _ _ _ _ _ => injection heq with _ e2 _ _; cases e2
    | reg s1 sender' funds' rm heq _ _ _ _ _ _ _ _ _ => injection heq with _ e2 _ _; cases e2

theorem exec_rejected_disp (s : Sys) (sender : Addr) (funds : List (Denom × Nat)) (dm : DispMsg)
    (h : ∀ env, ∃ err, dispExec s.disp dispA env sender dm = .error err) :
    ∃ err, s.exec (.wasm sender dispA (.disp dm) funds) = (s, .error err) := by
  cases hh : s.handle (.wasm sender dispA (.disp dm) funds) with
  | error e => exact ⟨e, exec_top_fails s _ e hh⟩
  | ok r =>
    exfalso
    obtain ⟨s', ms⟩ := r
    cases handle_touch s s' _ ms hh with
    | none _ hm' _ _ =>
      rcases hm' with hm' | ⟨a, b, c, d, heq, ht⟩
      · exact hm' _ _ _ _ rfl
      · injection heq with _ e2 _ _
        rcases ht with ht | ht <;> (rw [ht] at e2; cases e2)
    | disp env sender' funds' dm' heq _ _ hx' _ _ _ _ _ =>
      injection heq with e1 _ e3 e4
      injection e3 with e3
      subst e1; subst e3; subst e4
      obtain ⟨err, he⟩ := h env.dispEnv
      rw [he] at hx'; cases hx'
    | hub s1 sender' funds' hm' heq _ _ _ _ _ _ _ _ _ => injection heq with _ e2 _ _; cases e2
    | bsei s1 sender' funds' tm heq _ _ _ _ _ _ _ => injection heq with _ e2 _ _; cases e2
    | stsei blk sender' funds' tm heq _ _ _ _ _ _ => injection heq with _ e2 _ _; cases e2
    | reward s1 sender' funds' rm heq _ _ _ _ _ _ _ _ _ => injection heq with _ e2 _ _; cases e2
    | reg s1 sender' funds' rm heq _ _ _ _ _ _ _ _ _ => injection heq with _ e2 _ _; cases e2

theorem exec_rejected_reward (s : Sys) (sender : Addr) (funds : List (Denom × Nat)) (rm : RewMsg)
    (h : ∀ tk dp bb, ∃ err, rewardExec s.reward rewardA tk dp bb sender rm = .error err) :
    ∃ err, s.exec (.wasm sender rewardA (.reward rm) funds) = (s, .error err) := by
  cases hh : s.handle (.wasm sender rewardA (.reward rm) funds) with
  | error e => exact ⟨e, exec_top_fails s _ e hh⟩
  | ok r =>
    exfalso
    obtain ⟨s', ms⟩ := r
    cases handle_touch s s' _ ms hh with
    | none _ hm' _ _ =>
      rcases hm' with hm' | ⟨a, b, c, d, heq, ht⟩
      · exact hm' _ _ _ _ rfl
      · injection heq with _ e2 _ _
        rcases ht with ht | ht <;> (rw [ht] at e2; cases e2)
    | reward s1 sender' funds' rm' heq _ _ _ hx' _ _ _ _ _ =>
      injection heq with e1 _ e3 e4
      injection e3 with e3
      subst e1; subst e3; subst e4
      obtain ⟨err, he⟩ := h (s1.hubTokenOf s1.reward.hub) (s1.hubDispatcherOf s1.reward.hub) (s1.chain.bank rewardA)
      rw [he] at hx'; cases hx'
    | hub s1 sender' funds' hm' heq _ _ _ _ _ _ _ _ _ => injection heq with _ e2 _ _; cases e2
    | bsei s1 sender' funds' tm heq _ _ _ _ _ _ _ => injection heq with _ e2 _ _; cases e2
    | stsei blk sender' funds' tm heq _ _ _ _ _ _ => injection heq with _ e2 _ _; cases e2
    | disp env sender' funds' dm heq _ _ _ _ _ _ _ _ => injection heq with _ e2 _ _; cases e2
    | reg s1 sender' funds' rm' heq _ _ _ _ _ _ _ _ _ => injection heq with _ e2 _ _; cases e2

end Krp
