import Krp.Hub
import Krp.Lemmas.Tactics
namespace Krp
open HubSt

theorem mulDec_mul_le (a r : Nat) : mulDec a r * D ≤ a * r := Nat.div_mul_le_self _ _

theorem decDiv_mul_le (p r : Nat) : decDiv p r * r ≤ p * D := Nat.div_mul_le_self _ _

theorem fromRatio_mul_le (a b : Nat) : fromRatio a b * b ≤ a * D := Nat.div_mul_le_self _ _

/-- the reported rate is the true ratio, rounded down, whenever the pool is backed -/
theorem rateOf_mul_le (B S R : Nat) (h : 0 < B ∨ S + R = 0) : rateOf B S R * (S + R) ≤ B * D := by
  unfold rateOf
  split
  · rename_i hz
    cases hz with
    | inl hb => cases h with
      | inl h => omega
      | inr h => rw [h]; simp
    | inr hc => rw [hc]; simp
  · exact fromRatio_mul_le _ _

theorem le_rateOf (r B S R : Nat) (hB : 0 < B) (hC : 0 < S + R) (h : r * (S + R) ≤ B * D) :
    r ≤ rateOf B S R := by
  unfold rateOf
  rw [if_neg (by omega)]
  unfold fromRatio
  exact (Nat.le_div_iff_mul_le hC).mpr h

theorem rateOf_eq (B S R : Nat) :
    rateOf B S R = if B = 0 ∨ S + R = 0 then D else B * D / (S + R) := rfl

/-- adding `p` of backing while issuing at most `p·D/r` claims does not lower the rate -/
theorem rate_mono_add (r B C p m : Nat) (hr : r * C ≤ B * D) (hm : m * r ≤ p * D) :
    r * (C + m) ≤ (B + p) * D := by
  rw [Nat.mul_add, Nat.add_mul, Nat.mul_comm r m]; omega

/-- removing `v ≤ a·r/D` of backing together with `a` claims does not lower the rate -/
theorem rate_mono_sub (r B C a v : Nat) (hr : r * C ≤ B * D) (hv : v * D ≤ a * r) (hvB : v ≤ B) :
    r * (C - a) ≤ (B - v) * D := by
  rw [Nat.mul_sub, Nat.sub_mul, Nat.mul_comm r a]; omega

end Krp
