import Krp.Reward
import Krp.Lemmas.Maps
import Krp.Lemmas.Tactics
namespace Krp
namespace RewardSt

/-- what holder `a` is owed, in atomics: accrued since its checkpoint plus carried fraction -/
def owed (r : RewardSt) (a : Addr) : Nat := (r.globalIndex - r.hIdx a) * r.hBal a + r.hPend a

/-- invariant of the reward contract (C14, C15) -/
structure Inv (r : RewardSt) : Prop where
  nodup : r.holders.Nodup
  zero : ∀ a, a ∉ r.holders → r.hBal a = 0 ∧ r.hPend a = 0
  idxLe : ∀ a, r.hIdx a ≤ r.globalIndex
  total : sumOn r.holders r.hBal = r.totalBalance
  solvent : sumOn r.holders r.owed ≤ r.prevRewardBalance * D

theorem owed_zero_notin (r : RewardSt) (h : r.Inv) (a : Addr) (ha : a ∉ r.holders) : r.owed a = 0 := by
  have := h.zero a ha
  simp [owed, this.1, this.2]

theorem accrual_ok (r : RewardSt) (h : r.Inv) (a : Addr) :
    r.accrual a = .ok ((r.globalIndex - r.hIdx a) * r.hBal a) := by
  have := h.idxLe a
  unfold accrual
  rw [if_neg (by omega)]

/-- settling a holder (checkpoint to the current index, accrued moved into pending) and setting a
    new balance keeps everybody's dues and moves the total by the balance change -/
theorem settle_inv (r : RewardSt) (h : r.Inv) (a : Addr) (nb tb : Nat)
    (htb : tb + r.hBal a = r.totalBalance + nb) :
    Inv { (r.setHolder a nb r.globalIndex ((r.globalIndex - r.hIdx a) * r.hBal a + r.hPend a)) with
          totalBalance := tb } := by
  have hother : ∀ k, k ≠ a →
      owed { (r.setHolder a nb r.globalIndex ((r.globalIndex - r.hIdx a) * r.hBal a + r.hPend a)) with
             totalBalance := tb } k = r.owed k := by
    intro k hk; simp [owed, setHolder, upd, hk]
  have hsame : owed { (r.setHolder a nb r.globalIndex ((r.globalIndex - r.hIdx a) * r.hBal a + r.hPend a)) with
             totalBalance := tb } a = r.owed a := by
    simp [owed, setHolder]
  constructor
  · exact nodup_addKey _ _ h.nodup
  · intro x hx
    simp only [setHolder, mem_addKey, not_or] at hx
    have := h.zero x hx.2
    simp [setHolder, upd, hx.1, this]
  · intro x
    simp only [setHolder, upd]
    split
    · exact Nat.le_refl _
    · exact h.idxLe x
  · show sumOn (addKey r.holders a) (upd r.hBal a nb) = tb
    have := sumOn_addKey r.holders r.hBal (upd r.hBal a nb) a (fun k hk => by simp [upd, hk]) h.nodup
      (fun hn => (h.zero a hn).1)
    simp only [upd_same] at this
    have := h.total
    omega
  · show sumOn (addKey r.holders a) _ ≤ r.prevRewardBalance * D
    have := sumOn_addKey r.holders r.owed
      (owed { (r.setHolder a nb r.globalIndex ((r.globalIndex - r.hIdx a) * r.hBal a + r.hPend a)) with
             totalBalance := tb }) a hother h.nodup (fun hn => owed_zero_notin r h a hn)
    rw [hsame] at this
    have := h.solvent
    omega

/-- the dues of one holder are at most the sum -/
theorem owed_le_sum (r : RewardSt) (h : r.Inv) (a : Addr) : r.owed a ≤ sumOn r.holders r.owed := by
  by_cases ha : a ∈ r.holders
  · have : ∀ (ks : List Addr), a ∈ ks → r.owed a ≤ sumOn ks r.owed := by
      intro ks
      induction ks with
      | nil => intro h; cases h
      | cons k ks ih =>
        intro hm
        simp only [sumOn_cons]
        cases hm with
        | head => omega
        | tail _ h' => have := ih h'; omega
    exact this _ ha
  · rw [owed_zero_notin r h a ha]; exact Nat.zero_le _

/-- state after a successful claim by `a` -/
def claimState (r : RewardSt) (a : Addr) : RewardSt :=
  { r with prevRewardBalance := r.prevRewardBalance - r.owed a / D }.setHolder a (r.hBal a)
    r.globalIndex (r.owed a % D)

theorem claim_inv (r : RewardSt) (h : r.Inv) (a : Addr) (hle : r.owed a / D ≤ r.prevRewardBalance) :
    (r.claimState a).Inv := by
  have hother : ∀ k, k ≠ a → (r.claimState a).owed k = r.owed k := by
    intro k hk; simp [claimState, owed, setHolder, upd, hk]
  have hsame : (r.claimState a).owed a = r.owed a % D := by
    simp [claimState, owed, setHolder]
  constructor
  · exact nodup_addKey _ _ h.nodup
  · intro x hx
    simp only [claimState, setHolder, mem_addKey, not_or] at hx
    have := h.zero x hx.2
    simp [claimState, setHolder, upd, hx.1, this]
  · intro x
    simp only [claimState, setHolder, upd]
    split
    · exact Nat.le_refl _
    · exact h.idxLe x
  · show sumOn (addKey r.holders a) (upd r.hBal a (r.hBal a)) = r.totalBalance
    have := sumOn_addKey r.holders r.hBal (upd r.hBal a (r.hBal a)) a
      (fun k hk => by simp [upd, hk]) h.nodup (fun hn => (h.zero a hn).1)
    simp only [upd_same] at this
    have := h.total
    omega
  · show sumOn (addKey r.holders a) (r.claimState a).owed ≤ (r.prevRewardBalance - r.owed a / D) * D
    have h1 := sumOn_addKey r.holders r.owed (r.claimState a).owed a hother h.nodup
      (fun hn => owed_zero_notin r h a hn)
    rw [hsame] at h1
    have h2 := h.solvent
    have h3 := Nat.div_add_mod (r.owed a) D
    rw [Nat.mul_comm] at h3
    rw [Nat.sub_mul]
    generalize r.owed a / D = q at *
    generalize r.owed a % D = m at *
    generalize sumOn (addKey r.holders a) (r.claimState a).owed = S' at *
    generalize q * D = qD at *
    generalize r.prevRewardBalance * D = PD at *
    omega

theorem sumOn_mul_right (ks : List Addr) (f : Addr → Nat) (c : Nat) :
    sumOn ks (fun a => f a * c) = sumOn ks f * c := by
  induction ks with
  | nil => simp
  | cons k ks ih => simp only [sumOn_cons, ih, Nat.add_mul]

theorem sumOn_add (ks : List Addr) (f g : Addr → Nat) :
    sumOn ks (fun a => f a + g a) = sumOn ks f + sumOn ks g := by
  induction ks with
  | nil => simp
  | cons k ks ih => simp only [sumOn_cons, ih]; omega

end RewardSt
end Krp
