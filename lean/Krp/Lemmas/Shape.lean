/-
  Shape.lean — what a hub message can do to the batch bookkeeping, and the shape of the batch
  history in every state (C01, C08):

  * `hubExec_classify`: an accepted hub message is a WithdrawUnbonded, an Unbond (recorded in the
    open batch, optionally followed by the undelegation that closes it), or leaves history, batch
    id, wait lists, `prev_hub_balance`, `last_processed_batch` and `last_unbonded_time` untouched;
  * `HistInv`: history entries exist exactly for ids 1 … open−1, the released ones are exactly
    those up to `last_processed_batch`, entry times increase strictly with the id and never exceed
    `last_unbonded_time` — preserved by every hub message;
  * `release_complete`: a release processes *every* unreleased batch that has matured.
-/
import Krp.Props.C07
import Krp.Props.C03
namespace Krp
open HubSt

structure Quiet (h h' : HubSt) : Prop where
  keeps : KeepsClaims h h'
  prev : h'.prevHubBalance = h.prevHubBalance
  lastProc : h'.lastProcessedBatch = h.lastProcessedBatch
  lastUnb : h'.lastUnbondedTime = h.lastUnbondedTime

theorem Quiet.refl (h : HubSt) : Quiet h h := ⟨KeepsClaims.refl h, rfl, rfl, rfl⟩

/-- what recording an unbond request leaves alone -/
structure UnbShape (st h0 : HubSt) : Prop where
  hist : h0.hist = st.hist
  batchId : h0.batchId = st.batchId
  lastProc : h0.lastProcessedBatch = st.lastProcessedBatch
  lastUnb : h0.lastUnbondedTime = st.lastUnbondedTime
  prev : h0.prevHubBalance = st.prevHubBalance
  legacy : h0.legacy = st.legacy

inductive HubStepKind (h h' : HubSt) (e : HubEnv) (sender : Addr) (m : HubMsg) (ms : List Msg) : Prop
  | quiet (q : Quiet h h') (hne : m ≠ .withdrawUnbonded)
  | withdraw (hm : m = .withdrawUnbonded) (hp : h.isPaused = false) (hx : h.withdraw e sender = .ok (h', ms))
  | unbond (st h0 : HubSt) (hne : m ≠ .withdrawUnbonded) (hst : h.actualState e = .ok st) (sh : UnbShape st h0)
      (inv0 : ClaimInv h → ClaimInv h0)
      (hcase : (e.now - st.lastUnbondedTime > st.epoch ∧ ∃ um last,
                  h0.processUndelegations e = .ok (h', um) ∧ ms = um ++ [last] ∧ undelegatedBy [last] = 0) ∨
               (h' = h0 ∧ undelegatedBy ms = 0))

theorem quiet_of_books {h st x : HubSt} {e : HubEnv} (hst : h.actualState e = .ok st)
    (k : KeepsClaims h x) (p : x.prevHubBalance = st.prevHubBalance)
    (lp : x.lastProcessedBatch = st.lastProcessedBatch) (lu : x.lastUnbondedTime = st.lastUnbondedTime) :
    Quiet h x :=
  have sb := (actualState_spec h st e hst).1
  ⟨k, p.trans sb.prev, lp.trans sb.lastProc, lu.trans sb.lastUnb⟩

/-- **Classification of accepted hub messages.** -/
theorem hubExec_classify (h h' : HubSt) (e : HubEnv) (sender : Addr) (funds : List (Denom × Nat))
    (m : HubMsg) (ms : List Msg) (hl : h.legacy = [])
    (hx : hubExec h e sender funds m = .ok (h', ms)) : HubStepKind h h' e sender m ms := by
  cases m with
  | withdrawUnbonded =>
    simp only [hubExec] at hx
    split at hx
    · cases hx
    · rename_i hp
      exact .withdraw rfl (by simpa using hp) hx
  | migrateWaitList limit =>
    simp only [hubExec] at hx
    split at hx
    · injection hx with hx; injection hx with h1 _; subst h1
      have : h.migrate limit = h := by simp [migrate, hl]
      rw [this]; exact .quiet (Quiet.refl h) (by intro hc; cases hc)
    · cases hx
  | updateParams a b c d p r =>
    simp only [hubExec] at hx
    exc_norm at hx
    split at hx
    · cases hx
    · rename_i h1 hp
      injection hx with hx; injection hx with e1 _; subst e1
      refine .quiet ⟨updateParams_keeps _ _ _ _ _ _ _ _ _ hp, ?_, ?_, ?_⟩ (by intro hc; cases hc) <;>
        (unfold updateParams at hp; exc_norm at hp; exc_split at hp; all_goals rfl)
  | receive user amt hook =>
    simp only [hubExec] at hx
    split at hx
    · cases hx
    · exc_norm at hx
      split at hx
      · cases hx
      · split at hx
        · cases hx
        · cases hook with
          | other => simp only [] at hx; cases hx
          | convert =>
            simp only [] at hx
            split at hx
            · obtain ⟨st, _, _, _, _, _, hst, _, _, _, _, _, _, _, _, hh, _⟩ := convertBS_spec _ _ _ _ _ _ hx
              exact .quiet (quiet_of_books hst (convertBS_keeps _ _ _ _ _ _ hx) (by rw [hh]) (by rw [hh]) (by rw [hh])) (by intro hc; cases hc)
            · split at hx
              · obtain ⟨st, _, _, _, _, _, hst, _, _, _, _, _, _, _, _, hh, _⟩ := convertSB_spec _ _ _ _ _ _ hx
                exact .quiet (quiet_of_books hst (convertSB_keeps _ _ _ _ _ _ hx) (by rw [hh]) (by rw [hh]) (by rw [hh])) (by intro hc; cases hc)
              · cases hx
          | unbond =>
            simp only [] at hx
            split at hx
            · obtain ⟨st, supply, wf, tok, hst, _, _, _, _, _, hcase⟩ := unbondB_spec _ _ _ _ _ _ hx
              have k := actualState_keeps h st e hst
              refine .unbond st (st.afterUnbondB user supply amt wf) (by intro hc; cases hc) hst ⟨rfl, rfl, rfl, rfl, rfl, rfl⟩
                (fun inv => (C07_unbond_bsei_credits_sender_only st (ClaimInv.of_same k.same inv) user supply amt wf).1) ?_
              rcases hcase with ⟨hg, um, hp, hms⟩ | ⟨_, hh, hms⟩
              · exact Or.inl ⟨hg, um, _, hp, hms, by simp [undelegatedBy, tokMsg]⟩
              · exact Or.inr ⟨hh, by rw [hms]; simp [undelegatedBy, tokMsg]⟩
            · split at hx
              · obtain ⟨st, tok, hst, _, _, hcase⟩ := unbondS_spec _ _ _ _ _ _ hx
                have k := actualState_keeps h st e hst
                refine .unbond st (st.afterUnbondS user amt) (by intro hc; cases hc) hst ⟨rfl, rfl, rfl, rfl, rfl, rfl⟩
                  (fun inv => (C07_unbond_stsei_credits_sender_only st (ClaimInv.of_same k.same inv) user amt).1) ?_
                rcases hcase with ⟨hg, um, hp, hms⟩ | ⟨_, hh, hms⟩
                · exact Or.inl ⟨hg, um, _, hp, hms, by simp [undelegatedBy, tokMsg]⟩
                · exact Or.inr ⟨hh, by rw [hms]; simp [undelegatedBy, tokMsg]⟩
              · cases hx
  | bond =>
    simp only [hubExec] at hx; split at hx; · cases hx
    · obtain ⟨p, st, mint, dl, tok, _, hst, _, _, _, _, hh, _⟩ := bondB_spec _ _ _ _ _ _ hx
      exact .quiet (quiet_of_books hst (bondB_keeps _ _ _ _ _ _ hx) (by rw [hh]) (by rw [hh]) (by rw [hh])) (by intro hc; cases hc)
  | bondForStSei =>
    simp only [hubExec] at hx; split at hx; · cases hx
    · obtain ⟨p, st, dl, tok, _, hst, _, _, _, hh, _⟩ := bondS_spec _ _ _ _ _ _ hx
      exact .quiet (quiet_of_books hst (bondS_keeps _ _ _ _ _ _ hx) (by rw [hh]) (by rw [hh]) (by rw [hh])) (by intro hc; cases hc)
  | bondRewards =>
    simp only [hubExec] at hx; split at hx; · cases hx
    · obtain ⟨p, st, _, _, hst, _, hh⟩ := bondR_spec _ _ _ _ _ _ hx
      exact .quiet (quiet_of_books hst (bondR_keeps _ _ _ _ _ _ hx) (by rw [hh]) (by rw [hh]) (by rw [hh])) (by intro hc; cases hc)
  | updateGlobalIndex =>
    simp only [hubExec] at hx; split at hx; · cases hx
    · refine .quiet ⟨updateGlobal_keeps _ _ _ _ _ hx, ?_, ?_, ?_⟩ (by intro hc; cases hc) <;>
        (unfold updateGlobal at hx; exc_norm at hx; exc_split at hx; all_goals rfl)
  | checkSlashing =>
    simp only [hubExec] at hx
    split at hx
    · cases hx
    · exc_norm at hx
      split at hx
      · cases hx
      · rename_i st hst
        injection hx with hx; injection hx with e1 _; subst e1
        exact .quiet (quiet_of_books hst (actualState_keeps _ _ _ hst) rfl rfl rfl) (by intro hc; cases hc)
  | updateConfig a b c d f g u =>
    simp only [hubExec] at hx; split at hx; · cases hx
    · refine .quiet ⟨updateConfig_keeps _ _ _ _ _ _ _ _ _ _ _ _ hx, ?_, ?_, ?_⟩ (by intro hc; cases hc) <;>
        (unfold updateConfig at hx; exc_norm at hx; exc_split at hx; all_goals rfl)
  | setOwner a =>
    simp only [hubExec] at hx; exc_norm at hx; exc_split at hx
    exact .quiet ⟨⟨⟨rfl, rfl, rfl, rfl, rfl, rfl, rfl⟩, rfl⟩, rfl, rfl, rfl⟩ (by intro hc; cases hc)
  | acceptOwnership =>
    simp only [hubExec] at hx; exc_norm at hx; exc_split at hx
    exact .quiet ⟨⟨⟨rfl, rfl, rfl, rfl, rfl, rfl, rfl⟩, rfl⟩, rfl, rfl, rfl⟩ (by intro hc; cases hc)
  | swapHook =>
    simp only [hubExec] at hx; exc_norm at hx; exc_split at hx
    exact .quiet (Quiet.refl h) (by intro hc; cases hc)
  | claimAirdrop =>
    simp only [hubExec] at hx; exc_norm at hx; exc_split at hx
    exact .quiet (Quiet.refl h) (by intro hc; cases hc)
  | redelegateProxy src plan =>
    simp only [hubExec] at hx; exc_norm at hx; exc_split at hx
    exact .quiet (Quiet.refl h) (by intro hc; cases hc)

/-! ### the shape of the batch history -/

structure HistInv (h : HubSt) : Prop where
  dom : ∀ i, h.hist i ≠ none ↔ (1 ≤ i ∧ i < h.batchId)
  rel : ∀ i x, h.hist i = some x → (x.released = true ↔ i ≤ h.lastProcessedBatch)
  lp : h.lastProcessedBatch < h.batchId
  times : ∀ i x, h.hist i = some x → x.time ≤ h.lastUnbondedTime
  mono : ∀ i j x y, h.hist i = some x → h.hist j = some y → i < j → x.time < y.time

theorem HistInv.of_same {h h' : HubSt} (inv : HistInv h) (hh : h'.hist = h.hist)
    (hb : h'.batchId = h.batchId) (hp : h'.lastProcessedBatch = h.lastProcessedBatch)
    (hu : h'.lastUnbondedTime = h.lastUnbondedTime) : HistInv h' := by
  refine ⟨?_, ?_, ?_, ?_, ?_⟩
  · intro i; rw [hh, hb]; exact inv.dom i
  · intro i x hx; rw [hh] at hx; rw [hp]; exact inv.rel i x hx
  · rw [hp, hb]; exact inv.lp
  · intro i x hx; rw [hh] at hx; rw [hu]; exact inv.times i x hx
  · intro i j x y hx hy; rw [hh] at hx hy; exact inv.mono i j x y hx hy

theorem HistInv.init (sender now epoch unb fee thr rd upd : Nat) (h : HubSt)
    (hx : hubInit sender now epoch unb fee thr rd upd = .ok h) : HistInv h := by
  unfold hubInit at hx
  split at hx
  · cases hx
  · injection hx with hx; subst hx
    refine ⟨?_, ?_, ?_, ?_, ?_⟩
    · intro i; simp; omega
    · intro i x hx; cases hx
    · show 0 < 1; omega
    · intro i x hx; cases hx
    · intro i j x y hx; cases hx

/-- closing the open batch (only after more than an epoch since the last undelegation) -/
theorem HistInv.undelegation (h h' : HubSt) (e : HubEnv) (ms : List Msg) (inv : HistInv h)
    (hg : h.lastUnbondedTime < e.now) (hx : h.processUndelegations e = .ok (h', ms)) : HistInv h' := by
  obtain ⟨_, _, _, _, _, _, _, _, _, bid, lu, hh, _, _, _, _, lp⟩ := processUndelegations_spec h h' e ms hx
  have hb1 : 1 ≤ h.batchId := by have := inv.lp; omega
  refine ⟨?_, ?_, ?_, ?_, ?_⟩
  · intro i
    rw [hh, bid]
    by_cases hi : i = h.batchId
    · subst hi; simp only [upd_same]; simp; omega
    · rw [upd_other _ _ _ _ hi]
      have := inv.dom i
      constructor
      · intro hne; have := this.mp hne; omega
      · intro hr; exact this.mpr ⟨hr.1, by omega⟩
  · intro i x hxi
    rw [hh] at hxi
    rw [lp]
    by_cases hi : i = h.batchId
    · subst hi
      simp only [upd_same] at hxi
      injection hxi with hxi; subst hxi
      have := inv.lp
      constructor
      · intro hr; cases hr
      · intro hle; omega
    · rw [upd_other _ _ _ _ hi] at hxi
      exact inv.rel i x hxi
  · rw [lp, bid]; have := inv.lp; omega
  · intro i x hxi
    rw [hh] at hxi
    rw [lu]
    by_cases hi : i = h.batchId
    · subst hi
      simp only [upd_same] at hxi
      injection hxi with hxi; subst hxi
      exact Nat.le_refl _
    · rw [upd_other _ _ _ _ hi] at hxi
      have := inv.times i x hxi; omega
  · intro i j x y hxi hyj hij
    rw [hh] at hxi hyj
    by_cases hj : j = h.batchId
    · subst hj
      simp only [upd_same] at hyj
      injection hyj with hyj; subst hyj
      have hi : i ≠ h.batchId := by omega
      rw [upd_other _ _ _ _ hi] at hxi
      have := inv.times i x hxi
      show x.time < e.now; omega
    · rw [upd_other _ _ _ _ hj] at hyj
      have hjlt : j < h.batchId := ((inv.dom j).mp (by rw [hyj]; simp)).2
      have hi : i ≠ h.batchId := by omega
      rw [upd_other _ _ _ _ hi] at hxi
      exact inv.mono i j x y hxi hyj hij

/-- stop condition of the release scan at id `j` -/
def scanStops (h : HubSt) (cutoff j : Nat) : Prop :=
  match h.hist j with
  | none => True
  | some x => x.time > cutoff ∨ x.released = true

/-- the release scan returns a block of consecutive ids `start … start+k−1`, each unreleased and
    matured, and (unless the fuel ran out) stops at an id that is missing, immature or released -/
theorem releasable_shape (h : HubSt) (cutoff : Nat) : ∀ (fuel start d : Nat),
    ∃ k, (∀ i, i ∈ h.releasable cutoff fuel start ↔ (start ≤ i ∧ i < start + k)) ∧
      (h.releasable cutoff fuel start).getLastD d = (if k = 0 then d else start + k - 1) ∧
      k ≤ fuel ∧ (k < fuel → scanStops h cutoff (start + k)) := by
  intro fuel
  induction fuel with
  | zero =>
    intro start d
    exact ⟨0, by simp [releasable], by simp [releasable], Nat.le_refl _, fun h0 => absurd h0 (Nat.lt_irrefl _)⟩
  | succ f ih =>
    intro start d
    unfold releasable
    cases hx : h.hist start with
    | none =>
      refine ⟨0, by simp, by simp, Nat.zero_le _, fun _ => ?_⟩
      unfold scanStops; simp [hx]
    | some x =>
      simp only []
      by_cases ht : x.time > cutoff
      · rw [if_pos ht]
        refine ⟨0, by simp, by simp, Nat.zero_le _, fun _ => ?_⟩
        unfold scanStops; simp only [Nat.add_zero, hx]; exact Or.inl ht
      · rw [if_neg ht]
        by_cases hr : x.released = true
        · rw [if_pos hr]
          refine ⟨0, by simp, by simp, Nat.zero_le _, fun _ => ?_⟩
          unfold scanStops; simp only [Nat.add_zero, hx]; exact Or.inr hr
        · rw [if_neg hr]
          obtain ⟨k, hm, hl, hk, hs⟩ := ih (start + 1) start
          refine ⟨k + 1, ?_, ?_, by omega, ?_⟩
          · intro i
            simp only [List.mem_cons, hm]
            omega
          · rw [List.getLastD_cons, hl]
            by_cases hk0 : k = 0
            · simp [hk0]
            · simp only [hk0, if_false, Nat.add_one_ne_zero]; omega
          · intro hlt
            have := hs (by omega)
            have e : start + 1 + k = start + (k + 1) := by omega
            rw [e] at this; exact this

/-- exact effect of `process_withdraw_rate` on the history: the scanned ids become released (time
    kept), everything else is untouched -/
theorem processWithdrawRate_hist (h h1 : HubSt) (cutoff bal : Nat)
    (hx : h.processWithdrawRate cutoff bal = .ok h1) :
    h1.lastProcessedBatch =
      (h.releasable cutoff (h.batchId + 1) (h.lastProcessedBatch + 1)).getLastD h.lastProcessedBatch ∧
    h1.batchId = h.batchId ∧ h1.lastUnbondedTime = h.lastUnbondedTime ∧
    ∀ j, (j ∈ h.releasable cutoff (h.batchId + 1) (h.lastProcessedBatch + 1) →
            ∃ x x', h.hist j = some x ∧ h1.hist j = some x' ∧ x'.time = x.time ∧ x'.released = true) ∧
         (j ∉ h.releasable cutoff (h.batchId + 1) (h.lastProcessedBatch + 1) → h1.hist j = h.hist j) := by
  unfold processWithdrawRate at hx
  simp only [] at hx
  split at hx
  · rename_i hnil
    injection hx with hx; subst hx
    rw [hnil]
    exact ⟨rfl, rfl, rfl, fun j => ⟨(fun hj => nomatch hj), fun _ => rfl⟩⟩
  · split at hx
    · cases hx
    · injection hx with hx; subst hx
      refine ⟨rfl, rfl, rfl, fun j => ?_⟩
      simp only []
      rw [foldl_upd_hist]
      constructor
      · intro hj
        obtain ⟨x, hxj, _, _⟩ := releasable_mem h cutoff _ _ j hj
        simp only [hj, if_true]
        exact ⟨x, _, hxj, rfl, by simp [histOr, hxj], rfl⟩
      · intro hj
        simp only [hj, if_false]

/-- **A release processes every unreleased batch that has matured**, and only those; afterwards
    the released batches are again exactly those up to `last_processed_batch`. -/
theorem release_complete (h h1 : HubSt) (cutoff bal : Nat) (inv : HistInv h)
    (hx : h.processWithdrawRate cutoff bal = .ok h1) :
    HistInv h1 ∧
    (∀ i x, h.hist i = some x → x.released = false → x.time ≤ cutoff → i ∈ h.releasable cutoff (h.batchId + 1) (h.lastProcessedBatch + 1)) ∧
    (∀ i x1, h1.hist i = some x1 → x1.released = false → x1.time > cutoff) := by
  obtain ⟨k, hm, hl, hk, hs⟩ := releasable_shape h cutoff (h.batchId + 1) (h.lastProcessedBatch + 1) h.lastProcessedBatch
  -- every id of the block is below the open batch
  have hbound : h.lastProcessedBatch + k < h.batchId := by
    by_cases hk0 : k = 0
    · have := inv.lp; omega
    · have hin : h.lastProcessedBatch + k ∈ h.releasable cutoff (h.batchId + 1) (h.lastProcessedBatch + 1) :=
        (hm _).mpr ⟨by omega, by omega⟩
      obtain ⟨x, hxi, _, _⟩ := releasable_mem h cutoff _ _ _ hin
      exact ((inv.dom _).mp (by rw [hxi]; simp)).2
  have hstop : scanStops h cutoff (h.lastProcessedBatch + 1 + k) := hs (by omega)
  -- completeness
  have complete : ∀ i x, h.hist i = some x → x.released = false → x.time ≤ cutoff →
      i ∈ h.releasable cutoff (h.batchId + 1) (h.lastProcessedBatch + 1) := by
    intro i x hxi hr ht
    apply (hm i).mpr
    have hgt : ¬ i ≤ h.lastProcessedBatch := by
      intro hle; have := (inv.rel i x hxi).mpr hle; rw [hr] at this; cases this
    refine ⟨by omega, ?_⟩
    by_cases hlt : i < h.lastProcessedBatch + 1 + k
    · exact hlt
    · exfalso
      unfold scanStops at hstop
      cases hj : h.hist (h.lastProcessedBatch + 1 + k) with
      | none =>
        have hdom := (inv.dom i).mp (by rw [hxi]; simp)
        have hnd : ¬ (1 ≤ h.lastProcessedBatch + 1 + k ∧ h.lastProcessedBatch + 1 + k < h.batchId) := by
          intro hc; exact (inv.dom _).mpr hc hj
        omega
      | some y =>
        rw [hj] at hstop
        simp only [] at hstop
        rcases hstop with hty | hry
        · by_cases he : i = h.lastProcessedBatch + 1 + k
          · subst he; rw [hxi] at hj; injection hj with hj; subst hj; omega
          · have := inv.mono _ i y x hj hxi (by omega); omega
        · have := (inv.rel _ y hj).mp hry; omega
  obtain ⟨elp, ebid, elu, hhist⟩ := processWithdrawRate_hist h h1 cutoff bal hx
  -- every entry of the new history comes from an entry with the same time
  have origin : ∀ i x1, h1.hist i = some x1 → ∃ x, h.hist i = some x ∧ x1.time = x.time ∧
      (i ∈ h.releasable cutoff (h.batchId + 1) (h.lastProcessedBatch + 1) → x1.released = true) ∧
      (i ∉ h.releasable cutoff (h.batchId + 1) (h.lastProcessedBatch + 1) → x1 = x) := by
    intro i x1 hx1
    by_cases hi : i ∈ h.releasable cutoff (h.batchId + 1) (h.lastProcessedBatch + 1)
    · obtain ⟨x, x', hxi, hx', ht, hr⟩ := (hhist i).1 hi
      rw [hx'] at hx1; injection hx1 with hx1; subst hx1
      exact ⟨x, hxi, ht, fun _ => hr, fun hn => absurd hi hn⟩
    · have := (hhist i).2 hi
      rw [this] at hx1
      exact ⟨x1, hx1, rfl, fun hc => absurd hc hi, fun _ => rfl⟩
  have lp1 : h1.lastProcessedBatch = (if k = 0 then h.lastProcessedBatch else h.lastProcessedBatch + 1 + k - 1) := by
    rw [elp, hl]
  refine ⟨⟨?_, ?_, ?_, ?_, ?_⟩, complete, ?_⟩
  · intro i
    rw [ebid]
    constructor
    · intro hne
      cases hx1 : h1.hist i with
      | none => exact absurd hx1 hne
      | some x1 =>
        obtain ⟨x, hxi, _⟩ := origin i x1 hx1
        exact (inv.dom i).mp (by rw [hxi]; simp)
    · intro hr
      have hne := (inv.dom i).mpr hr
      by_cases hi : i ∈ h.releasable cutoff (h.batchId + 1) (h.lastProcessedBatch + 1)
      · obtain ⟨x, x', _, hx', _, _⟩ := (hhist i).1 hi
        rw [hx']; simp
      · rw [(hhist i).2 hi]; exact hne
  · intro i x1 hx1
    obtain ⟨x, hxi, _, hin, hout⟩ := origin i x1 hx1
    rw [lp1]
    by_cases hi : i ∈ h.releasable cutoff (h.batchId + 1) (h.lastProcessedBatch + 1)
    · have hr := hin hi
      have hrange := (hm i).mp hi
      have hk0 : k ≠ 0 := by omega
      simp only [hk0, if_false]
      constructor
      · intro _; omega
      · intro _; exact hr
    · have e := hout hi; subst e
      have r := inv.rel i x1 hxi
      have hni : ¬ (h.lastProcessedBatch + 1 ≤ i ∧ i < h.lastProcessedBatch + 1 + k) := fun hc => hi ((hm i).mpr hc)
      constructor
      · intro hr; have := r.mp hr; split <;> omega
      · intro hle
        apply r.mpr
        by_cases hk0 : k = 0
        · simp only [hk0, if_true] at hle; exact hle
        · simp only [hk0, if_false] at hle; omega
  · rw [lp1, ebid]; have := inv.lp; split <;> omega
  · intro i x1 hx1
    obtain ⟨x, hxi, ht, _, _⟩ := origin i x1 hx1
    rw [elu, ht]; exact inv.times i x hxi
  · intro i j x1 y1 hx1 hy1 hij
    obtain ⟨x, hxi, e1, _, _⟩ := origin i x1 hx1
    obtain ⟨y, hyj, e2, _, _⟩ := origin j y1 hy1
    rw [e1, e2]; exact inv.mono i j x y hxi hyj hij
  · intro i x1 hx1 hr
    obtain ⟨x, hxi, ht, hin, hout⟩ := origin i x1 hx1
    by_cases hi : i ∈ h.releasable cutoff (h.batchId + 1) (h.lastProcessedBatch + 1)
    · have := hin hi; rw [hr] at this; cases this
    · have e := hout hi; subst e
      by_cases htc : x1.time ≤ cutoff
      · exact absurd (complete i x1 hxi hr htc) hi
      · omega

/-- deleting wait entries does not touch the history shape -/
theorem delWait_fold_shape (ids : List Nat) (u : Addr) (h : HubSt) :
    (ids.foldl (fun hh i => hh.delWait u i) h).hist = h.hist ∧
    (ids.foldl (fun hh i => hh.delWait u i) h).batchId = h.batchId ∧
    (ids.foldl (fun hh i => hh.delWait u i) h).lastProcessedBatch = h.lastProcessedBatch ∧
    (ids.foldl (fun hh i => hh.delWait u i) h).lastUnbondedTime = h.lastUnbondedTime := by
  induction ids generalizing h with
  | nil => exact ⟨rfl, rfl, rfl, rfl⟩
  | cons b bs ih =>
    simp only [List.foldl_cons]
    have r := ih (h.delWait u b)
    exact ⟨r.1, r.2.1, r.2.2.1, r.2.2.2⟩

theorem processWithdrawRate_lastUnb (h h1 : HubSt) (c b : Nat) (hx : h.processWithdrawRate c b = .ok h1) :
    h1.lastUnbondedTime = h.lastUnbondedTime ∧ h1.batchId = h.batchId := by
  unfold processWithdrawRate at hx
  simp only [] at hx
  exc_split at hx
  all_goals exact ⟨rfl, rfl⟩

/-- **Every hub message keeps the shape of the batch history.** -/
theorem HistInv.hub_step (h h' : HubSt) (e : HubEnv) (sender : Addr) (funds : List (Denom × Nat))
    (m : HubMsg) (ms : List Msg) (inv : HistInv h) (hl : h.legacy = [])
    (hx : hubExec h e sender funds m = .ok (h', ms)) : HistInv h' := by
  cases hubExec_classify h h' e sender funds m ms hl hx with
  | quiet q _ => exact inv.of_same q.keeps.same.hist q.keeps.same.batchId q.lastProc q.lastUnb
  | withdraw _ hp hw =>
    obtain ⟨_, h1, hpw, _, _, hh, _⟩ := withdraw_spec h h' e sender ms hw
    have r := (release_complete h h1 _ _ inv hpw).1
    subst hh
    have d := delWait_fold_shape (h1.finished sender).2 sender h1
    exact r.of_same d.1 d.2.1 d.2.2.1 d.2.2.2
  | unbond st h0 _ hst sh _ hcase =>
    have sb := (actualState_spec h st e hst).1
    have inv0 : HistInv h0 := inv.of_same (sh.hist.trans sb.hist) (sh.batchId.trans sb.batchId)
      (sh.lastProc.trans sb.lastProc) (sh.lastUnb.trans sb.lastUnb)
    rcases hcase with ⟨hg, um, last, hp, _, _⟩ | ⟨hh, _⟩
    · exact HistInv.undelegation h0 h' e um inv0 (by rw [sh.lastUnb]; omega) hp
    · rw [hh]; exact inv0

end Krp
