/-
  RateInv.lean — the invariant carried from message to message through one transaction for the
  composed C04 theorem: the exchange rates the transaction started from stay true ratios of the
  *effective* pools (booked stake over supply + pending mints − pending hub burns + requests).

  Two phases. `Fresh`: nothing that prices has run yet (pools, requests and supplies are those of
  the start, nothing is in flight, and at most one trigger is in the queue, behind still messages
  only) — this is the only phase in which a minting handler (Bond, BondForStSei, the cw20 hook) can
  run, so it prices at exactly the rates of the start. Afterwards (`NoTrg q`) no trigger is left in
  the queue and none can be emitted (Lemmas/Tame), so only handlers that mint nothing run.
-/
import Krp.Lemmas.RateFlow
import Krp.Lemmas.TokensFixed
import Krp.Props.C02
import Krp.Props.C18
namespace Krp
open HubSt

/-- the rates of the start, as ratios of the start's pools -/
def rb0 (s : Sys) : Nat := rateOf s.hub.bBond s.bsei.supply s.hub.reqB
def rs0 (s : Sys) : Nat := rateOf s.hub.sBond s.stsei.supply s.hub.reqS

/-- pools, requests and supplies are those of `s0` -/
structure SamePricing (s0 s : Sys) : Prop where
  bBond : s.hub.bBond = s0.hub.bBond
  sBond : s.hub.sBond = s0.hub.sBond
  reqB : s.hub.reqB = s0.hub.reqB
  reqS : s.hub.reqS = s0.hub.reqS
  bSupply : s.bsei.supply = s0.bsei.supply
  sSupply : s.stsei.supply = s0.stsei.supply

theorem SamePricing.refl (s : Sys) : SamePricing s s := ⟨rfl, rfl, rfl, rfl, rfl, rfl⟩

theorem SamePricing.of_pools {s0 s s' : Sys} (p : SamePricing s0 s) (q : SamePools s s') : SamePricing s0 s' :=
  ⟨q.bBond.trans p.bBond, q.sBond.trans p.sBond, q.reqB.trans p.reqB, q.reqS.trans p.reqS,
   q.bSupply.trans p.bSupply, q.sSupply.trans p.sSupply⟩

/-- nothing in flight -/
def NoFlow (q : List Msg) : Prop :=
  mintsTo bseiA q = 0 ∧ mintsTo stseiA q = 0 ∧ burnsBy bseiA q = 0 ∧ burnsBy stseiA q = 0

theorem NoFlow.nil : NoFlow [] := ⟨rfl, rfl, rfl, rfl⟩

theorem NoFlow.append {x y : List Msg} (a : NoFlow x) (b : NoFlow y) : NoFlow (x ++ y) := by
  obtain ⟨a1, a2, a3, a4⟩ := a
  obtain ⟨b1, b2, b3, b4⟩ := b
  refine ⟨?_, ?_, ?_, ?_⟩ <;> simp only [mintsTo_append, burnsBy_append, a1, a2, a3, a4, b1, b2, b3, b4]

theorem NoFlow.of_still {q : List Msg} (h : AllStill q) : NoFlow q :=
  ⟨(flows_of_still _ q h).1, (flows_of_still _ q h).1, (flows_of_still _ q h).2, (flows_of_still _ q h).2⟩

theorem NoFlow.tail {m : Msg} {q : List Msg} (h : NoFlow (m :: q)) : NoFlow q := by
  obtain ⟨a1, a2, a3, a4⟩ := h
  simp only [mintsTo, burnsBy] at a1 a2 a3 a4
  exact ⟨by omega, by omega, by omega, by omega⟩

/-- emitted by a contract other than the hub, and not a mint: nothing in flight -/
theorem NoFlow.of_other {q : List Msg} (a : Addr) (ha : a ≠ hubA) (h1 : SentBy a q) (h2 : NoMint q) : NoFlow q :=
  ⟨mintsTo_of_noMint _ q h2, mintsTo_of_noMint _ q h2, burnsBy_of_sentBy _ a q h1 ha, burnsBy_of_sentBy _ a q h1 ha⟩

/-- nothing has priced yet -/
def Fresh (s0 s : Sys) (q : List Msg) : Prop :=
  SamePricing s0 s ∧ NoFlow q ∧ ∃ Qs R, q = Qs ++ R ∧ AllStill Qs ∧ NoTrg (R.drop 1)

theorem still_not_trg (m : Msg) (h : Still m = true) : Trg m = false := by
  cases m with
  | wasm a b c d =>
    cases c with
    | hub hm => cases hm <;> first | rfl | (simp [Still] at h)
    | tok tm =>
      cases tm <;> first | rfl | (simp only [Still, bne_iff_ne, ne_eq] at h; simp [Trg, h])
    | _ => rfl
  | _ => rfl

theorem NoTrg.of_still {q : List Msg} (h : AllStill q) : NoTrg q :=
  fun m hm => still_not_trg m (h m hm)

theorem NoTrg.tail {m : Msg} {q : List Msg} (h : NoTrg (m :: q)) : NoTrg q :=
  fun x hx => h x (List.mem_cons_of_mem _ hx)

theorem NoTrg.drop {q : List Msg} (h : NoTrg q) (n : Nat) : NoTrg (q.drop n) :=
  fun x hx => h x (List.mem_of_mem_drop hx)

/-- a still message at the head: the phase is kept -/
theorem Fresh.next_still {s0 s s' : Sys} {m : Msg} {rest subs : List Msg} (f : Fresh s0 s (m :: rest))
    (hm : Still m = true) (p : SamePools s s') (hs : AllStill subs) : Fresh s0 s' (subs ++ rest) := by
  obtain ⟨sp, nf, Qs, R, hq, hQ, hR⟩ := f
  refine ⟨sp.of_pools p, NoFlow.append (NoFlow.of_still hs) nf.tail, ?_⟩
  cases Qs with
  | nil =>
    simp only [List.nil_append] at hq
    subst hq
    refine ⟨subs, rest, rfl, hs, ?_⟩
    exact NoTrg.drop (by simpa using hR) 1
  | cons a Qs' =>
    simp only [List.cons_append, List.cons.injEq] at hq
    obtain ⟨rfl, hq⟩ := hq
    subst hq
    refine ⟨subs ++ Qs', R, by simp, AllStill.append hs (fun x hx => hQ x (List.mem_cons_of_mem _ hx)), hR⟩

/-- a message that is not still at the head of a fresh queue: it is the only possible trigger -/
theorem Fresh.head_not_still {s0 s : Sys} {m : Msg} {rest : List Msg} (f : Fresh s0 s (m :: rest))
    (hm : Still m = false) : SamePricing s0 s ∧ NoFlow (m :: rest) ∧ NoTrg rest := by
  obtain ⟨sp, nf, Qs, R, hq, hQ, hR⟩ := f
  refine ⟨sp, nf, ?_⟩
  cases Qs with
  | nil =>
    simp only [List.nil_append] at hq
    subst hq
    simpa using hR
  | cons a Qs' =>
    simp only [List.cons_append, List.cons.injEq] at hq
    obtain ⟨rfl, _⟩ := hq
    have := hQ m (List.mem_cons_self ..)
    rw [hm] at this; cases this

/-- everything the step lemmas carry -/
structure RInv (s0 s : Sys) (q : List Msg) : Prop where
  book : BookInv s q
  btok : s.hub.bsei = some bseiA
  stok : s.hub.stsei = some stseiA
  bwf : s.bsei.WF
  swf : s.stsei.WF
  bhub : s.bsei.hub = hubA
  shub : s.stsei.hub = hubA
  trb : TR (rb0 s0) s.hub.bBond s.bsei.supply s.hub.reqB (mintsTo bseiA q) (burnsBy bseiA q)
  trs : TR (rs0 s0) s.hub.sBond s.stsei.supply s.hub.reqS (mintsTo stseiA q) (burnsBy stseiA q)
  phase : Fresh s0 s q ∨ NoTrg q


/-! ### arithmetic of the true-ratio predicate -/

theorem TR.mono {r B B' S R m u : Nat} (h : TR r B S R m u) (hB : B ≤ B') : TR r B' S R m u := by
  unfold TR at *
  have : B * D ≤ B' * D := Nat.mul_le_mul_right _ hB
  omega

/-- a fresh rate is a true ratio of its own pool and dominates every other true ratio -/
theorem TR.le_rate {r B S R : Nat} (h : TR r B S R 0 0) (hB : 0 < B) (hC : 0 < S + R) : r ≤ rateOf B S R := by
  unfold TR at h
  exact le_rateOf r B S R hB hC (by simpa using h)

theorem stake_plain (m : Msg) (h : isStake m = true) : ∀ a b c d, m ≠ .wasm a b c d := by
  intro a b c d he; subst he; simp [isStake] at h

theorem flows_of_stake (t : Addr) (q : List Msg) (h : ∀ m ∈ q, isStake m = true) :
    mintsTo t q = 0 ∧ burnsBy t q = 0 :=
  flows_of_plain t q (fun m hm => stake_plain m (h m hm))

theorem bsei_ne_stsei : bseiA ≠ stseiA := by decide

/-- flows of a single token message sent by the hub -/
theorem flows_mint (t tok : Addr) (to a : Nat) :
    mintsTo t [tokMsg hubA tok (.mint to a)] = (if tok = t then a else 0) ∧
    burnsBy t [tokMsg hubA tok (.mint to a)] = 0 := by
  simp [mintsTo, burnsBy, tokMsg]

theorem flows_burn (t tok : Addr) (a : Nat) :
    mintsTo t [tokMsg hubA tok (.burn a)] = 0 ∧
    burnsBy t [tokMsg hubA tok (.burn a)] = (if tok = t then a else 0) := by
  simp [mintsTo, burnsBy, tokMsg]

end Krp
