/-
  RateStep.lean — one message of a transaction: the invariant `RInv` (Lemmas/RateInv) is carried from
  the queue `m :: rest` in state `s` to the queue `subs ++ rest` in the state after handling `m`.
-/
import Krp.Lemmas.RateHub2
namespace Krp
open HubSt

/-- with a message that is not one of the hub's staking messages at the head of the queue, all the
    hub's pending staking messages have run: the books are within the delegations -/
theorem BookInv.head_nonstake {s : Sys} {m : Msg} {rest : List Msg} (inv : BookInv s (m :: rest))
    (hm : isStake m = false) : s.hub.bBond + s.hub.sBond ≤ totalDelegated s := by
  obtain ⟨pre, rest', hq, hpre, _, hle⟩ := inv.split
  cases pre with
  | nil => simpa [undelSum, delSum] using hle
  | cons p pre' =>
    simp only [List.cons_append, List.cons.injEq] at hq
    have := hpre p (List.mem_cons_self ..)
    rw [← hq.1, hm] at this; cases this

/-- the configuration facts of `RInv`, from one state to the next -/
theorem static_step (s s' : Sys) (m : Msg) (subs : List Msg) (hx : s.handle m = .ok (s', subs))
    (btok : s.hub.bsei = some bseiA) (stok : s.hub.stsei = some stseiA)
    (bwf : s.bsei.WF) (swf : s.stsei.WF) (bhub : s.bsei.hub = hubA) (shub : s.stsei.hub = hubA) :
    s'.hub.bsei = some bseiA ∧ s'.hub.stsei = some stseiA ∧ s'.bsei.WF ∧ s'.stsei.WF ∧
    s'.bsei.hub = hubA ∧ s'.stsei.hub = hubA := by
  have tk := handle_tokens s s' m subs hx
  refine ⟨tk.bsei _ btok, tk.stsei _ stok, ?_⟩
  cases handle_touch s s' m subs hx with
  | none h _ _ _ => rw [h.bsei, h.stsei]; exact ⟨bwf, swf, bhub, shub⟩
  | hub s1 sender funds hm _ _ _ _ hx' b t r d g => rw [b, t]; exact ⟨bwf, swf, bhub, shub⟩
  | bsei s1 sender funds tm _ _ hx' h t r d g =>
    have st := C18_bsei_step _ _ _ _ _ _ _ _ _ bwf hx'
    rw [t]; exact ⟨st.2.1, swf, by rw [st.2.2.2]; exact bhub, shub⟩
  | stsei blk sender funds tm _ hx' h b r d g =>
    have st := C18_stsei_step _ _ _ _ _ _ _ _ swf hx'
    rw [b]; exact ⟨bwf, st.2.1, bhub, by rw [st.2.2.1]; exact shub⟩
  | reward s1 sender funds rm _ _ _ _ hx' h b t d g => rw [b, t]; exact ⟨bwf, swf, bhub, shub⟩
  | disp env sender funds dm _ _ _ hx' h b t r g => rw [b, t]; exact ⟨bwf, swf, bhub, shub⟩
  | reg s1 sender funds rm _ h1 _ _ hx' h b t r d => rw [b, t]; exact ⟨bwf, swf, bhub, shub⟩


/-! ### moving the true ratio along with the supply -/

theorem TR.mint_exec {r B S R a M U : Nat} (h : TR r B S R (a + M) U) : TR r B (S + a) R M U := by
  unfold TR at *
  rw [show S + a + M + R = S + (a + M) + R by omega]; exact h

theorem TR.burn_exec {r B S' R a M U : Nat} (h : TR r B (S' + a) R M (a + U)) : TR r B S' R M U := by
  unfold TR at *
  have e1 : r * (S' + a + M + R) = r * (S' + M + R) + r * a := by
    rw [show S' + a + M + R = (S' + M + R) + a by omega, Nat.mul_add]
  have e2 : r * (a + U) = r * a + r * U := Nat.mul_add _ _ _
  rw [e1, e2] at h
  omega

theorem TR.supply_le {r B S S' R M U : Nat} (h : TR r B S R M U) (hS : S' ≤ S) : TR r B S' R M U := by
  unfold TR at *
  have : r * (S' + M + R) ≤ r * (S + M + R) := Nat.mul_le_mul_left _ (by omega)
  omega

/-- flows of a queue whose head is a call that is no token message -/
theorem flows_cons_other (t : Addr) (m : Msg) (q : List Msg)
    (h : ∀ a b tm d, m ≠ .wasm a b (.tok tm) d) :
    mintsTo t (m :: q) = mintsTo t q ∧ burnsBy t (m :: q) = burnsBy t q := by
  cases m with
  | wasm a b c d =>
    cases c with
    | tok tm => exact absurd rfl (h a b tm d)
    | _ => simp [mintsTo, burnsBy]
  | _ => simp [mintsTo, burnsBy]

/-- flows of a queue whose head is a token message addressed to another contract than `t` -/
theorem flows_cons_elsewhere (t : Addr) (a b : Addr) (tm : TokMsg) (d : List (Denom × Nat)) (q : List Msg)
    (hb : b ≠ t) :
    mintsTo t (.wasm a b (.tok tm) d :: q) = mintsTo t q ∧ burnsBy t (.wasm a b (.tok tm) d :: q) = burnsBy t q := by
  cases tm <;> simp [mintsTo, burnsBy, hb]


theorem internal_ne : bseiA ≠ hubA ∧ stseiA ≠ hubA ∧ rewardA ≠ hubA ∧ dispA ≠ hubA ∧ regA ≠ hubA ∧ swapA ≠ hubA ∧
    swapA ≠ bseiA ∧ swapA ≠ stseiA ∧ sinkA ≠ bseiA ∧ sinkA ≠ stseiA ∧ hubA ≠ bseiA ∧ hubA ≠ stseiA ∧
    rewardA ≠ bseiA ∧ rewardA ≠ stseiA ∧ dispA ≠ bseiA ∧ dispA ≠ stseiA ∧ regA ≠ bseiA ∧ regA ≠ stseiA := by decide

/-- the flows of what a contract other than the hub emits: none -/
theorem subs_noflow (s s' : Sys) (a b : Addr) (c : Call) (d : List (Denom × Nat)) (subs : List Msg)
    (hx : s.handle (.wasm a b c d) = .ok (s', subs)) (hb : b ≠ hubA) : NoFlow subs := by
  have sb := (handle_sentBy s s' _ subs hx).1 a b c d rfl
  have nm := handle_noMint s s' _ subs (by intro a' x f he; injection he with _ h2; exact hb h2) hx
  exact NoFlow.of_other b hb sb nm

/-- token messages that carry no supply flow of their own -/
def quietTok : TokMsg → Bool
  | .mint _ _ => false
  | .burn _ => false
  | _ => true

theorem flows_cons_quiet (t a b : Addr) (tm : TokMsg) (d : List (Denom × Nat)) (q : List Msg) (h : quietTok tm = true) :
    mintsTo t (.wasm a b (.tok tm) d :: q) = mintsTo t q ∧ burnsBy t (.wasm a b (.tok tm) d :: q) = burnsBy t q := by
  cases tm <;> first | (exfalso; simpa [quietTok] using h) | simp [mintsTo, burnsBy]

theorem flows_cons_burnFrom (t a b o : Addr) (n : Nat) (d : List (Denom × Nat)) (q : List Msg) :
    mintsTo t (.wasm a b (.tok (.burnFrom o n)) d :: q) = mintsTo t q ∧
    burnsBy t (.wasm a b (.tok (.burnFrom o n)) d :: q) = burnsBy t q := by
  simp [mintsTo, burnsBy]

theorem tr_step (s0 s s' : Sys) (m : Msg) (rest subs : List Msg) (inv : RInv s0 s (m :: rest))
    (hb0 : s0.hub.bBond + s0.hub.sBond ≠ 0)
    (hx : s.handle m = .ok (s', subs)) :
    TR (rb0 s0) s'.hub.bBond s'.bsei.supply s'.hub.reqB (mintsTo bseiA (subs ++ rest)) (burnsBy bseiA (subs ++ rest)) ∧
    TR (rs0 s0) s'.hub.sBond s'.stsei.supply s'.hub.reqS (mintsTo stseiA (subs ++ rest)) (burnsBy stseiA (subs ++ rest)) := by
  have trb := inv.trb
  have trs := inv.trs
  have ne := internal_ne
  -- what is emitted by any contract but the hub carries no flows
  have keep : ∀ {t : Addr}, NoFlow subs → (mintsTo t (m :: rest) = mintsTo t rest ∧ burnsBy t (m :: rest) = burnsBy t rest) →
      (t = bseiA ∨ t = stseiA) →
      mintsTo t (subs ++ rest) = mintsTo t (m :: rest) ∧ burnsBy t (subs ++ rest) = burnsBy t (m :: rest) := by
    intro t nf hm ht
    obtain ⟨n1, n2, n3, n4⟩ := nf
    rw [mintsTo_append, burnsBy_append, hm.1, hm.2]
    rcases ht with rfl | rfl
    · rw [n1, n3]; omega
    · rw [n2, n4]; omega
  cases handle_touch s s' m subs hx with
  | none h hm hs hb =>
    have nf : NoFlow subs := by
      have pl : ∀ x ∈ subs, ∀ a b c d, x ≠ .wasm a b c d := by
        intro x hx' a b c d he
        obtain ⟨t, dn, amt, hh⟩ := hb x hx'
        rw [hh] at he; cases he
      exact ⟨(flows_of_plain _ _ pl).1, (flows_of_plain _ _ pl).1, (flows_of_plain _ _ pl).2, (flows_of_plain _ _ pl).2⟩
    have hd : ∀ t, (t = bseiA ∨ t = stseiA) → mintsTo t (m :: rest) = mintsTo t rest ∧ burnsBy t (m :: rest) = burnsBy t rest := by
      intro t ht
      rcases hm with hm | ⟨a, b, c, d, rfl, hbt⟩
      · exact flows_cons_other t m rest (fun a b tm d he => hm a b _ d he)
      · cases c with
        | tok tm =>
          apply flows_cons_elsewhere
          rcases hbt with rfl | rfl <;> rcases ht with rfl | rfl <;> simp [ne]
        | _ => exact flows_cons_other t _ rest (fun a b tm d he => by cases he)
    have k1 := keep nf (hd bseiA (Or.inl rfl)) (Or.inl rfl)
    have k2 := keep nf (hd stseiA (Or.inr rfl)) (Or.inr rfl)
    rw [h.hub, h.bsei, h.stsei, k1.1, k1.2, k2.1, k2.2]
    exact ⟨trb, trs⟩
  | hub s1 sender funds hm heq h1 _ hc hx' b t r d g =>
    subst heq
    have hd1 := flows_cons_other bseiA (Msg.wasm sender hubA (Call.hub hm) funds) rest (fun a b tm d he => by cases he)
    have hd2 := flows_cons_other stseiA (Msg.wasm sender hubA (Call.hub hm) funds) rest (fun a b tm d he => by cases he)
    rw [hd1.1, hd1.2] at trb
    rw [hd2.1, hd2.2] at trs
    rw [b, t, mintsTo_append, burnsBy_append, mintsTo_append, burnsBy_append]
    by_cases hst : Still (Msg.wasm sender hubA (Call.hub hm) funds) = true
    · have hs := handle_still s s' _ subs hst hx
      have nf := NoFlow.of_still hs.2
      obtain ⟨n1, n2, n3, n4⟩ := nf
      rw [n1, n2, n3, n4, hs.1.bBond, hs.1.sBond, hs.1.reqB, hs.1.reqS]
      simp only [Nat.zero_add]
      exact ⟨trb, trs⟩
    · have hst' : Still (Msg.wasm sender hubA (Call.hub hm) funds) = false := by simpa using hst
      have c1 : ChainOK s1 := ⟨fun v hv => by rw [hc.1]; exact inv.book.chain.outside v hv,
        fun v hv => by rw [hc.1]; exact inv.book.chain.unset v (by rw [← hc.2.1]; exact hv)⟩
      have hsum : ((s1.hubEnv.delegations).map (·.2)).sum = totalDelegated s := by
        rw [delegations_sum s1 c1]; unfold totalDelegated; rw [hc.1]
      have ns : s.hub.bBond + s.hub.sBond ≤ ((s1.hubEnv.delegations).map (·.2)).sum := by
        rw [hsum]; exact inv.book.head_nonstake rfl
      have hbs : s1.hubEnv.supplyOf bseiA = .ok s.bsei.supply := by
        show s1.supplyOf bseiA = _
        unfold Sys.supplyOf; rw [if_pos rfl, h1.bsei]
      have hss : s1.hubEnv.supplyOf stseiA = .ok s.stsei.supply := by
        show s1.supplyOf stseiA = _
        unfold Sys.supplyOf; rw [if_neg (by decide), if_pos rfl, h1.stsei]
      refine hub_flow s.hub s'.hub s1.hubEnv sender funds hm subs hx' hst' rfl inv.btok inv.stok _ _ hbs hss ns
        _ _ _ _ _ _ trb trs ?_
      intro htr
      have fr : Fresh s0 s (Msg.wasm sender hubA (Call.hub hm) funds :: rest) := by
        rcases inv.phase with f | nt
        · exact f
        · have := nt _ (List.mem_cons_self ..)
          rw [htr] at this; cases this
      obtain ⟨sp, nf, _⟩ := fr.head_not_still hst'
      obtain ⟨n1, n2, n3, n4⟩ := nf.tail
      refine ⟨n1, n3, n2, n4, ?_, ?_, ?_, ?_⟩
      · unfold rb0; rw [sp.bBond, sp.bSupply, sp.reqB]
      · unfold rs0; rw [sp.sBond, sp.sSupply, sp.reqS]
      · intro hnil
        rw [hnil] at ns
        have : s.hub.bBond + s.hub.sBond = 0 := by simpa using ns
        rw [sp.bBond, sp.sBond] at this
        exact hb0 this
      · rw [sp.bBond, sp.sBond]; exact hb0
  | bsei s1 sender funds tm heq h1 hx' h t r d g =>
    subst heq
    have nf := subs_noflow s s' _ _ _ _ subs hx ne.1
    obtain ⟨n1, n2, n3, n4⟩ := nf
    have st := C18_bsei_step _ _ _ _ _ _ _ _ _ inv.bwf hx'
    have cs := (C18_core_step _ _ _ _ _ inv.bwf st.1).2.2.2
    have other := flows_cons_elsewhere stseiA sender bseiA tm funds rest (by decide)
    rw [h, t, mintsTo_append, burnsBy_append, mintsTo_append, burnsBy_append, n1, n2, n3, n4]
    simp only [Nat.zero_add]
    rw [← other.1, ← other.2]
    refine ⟨?_, trs⟩
    cases tm with
    | mint rcp a =>
      simp only [] at cs
      rw [cs.2]
      have hm : mintsTo bseiA (Msg.wasm sender bseiA (Call.tok (TokMsg.mint rcp a)) funds :: rest) = a + mintsTo bseiA rest := by
        simp [mintsTo]
      have hu : burnsBy bseiA (Msg.wasm sender bseiA (Call.tok (TokMsg.mint rcp a)) funds :: rest) = burnsBy bseiA rest := by
        simp [burnsBy]
      rw [hm, hu] at trb
      exact trb.mint_exec
    | burn a =>
      simp only [] at cs
      have hsender : sender = hubA := by rw [cs.1]; exact inv.bhub
      have hm : mintsTo bseiA (Msg.wasm sender bseiA (Call.tok (TokMsg.burn a)) funds :: rest) = mintsTo bseiA rest := by
        simp [mintsTo]
      have hu : burnsBy bseiA (Msg.wasm sender bseiA (Call.tok (TokMsg.burn a)) funds :: rest) = a + burnsBy bseiA rest := by
        simp [burnsBy, hsender]
      rw [hm, hu, ← cs.2.1] at trb
      exact trb.burn_exec
    | burnFrom o a =>
      simp only [] at cs
      have hm := flows_cons_burnFrom bseiA sender bseiA o a funds rest
      rw [hm.1, hm.2] at trb
      exact trb.supply_le (by omega)
    | transfer rcp a => simp only [] at cs; rw [cs]; have hm := flows_cons_quiet bseiA sender bseiA (.transfer rcp a) funds rest rfl; rw [hm.1, hm.2] at trb; exact trb
    | send c a hk => simp only [] at cs; rw [cs]; have hm := flows_cons_quiet bseiA sender bseiA (.send c a hk) funds rest rfl; rw [hm.1, hm.2] at trb; exact trb
    | incAllow sp a e => simp only [] at cs; rw [cs]; have hm := flows_cons_quiet bseiA sender bseiA (.incAllow sp a e) funds rest rfl; rw [hm.1, hm.2] at trb; exact trb
    | decAllow sp a e => simp only [] at cs; rw [cs]; have hm := flows_cons_quiet bseiA sender bseiA (.decAllow sp a e) funds rest rfl; rw [hm.1, hm.2] at trb; exact trb
    | transferFrom o rcp a => simp only [] at cs; rw [cs.1]; have hm := flows_cons_quiet bseiA sender bseiA (.transferFrom o rcp a) funds rest rfl; rw [hm.1, hm.2] at trb; exact trb
    | sendFrom o c a hk => simp only [] at cs; rw [cs.1]; have hm := flows_cons_quiet bseiA sender bseiA (.sendFrom o c a hk) funds rest rfl; rw [hm.1, hm.2] at trb; exact trb
    | updateMinter n => simp only [] at cs; rw [cs]; have hm := flows_cons_quiet bseiA sender bseiA (.updateMinter n) funds rest rfl; rw [hm.1, hm.2] at trb; exact trb
    | updateMarketing => simp only [] at cs; rw [cs]; have hm := flows_cons_quiet bseiA sender bseiA .updateMarketing funds rest rfl; rw [hm.1, hm.2] at trb; exact trb
  | stsei blk sender funds tm heq hx' h b r d g =>
    subst heq
    have nf := subs_noflow s s' _ _ _ _ subs hx ne.2.1
    obtain ⟨n1, n2, n3, n4⟩ := nf
    have st := C18_stsei_step _ _ _ _ _ _ _ _ inv.swf hx'
    have cs := (C18_core_step _ _ _ _ _ inv.swf st.1).2.2.2
    have other := flows_cons_elsewhere bseiA sender stseiA tm funds rest (by decide)
    rw [h, b, mintsTo_append, burnsBy_append, mintsTo_append, burnsBy_append, n1, n2, n3, n4]
    simp only [Nat.zero_add]
    rw [← other.1, ← other.2]
    refine ⟨trb, ?_⟩
    cases tm with
    | mint rcp a =>
      simp only [] at cs
      rw [cs.2]
      have hm : mintsTo stseiA (Msg.wasm sender stseiA (Call.tok (TokMsg.mint rcp a)) funds :: rest) = a + mintsTo stseiA rest := by
        simp [mintsTo]
      have hu : burnsBy stseiA (Msg.wasm sender stseiA (Call.tok (TokMsg.mint rcp a)) funds :: rest) = burnsBy stseiA rest := by
        simp [burnsBy]
      rw [hm, hu] at trs
      exact trs.mint_exec
    | burn a =>
      simp only [] at cs
      have hsender : sender = hubA := by rw [cs.1]; exact inv.shub
      have hm : mintsTo stseiA (Msg.wasm sender stseiA (Call.tok (TokMsg.burn a)) funds :: rest) = mintsTo stseiA rest := by
        simp [mintsTo]
      have hu : burnsBy stseiA (Msg.wasm sender stseiA (Call.tok (TokMsg.burn a)) funds :: rest) = a + burnsBy stseiA rest := by
        simp [burnsBy, hsender]
      rw [hm, hu, ← cs.2.1] at trs
      exact trs.burn_exec
    | burnFrom o a =>
      simp only [] at cs
      have hm := flows_cons_burnFrom stseiA sender stseiA o a funds rest
      rw [hm.1, hm.2] at trs
      exact trs.supply_le (by omega)
    | transfer rcp a => simp only [] at cs; rw [cs]; have hm := flows_cons_quiet stseiA sender stseiA (.transfer rcp a) funds rest rfl; rw [hm.1, hm.2] at trs; exact trs
    | send c a hk => simp only [] at cs; rw [cs]; have hm := flows_cons_quiet stseiA sender stseiA (.send c a hk) funds rest rfl; rw [hm.1, hm.2] at trs; exact trs
    | incAllow sp a e => simp only [] at cs; rw [cs]; have hm := flows_cons_quiet stseiA sender stseiA (.incAllow sp a e) funds rest rfl; rw [hm.1, hm.2] at trs; exact trs
    | decAllow sp a e => simp only [] at cs; rw [cs]; have hm := flows_cons_quiet stseiA sender stseiA (.decAllow sp a e) funds rest rfl; rw [hm.1, hm.2] at trs; exact trs
    | transferFrom o rcp a => simp only [] at cs; rw [cs.1]; have hm := flows_cons_quiet stseiA sender stseiA (.transferFrom o rcp a) funds rest rfl; rw [hm.1, hm.2] at trs; exact trs
    | sendFrom o c a hk => simp only [] at cs; rw [cs.1]; have hm := flows_cons_quiet stseiA sender stseiA (.sendFrom o c a hk) funds rest rfl; rw [hm.1, hm.2] at trs; exact trs
    | updateMinter n => simp only [] at cs; rw [cs]; have hm := flows_cons_quiet stseiA sender stseiA (.updateMinter n) funds rest rfl; rw [hm.1, hm.2] at trs; exact trs
    | updateMarketing => simp only [] at cs; rw [cs]; have hm := flows_cons_quiet stseiA sender stseiA .updateMarketing funds rest rfl; rw [hm.1, hm.2] at trs; exact trs
  | reward s1 sender funds rm heq h1 _ _ hx' h b t d g =>
    subst heq
    have nf := subs_noflow s s' _ _ _ _ subs hx ne.2.2.1
    have k1 := keep nf (flows_cons_other bseiA _ rest (fun a b tm d he => by cases he)) (Or.inl rfl)
    have k2 := keep nf (flows_cons_other stseiA _ rest (fun a b tm d he => by cases he)) (Or.inr rfl)
    rw [h, b, t, k1.1, k1.2, k2.1, k2.2]
    exact ⟨trb, trs⟩
  | disp env sender funds dm heq _ _ hx' h b t r g =>
    subst heq
    have nf := subs_noflow s s' _ _ _ _ subs hx ne.2.2.2.1
    have k1 := keep nf (flows_cons_other bseiA _ rest (fun a b tm d he => by cases he)) (Or.inl rfl)
    have k2 := keep nf (flows_cons_other stseiA _ rest (fun a b tm d he => by cases he)) (Or.inr rfl)
    rw [h, b, t, k1.1, k1.2, k2.1, k2.2]
    exact ⟨trb, trs⟩
  | reg s1 sender funds rm heq h1 _ _ hx' h b t r d =>
    subst heq
    have nf := subs_noflow s s' _ _ _ _ subs hx ne.2.2.2.2.1
    have k1 := keep nf (flows_cons_other bseiA _ rest (fun a b tm d he => by cases he)) (Or.inl rfl)
    have k2 := keep nf (flows_cons_other stseiA _ rest (fun a b tm d he => by cases he)) (Or.inr rfl)
    rw [h, b, t, k1.1, k1.2, k2.1, k2.2]
    exact ⟨trb, trs⟩


/-- what a token emits on a Send / SendFrom: still messages (the mirror updates), then the hook -/
theorem bsei_send_shape (t t' : Token) (b : Block) (rw : Res Addr) (sender : Addr) (tm : TokMsg) (ms : List Msg)
    (hm : sendsToHub hubA tm = true) (hx : bseiExec t b bseiA rw hubA sender tm = .ok (t', ms)) :
    ∃ pre x, ms = pre ++ [x] ∧ AllStill pre := by
  cases tm with
  | send c amt hook =>
    simp only [bseiExec] at hx; exc_norm at hx; exc_split at hx
    exact ⟨[_, _], _, rfl, AllStill.cons rfl (AllStill.cons rfl AllStill.nil)⟩
  | sendFrom o c amt hook =>
    simp only [bseiExec] at hx; exc_norm at hx; exc_split at hx
    exact ⟨[_, _], _, rfl, AllStill.cons rfl (AllStill.cons rfl AllStill.nil)⟩
  | _ => simp [sendsToHub] at hm

theorem stsei_send_shape (t t' : Token) (b : Block) (sender : Addr) (tm : TokMsg) (ms : List Msg)
    (hm : sendsToHub hubA tm = true) (hx : stseiExec t b stseiA hubA sender tm = .ok (t', ms)) :
    ∃ pre x, ms = pre ++ [x] ∧ AllStill pre := by
  cases tm with
  | send c amt hook =>
    simp only [stseiExec] at hx; exc_norm at hx; exc_split at hx
    exact ⟨[], _, rfl, AllStill.nil⟩
  | sendFrom o c amt hook =>
    simp only [stseiExec] at hx; exc_norm at hx; exc_split at hx
    exact ⟨[], _, rfl, AllStill.nil⟩
  | _ => simp [sendsToHub] at hm

/-- the supply after a Send / SendFrom is the supply before -/
theorem send_supply (t t' : Token) (b : Block) (sender : Addr) (tm : TokMsg) (wf : t.WF)
    (hm : sendsToHub hubA tm = true) (hc : t.core b sender tm = .ok t') : t'.supply = t.supply := by
  have cs := (C18_core_step _ _ _ _ _ wf hc).2.2.2
  cases tm with
  | send c amt hook => exact cs
  | sendFrom o c amt hook => exact cs.1
  | _ => simp [sendsToHub] at hm

theorem phase_step (s0 s s' : Sys) (m : Msg) (rest subs : List Msg) (inv : RInv s0 s (m :: rest))
    (hx : s.handle m = .ok (s', subs)) : Fresh s0 s' (subs ++ rest) ∨ NoTrg (subs ++ rest) := by
  by_cases hst : Still m = true
  · have hs := handle_still s s' m subs hst hx
    rcases inv.phase with f | nt
    · exact Or.inl (f.next_still hst hs.1 hs.2)
    · exact Or.inr (NoTrg.append (NoTrg.of_still hs.2) nt.tail)
  · have hst' : Still m = false := by simpa using hst
    -- the rest of the queue holds no trigger, in either phase
    have hrest : NoTrg rest := by
      rcases inv.phase with f | nt
      · exact (f.head_not_still hst').2.2
      · exact nt.tail
    by_cases htr : Trg m = true
    · -- a trigger at the head: the queue is fresh
      have fr : Fresh s0 s (m :: rest) := by
        rcases inv.phase with f | nt
        · exact f
        · have := nt _ (List.mem_cons_self ..)
          rw [htr] at this; cases this
      obtain ⟨sp, nf, _⟩ := fr.head_not_still hst'
      cases handle_touch s s' m subs hx with
      | none h hm hs hb =>
        refine Or.inr (NoTrg.append ?_ hrest)
        intro x hx'
        obtain ⟨t, d, a, he⟩ := hb x hx'
        subst he; rfl
      | hub s1 sender funds hm heq _ _ _ hx' b t r d g =>
        exact Or.inr (NoTrg.append (hubExec_noTrg _ _ _ _ _ _ _ hx') hrest)
      | bsei s1 sender funds tm heq h1 hx' h t r d g =>
        subst heq
        have hsend : sendsToHub hubA tm = true := by
          cases tm <;> first | (simp [Trg] at htr; done) | (simp only [Trg, beq_iff_eq] at htr; simp [sendsToHub, htr])
        obtain ⟨pre, x, hms, hpre⟩ := bsei_send_shape _ _ _ _ _ _ _ hsend hx'
        have st := C18_bsei_step _ _ _ _ _ _ _ _ _ inv.bwf hx'
        have hsup := send_supply _ _ _ _ _ inv.bwf hsend st.1
        have nfs := subs_noflow s s' _ _ _ _ subs hx internal_ne.1
        left
        refine ⟨⟨by rw [h]; exact sp.bBond, by rw [h]; exact sp.sBond, by rw [h]; exact sp.reqB, by rw [h]; exact sp.reqS,
          by rw [hsup]; exact sp.bSupply, by rw [t]; exact sp.sSupply⟩, NoFlow.append nfs nf.tail, pre, x :: rest, ?_, hpre, ?_⟩
        · rw [hms]; simp
        · simpa using hrest
      | stsei blk sender funds tm heq hx' h b r d g =>
        subst heq
        have hsend : sendsToHub hubA tm = true := by
          cases tm <;> first | (simp [Trg] at htr; done) | (simp only [Trg, beq_iff_eq] at htr; simp [sendsToHub, htr])
        obtain ⟨pre, x, hms, hpre⟩ := stsei_send_shape _ _ _ _ _ _ hsend hx'
        have st := C18_stsei_step _ _ _ _ _ _ _ _ inv.swf hx'
        have hsup := send_supply _ _ _ _ _ inv.swf hsend st.1
        have nfs := subs_noflow s s' _ _ _ _ subs hx internal_ne.2.1
        left
        refine ⟨⟨by rw [h]; exact sp.bBond, by rw [h]; exact sp.sBond, by rw [h]; exact sp.reqB, by rw [h]; exact sp.reqS,
          by rw [b]; exact sp.bSupply, by rw [hsup]; exact sp.sSupply⟩, NoFlow.append nfs nf.tail, pre, x :: rest, ?_, hpre, ?_⟩
        · rw [hms]; simp
        · simpa using hrest
      | reward s1 sender funds rm heq _ _ _ hx' h b t d g => subst heq; simp [Trg] at htr
      | disp env sender funds dm heq _ _ hx' h b t r g => subst heq; simp [Trg] at htr
      | reg s1 sender funds rm heq h1 _ _ hx' h b t r d => subst heq; simp [Trg] at htr
    · have htr' : Trg m = false := by simpa using htr
      exact Or.inr (NoTrg.append (handle_noTrg s s' m subs htr' hx) hrest)


/-- **one message**: the invariant is carried from `m :: rest` to what `m` emits followed by `rest` -/
theorem RInv.step (s0 s s' : Sys) (m : Msg) (rest subs : List Msg) (hb0 : s0.hub.bBond + s0.hub.sBond ≠ 0)
    (inv : RInv s0 s (m :: rest)) (hx : s.handle m = .ok (s', subs)) : RInv s0 s' (subs ++ rest) := by
  obtain ⟨a1, a2, a3, a4, a5, a6⟩ := static_step s s' m subs hx inv.btok inv.stok inv.bwf inv.swf inv.bhub inv.shub
  have tr := tr_step s0 s s' m rest subs inv hb0 hx
  exact ⟨BookInv.step s s' m rest subs inv.book hx, a1, a2, a3, a4, a5, a6, tr.1, tr.2, phase_step s0 s s' m rest subs inv hx⟩

end Krp
