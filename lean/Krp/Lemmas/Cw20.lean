import Krp.Cw20
import Krp.Lemmas.Maps
import Krp.Lemmas.Tactics
namespace Krp
namespace Token

/-- ledger well-formedness: the balances sum to the total supply -/
structure WF (t : Token) : Prop where
  nodup : t.holders.Nodup
  zero : ∀ a, a ∉ t.holders → t.bal a = 0
  sum : sumOn t.holders t.bal = t.supply

/-- what a single balance write does to the sum -/
theorem setBal_sum (t : Token) (h : t.WF) (a : Addr) (v : Nat) :
    (t.setBal a v).holders.Nodup ∧ (∀ x, x ∉ (t.setBal a v).holders → (t.setBal a v).bal x = 0) ∧
    sumOn (t.setBal a v).holders (t.setBal a v).bal + t.bal a = t.supply + v := by
  refine ⟨nodup_addKey _ _ h.nodup, ?_, ?_⟩
  · intro x hx
    simp only [setBal, mem_addKey, not_or] at hx
    simp [setBal, upd, hx.1, h.zero x hx.2]
  · have := sumOn_addKey t.holders t.bal (upd t.bal a v) a (fun k hk => by simp [upd, hk]) h.nodup (h.zero a)
    simp only [upd_same] at this
    have := h.sum
    simp only [setBal]; omega

theorem setBal_wf (t : Token) (h : t.WF) (a : Addr) (v s : Nat) (hs : s + t.bal a = t.supply + v) :
    WF { (t.setBal a v) with supply := s } := by
  have := setBal_sum t h a v
  exact ⟨this.1, this.2.1, by show sumOn (t.setBal a v).holders (t.setBal a v).bal = s; omega⟩

theorem bal_le_supply (t : Token) (h : t.WF) (a : Addr) : t.bal a ≤ t.supply := by
  have := setBal_sum t h a 0; omega

theorem move_wf (t t' : Token) (h : t.WF) (src dst : Addr) (amt : Nat)
    (hx : t.move src dst amt = .ok t') : t'.WF ∧ t'.supply = t.supply ∧ t'.minter = t.minter ∧ t'.hub = t.hub := by
  unfold move at hx
  split at hx
  · cases hx
  · rename_i hge
    injection hx with hx; subst hx
    have hbs : t.bal src ≤ t.supply := by have := setBal_sum t h src 0; omega
    have w1 : WF { (t.setBal src (t.bal src - amt)) with supply := t.supply - amt } :=
      setBal_wf t h src _ _ (by omega)
    have w2 := setBal_wf _ w1 dst ({ (t.setBal src (t.bal src - amt)) with supply := t.supply - amt }.bal dst + amt)
      t.supply (by
        show t.supply + _ = t.supply - amt + _
        omega)
    exact ⟨⟨w2.nodup, w2.zero, w2.sum⟩, rfl, rfl, rfl⟩

end Token
end Krp

namespace Krp
namespace Token

/-- facts every ledger operation is judged by -/
structure Step (t t' : Token) (dSupplyUp dSupplyDown : Nat) : Prop where
  wf : t'.WF
  supply : t'.supply + dSupplyDown = t.supply + dSupplyUp
  hub : t'.hub = t.hub
  legacy : t'.legacy = t.legacy

theorem allow_wf (t : Token) (h : t.WF) (o s : Addr) (a : Nat) (e : Expiry) :
    (t.setAllow o s a e).WF ∧ (t.delAllow o s).WF := ⟨⟨h.nodup, h.zero, h.sum⟩, ⟨h.nodup, h.zero, h.sum⟩⟩

theorem transfer_step (t t' : Token) (h : t.WF) (s d : Addr) (amt : Nat)
    (hx : t.transfer s d amt = .ok t') : Step t t' 0 0 ∧ t'.minter = t.minter := by
  unfold transfer at hx
  split at hx
  · cases hx
  · have := move_wf t t' h s d amt hx
    exact ⟨⟨this.1, by simp [this.2.1], this.2.2.2, by
      unfold move at hx; split at hx
      · cases hx
      · injection hx with hx; subst hx; rfl⟩, this.2.2.1⟩

theorem burn_step (t t' : Token) (h : t.WF) (s : Addr) (amt : Nat)
    (hx : t.burn s amt = .ok t') : Step t t' 0 amt ∧ t'.minter = t.minter ∧ amt ≤ t.bal s := by
  unfold burn at hx
  exc_split at hx
  refine ⟨⟨setBal_wf t h s _ _ (by omega), by show t.supply - amt + amt = t.supply + 0; omega, rfl, rfl⟩, rfl, by omega⟩

theorem mint_step (t t' : Token) (h : t.WF) (s d : Addr) (amt : Nat)
    (hx : t.mint s d amt = .ok t') : Step t t' amt 0 ∧ t'.minter = t.minter ∧ t.minter = some s := by
  unfold mint at hx
  exc_split at hx
  rename_i hm
  refine ⟨⟨setBal_wf t h d _ _ (by omega), rfl, rfl, rfl⟩, rfl, ?_⟩
  exact Classical.not_not.mp hm

theorem incAllow_step (t t' : Token) (h : t.WF) (b : Block) (o s : Addr) (amt : Nat) (e : Option Expiry)
    (hx : t.incAllow b o s amt e = .ok t') : Step t t' 0 0 ∧ t'.minter = t.minter := by
  unfold incAllow at hx
  exc_split at hx
  all_goals exact ⟨⟨(allow_wf t h _ _ _ _).1, rfl, rfl, rfl⟩, rfl⟩

theorem decAllow_step (t t' : Token) (h : t.WF) (b : Block) (o s : Addr) (amt : Nat) (e : Option Expiry)
    (hx : t.decAllow b o s amt e = .ok t') : Step t t' 0 0 ∧ t'.minter = t.minter := by
  unfold decAllow at hx
  exc_split at hx
  all_goals first
    | exact ⟨⟨(allow_wf t h _ _ _ _).1, rfl, rfl, rfl⟩, rfl⟩
    | exact ⟨⟨(allow_wf t h _ _ 0 .never).2, rfl, rfl, rfl⟩, rfl⟩

/-- `deduct_allowance` succeeds only within an existing, unexpired allowance and lowers it by
    exactly the amount -/
theorem deduct_spec (t t' : Token) (b : Block) (o s : Addr) (amt : Nat)
    (hx : t.deduct b o s amt = .ok t') :
    t.allowSet o s = true ∧ (t.allowExp o s).isExpired b = false ∧ amt ≤ t.allowAmt o s ∧
    t'.allowAmt o s = t.allowAmt o s - amt ∧
    t' = t.setAllow o s (t.allowAmt o s - amt) (t.allowExp o s) := by
  unfold deduct at hx
  exc_split at hx
  rename_i h1 h2 h3
  refine ⟨by simpa using h1, by simpa using h2, by omega, by simp [setAllow], rfl⟩

theorem transferFrom_step (t t' : Token) (h : t.WF) (b : Block) (sp o d : Addr) (amt : Nat)
    (hx : t.transferFrom b sp o d amt = .ok t') :
    Step t t' 0 0 ∧ t'.minter = t.minter ∧
    t.allowSet o sp = true ∧ (t.allowExp o sp).isExpired b = false ∧ amt ≤ t.allowAmt o sp ∧
    t'.allowAmt o sp = t.allowAmt o sp - amt := by
  unfold transferFrom at hx
  split at hx
  · cases hx
  · rename_i t1 hd
    have hs := deduct_spec t t1 b o sp amt hd
    have w1 : t1.WF := by rw [hs.2.2.2.2]; exact (allow_wf t h _ _ _ _).1
    have hm := move_wf t1 t' w1 o d amt hx
    have e1 : t1.supply = t.supply := by rw [hs.2.2.2.2]; rfl
    have e2 : t1.minter = t.minter := by rw [hs.2.2.2.2]; rfl
    have e3 : t1.hub = t.hub := by rw [hs.2.2.2.2]; rfl
    have e4 : t1.legacy = t.legacy := by rw [hs.2.2.2.2]; rfl
    have e5 : t'.allowAmt = t1.allowAmt ∧ t'.legacy = t1.legacy := by
      unfold move at hx; split at hx
      · cases hx
      · injection hx with hx; subst hx; exact ⟨rfl, rfl⟩
    refine ⟨⟨hm.1, by rw [hm.2.1, e1], by rw [hm.2.2.2, e3], by rw [e5.2, e4]⟩, by rw [hm.2.2.1, e2],
      hs.1, hs.2.1, hs.2.2.1, by rw [e5.1]; exact hs.2.2.2.1⟩

theorem burnFrom_step (t t' : Token) (h : t.WF) (b : Block) (sp o : Addr) (amt : Nat)
    (hx : t.burnFrom b sp o amt = .ok t') :
    Step t t' 0 amt ∧ t'.minter = t.minter ∧
    t.allowSet o sp = true ∧ (t.allowExp o sp).isExpired b = false ∧ amt ≤ t.allowAmt o sp ∧
    t'.allowAmt o sp = t.allowAmt o sp - amt := by
  unfold burnFrom at hx
  split at hx
  · cases hx
  · rename_i t1 hd
    have hs := deduct_spec t t1 b o sp amt hd
    have w1 : t1.WF := by rw [hs.2.2.2.2]; exact (allow_wf t h _ _ _ _).1
    have e1 : t1.supply = t.supply := by rw [hs.2.2.2.2]; rfl
    exc_split at hx
    refine ⟨⟨setBal_wf t1 w1 o _ _ (by omega), by show t1.supply - amt + amt = t.supply + 0; omega,
      by rw [hs.2.2.2.2]; rfl, by rw [hs.2.2.2.2]; rfl⟩, by rw [hs.2.2.2.2]; rfl,
      hs.1, hs.2.1, hs.2.2.1, by simp only [setBal]; exact hs.2.2.2.1⟩

end Token
end Krp

namespace Krp

/-- the ledger part shared by the bSei and stSei wrappers -/
def Token.core (t : Token) (b : Block) (sender : Addr) : TokMsg → Res Token
  | .transfer to amt => t.transfer sender to amt
  | .burn amt => if sender ≠ t.hub then .error "unauthorized" else t.burn sender amt
  | .send c amt _ => t.transfer sender c amt
  | .mint to amt => t.mint sender to amt
  | .incAllow s amt e => t.incAllow b sender s amt e
  | .decAllow s amt e => t.decAllow b sender s amt e
  | .transferFrom o to amt => t.transferFrom b sender o to amt
  | .burnFrom o amt => t.burnFrom b sender o amt
  | .sendFrom o c amt _ => t.transferFrom b sender o c amt
  | .updateMinter n => t.updateMinter sender n
  | .updateMarketing => .error "unauthorized"

theorem bsei_core (t t' : Token) (b : Block) (self : Addr) (rw : Res Addr) (hubc sender : Addr)
    (m : TokMsg) (ms : List Msg) (hx : bseiExec t b self rw hubc sender m = .ok (t', ms)) :
    t.core b sender m = .ok t' := by
  cases m <;> simp only [bseiExec] at hx <;> exc_norm at hx <;> exc_split at hx <;>
    simp_all [Token.core]

theorem stsei_core (t t' : Token) (b : Block) (self hubc sender : Addr)
    (m : TokMsg) (ms : List Msg) (hx : stseiExec t b self hubc sender m = .ok (t', ms)) :
    t.core b sender m = .ok t' := by
  cases m <;> simp only [stseiExec] at hx <;> exc_norm at hx <;> exc_split at hx <;>
    simp_all [Token.core]

end Krp

namespace Krp
theorem Token.move_wf_supply (t t' : Token) (src dst : Addr) (amt : Nat)
    (hx : t.move src dst amt = .ok t') : t'.supply = t.supply := by
  unfold Token.move at hx
  split at hx
  · cases hx
  · injection hx with hx; subst hx; rfl
end Krp
