import Krp.Lemmas.HubSpec
namespace Krp
namespace HubSt

/-- the tunable parameters and the configuration of a hub state -/
structure SameParams (h h' : HubSt) : Prop where
  epoch : h'.epoch = h.epoch
  unbonding : h'.unbonding = h.unbonding
  fee : h'.fee = h.fee
  thr : h'.thr = h.thr
  rewardDenom : h'.rewardDenom = h.rewardDenom
  paused : h'.paused = h.paused

structure SameConfig (h h' : HubSt) : Prop where
  creator : h'.creator = h.creator
  updater : h'.updater = h.updater
  dispatcher : h'.dispatcher = h.dispatcher
  registry : h'.registry = h.registry
  bsei : h'.bsei = h.bsei
  stsei : h'.stsei = h.stsei
  airdrop : h'.airdrop = h.airdrop
  rewards : h'.rewards = h.rewards
  newOwner : h'.newOwner = h.newOwner

theorem SameParams.refl (h : HubSt) : SameParams h h := ⟨rfl, rfl, rfl, rfl, rfl, rfl⟩
theorem SameConfig.refl (h : HubSt) : SameConfig h h := ⟨rfl, rfl, rfl, rfl, rfl, rfl, rfl, rfl, rfl⟩

theorem SameParams.trans {a b c : HubSt} (x : SameParams a b) (y : SameParams b c) : SameParams a c :=
  ⟨by rw [y.epoch, x.epoch], by rw [y.unbonding, x.unbonding], by rw [y.fee, x.fee], by rw [y.thr, x.thr],
   by rw [y.rewardDenom, x.rewardDenom], by rw [y.paused, x.paused]⟩
theorem SameConfig.trans {a b c : HubSt} (x : SameConfig a b) (y : SameConfig b c) : SameConfig a c :=
  ⟨by rw [y.creator, x.creator], by rw [y.updater, x.updater], by rw [y.dispatcher, x.dispatcher],
   by rw [y.registry, x.registry], by rw [y.bsei, x.bsei], by rw [y.stsei, x.stsei],
   by rw [y.airdrop, x.airdrop], by rw [y.rewards, x.rewards], by rw [y.newOwner, x.newOwner]⟩

theorem actualState_frame (h st : HubSt) (e : HubEnv) (hx : h.actualState e = .ok st) :
    SameParams h st ∧ SameConfig h st := by
  unfold actualState at hx
  split at hx
  · injection hx with hx; subst hx; exact ⟨SameParams.refl _, SameConfig.refl _⟩
  · split at hx
    · injection hx with hx; subst hx; exact ⟨SameParams.refl _, SameConfig.refl _⟩
    · exc_norm at hx
      exc_split at hx
      all_goals exact ⟨⟨rfl, rfl, rfl, rfl, rfl, rfl⟩, ⟨rfl, rfl, rfl, rfl, rfl, rfl, rfl, rfl, rfl⟩⟩

theorem processUndelegations_frame (h h' : HubSt) (e : HubEnv) (ms : List Msg)
    (hx : h.processUndelegations e = .ok (h', ms)) : SameParams h h' ∧ SameConfig h h' := by
  unfold processUndelegations at hx
  exc_split at hx
  exact ⟨⟨rfl, rfl, rfl, rfl, rfl, rfl⟩, ⟨rfl, rfl, rfl, rfl, rfl, rfl, rfl, rfl, rfl⟩⟩

theorem processWithdrawRate_frame (h h' : HubSt) (cutoff bal : Nat)
    (hx : h.processWithdrawRate cutoff bal = .ok h') : SameParams h h' ∧ SameConfig h h' := by
  unfold processWithdrawRate at hx
  simp only [] at hx
  exc_split at hx
  all_goals exact ⟨⟨rfl, rfl, rfl, rfl, rfl, rfl⟩, ⟨rfl, rfl, rfl, rfl, rfl, rfl, rfl, rfl, rfl⟩⟩

theorem delWait_fold_frame (ids : List Nat) (u : Addr) (h : HubSt) :
    SameParams h (ids.foldl (fun hh i => hh.delWait u i) h) ∧
    SameConfig h (ids.foldl (fun hh i => hh.delWait u i) h) := by
  induction ids generalizing h with
  | nil => exact ⟨SameParams.refl _, SameConfig.refl _⟩
  | cons i is ih =>
    simp only [List.foldl_cons]
    have := ih (h.delWait u i)
    have p0 : SameParams h (h.delWait u i) := ⟨rfl, rfl, rfl, rfl, rfl, rfl⟩
    have c0 : SameConfig h (h.delWait u i) := ⟨rfl, rfl, rfl, rfl, rfl, rfl, rfl, rfl, rfl⟩
    exact ⟨SameParams.trans p0 this.1, SameConfig.trans c0 this.2⟩

theorem withdraw_frame (h h' : HubSt) (e : HubEnv) (sender : Addr) (ms : List Msg)
    (hx : h.withdraw e sender = .ok (h', ms)) : SameParams h h' ∧ SameConfig h h' := by
  unfold withdraw at hx
  split at hx
  · cases hx
  · split at hx
    · cases hx
    · rename_i h1 hp
      have f1 := processWithdrawRate_frame h h1 _ _ hp
      split at hx
      · cases hx
      · split at hx
        · cases hx
        · injection hx with hx; injection hx with hx _; subst hx
          have f2 := delWait_fold_frame (h1.finished sender).2 sender h1
          refine ⟨SameParams.trans f1.1 (SameParams.trans f2.1 ?_), SameConfig.trans f1.2 (SameConfig.trans f2.2 ?_)⟩
          · exact ⟨rfl, rfl, rfl, rfl, rfl, rfl⟩
          · exact ⟨rfl, rfl, rfl, rfl, rfl, rfl, rfl, rfl, rfl⟩

end HubSt
end Krp

namespace Krp
namespace HubSt

theorem unbondB_frame (h h' : HubSt) (e : HubEnv) (a : Nat) (u : Addr) (ms : List Msg)
    (hx : h.unbondB e a u = .ok (h', ms)) : SameParams h h' ∧ SameConfig h h' := by
  obtain ⟨st, supply, withFee, tok, hst, _, _, _, _, _, hcase⟩ := unbondB_spec h h' e a u ms hx
  have f0 := actualState_frame h st e hst
  have p1 : SameParams st (st.afterUnbondB u supply a withFee) := ⟨rfl, rfl, rfl, rfl, rfl, rfl⟩
  have c1 : SameConfig st (st.afterUnbondB u supply a withFee) := ⟨rfl, rfl, rfl, rfl, rfl, rfl, rfl, rfl, rfl⟩
  rcases hcase with ⟨_, um, hp, _⟩ | ⟨_, hh, _⟩
  · have f2 := processUndelegations_frame _ _ _ _ hp
    exact ⟨SameParams.trans f0.1 (SameParams.trans p1 f2.1), SameConfig.trans f0.2 (SameConfig.trans c1 f2.2)⟩
  · rw [hh]; exact ⟨SameParams.trans f0.1 p1, SameConfig.trans f0.2 c1⟩

theorem unbondS_frame (h h' : HubSt) (e : HubEnv) (a : Nat) (u : Addr) (ms : List Msg)
    (hx : h.unbondS e a u = .ok (h', ms)) : SameParams h h' ∧ SameConfig h h' := by
  obtain ⟨st, tok, hst, _, _, hcase⟩ := unbondS_spec h h' e a u ms hx
  have f0 := actualState_frame h st e hst
  have p1 : SameParams st (st.afterUnbondS u a) := ⟨rfl, rfl, rfl, rfl, rfl, rfl⟩
  have c1 : SameConfig st (st.afterUnbondS u a) := ⟨rfl, rfl, rfl, rfl, rfl, rfl, rfl, rfl, rfl⟩
  rcases hcase with ⟨_, um, hp, _⟩ | ⟨_, hh, _⟩
  · have f2 := processUndelegations_frame _ _ _ _ hp
    exact ⟨SameParams.trans f0.1 (SameParams.trans p1 f2.1), SameConfig.trans f0.2 (SameConfig.trans c1 f2.2)⟩
  · rw [hh]; exact ⟨SameParams.trans f0.1 p1, SameConfig.trans f0.2 c1⟩

theorem convertSB_frame (h h' : HubSt) (e : HubEnv) (a : Nat) (u : Addr) (ms : List Msg)
    (hx : h.convertSB e a u = .ok (h', ms)) : SameParams h h' ∧ SameConfig h h' := by
  obtain ⟨st, _, _, _, _, _, hst, _, _, _, _, _, _, _, _, hh, _⟩ := convertSB_spec h h' e a u ms hx
  have f0 := actualState_frame h st e hst
  rw [hh]
  exact ⟨SameParams.trans f0.1 ⟨rfl, rfl, rfl, rfl, rfl, rfl⟩,
         SameConfig.trans f0.2 ⟨rfl, rfl, rfl, rfl, rfl, rfl, rfl, rfl, rfl⟩⟩

theorem convertBS_frame (h h' : HubSt) (e : HubEnv) (a : Nat) (u : Addr) (ms : List Msg)
    (hx : h.convertBS e a u = .ok (h', ms)) : SameParams h h' ∧ SameConfig h h' := by
  obtain ⟨st, _, _, _, _, _, hst, _, _, _, _, _, _, _, _, hh, _⟩ := convertBS_spec h h' e a u ms hx
  have f0 := actualState_frame h st e hst
  rw [hh]
  exact ⟨SameParams.trans f0.1 ⟨rfl, rfl, rfl, rfl, rfl, rfl⟩,
         SameConfig.trans f0.2 ⟨rfl, rfl, rfl, rfl, rfl, rfl, rfl, rfl, rfl⟩⟩

theorem bond_frame (h h' : HubSt) (e : HubEnv) (s : Addr) (f : List (Denom × Nat)) (ms : List Msg) :
    (h.bondB e s f = .ok (h', ms) → SameParams h h' ∧ SameConfig h h') ∧
    (h.bondS e s f = .ok (h', ms) → SameParams h h' ∧ SameConfig h h') ∧
    (h.bondR e s f = .ok (h', ms) → SameParams h h' ∧ SameConfig h h') := by
  refine ⟨fun hx => ?_, fun hx => ?_, fun hx => ?_⟩
  · obtain ⟨_, st, _, _, _, _, hst, _, _, _, _, hh, _⟩ := bondB_spec h h' e s f ms hx
    have f0 := actualState_frame h st e hst
    rw [hh]
    exact ⟨SameParams.trans f0.1 ⟨rfl, rfl, rfl, rfl, rfl, rfl⟩,
           SameConfig.trans f0.2 ⟨rfl, rfl, rfl, rfl, rfl, rfl, rfl, rfl, rfl⟩⟩
  · obtain ⟨_, st, _, _, _, hst, _, _, _, hh, _⟩ := bondS_spec h h' e s f ms hx
    have f0 := actualState_frame h st e hst
    rw [hh]
    exact ⟨SameParams.trans f0.1 ⟨rfl, rfl, rfl, rfl, rfl, rfl⟩,
           SameConfig.trans f0.2 ⟨rfl, rfl, rfl, rfl, rfl, rfl, rfl, rfl, rfl⟩⟩
  · obtain ⟨_, st, _, _, hst, _, hh⟩ := bondR_spec h h' e s f ms hx
    have f0 := actualState_frame h st e hst
    rw [hh]
    exact ⟨SameParams.trans f0.1 ⟨rfl, rfl, rfl, rfl, rfl, rfl⟩,
           SameConfig.trans f0.2 ⟨rfl, rfl, rfl, rfl, rfl, rfl, rfl, rfl, rfl⟩⟩

/-- `migrate_unbond_wait_lists` touches only the wait lists and (possibly) the pause flag -/
theorem migrate_frame (h : HubSt) (limit : Option Nat) :
    SameConfig h (h.migrate limit) ∧ (h.migrate limit).fee = h.fee ∧ (h.migrate limit).thr = h.thr ∧
    (h.migrate limit).epoch = h.epoch ∧ (h.migrate limit).unbonding = h.unbonding ∧
    (h.migrate limit).rewardDenom = h.rewardDenom ∧
    ((h.migrate limit).paused = h.paused ∨ (h.migrate limit).legacy = []) := by
  unfold migrate
  simp only []
  split
  · exact ⟨SameConfig.refl _, rfl, rfl, rfl, rfl, rfl, Or.inl rfl⟩
  · have key : ∀ (l : List (Addr × Nat × Nat)) (g : HubSt),
        SameConfig g (l.foldl migrateOne g) ∧ SameParams g (l.foldl migrateOne g) := by
      intro l
      induction l with
      | nil => intro g; exact ⟨SameConfig.refl _, SameParams.refl _⟩
      | cons x xs ih =>
        intro g
        simp only [List.foldl_cons]
        have := ih (migrateOne g x)
        have c0 : SameConfig g (migrateOne g x) := ⟨rfl, rfl, rfl, rfl, rfl, rfl, rfl, rfl, rfl⟩
        have p0 : SameParams g (migrateOne g x) := ⟨rfl, rfl, rfl, rfl, rfl, rfl⟩
        exact ⟨SameConfig.trans c0 this.1, SameParams.trans p0 this.2⟩
    have k := key (h.legacy.take (limit.getD 1000)) h
    refine ⟨⟨k.1.creator, k.1.updater, k.1.dispatcher, k.1.registry, k.1.bsei, k.1.stsei, k.1.airdrop,
      k.1.rewards, k.1.newOwner⟩, k.2.fee, k.2.thr, k.2.epoch, k.2.unbonding, k.2.rewardDenom, ?_⟩
    by_cases hr : h.legacy.drop (limit.getD 1000) = []
    · right; simp only [hr]
    · left; simp only [hr, if_false]; exact k.2.paused

end HubSt
end Krp
