/-
  RatePending.lean — transactions that *start* with a slash still unrecognised.

  Until the first minting / redeeming hub entry point (a trigger) runs, everything handled is still
  (Lemmas/Still): pools, requests, supplies and delegations are those of the start, so the trigger's
  own slashing check produces exactly the pools the State query reported at the start. The trigger
  step then establishes the invariant `RInv` (Lemmas/RateInv) relative to the *virtual* start state
  in which that recognition has already happened, and `RInv.step` carries it on.
-/
import Krp.Lemmas.RateStep
import Krp.Lemmas.RateHubG
import Krp.Props.C13
namespace Krp
open HubSt

/-- the minting / redeeming hub entry points -/
def IsTrigHub (hm : HubMsg) : Prop := hm = .bond ∨ hm = .bondForStSei ∨ ∃ u a k, hm = .receive u a k

theorem IsTrigHub.trg {hm : HubMsg} (h : IsTrigHub hm) (a b : Addr) (d : List (Denom × Nat)) :
    Trg (.wasm a b (.hub hm) d) = true := by
  rcases h with rfl | rfl | ⟨u, x, k, rfl⟩ <;> rfl

/-- the slashing check depends only on pools, requests, token addresses, stored rates, and on the
    delegations and supplies it is shown -/
theorem actualState_transport (h0 h : HubSt) (e0 e : HubEnv) (st0 : HubSt) (h0x : h0.actualState e0 = .ok st0)
    (p1 : h.bBond = h0.bBond) (p2 : h.sBond = h0.sBond) (p3 : h.reqB = h0.reqB) (p4 : h.reqS = h0.reqS)
    (p5 : h.bsei = h0.bsei) (p6 : h.stsei = h0.stsei) (p7 : h.bRate = h0.bRate) (p8 : h.sRate = h0.sRate)
    (hd : e.delegations = e0.delegations) (hs : e.supplyOf = e0.supplyOf) :
    ∃ st, h.actualState e = .ok st ∧ st.bBond = st0.bBond ∧ st.sBond = st0.sBond ∧
      st.bRate = st0.bRate ∧ st.sRate = st0.sRate := by
  have hbq : h.bSupplyQ e = h0.bSupplyQ e0 := by unfold bSupplyQ; rw [p5, hs]
  have hsq : h.sSupplyQ e = h0.sSupplyQ e0 := by unfold sSupplyQ; rw [p6, hs]
  unfold actualState at h0x ⊢
  rw [hd, p1, p2, hbq, hsq, p3, p4]
  by_cases c1 : e0.delegations = []
  · simp only [c1, if_true] at h0x ⊢
    injection h0x with h0x; subst h0x
    exact ⟨h, rfl, p1, p2, p7, p8⟩
  · simp only [c1, if_false] at h0x ⊢
    by_cases c2 : h0.bBond + h0.sBond = 0
    · simp only [c2, if_true] at h0x ⊢
      injection h0x with h0x; subst h0x
      exact ⟨h, rfl, p1, p2, p7, p8⟩
    · simp only [c2, if_false, bind, Except.bind] at h0x ⊢
      generalize h0.bSupplyQ e0 = X at h0x ⊢
      cases X with
      | error err => cases h0x
      | ok bs =>
        simp only [] at h0x ⊢
        generalize h0.sSupplyQ e0 = Y at h0x ⊢
        cases Y with
        | error err => cases h0x
        | ok ss =>
          simp only [] at h0x ⊢
          by_cases c3 : h0.bBond + h0.sBond > (e0.delegations.map (·.2)).sum
          · simp only [c3, if_true] at h0x ⊢
            by_cases c4 : (e0.delegations.map (·.2)).sum <
                mulDec (e0.delegations.map (·.2)).sum (fromRatio h0.bBond (h0.bBond + h0.sBond))
            · simp only [c4, if_true] at h0x; cases h0x
            · simp only [c4, if_false] at h0x ⊢
              injection h0x with h0x; subst h0x
              exact ⟨_, rfl, rfl, rfl, rfl, rfl⟩
          · simp only [c3, if_false] at h0x ⊢
            injection h0x with h0x; subst h0x
            exact ⟨_, rfl, rfl, rfl, rfl, rfl⟩

/-- what the pending modes keep: everything that prices, and of the delegations their total and
    whether there are any (validator removal moves stake between validators) -/
structure SamePoolsW (s s' : Sys) : Prop where
  bBond : s'.hub.bBond = s.hub.bBond
  sBond : s'.hub.sBond = s.hub.sBond
  reqB : s'.hub.reqB = s.hub.reqB
  reqS : s'.hub.reqS = s.hub.reqS
  bRate : s'.hub.bRate = s.hub.bRate
  sRate : s'.hub.sRate = s.hub.sRate
  btok : s'.hub.bsei = s.hub.bsei
  stok : s'.hub.stsei = s.hub.stsei
  bSupply : s'.bsei.supply = s.bsei.supply
  sSupply : s'.stsei.supply = s.stsei.supply
  total : totalDelegated s' = totalDelegated s
  ne : s'.delegationsOf hubA = [] ↔ s.delegationsOf hubA = []

theorem SamePools.weak {s s' : Sys} (p : SamePools s s') : SamePoolsW s s' :=
  ⟨p.bBond, p.sBond, p.reqB, p.reqS, p.bRate, p.sRate, p.btok, p.stok, p.bSupply, p.sSupply,
   by unfold totalDelegated; rw [p.deleg], by unfold Sys.delegationsOf; rw [p.deleg, p.delegSet]⟩

theorem SamePoolsW.refl (s : Sys) : SamePoolsW s s := (SamePools.refl s).weak

theorem SamePoolsW.trans' {a b c : Sys} (x : SamePoolsW a b) (y : SamePoolsW b c) : SamePoolsW a c :=
  ⟨y.bBond.trans x.bBond, y.sBond.trans x.sBond, y.reqB.trans x.reqB, y.reqS.trans x.reqS,
   y.bRate.trans x.bRate, y.sRate.trans x.sRate, y.btok.trans x.btok, y.stok.trans x.stok,
   y.bSupply.trans x.bSupply, y.sSupply.trans x.sSupply, y.total.trans x.total, y.ne.trans x.ne⟩

/-- the slashing check reads of the delegations only their total and whether there are any -/
theorem actualState_transportW (h0 h : HubSt) (e0 e : HubEnv) (st0 : HubSt) (h0x : h0.actualState e0 = .ok st0)
    (p1 : h.bBond = h0.bBond) (p2 : h.sBond = h0.sBond) (p3 : h.reqB = h0.reqB) (p4 : h.reqS = h0.reqS)
    (p5 : h.bsei = h0.bsei) (p6 : h.stsei = h0.stsei) (p7 : h.bRate = h0.bRate) (p8 : h.sRate = h0.sRate)
    (hsum : (e.delegations.map (·.2)).sum = (e0.delegations.map (·.2)).sum)
    (hne : e.delegations = [] ↔ e0.delegations = []) (hs : e.supplyOf = e0.supplyOf) :
    ∃ st, h.actualState e = .ok st ∧ st.bBond = st0.bBond ∧ st.sBond = st0.sBond ∧
      st.bRate = st0.bRate ∧ st.sRate = st0.sRate := by
  have hbq : h.bSupplyQ e = h0.bSupplyQ e0 := by unfold bSupplyQ; rw [p5, hs]
  have hsq : h.sSupplyQ e = h0.sSupplyQ e0 := by unfold sSupplyQ; rw [p6, hs]
  unfold actualState at h0x ⊢
  rw [p1, p2, hbq, hsq, p3, p4, hsum]
  by_cases c1 : e0.delegations = []
  · have c1' : e.delegations = [] := hne.mpr c1
    simp only [c1, c1', if_true] at h0x ⊢
    injection h0x with h0x; subst h0x
    exact ⟨h, rfl, p1, p2, p7, p8⟩
  · have c1' : ¬ e.delegations = [] := fun hh => c1 (hne.mp hh)
    simp only [c1, c1', if_false] at h0x ⊢
    by_cases c2 : h0.bBond + h0.sBond = 0
    · simp only [c2, if_true] at h0x ⊢
      injection h0x with h0x; subst h0x
      exact ⟨h, rfl, p1, p2, p7, p8⟩
    · simp only [c2, if_false, bind, Except.bind] at h0x ⊢
      generalize h0.bSupplyQ e0 = X at h0x ⊢
      cases X with
      | error err => cases h0x
      | ok bs =>
        simp only [] at h0x ⊢
        generalize h0.sSupplyQ e0 = Y at h0x ⊢
        cases Y with
        | error err => cases h0x
        | ok ss =>
          simp only [] at h0x ⊢
          by_cases c3 : h0.bBond + h0.sBond > (e0.delegations.map (·.2)).sum
          · simp only [c3, if_true] at h0x ⊢
            by_cases c4 : (e0.delegations.map (·.2)).sum <
                mulDec (e0.delegations.map (·.2)).sum (fromRatio h0.bBond (h0.bBond + h0.sBond))
            · simp only [c4, if_true] at h0x; cases h0x
            · simp only [c4, if_false] at h0x ⊢
              injection h0x with h0x; subst h0x
              exact ⟨_, rfl, rfl, rfl, rfl, rfl⟩
          · simp only [c3, if_false] at h0x ⊢
            injection h0x with h0x; subst h0x
            exact ⟨_, rfl, rfl, rfl, rfl, rfl⟩

/-- the virtual start: the state a CheckSlashing at the start would have left -/
def virt (s0 : Sys) (st0 : HubSt) : Sys := { s0 with hub := st0 }

/-- **the trigger step from a pending state**: pools, requests, supplies and delegations are still
    those of the start `s0` (whatever slash is unrecognised there); a minting / redeeming hub entry
    point is handled; afterwards the invariant of the composed theorem holds relative to the pools
    the State query reported at the start -/
theorem recog_establishes (s0 s s' : Sys) (st0 : HubSt) (sender : Addr) (funds : List (Denom × Nat))
    (hm : HubMsg) (subs rest : List Msg)
    (hst0 : s0.hub.actualState s0.hubEnv = .ok st0)
    (sp : SamePoolsW s0 s) (c0 : ChainOK s0) (c : ChainOK s)
    (btok0 : s0.hub.bsei = some bseiA) (stok0 : s0.hub.stsei = some stseiA)
    (bwf : s.bsei.WF) (swf : s.stsei.WF) (bhub : s.bsei.hub = hubA) (shub : s.stsei.hub = hubA)
    (hd : s0.delegationsOf hubA ≠ []) (hz : s0.hub.bBond + s0.hub.sBond ≠ 0)
    (backB : 0 < st0.bBond ∨ s0.bsei.supply + s0.hub.reqB = 0)
    (backS : 0 < st0.sBond ∨ s0.stsei.supply + s0.hub.reqS = 0)
    (ht : IsTrigHub hm ∨ hm = .bondRewards)
    (rnt : NoTrg rest) (rns : ∀ x ∈ rest, isStake x = false) (rnf : NoFlow rest)
    (hx : s.handle (.wasm sender hubA (.hub hm) funds) = .ok (s', subs)) :
    RInv (virt s0 st0) s' (subs ++ rest) := by
  have btok : s.hub.bsei = some bseiA := by rw [sp.btok]; exact btok0
  have stok : s.hub.stsei = some stseiA := by rw [sp.stok]; exact stok0
  have ch := handle_wasm_chain s s' _ _ _ _ subs hx
  cases handle_touch s s' _ subs hx with
  | none h hm' _ _ =>
    rcases hm' with hm' | ⟨a, b, c', d, heq, ht'⟩
    · exact absurd rfl (hm' _ _ _ _)
    · injection heq with _ e2 _ _
      rcases ht' with ht' | ht' <;> (rw [ht'] at e2; cases e2)
  | hub s1 sender' funds' hm' heq h1' _ hc hx' bb t r dd g =>
    injection heq with e1 _ e3 e4
    injection e3 with e3
    subst e1; subst e3; subst e4
    have c1 : ChainOK s1 := ⟨fun w hw => by rw [hc.1]; exact c.outside w hw,
      fun w hw => by rw [hc.1]; rw [hc.2.1] at hw; exact c.unset w hw⟩
    have hT : ((s1.hubEnv.delegations).map (·.2)).sum = totalDelegated s := by
      rw [delegations_sum s1 c1]; unfold totalDelegated; rw [hc.1]
    have hsum : ((s1.hubEnv.delegations).map (·.2)).sum = ((s0.hubEnv.delegations).map (·.2)).sum := by
      rw [hT, delegations_sum s0 c0, sp.total]
    have hne : s1.hubEnv.delegations = [] ↔ s0.hubEnv.delegations = [] := by
      have e1 : s1.hubEnv.delegations = s.hubEnv.delegations := by
        show s1.delegationsOf hubA = s.delegationsOf hubA
        unfold Sys.delegationsOf; rw [hc.1, hc.2.1]
      rw [e1]; exact sp.ne
    have hsup : s1.hubEnv.supplyOf = s0.hubEnv.supplyOf := by
      funext a
      show s1.supplyOf a = s0.supplyOf a
      unfold Sys.supplyOf; rw [h1'.bsei, h1'.stsei, sp.bSupply, sp.sSupply]
    obtain ⟨st, hst, q1, q2, _, _⟩ := actualState_transportW s0.hub s.hub s0.hubEnv s1.hubEnv st0 hst0
      sp.bBond sp.sBond sp.reqB sp.reqS sp.btok sp.stok sp.bRate sp.sRate hsum hne hsup
    have hd1 : s1.hubEnv.delegations ≠ [] := fun hh => hd (hne.mp hh)
    have hz1 : s.hub.bBond + s.hub.sBond ≠ 0 := by rw [sp.bBond, sp.sBond]; exact hz
    have hbs : s1.hubEnv.supplyOf bseiA = .ok s.bsei.supply := by
      show s1.supplyOf bseiA = _
      unfold Sys.supplyOf; rw [if_pos rfl, h1'.bsei]
    have hss : s1.hubEnv.supplyOf stseiA = .ok s.stsei.supply := by
      show s1.supplyOf stseiA = _
      unfold Sys.supplyOf; rw [if_neg (by decide), if_pos rfl, h1'.stsei]
    have sb0 := (actualState_spec s0.hub st0 s0.hubEnv hst0).1
    have rbV : rb0 (virt s0 st0) = rateOf st.bBond s.bsei.supply s.hub.reqB := by
      show rateOf st0.bBond s0.bsei.supply st0.reqB = _
      rw [sb0.reqB, q1, sp.bSupply, sp.reqB]
    have rsV : rs0 (virt s0 st0) = rateOf st.sBond s.stsei.supply s.hub.reqS := by
      show rateOf st0.sBond s0.stsei.supply st0.reqS = _
      rw [sb0.reqS, q2, sp.sSupply, sp.reqS]
    have trb : TR (rateOf st.bBond s.bsei.supply s.hub.reqB) st.bBond s.bsei.supply s.hub.reqB 0 0 := by
      unfold TR
      rw [q1, sp.bSupply, sp.reqB]
      simpa using rateOf_mul_le st0.bBond s0.bsei.supply s0.hub.reqB backB
    have trs : TR (rateOf st.sBond s.stsei.supply s.hub.reqS) st.sBond s.stsei.supply s.hub.reqS 0 0 := by
      unfold TR
      rw [q2, sp.sSupply, sp.reqS]
      simpa using rateOf_mul_le st0.sBond s0.stsei.supply s0.hub.reqS backS
    have fl : TR (rateOf st.bBond s.bsei.supply s.hub.reqB) s'.hub.bBond s.bsei.supply s'.hub.reqB
          (mintsTo bseiA subs) (burnsBy bseiA subs) ∧
        TR (rateOf st.sBond s.stsei.supply s.hub.reqS) s'.hub.sBond s.stsei.supply s'.hub.reqS
          (mintsTo stseiA subs) (burnsBy stseiA subs) := by
      rcases ht with ht | ht
      · exact hub_flowG s.hub s'.hub s1.hubEnv sender funds hm subs hx' (ht.trg _ _ _) rfl btok stok _ _ hbs hss
          st hst hd1 hz1 trb trs
      · subst ht
        simp only [hubExec] at hx'
        split at hx'
        · cases hx'
        · simpa using flowG_bondR s.hub s'.hub s1.hubEnv sender funds subs hx' rfl st hst _ _ _ _ 0 0 0 0 trb trs
    have cok : ChainOK s' := ⟨fun w hw => by rw [ch.1]; exact c.outside w hw,
      fun w hw => by rw [ch.1]; rw [ch.2] at hw; exact c.unset w hw⟩
    have ht2 : hm = .bond ∨ hm = .bondForStSei ∨ (∃ u a k, hm = .receive u a k) ∨ hm = .bondRewards := by
      rcases ht with (r | r | r) | r
      · exact Or.inl r
      · exact Or.inr (Or.inl r)
      · exact Or.inr (Or.inr (Or.inl r))
      · exact Or.inr (Or.inr (Or.inr r))
    have book : BookInv s' (subs ++ rest) := by
      obtain ⟨pre, rest', hms, hp, hr, hle'⟩ := hub_books_stepG _ _ _ _ _ _ _ _ rfl hT (Or.inr ⟨ht2, hd1, hz1⟩) hx'
      refine ⟨cok, pre, rest' ++ rest, by rw [hms, List.append_assoc], hp, ?_, ?_⟩
      · intro x hx''
        rcases List.mem_append.mp hx'' with h | h
        · exact hr x h
        · exact rns x h
      · unfold totalDelegated; rw [ch.1]; exact hle'
    obtain ⟨a1, a2, a3, a4, a5, a6⟩ := static_step s s' _ subs hx btok stok bwf swf bhub shub
    obtain ⟨n1, n2, n3, n4⟩ := rnf
    refine ⟨book, a1, a2, a3, a4, a5, a6, ?_, ?_, Or.inr ?_⟩
    · rw [rbV, bb, mintsTo_append, burnsBy_append, n1, n3]; exact fl.1
    · rw [rsV, t, mintsTo_append, burnsBy_append, n2, n4]; exact fl.2
    · exact NoTrg.append (hubExec_noTrg _ _ _ _ _ _ _ hx') rnt
  | bsei s1 sender' funds' tm heq _ _ _ _ _ _ _ => injection heq with _ e2 _ _; cases e2
  | stsei blk sender' funds' tm heq _ _ _ _ _ _ => injection heq with _ e2 _ _; cases e2
  | reward s1 sender' funds' rm heq _ _ _ _ _ _ _ _ _ => injection heq with _ e2 _ _; cases e2
  | disp env sender' funds' dm heq _ _ _ _ _ _ _ _ => injection heq with _ e2 _ _; cases e2
  | reg s1 sender' funds' rm heq _ _ _ _ _ _ _ _ _ => injection heq with _ e2 _ _; cases e2

/-- the same with nothing queued behind the entry point -/
theorem trigger_establishes (s0 s s' : Sys) (st0 : HubSt) (sender : Addr) (funds : List (Denom × Nat))
    (hm : HubMsg) (subs : List Msg)
    (hst0 : s0.hub.actualState s0.hubEnv = .ok st0)
    (sp : SamePools s0 s) (c0 : ChainOK s0) (c : ChainOK s)
    (btok0 : s0.hub.bsei = some bseiA) (stok0 : s0.hub.stsei = some stseiA)
    (bwf : s.bsei.WF) (swf : s.stsei.WF) (bhub : s.bsei.hub = hubA) (shub : s.stsei.hub = hubA)
    (hd : s0.delegationsOf hubA ≠ []) (hz : s0.hub.bBond + s0.hub.sBond ≠ 0)
    (backB : 0 < st0.bBond ∨ s0.bsei.supply + s0.hub.reqB = 0)
    (backS : 0 < st0.sBond ∨ s0.stsei.supply + s0.hub.reqS = 0)
    (ht : IsTrigHub hm)
    (hx : s.handle (.wasm sender hubA (.hub hm) funds) = .ok (s', subs)) :
    RInv (virt s0 st0) s' (subs ++ []) :=
  recog_establishes s0 s s' st0 sender funds hm subs [] hst0 sp.weak c0 c btok0 stok0 bwf swf bhub shub hd hz backB backS
    (Or.inl ht) NoTrg.nil (fun _ h => by cases h) NoFlow.nil hx

/-- a pending queue: still messages, then one minting / redeeming hub entry point; pools, requests,
    supplies and delegations are those of the start -/
structure PInv (s0 s : Sys) (q : List Msg) : Prop where
  chain : ChainOK s
  pools : SamePools s0 s
  btok : s.hub.bsei = some bseiA
  stok : s.hub.stsei = some stseiA
  bwf : s.bsei.WF
  swf : s.stsei.WF
  bhub : s.bsei.hub = hubA
  shub : s.stsei.hub = hubA
  shape : ∃ Qs sender hm funds, q = Qs ++ [Msg.wasm sender hubA (.hub hm) funds] ∧ AllStill Qs ∧ IsTrigHub hm

theorem SamePools.trans' {a b c : Sys} (x : SamePools a b) (y : SamePools b c) : SamePools a c :=
  ⟨y.bBond.trans x.bBond, y.sBond.trans x.sBond, y.reqB.trans x.reqB, y.reqS.trans x.reqS,
   y.bRate.trans x.bRate, y.sRate.trans x.sRate, y.btok.trans x.btok, y.stok.trans x.stok,
   y.bSupply.trans x.bSupply, y.sSupply.trans x.sSupply, y.deleg.trans x.deleg, y.delegSet.trans x.delegSet⟩

/-- a still message at the head of a pending queue -/
theorem PInv.step_still (s0 s s' : Sys) (m : Msg) (rest subs : List Msg) (inv : PInv s0 s (m :: rest))
    (hm : Still m = true) (hx : s.handle m = .ok (s', subs)) : PInv s0 s' (subs ++ rest) := by
  have hs := handle_still s s' m subs hm hx
  obtain ⟨a1, a2, a3, a4, a5, a6⟩ := static_step s s' m subs hx inv.btok inv.stok inv.bwf inv.swf inv.bhub inv.shub
  have c := inv.chain
  refine ⟨⟨fun w hw => by rw [hs.1.deleg]; exact c.outside w hw,
      fun w hw => by rw [hs.1.deleg]; rw [hs.1.delegSet] at hw; exact c.unset w hw⟩,
    inv.pools.trans' hs.1, a1, a2, a3, a4, a5, a6, ?_⟩
  obtain ⟨Qs, sender, hm', funds, hq, hQ, ht⟩ := inv.shape
  cases Qs with
  | nil =>
    simp only [List.nil_append, List.cons.injEq] at hq
    have := still_not_trg m hm
    rw [hq.1, ht.trg] at this; cases this
  | cons a Qs' =>
    simp only [List.cons_append, List.cons.injEq] at hq
    obtain ⟨rfl, hq⟩ := hq
    subst hq
    exact ⟨subs ++ Qs', sender, hm', funds, by simp, AllStill.append hs.2 (fun x hx' => hQ x (List.mem_cons_of_mem _ hx')), ht⟩

/-- **one message of a transaction that started with a slash pending**: either still pending, or the
    invariant of the composed theorem relative to the reported pools -/
theorem pending_step (s0 : Sys) (st0 : HubSt) (c0 : ChainOK s0)
    (hst0 : s0.hub.actualState s0.hubEnv = .ok st0)
    (btok0 : s0.hub.bsei = some bseiA) (stok0 : s0.hub.stsei = some stseiA)
    (hd : s0.delegationsOf hubA ≠ []) (hz : s0.hub.bBond + s0.hub.sBond ≠ 0)
    (hz0 : st0.bBond + st0.sBond ≠ 0)
    (backB : 0 < st0.bBond ∨ s0.bsei.supply + s0.hub.reqB = 0)
    (backS : 0 < st0.sBond ∨ s0.stsei.supply + s0.hub.reqS = 0)
    (s : Sys) (m : Msg) (rest : List Msg) (s' : Sys) (subs : List Msg)
    (inv : PInv s0 s (m :: rest) ∨ RInv (virt s0 st0) s (m :: rest))
    (hx : s.handle m = .ok (s', subs)) :
    PInv s0 s' (subs ++ rest) ∨ RInv (virt s0 st0) s' (subs ++ rest) := by
  rcases inv with p | r
  · by_cases hm : Still m = true
    · exact Or.inl (p.step_still s0 s s' m rest subs hm hx)
    · right
      obtain ⟨Qs, sender, hm', funds, hq, hQ, ht⟩ := p.shape
      cases Qs with
      | nil =>
        simp only [List.nil_append, List.cons.injEq] at hq
        obtain ⟨rfl, rfl⟩ := hq
        exact trigger_establishes s0 s s' st0 sender funds hm' subs hst0 p.pools c0 p.chain btok0 stok0
          p.bwf p.swf p.bhub p.shub hd hz backB backS ht hx
      | cons a Qs' =>
        simp only [List.cons_append, List.cons.injEq] at hq
        obtain ⟨rfl, _⟩ := hq
        exact absurd (hQ m (List.mem_cons_self ..)) hm
  · exact Or.inr (RInv.step (virt s0 st0) s s' m rest subs hz0 r hx)

/-! ### the second pending mode: no minting / redeeming entry point anywhere in the queue

  An index update (UpdateGlobalIndex, the dispatcher's DispatchRewards, BondRewards) or a validator
  removal (RemoveValidator, Redelegations, the hub's RedelegateProxy, the Redelegate messages) started
  with a slash pending: until BondRewards runs — if it ever does — everything handled leaves pools,
  requests, supplies and stored rates alone and keeps the total of the delegations; BondRewards
  recognises the slash and hands over to `RInv`. -/

def PendQ : Msg → Bool
  | .redelegate .. => true
  | .wasm _ _ (.hub .updateGlobalIndex) _ => true
  | .wasm _ _ (.hub .bondRewards) _ => true
  | .wasm _ _ (.hub (.redelegateProxy ..)) _ => true
  | .wasm _ _ (.hub (.updateConfig ..)) _ => true
  | .wasm _ _ (.disp .dispatch) _ => true
  | .wasm _ _ (.reg (.remove _)) _ => true
  | .wasm _ _ (.reg (.redelegations _)) _ => true
  | m => Still m

def AllPendQ (q : List Msg) : Prop := ∀ m ∈ q, PendQ m = true

theorem pendq_of_still (m : Msg) (h : Still m = true) : PendQ m = true := by
  cases m with
  | wasm a b c d =>
    cases c with
    | hub hm => cases hm <;> first | rfl | exact h
    | disp dm => cases dm <;> first | rfl | exact h
    | reg rm => cases rm <;> first | rfl | exact h
    | _ => exact h
  | _ => first | rfl | exact h

theorem AllPendQ.of_still {q : List Msg} (h : AllStill q) : AllPendQ q := fun m hm => pendq_of_still m (h m hm)

theorem AllPendQ.append {x y : List Msg} (a : AllPendQ x) (b : AllPendQ y) : AllPendQ (x ++ y) := by
  intro m hm
  rcases List.mem_append.mp hm with h | h
  · exact a m h
  · exact b m h

/-- the pending messages that are not still, by shape -/
inductive PendShape : Msg → Prop where
  | ugi (a b : Addr) (d : List (Denom × Nat)) : PendShape (.wasm a b (.hub .updateGlobalIndex) d)
  | br (a b : Addr) (d : List (Denom × Nat)) : PendShape (.wasm a b (.hub .bondRewards) d)
  | proxy (a b src : Addr) (plan : List (Addr × Nat)) (d : List (Denom × Nat)) :
      PendShape (.wasm a b (.hub (.redelegateProxy src plan)) d)
  | uconfig (a b : Addr) (x1 x2 x3 x4 x5 x6 x7 : Option Addr) (d : List (Denom × Nat)) :
      PendShape (.wasm a b (.hub (.updateConfig x1 x2 x3 x4 x5 x6 x7)) d)
  | dispatch (a b : Addr) (d : List (Denom × Nat)) : PendShape (.wasm a b (.disp .dispatch) d)
  | remove (a b v : Addr) (d : List (Denom × Nat)) : PendShape (.wasm a b (.reg (.remove v)) d)
  | redelegations (a b v : Addr) (d : List (Denom × Nat)) : PendShape (.wasm a b (.reg (.redelegations v)) d)
  | redel (who src dst : Addr) (amt : Nat) : PendShape (.redelegate who src dst amt)

theorem pendq_cases (m : Msg) (h : PendQ m = true) (hs : Still m = false) : PendShape m := by
  cases m with
  | redelegate who src dst amt => exact .redel who src dst amt
  | wasm a b c d =>
    cases c with
    | hub hm =>
      cases hm <;> first
        | exact .ugi _ _ _
        | exact .br _ _ _
        | exact .proxy _ _ _ _ _
        | exact .uconfig _ _ _ _ _ _ _ _ _ _
        | (simp only [PendQ] at h; rw [hs] at h; cases h)
    | disp dm =>
      cases dm <;> first
        | exact .dispatch _ _ _
        | (simp only [PendQ] at h; rw [hs] at h; cases h)
    | reg rm =>
      cases rm <;> first
        | exact .remove _ _ _ _
        | exact .redelegations _ _ _ _
        | (simp only [PendQ] at h; rw [hs] at h; cases h)
    | _ => simp only [PendQ] at h; rw [hs] at h; cases h
  | _ => simp only [PendQ] at h; rw [hs] at h; cases h

theorem pendq_not_trg (m : Msg) (h : PendQ m = true) : Trg m = false := by
  by_cases hs : Still m = true
  · exact still_not_trg m hs
  · have hs' : Still m = false := by simpa using hs
    cases pendq_cases m h hs' <;> rfl

theorem pendq_not_stake (m : Msg) (h : PendQ m = true) : isStake m = false := by
  cases m with
  | delegate a b c => simp [PendQ, Still] at h
  | undelegate a b c => simp [PendQ, Still] at h
  | _ => rfl

theorem pendq_flow (t : Addr) (m : Msg) (q : List Msg) (h : PendQ m = true) :
    mintsTo t (m :: q) = mintsTo t q ∧ burnsBy t (m :: q) = burnsBy t q := by
  by_cases hs : Still m = true
  · have f := flows_of_still t [m] (AllStill.cons hs AllStill.nil)
    have a1 := mintsTo_append t [m] q
    have a2 := burnsBy_append t [m] q
    simp only [List.singleton_append] at a1 a2
    rw [a1, a2, f.1, f.2]; simp
  · have hs' : Still m = false := by simpa using hs
    cases pendq_cases m h hs' <;> exact flows_cons_other t _ q (fun a b tm d he => by cases he)

theorem AllPendQ.noTrg {q : List Msg} (h : AllPendQ q) : NoTrg q := fun m hm => pendq_not_trg m (h m hm)

theorem AllPendQ.noFlow {q : List Msg} (h : AllPendQ q) : NoFlow q := by
  induction q with
  | nil => exact NoFlow.nil
  | cons m q ih =>
    have ih' := ih (fun x hx => h x (List.mem_cons_of_mem _ hx))
    have hm := h m (List.mem_cons_self ..)
    obtain ⟨n1, n2, n3, n4⟩ := ih'
    exact ⟨by rw [(pendq_flow bseiA m q hm).1]; exact n1, by rw [(pendq_flow stseiA m q hm).1]; exact n2,
      by rw [(pendq_flow bseiA m q hm).2]; exact n3, by rw [(pendq_flow stseiA m q hm).2]; exact n4⟩

/-- what DispatchRewards emits: transfers, at most a BondRewards, the reward contract's index update -/
theorem dispatch_pendq (c c' : DispSt) (self : Addr) (env : DispEnv) (sender : Addr) (ms : List Msg)
    (hx : dispExec c self env sender .dispatch = .ok (c', ms)) : c' = c ∧ AllPendQ ms := by
  simp only [dispExec] at hx
  exc_norm at hx
  split at hx
  · cases hx
  · split at hx
    · cases hx
    · rename_i l hl
      injection hx with hx; injection hx with e1 e2; subst e1; subst e2
      refine ⟨rfl, ?_⟩
      unfold dispatchMsgs at hl
      split at hl
      · cases hl
      · rename_i m1 h1
        split at hl
        · cases hl
        · rename_i m2 h2
          injection hl with hl; subst hl
          have p1 : AllPendQ m1 := by
            unfold coinMsgsB at h1
            exc_split at h1 <;> (intro x hx'; simp at hx')
            · rcases hx' with rfl | rfl <;> rfl
          have p2 : AllPendQ m2 := by
            unfold coinMsgsSt at h2
            exc_split at h2 <;> (intro x hx'; simp at hx')
            · subst hx'; rfl
            · rcases hx' with rfl | rfl <;> rfl
          exact AllPendQ.append (AllPendQ.append p1 p2) (fun x hx' => by simp at hx'; subst hx'; rfl)

/-- UpdateGlobalIndex moves nothing that prices, and emits reward withdrawals, the dispatcher's swap
    and its dispatch -/
theorem ugi_keeps (h h' : HubSt) (e : HubEnv) (sender : Addr) (funds : List (Denom × Nat)) (ms : List Msg)
    (hx : hubExec h e sender funds .updateGlobalIndex = .ok (h', ms)) :
    h'.bBond = h.bBond ∧ h'.sBond = h.sBond ∧ h'.reqB = h.reqB ∧ h'.reqS = h.reqS ∧
    h'.bRate = h.bRate ∧ h'.sRate = h.sRate ∧ h'.bsei = h.bsei ∧ h'.stsei = h.stsei ∧ AllPendQ ms := by
  simp only [hubExec] at hx
  split at hx
  · cases hx
  · unfold updateGlobal at hx
    exc_norm at hx
    exc_split at hx
    all_goals
      refine ⟨rfl, rfl, rfl, rfl, rfl, rfl, rfl, rfl, ?_⟩
      intro x hx'
      simp only [List.mem_append, List.mem_map, List.mem_cons, List.mem_nil_iff, or_false] at hx'
      rcases hx' with ⟨dd', _, rfl⟩ | rfl | rfl <;> rfl

/-- the owner's UpdateConfig moves nothing that prices (the token addresses are write-once) and emits
    at most the withdraw-address message -/
theorem uconfig_keeps (h h' : HubSt) (e : HubEnv) (sender : Addr) (funds : List (Denom × Nat))
    (x1 x2 x3 x4 x5 x6 x7 : Option Addr) (ms : List Msg) (hb : h.bsei = some bseiA) (hs : h.stsei = some stseiA)
    (hx : hubExec h e sender funds (.updateConfig x1 x2 x3 x4 x5 x6 x7) = .ok (h', ms)) :
    h'.bBond = h.bBond ∧ h'.sBond = h.sBond ∧ h'.reqB = h.reqB ∧ h'.reqS = h.reqS ∧
    h'.bRate = h.bRate ∧ h'.sRate = h.sRate ∧ h'.bsei = h.bsei ∧ h'.stsei = h.stsei ∧ AllPendQ ms := by
  simp only [hubExec] at hx
  split at hx
  · cases hx
  · simp only [HubSt.updateConfig, bind, Except.bind, throw, throwThe, MonadExceptOf.throw, pure, Except.pure] at hx
    split at hx
    · cases hx
    · split at hx
      · cases hx
      · rename_i hnb
        split at hx
        · cases hx
        · rename_i hns
          injection hx with hx; injection hx with e1 e2; subst e1; subst e2
          have b3 : x3 = none := by
            cases x3 with
            | none => rfl
            | some v => exact absurd ⟨rfl, by rw [hb]; rfl⟩ hnb
          have b4 : x4 = none := by
            cases x4 with
            | none => rfl
            | some v => exact absurd ⟨rfl, by rw [hs]; rfl⟩ hns
          subst b3; subst b4
          refine ⟨rfl, rfl, rfl, rfl, rfl, rfl, rfl, rfl, ?_⟩
          intro x hx'
          cases x1 with
          | none => cases hx'
          | some dd => simp at hx'; subst hx'; rfl

/-- one Redelegate: the hub's stake moves between two validators; the total, and whether there is
    any, are kept -/
theorem redelegate_keeps (s s' : Sys) (who src dst : Addr) (amt : Nat) (subs : List Msg) (c : ChainOK s)
    (hx : s.handle (.redelegate who src dst amt) = .ok (s', subs)) :
    subs = [] ∧ ChainOK s' ∧ SamePoolsW s s' := by
  simp only [Sys.handle] at hx
  exc_norm at hx
  exc_split at hx
  rename_i hw hz hin hsd hnr hge
  have hdst : dst ∈ valUniverse := by simpa using hin
  have hsrc : src ∈ valUniverse := by
    by_cases hv : src ∈ valUniverse
    · exact hv
    · have := c.outside src hv; omega
  have hne : src ≠ dst := hsd
  have h1 := sum_upd valUniverse s.chain.deleg src (s.chain.deleg src - amt) valUniverse_nodup
  have h2 := sum_upd valUniverse (upd s.chain.deleg src (s.chain.deleg src - amt)) dst
    (upd s.chain.deleg src (s.chain.deleg src - amt) dst + amt) valUniverse_nodup
  simp only [hsrc, hdst, if_true] at h1 h2
  rw [upd_other _ _ _ _ (fun h => hne h.symm)] at h2
  have cok : ChainOK { s with chain := { s.chain with
      deleg := upd (upd s.chain.deleg src (s.chain.deleg src - amt)) dst
        (upd s.chain.deleg src (s.chain.deleg src - amt) dst + amt),
      delegSet := upd (upd s.chain.delegSet src (decide (s.chain.deleg src - amt > 0))) dst true } } := by
    refine ⟨fun w hw => ?_, fun w hw => ?_⟩
    · have n1 : w ≠ src := fun h => hw (h ▸ hsrc)
      have n2 : w ≠ dst := fun h => hw (h ▸ hdst)
      show upd (upd s.chain.deleg src _) dst _ w = 0
      rw [upd_other _ _ _ _ n2, upd_other _ _ _ _ n1]; exact c.outside w hw
    · show upd (upd s.chain.deleg src _) dst _ w = 0
      by_cases n2 : w = dst
      · subst n2; simp [upd] at hw
      · rw [upd_other _ _ _ _ n2]
        by_cases n1 : w = src
        · subst n1
          rw [upd_same]
          have : decide (s.chain.deleg w - amt > 0) = false := by simpa [upd, n2] using hw
          have h' : s.chain.deleg w ≤ amt := by simpa using this
          omega
        · rw [upd_other _ _ _ _ n1]
          have : s.chain.delegSet w = false := by simpa [upd, n1, n2] using hw
          exact c.unset w this
  refine ⟨rfl, cok, rfl, rfl, rfl, rfl, rfl, rfl, rfl, rfl, rfl, rfl, ?_, ?_⟩
  · show (valUniverse.map (upd (upd s.chain.deleg src (s.chain.deleg src - amt)) dst
      (upd s.chain.deleg src (s.chain.deleg src - amt) dst + amt))).sum = (valUniverse.map s.chain.deleg).sum
    rw [upd_other _ _ _ _ (fun h => hne h.symm)]
    omega
  · -- there is a delegation before (the source) and after (the destination)
    have before : s.delegationsOf hubA ≠ [] := by
      have hset : s.chain.delegSet src = true := by
        by_cases hh : s.chain.delegSet src = true
        · exact hh
        · have := c.unset src (by simpa using hh); omega
      apply List.ne_nil_of_mem (a := (src, s.chain.deleg src))
      unfold Sys.delegationsOf
      simp only [if_true, List.mem_map, List.mem_filter]
      exact ⟨src, ⟨hsrc, hset⟩, rfl⟩
    have after : Sys.delegationsOf { s with chain := { s.chain with
        deleg := upd (upd s.chain.deleg src (s.chain.deleg src - amt)) dst
          (upd s.chain.deleg src (s.chain.deleg src - amt) dst + amt),
        delegSet := upd (upd s.chain.delegSet src (decide (s.chain.deleg src - amt > 0))) dst true } } hubA ≠ [] := by
      apply List.ne_nil_of_mem (a := (dst, _))
      unfold Sys.delegationsOf
      simp only [if_true, List.mem_map, List.mem_filter]
      exact ⟨dst, ⟨hdst, by simp [upd]⟩, rfl⟩
    exact ⟨fun h => absurd h after, fun h => absurd h before⟩

/-- pending, no minting / redeeming entry point anywhere in the queue -/
structure PInvB (s0 s : Sys) (q : List Msg) : Prop where
  chain : ChainOK s
  pools : SamePoolsW s0 s
  btok : s.hub.bsei = some bseiA
  stok : s.hub.stsei = some stseiA
  bwf : s.bsei.WF
  swf : s.stsei.WF
  bhub : s.bsei.hub = hubA
  shub : s.stsei.hub = hubA
  all : AllPendQ q

/-- one message in the second pending mode -/
theorem PInvB.step (s0 : Sys) (st0 : HubSt) (c0 : ChainOK s0)
    (hst0 : s0.hub.actualState s0.hubEnv = .ok st0)
    (btok0 : s0.hub.bsei = some bseiA) (stok0 : s0.hub.stsei = some stseiA)
    (hd : s0.delegationsOf hubA ≠ []) (hz : s0.hub.bBond + s0.hub.sBond ≠ 0)
    (backB : 0 < st0.bBond ∨ s0.bsei.supply + s0.hub.reqB = 0)
    (backS : 0 < st0.sBond ∨ s0.stsei.supply + s0.hub.reqS = 0)
    (s s' : Sys) (m : Msg) (rest subs : List Msg) (inv : PInvB s0 s (m :: rest))
    (hx : s.handle m = .ok (s', subs)) :
    PInvB s0 s' (subs ++ rest) ∨ RInv (virt s0 st0) s' (subs ++ rest) := by
  have hm : PendQ m = true := inv.all m (List.mem_cons_self ..)
  have hrest : AllPendQ rest := fun x hx' => inv.all x (List.mem_cons_of_mem _ hx')
  obtain ⟨a1, a2, a3, a4, a5, a6⟩ := static_step s s' m subs hx inv.btok inv.stok inv.bwf inv.swf inv.bhub inv.shub
  have c := inv.chain
  -- the generic continuation: pools kept, only pending messages emitted
  have keepW : ChainOK s' → SamePoolsW s s' → AllPendQ subs → PInvB s0 s' (subs ++ rest) := by
    intro ck sp hs
    exact ⟨ck, inv.pools.trans' sp, a1, a2, a3, a4, a5, a6, AllPendQ.append hs hrest⟩
  have keep : SamePools s s' → AllPendQ subs → PInvB s0 s' (subs ++ rest) := by
    intro sp hs
    exact keepW ⟨fun w hw => by rw [sp.deleg]; exact c.outside w hw,
        fun w hw => by rw [sp.deleg]; rw [sp.delegSet] at hw; exact c.unset w hw⟩ sp.weak hs
  -- a call that reaches the swap / sink stubs
  have stub : ∀ (h : SameContracts s s'), s'.chain.deleg = s.chain.deleg → s'.chain.delegSet = s.chain.delegSet →
      (∀ x ∈ subs, ∃ t d a, x = Msg.bankSend swapA t d a) → PInvB s0 s' (subs ++ rest) := by
    intro h c1 c2 hb
    refine keep ⟨by rw [h.hub], by rw [h.hub], by rw [h.hub], by rw [h.hub], by rw [h.hub], by rw [h.hub],
      by rw [h.hub], by rw [h.hub], by rw [h.bsei], by rw [h.stsei], c1, c2⟩ ?_
    intro x hx'
    obtain ⟨t, dn, amt, he⟩ := hb x hx'
    subst he; rfl
  by_cases hst : Still m = true
  · have hs := handle_still s s' m subs hst hx
    exact Or.inl (keep hs.1 (AllPendQ.of_still hs.2))
  · have hst' : Still m = false := by simpa using hst
    cases pendq_cases m hm hst' with
    | ugi a b d =>
      have ch := handle_wasm_chain s s' _ _ _ _ subs hx
      cases handle_touch s s' _ subs hx with
      | none h hm' hs hb => exact Or.inl (stub h ch.1 ch.2 hb)
      | hub s1 sender funds hm' heq h1' _ hc hx' bb t r dd g =>
        injection heq with e1 e2 e3 e4
        injection e3 with e3
        subst e1; subst e2; subst e3; subst e4
        obtain ⟨k1, k2, k3, k4, k5, k6, k7, k8, k9⟩ := ugi_keeps _ _ _ _ _ _ hx'
        exact Or.inl (keep ⟨k1, k2, k3, k4, k5, k6, k7, k8, by rw [bb], by rw [t], ch.1, ch.2⟩ k9)
      | bsei s1 sender funds tm heq _ _ _ _ _ _ _ => injection heq with _ _ e3 _; cases e3
      | stsei blk sender funds tm heq _ _ _ _ _ _ => injection heq with _ _ e3 _; cases e3
      | reward s1 sender funds rm heq _ _ _ _ _ _ _ _ _ => injection heq with _ _ e3 _; cases e3
      | disp env sender funds dm heq _ _ _ _ _ _ _ _ => injection heq with _ _ e3 _; cases e3
      | reg s1 sender funds rm heq _ _ _ _ _ _ _ _ _ => injection heq with _ _ e3 _; cases e3
    | br a b d =>
      have ch := handle_wasm_chain s s' _ _ _ _ subs hx
      cases handle_touch s s' _ subs hx with
      | none h hm' hs hb => exact Or.inl (stub h ch.1 ch.2 hb)
      | hub s1 sender funds hm' heq h1' _ hc hx' bb t r dd g =>
        injection heq with e1 e2 e3 e4
        subst e1; subst e2; subst e4
        right
        exact recog_establishes s0 s s' st0 _ _ .bondRewards subs rest hst0 inv.pools c0 c btok0 stok0
          inv.bwf inv.swf inv.bhub inv.shub hd hz backB backS (Or.inr rfl) hrest.noTrg
          (fun x hx'' => pendq_not_stake x (hrest x hx'')) hrest.noFlow hx
      | bsei s1 sender funds tm heq _ _ _ _ _ _ _ => injection heq with _ _ e3 _; cases e3
      | stsei blk sender funds tm heq _ _ _ _ _ _ => injection heq with _ _ e3 _; cases e3
      | reward s1 sender funds rm heq _ _ _ _ _ _ _ _ _ => injection heq with _ _ e3 _; cases e3
      | disp env sender funds dm heq _ _ _ _ _ _ _ _ => injection heq with _ _ e3 _; cases e3
      | reg s1 sender funds rm heq _ _ _ _ _ _ _ _ _ => injection heq with _ _ e3 _; cases e3
    | proxy a b src plan d =>
      have ch := handle_wasm_chain s s' _ _ _ _ subs hx
      cases handle_touch s s' _ subs hx with
      | none h hm' hs hb => exact Or.inl (stub h ch.1 ch.2 hb)
      | hub s1 sender funds hm' heq h1' _ hc hx' bb t r dd g =>
        injection heq with e1 e2 e3 e4
        injection e3 with e3
        subst e1; subst e2; subst e3; subst e4
        have pf := C13_hub_proxy_forwards _ _ _ _ _ _ _ _ hx'
        refine Or.inl (keep ⟨by rw [pf.2.1], by rw [pf.2.1], by rw [pf.2.1], by rw [pf.2.1], by rw [pf.2.1],
          by rw [pf.2.1], by rw [pf.2.1], by rw [pf.2.1], by rw [bb], by rw [t], ch.1, ch.2⟩ ?_)
        intro x hx''
        rw [pf.2.2] at hx''
        simp only [List.mem_map] at hx''
        obtain ⟨pp, _, rfl⟩ := hx''
        rfl
      | bsei s1 sender funds tm heq _ _ _ _ _ _ _ => injection heq with _ _ e3 _; cases e3
      | stsei blk sender funds tm heq _ _ _ _ _ _ => injection heq with _ _ e3 _; cases e3
      | reward s1 sender funds rm heq _ _ _ _ _ _ _ _ _ => injection heq with _ _ e3 _; cases e3
      | disp env sender funds dm heq _ _ _ _ _ _ _ _ => injection heq with _ _ e3 _; cases e3
      | reg s1 sender funds rm heq _ _ _ _ _ _ _ _ _ => injection heq with _ _ e3 _; cases e3
    | uconfig a b x1 x2 x3 x4 x5 x6 x7 d =>
      have ch := handle_wasm_chain s s' _ _ _ _ subs hx
      cases handle_touch s s' _ subs hx with
      | none h hm' hs hb => exact Or.inl (stub h ch.1 ch.2 hb)
      | hub s1 sender funds hm' heq h1' _ hc hx' bb t r dd g =>
        injection heq with e1 e2 e3 e4
        injection e3 with e3
        subst e1; subst e2; subst e3; subst e4
        obtain ⟨k1, k2, k3, k4, k5, k6, k7, k8, k9⟩ := uconfig_keeps _ _ _ _ _ _ _ _ _ _ _ _ _ inv.btok inv.stok hx'
        exact Or.inl (keep ⟨k1, k2, k3, k4, k5, k6, k7, k8, by rw [bb], by rw [t], ch.1, ch.2⟩ k9)
      | bsei s1 sender funds tm heq _ _ _ _ _ _ _ => injection heq with _ _ e3 _; cases e3
      | stsei blk sender funds tm heq _ _ _ _ _ _ => injection heq with _ _ e3 _; cases e3
      | reward s1 sender funds rm heq _ _ _ _ _ _ _ _ _ => injection heq with _ _ e3 _; cases e3
      | disp env sender funds dm heq _ _ _ _ _ _ _ _ => injection heq with _ _ e3 _; cases e3
      | reg s1 sender funds rm heq _ _ _ _ _ _ _ _ _ => injection heq with _ _ e3 _; cases e3
    | dispatch a b d =>
      have ch := handle_wasm_chain s s' _ _ _ _ subs hx
      cases handle_touch s s' _ subs hx with
      | none h hm' hs hb => exact Or.inl (stub h ch.1 ch.2 hb)
      | hub s1 sender funds hm' heq _ _ _ _ _ _ _ _ _ => injection heq with _ _ e3 _; cases e3
      | bsei s1 sender funds tm heq _ _ _ _ _ _ _ => injection heq with _ _ e3 _; cases e3
      | stsei blk sender funds tm heq _ _ _ _ _ _ => injection heq with _ _ e3 _; cases e3
      | reward s1 sender funds rm heq _ _ _ _ _ _ _ _ _ => injection heq with _ _ e3 _; cases e3
      | disp env sender funds dm heq _ hch hx' h bb t r g =>
        injection heq with e1 e2 e3 e4
        injection e3 with e3
        subst e1; subst e2; subst e3; subst e4
        have dp := dispatch_pendq _ _ _ _ _ _ hx'
        exact Or.inl (keep ⟨by rw [h], by rw [h], by rw [h], by rw [h], by rw [h], by rw [h], by rw [h], by rw [h],
          by rw [bb], by rw [t], ch.1, ch.2⟩ dp.2)
      | reg s1 sender funds rm heq _ _ _ _ _ _ _ _ _ => injection heq with _ _ e3 _; cases e3
    | remove a b v d =>
      have ch := handle_wasm_chain s s' _ _ _ _ subs hx
      cases handle_touch s s' _ subs hx with
      | none h hm' hs hb => exact Or.inl (stub h ch.1 ch.2 hb)
      | hub s1 sender funds hm' heq _ _ _ _ _ _ _ _ _ => injection heq with _ _ e3 _; cases e3
      | bsei s1 sender funds tm heq _ _ _ _ _ _ _ => injection heq with _ _ e3 _; cases e3
      | stsei blk sender funds tm heq _ _ _ _ _ _ => injection heq with _ _ e3 _; cases e3
      | reward s1 sender funds rm heq _ _ _ _ _ _ _ _ _ => injection heq with _ _ e3 _; cases e3
      | disp env sender funds dm heq _ _ _ _ _ _ _ _ => injection heq with _ _ e3 _; cases e3
      | reg s1 sender funds rm heq h1' _ _ hx' h bb t r dd =>
        injection heq with e1 e2 e3 e4
        injection e3 with e3
        subst e1; subst e2; subst e3; subst e4
        have rv := C13_remove_validator s1 _ _ _ _ hx'
        refine Or.inl (keep ⟨by rw [h], by rw [h], by rw [h], by rw [h], by rw [h], by rw [h], by rw [h], by rw [h],
          by rw [bb], by rw [t], ch.1, ch.2⟩ ?_)
        rcases rv.2.2.2.2 with he | ⟨plan, he, _⟩
        · rw [he]; intro x hx''; cases hx''
        · rw [he]; intro x hx''
          simp only [List.mem_cons, List.mem_nil_iff, or_false] at hx''
          rcases hx'' with rfl | rfl <;> rfl
    | redelegations a b v d =>
      have ch := handle_wasm_chain s s' _ _ _ _ subs hx
      cases handle_touch s s' _ subs hx with
      | none h hm' hs hb => exact Or.inl (stub h ch.1 ch.2 hb)
      | hub s1 sender funds hm' heq _ _ _ _ _ _ _ _ _ => injection heq with _ _ e3 _; cases e3
      | bsei s1 sender funds tm heq _ _ _ _ _ _ _ => injection heq with _ _ e3 _; cases e3
      | stsei blk sender funds tm heq _ _ _ _ _ _ => injection heq with _ _ e3 _; cases e3
      | reward s1 sender funds rm heq _ _ _ _ _ _ _ _ _ => injection heq with _ _ e3 _; cases e3
      | disp env sender funds dm heq _ _ _ _ _ _ _ _ => injection heq with _ _ e3 _; cases e3
      | reg s1 sender funds rm heq h1' _ _ hx' h bb t r dd =>
        injection heq with e1 e2 e3 e4
        injection e3 with e3
        subst e1; subst e2; subst e3; subst e4
        have rv := C13_redelegations s1 _ _ _ _ hx'
        refine Or.inl (keep ⟨by rw [h], by rw [h], by rw [h], by rw [h], by rw [h], by rw [h], by rw [h], by rw [h],
          by rw [bb], by rw [t], ch.1, ch.2⟩ ?_)
        rcases rv.2.2 with he | ⟨plan, he, _⟩
        · rw [he]; intro x hx''; cases hx''
        · rw [he]; intro x hx''
          simp only [List.mem_cons, List.mem_nil_iff, or_false] at hx''
          rcases hx'' with rfl | rfl <;> rfl
    | redel who src dst amt =>
      obtain ⟨e1, ck, sp⟩ := redelegate_keeps s s' who src dst amt subs c hx
      exact Or.inl (keepW ck sp (by rw [e1]; intro x hx''; cases hx''))

/-- what a bSei `Send` / `SendFrom` to the hub emits: the balance mirror (still), then the hook -/
theorem bsei_send_hook (t t' : Token) (b : Block) (rw : Res Addr) (sender : Addr) (tm : TokMsg) (ms : List Msg)
    (hm : sendsToHub hubA tm = true) (hx : bseiExec t b bseiA rw hubA sender tm = .ok (t', ms)) :
    ∃ pre u a k, ms = pre ++ [Msg.wasm bseiA hubA (.hub (.receive u a k)) []] ∧ AllStill pre := by
  cases tm with
  | send c amt hook =>
    have hc : c = hubA := by simpa [sendsToHub] using hm
    subst hc
    simp only [bseiExec] at hx; exc_norm at hx; exc_split at hx
    simp only [receiveMsg, if_true]
    exact ⟨[_, _], _, _, _, rfl, AllStill.cons rfl (AllStill.cons rfl AllStill.nil)⟩
  | sendFrom o c amt hook =>
    have hc : c = hubA := by simpa [sendsToHub] using hm
    subst hc
    simp only [bseiExec] at hx; exc_norm at hx; exc_split at hx
    simp only [receiveMsg, if_true]
    exact ⟨[_, _], _, _, _, rfl, AllStill.cons rfl (AllStill.cons rfl AllStill.nil)⟩
  | _ => simp [sendsToHub] at hm

theorem stsei_send_hook (t t' : Token) (b : Block) (sender : Addr) (tm : TokMsg) (ms : List Msg)
    (hm : sendsToHub hubA tm = true) (hx : stseiExec t b stseiA hubA sender tm = .ok (t', ms)) :
    ∃ pre u a k, ms = pre ++ [Msg.wasm stseiA hubA (.hub (.receive u a k)) []] ∧ AllStill pre := by
  cases tm with
  | send c amt hook =>
    have hc : c = hubA := by simpa [sendsToHub] using hm
    subst hc
    simp only [stseiExec] at hx; exc_norm at hx; exc_split at hx
    simp only [receiveMsg, if_true]
    exact ⟨[], _, _, _, rfl, AllStill.nil⟩
  | sendFrom o c amt hook =>
    have hc : c = hubA := by simpa [sendsToHub] using hm
    subst hc
    simp only [stseiExec] at hx; exc_norm at hx; exc_split at hx
    simp only [receiveMsg, if_true]
    exact ⟨[], _, _, _, rfl, AllStill.nil⟩
  | _ => simp [sendsToHub] at hm

/-- **the whole run of a pending queue**: at the end neither pool's true ratio is below the rate the
    State query reported at the start, and the books are within the delegations -/
theorem pending_run (s0 : Sys) (st0 : HubSt) (c0 : ChainOK s0)
    (hst0 : s0.hub.actualState s0.hubEnv = .ok st0)
    (btok0 : s0.hub.bsei = some bseiA) (stok0 : s0.hub.stsei = some stseiA)
    (hd : s0.delegationsOf hubA ≠ []) (hz : s0.hub.bBond + s0.hub.sBond ≠ 0)
    (hz0 : st0.bBond + st0.sBond ≠ 0)
    (backB : 0 < st0.bBond ∨ s0.bsei.supply + s0.hub.reqB = 0)
    (backS : 0 < st0.sBond ∨ s0.stsei.supply + s0.hub.reqS = 0)
    (n : Nat) (s : Sys) (q : List Msg) (s' : Sys) (inv : PInv s0 s q) (hrun : Sys.run n s q = .ok s') :
    st0.bRate * (s'.bsei.supply + s'.hub.reqB) ≤ s'.hub.bBond * D ∧
    st0.sRate * (s'.stsei.supply + s'.hub.reqS) ≤ s'.hub.sBond * D ∧
    s'.hub.bBond + s'.hub.sBond ≤ totalDelegated s' ∧
    s'.hub.bsei = some bseiA ∧ s'.hub.stsei = some stseiA ∧ ChainOK s' := by
  have fin := run_inv2 (fun a b => PInv s0 a b ∨ RInv (virt s0 st0) a b)
    (pending_step s0 st0 c0 hst0 btok0 stok0 hd hz hz0 backB backS) n s q s' (Or.inl inv) hrun
  rcases fin with p | r
  · obtain ⟨Qs, _, _, _, hq, _, _⟩ := p.shape
    cases Qs <;> simp at hq
  · have hbs : s0.hubEnv.supplyOf bseiA = .ok s0.bsei.supply := by
      show s0.supplyOf bseiA = _; unfold Sys.supplyOf; rw [if_pos rfl]
    have hss : s0.hubEnv.supplyOf stseiA = .ok s0.stsei.supply := by
      show s0.supplyOf stseiA = _; unfold Sys.supplyOf; rw [if_neg (by decide), if_pos rfl]
    have f := checked_state s0.hub st0 s0.hubEnv hst0 st0 hst0 btok0 stok0 _ _ hbs hss hd hz
    have sb0 := (actualState_spec s0.hub st0 s0.hubEnv hst0).1
    have tb := r.trb
    have ts := r.trs
    unfold TR at tb ts
    simp only [mintsTo, burnsBy, Nat.add_zero, Nat.mul_zero] at tb ts
    have rbV : rb0 (virt s0 st0) = st0.bRate := by
      show rateOf st0.bBond s0.bsei.supply st0.reqB = _; rw [sb0.reqB, f.2.2.2.2.1]
    have rsV : rs0 (virt s0 st0) = st0.sRate := by
      show rateOf st0.sBond s0.stsei.supply st0.reqS = _; rw [sb0.reqS, f.2.2.2.2.2.1]
    rw [rbV] at tb
    rw [rsV] at ts
    exact ⟨tb, ts, r.book.drained, r.btok, r.stok, r.book.chain⟩

/-- **the whole run of a queue in the second pending mode**: either nothing that prices has moved (the
    slash is still unrecognised and the State query answers what it answered), or BondRewards ran:
    then at the end neither pool's true ratio is below the rate the State query reported at the
    start, and the books are within the delegations -/
theorem pending_runB (s0 : Sys) (st0 : HubSt) (c0 : ChainOK s0)
    (hst0 : s0.hub.actualState s0.hubEnv = .ok st0)
    (btok0 : s0.hub.bsei = some bseiA) (stok0 : s0.hub.stsei = some stseiA)
    (hd : s0.delegationsOf hubA ≠ []) (hz : s0.hub.bBond + s0.hub.sBond ≠ 0)
    (hz0 : st0.bBond + st0.sBond ≠ 0)
    (backB : 0 < st0.bBond ∨ s0.bsei.supply + s0.hub.reqB = 0)
    (backS : 0 < st0.sBond ∨ s0.stsei.supply + s0.hub.reqS = 0)
    (n : Nat) (s : Sys) (q : List Msg) (s' : Sys) (inv : PInvB s0 s q) (hrun : Sys.run n s q = .ok s') :
    (SamePoolsW s0 s' ∧ ChainOK s') ∨
    (st0.bRate * (s'.bsei.supply + s'.hub.reqB) ≤ s'.hub.bBond * D ∧
     st0.sRate * (s'.stsei.supply + s'.hub.reqS) ≤ s'.hub.sBond * D ∧
     s'.hub.bBond + s'.hub.sBond ≤ totalDelegated s' ∧
     s'.hub.bsei = some bseiA ∧ s'.hub.stsei = some stseiA ∧ ChainOK s') := by
  have fin := run_inv2 (fun a b => PInvB s0 a b ∨ RInv (virt s0 st0) a b)
    (fun a m r a' sb h hx => by
      rcases h with p | r'
      · exact PInvB.step s0 st0 c0 hst0 btok0 stok0 hd hz backB backS a a' m r sb p hx
      · exact Or.inr (RInv.step (virt s0 st0) a a' m r sb hz0 r' hx))
    n s q s' (Or.inl inv) hrun
  rcases fin with p | r
  · exact Or.inl ⟨p.pools, p.chain⟩
  · right
    have hbs : s0.hubEnv.supplyOf bseiA = .ok s0.bsei.supply := by
      show s0.supplyOf bseiA = _; unfold Sys.supplyOf; rw [if_pos rfl]
    have hss : s0.hubEnv.supplyOf stseiA = .ok s0.stsei.supply := by
      show s0.supplyOf stseiA = _; unfold Sys.supplyOf; rw [if_neg (by decide), if_pos rfl]
    have f := checked_state s0.hub st0 s0.hubEnv hst0 st0 hst0 btok0 stok0 _ _ hbs hss hd hz
    have sb0 := (actualState_spec s0.hub st0 s0.hubEnv hst0).1
    have tb := r.trb
    have ts := r.trs
    unfold TR at tb ts
    simp only [mintsTo, burnsBy, Nat.add_zero, Nat.mul_zero] at tb ts
    have rbV : rb0 (virt s0 st0) = st0.bRate := by
      show rateOf st0.bBond s0.bsei.supply st0.reqB = _; rw [sb0.reqB, f.2.2.2.2.1]
    have rsV : rs0 (virt s0 st0) = st0.sRate := by
      show rateOf st0.sBond s0.stsei.supply st0.reqS = _; rw [sb0.reqS, f.2.2.2.2.2.1]
    rw [rbV] at tb
    rw [rsV] at ts
    exact ⟨tb, ts, r.book.drained, r.btok, r.stok, r.book.chain⟩

end Krp
