/-
  Emit.lean — every message a contract emits carries that contract's own address as its sender
  (CosmWasm sets `info.sender` of a sub-message to the emitting contract; the model's handlers
  build their messages with `self` in that position).  This is what makes sender checks meaningful
  across contracts: nothing inside a transaction can impersonate another contract or an owner.
-/
import Krp.System
import Krp.Lemmas.Tactics
import Krp.Lemmas.HubSpec
import Krp.Lemmas.Wait
namespace Krp

/-- who a message is from: the account whose coins / stake it moves, or the wasm sender -/
def Msg.sentFrom : Msg → Addr
  | .bankSend src _ _ _ => src
  | .delegate d _ _ => d
  | .undelegate d _ _ => d
  | .redelegate d _ _ _ => d
  | .withdrawReward d _ => d
  | .setWithdrawAddr d _ => d
  | .wasm s _ _ _ => s

def SentBy (a : Addr) (ms : List Msg) : Prop := ∀ m ∈ ms, m.sentFrom = a

theorem SentBy.nil (a : Addr) : SentBy a [] := fun _ h => by cases h
theorem SentBy.cons {a : Addr} {m : Msg} {ms : List Msg} (h1 : m.sentFrom = a) (h2 : SentBy a ms) :
    SentBy a (m :: ms) := by
  intro x hx
  rcases List.mem_cons.mp hx with rfl | h
  · exact h1
  · exact h2 x h
theorem SentBy.append {a : Addr} {x y : List Msg} (h1 : SentBy a x) (h2 : SentBy a y) : SentBy a (x ++ y) := by
  intro m hm
  rcases List.mem_append.mp hm with h | h
  · exact h1 m h
  · exact h2 m h

namespace HubSt

theorem zipMsgs_sentBy (a : Addr) (mk : Addr → Nat → Msg) (hmk : ∀ v p, (mk v p).sentFrom = a) :
    ∀ (vs : List (Addr × Nat)) (ps : List Nat), SentBy a (zipMsgs mk vs ps) := by
  intro vs
  induction vs with
  | nil => intro ps; simp only [zipMsgs]; exact SentBy.nil a
  | cons v vs ih =>
    intro ps
    cases ps with
    | nil => simp only [zipMsgs]; exact SentBy.nil a
    | cons p ps =>
      obtain ⟨v1, v2⟩ := v
      simp only [zipMsgs]
      apply SentBy.append
      · split
        · exact SentBy.nil a
        · exact SentBy.cons (hmk v1 p) (SentBy.nil a)
      · exact ih ps

theorem pickValidator_sentBy (e : HubEnv) (claim : Nat) (ms : List Msg)
    (hx : pickValidator e claim = .ok ms) : SentBy e.self ms := by
  unfold pickValidator at hx
  simp only [] at hx
  split at hx
  · cases hx
  · injection hx with hx; subst hx
    exact zipMsgs_sentBy e.self (fun v p => Msg.undelegate e.self v p) (fun _ _ => rfl) _ _

theorem delegMsgs_sentBy (h : HubSt) (e : HubEnv) (p : Nat) (ms : List Msg)
    (hx : h.delegMsgs e p = .ok ms) : SentBy e.self ms := by
  unfold delegMsgs at hx
  exc_split at hx
  exact zipMsgs_sentBy e.self (fun v a => Msg.delegate e.self v a) (fun _ _ => rfl) _ _

theorem processUndelegations_sentBy (h h' : HubSt) (e : HubEnv) (ms : List Msg)
    (hx : h.processUndelegations e = .ok (h', ms)) : SentBy e.self ms :=
  pickValidator_sentBy e _ ms (processUndelegations_spec h h' e ms hx).1

end HubSt

open HubSt in
theorem hubExec_sentBy (h h' : HubSt) (e : HubEnv) (sender : Addr) (funds : List (Denom × Nat))
    (m : HubMsg) (ms : List Msg) (hx : hubExec h e sender funds m = .ok (h', ms)) : SentBy e.self ms := by
  cases m with
  | migrateWaitList limit =>
    simp only [hubExec] at hx; exc_norm at hx; exc_split at hx; exact SentBy.nil _
  | updateParams a b c d p r =>
    simp only [hubExec] at hx; exc_norm at hx; exc_split at hx; exact SentBy.nil _
  | receive user amt hook =>
    simp only [hubExec] at hx
    split at hx
    · cases hx
    · exc_norm at hx
      split at hx
      · cases hx
      · split at hx
        · cases hx
        · cases hook with
          | other => simp only [] at hx; cases hx
          | convert =>
            simp only [] at hx
            split at hx
            · obtain ⟨_, _, _, _, _, _, _, _, _, _, _, _, _, _, _, _, hm⟩ := convertBS_spec _ _ _ _ _ _ hx
              subst hm; exact SentBy.cons rfl (SentBy.cons rfl (SentBy.nil _))
            · split at hx
              · obtain ⟨_, _, _, _, _, _, _, _, _, _, _, _, _, _, _, _, hm⟩ := convertSB_spec _ _ _ _ _ _ hx
                subst hm; exact SentBy.cons rfl (SentBy.cons rfl (SentBy.nil _))
              · cases hx
          | unbond =>
            simp only [] at hx
            split at hx
            · obtain ⟨st, supply, wf, tok, _, _, _, _, _, _, hcase⟩ := unbondB_spec _ _ _ _ _ _ hx
              rcases hcase with ⟨_, um, hp, hm⟩ | ⟨_, _, hm⟩
              · subst hm
                exact SentBy.append (processUndelegations_sentBy _ _ _ _ hp) (SentBy.cons rfl (SentBy.nil _))
              · subst hm; exact SentBy.cons rfl (SentBy.nil _)
            · split at hx
              · obtain ⟨st, tok, _, _, _, hcase⟩ := unbondS_spec _ _ _ _ _ _ hx
                rcases hcase with ⟨_, um, hp, hm⟩ | ⟨_, _, hm⟩
                · subst hm
                  exact SentBy.append (processUndelegations_sentBy _ _ _ _ hp) (SentBy.cons rfl (SentBy.nil _))
                · subst hm; exact SentBy.cons rfl (SentBy.nil _)
              · cases hx
  | bond =>
    simp only [hubExec] at hx; split at hx
    · cases hx
    · obtain ⟨p, st, mint, dl, tok, _, _, _, _, hd, _, _, hm⟩ := bondB_spec _ _ _ _ _ _ hx
      subst hm
      exact SentBy.append (delegMsgs_sentBy _ _ _ _ hd) (SentBy.cons rfl (SentBy.nil _))
  | bondForStSei =>
    simp only [hubExec] at hx; split at hx
    · cases hx
    · obtain ⟨p, st, dl, tok, _, _, _, hd, _, _, hm⟩ := bondS_spec _ _ _ _ _ _ hx
      subst hm
      exact SentBy.append (delegMsgs_sentBy _ _ _ _ hd) (SentBy.cons rfl (SentBy.nil _))
  | bondRewards =>
    simp only [hubExec] at hx; split at hx
    · cases hx
    · obtain ⟨p, st, _, _, _, hd, _⟩ := bondR_spec _ _ _ _ _ _ hx
      exact delegMsgs_sentBy _ _ _ _ hd
  | updateGlobalIndex =>
    simp only [hubExec] at hx; split at hx
    · cases hx
    · unfold updateGlobal at hx
      exc_norm at hx
      exc_split at hx
      all_goals
        intro x hx'
        simp only [List.mem_append, List.mem_map, List.mem_cons, List.mem_nil_iff, or_false] at hx'
        rcases hx' with ⟨d, _, rfl⟩ | rfl | rfl <;> rfl
  | withdrawUnbonded =>
    simp only [hubExec] at hx; split at hx
    · cases hx
    · obtain ⟨_, h1, _, _, _, _, hm⟩ := withdraw_spec _ _ _ _ _ hx
      subst hm; exact SentBy.cons rfl (SentBy.nil _)
  | checkSlashing =>
    simp only [hubExec] at hx; exc_norm at hx; exc_split at hx; exact SentBy.nil _
  | updateConfig a b c d f g u =>
    simp only [hubExec] at hx; split at hx
    · cases hx
    · unfold updateConfig at hx
      exc_norm at hx
      exc_split at hx
      cases a with
      | none => exact SentBy.nil _
      | some d => exact SentBy.cons rfl (SentBy.nil _)
  | setOwner a => simp only [hubExec] at hx; exc_norm at hx; exc_split at hx; exact SentBy.nil _
  | acceptOwnership => simp only [hubExec] at hx; exc_norm at hx; exc_split at hx; exact SentBy.nil _
  | swapHook =>
    simp only [hubExec] at hx; exc_norm at hx; exc_split at hx
    exact SentBy.cons rfl (SentBy.nil _)
  | claimAirdrop =>
    simp only [hubExec] at hx; exc_norm at hx; exc_split at hx
    exact SentBy.cons rfl (SentBy.cons rfl (SentBy.nil _))
  | redelegateProxy src plan =>
    simp only [hubExec] at hx; exc_norm at hx; exc_split at hx
    intro x hx'
    simp only [List.mem_map] at hx'
    obtain ⟨p, _, rfl⟩ := hx'
    rfl

theorem receiveMsg_sentFrom (self cw c hubc : Addr) (amt : Nat) (hook : Hook) :
    (receiveMsg self cw c hubc amt hook).sentFrom = self := by
  unfold receiveMsg; split <;> rfl

/-- close a goal `SentBy self [m₁, …]` whose elements are literal messages or `receiveMsg` -/
macro "sent_by_list" : tactic =>
  `(tactic| repeat' (first
      | exact SentBy.nil _
      | refine SentBy.append ?_ ?_
      | refine SentBy.cons (by first | rfl | exact receiveMsg_sentFrom ..) ?_))

theorem bseiExec_sentBy (t t' : Token) (b : Block) (self : Addr) (rw : Res Addr) (hubc sender : Addr)
    (m : TokMsg) (ms : List Msg) (hx : bseiExec t b self rw hubc sender m = .ok (t', ms)) :
    SentBy self ms := by
  cases m <;> simp only [bseiExec] at hx <;> exc_norm at hx <;> (try cases hx) <;> exc_split at hx <;> (try sent_by_list)

theorem stseiExec_sentBy (t t' : Token) (b : Block) (self hubc sender : Addr)
    (m : TokMsg) (ms : List Msg) (hx : stseiExec t b self hubc sender m = .ok (t', ms)) :
    SentBy self ms := by
  cases m <;> simp only [stseiExec] at hx <;> exc_norm at hx <;> (try cases hx) <;> exc_split at hx <;> (try sent_by_list)

theorem rewardExec_sentBy (r r' : RewardSt) (self : Addr) (tok dsp : Res Addr) (bal : Denom → Nat)
    (sender : Addr) (m : RewMsg) (ms : List Msg)
    (hx : rewardExec r self tok dsp bal sender m = .ok (r', ms)) : SentBy self ms := by
  cases m with
  | swapToRewardDenom =>
    simp only [rewardExec] at hx; exc_norm at hx; exc_split at hx
    intro x hx'
    simp only [List.mem_filterMap] at hx'
    obtain ⟨dn, _, h2⟩ := hx'
    split at h2
    · injection h2 with h2; subst h2; rfl
    · cases h2
  | _ => simp only [rewardExec] at hx <;> exc_norm at hx <;> (try cases hx) <;> exc_split at hx <;> (try sent_by_list)

theorem coinMsgs_sentBy (c : DispSt) (self : Addr) (x : Nat) :
    (∀ ms, coinMsgsB c self x = .ok ms → SentBy self ms) ∧
    (∀ ms, coinMsgsSt c self x = .ok ms → SentBy self ms) := by
  constructor
  · intro ms hx; unfold coinMsgsB at hx; exc_split at hx <;> (try sent_by_list)
  · intro ms hx; unfold coinMsgsSt at hx; exc_split at hx <;> (try sent_by_list)

theorem dispatchMsgs_sentBy (c : DispSt) (self : Addr) (a b : Nat) (ms : List Msg)
    (hx : dispatchMsgs c self a b = .ok ms) : SentBy self ms := by
  unfold dispatchMsgs at hx
  split at hx
  · cases hx
  · rename_i m1 h1
    split at hx
    · cases hx
    · rename_i m2 h2
      injection hx with hx; subst hx
      exact SentBy.append (SentBy.append ((coinMsgs_sentBy c self b).1 m1 h1) ((coinMsgs_sentBy c self a).2 m2 h2))
        (SentBy.cons rfl (SentBy.nil _))

theorem foldl_sentBy (self : Addr) (f : Res (Nat × Nat × List Msg) → Denom → Res (Nat × Nat × List Msg))
    (hstep : ∀ acc dn v, f acc dn = .ok v → ∃ v0, acc = .ok v0 ∧ (SentBy self v0.2.2 → SentBy self v.2.2)) :
    ∀ (l : List Denom) (acc : Res (Nat × Nat × List Msg)) (v : Nat × Nat × List Msg),
      l.foldl f acc = .ok v → ∃ v0, acc = .ok v0 ∧ (SentBy self v0.2.2 → SentBy self v.2.2) := by
  intro l
  induction l with
  | nil => intro acc v hx; exact ⟨v, hx, id⟩
  | cons d ds ih =>
    intro acc v hx
    simp only [List.foldl_cons] at hx
    obtain ⟨v1, h1, k1⟩ := ih (f acc d) v hx
    obtain ⟨v0, h0, k0⟩ := hstep acc d v1 h1
    exact ⟨v0, h0, fun h => k1 (k0 h)⟩

theorem dispExec_sentBy (c c' : DispSt) (self : Addr) (env : DispEnv) (sender : Addr) (m : DispMsg)
    (ms : List Msg) (hx : dispExec c self env sender m = .ok (c', ms)) : SentBy self ms := by
  cases m with
  | swap a b =>
    simp only [dispExec] at hx
    exc_norm at hx
    split at hx
    · cases hx
    · split at hx
      · cases hx
      · rename_i v hv
        have hs : SentBy self v.2.2 := by
          obtain ⟨v0, h0, k⟩ := foldl_sentBy self _ (by
            intro acc dn v' hf
            cases acc with
            | error e => simp only [] at hf; cases hf
            | ok v0 =>
              refine ⟨v0, rfl, fun h0 => ?_⟩
              simp only [] at hf
              repeat' (split at hf <;> try (first | cases hf | contradiction))
              all_goals (first | exact h0 | exact SentBy.append h0 (SentBy.cons rfl (SentBy.nil _)))) _ _ v hv
          injection h0 with h0; subst h0
          exact k (SentBy.nil _)
        repeat' (split at hx <;> try (first | cases hx | contradiction))
        all_goals (first | exact hs | exact SentBy.append hs (SentBy.cons rfl (SentBy.nil _)))
  | dispatch =>
    simp only [dispExec] at hx; exc_norm at hx
    split at hx
    · cases hx
    · split at hx
      · cases hx
      · rename_i ms' hd
        injection hx with hx; injection hx with _ h2; subst h2
        exact dispatchMsgs_sentBy _ _ _ _ _ hd
  | _ => simp only [dispExec] at hx <;> exc_norm at hx <;> (try cases hx) <;> exc_split at hx <;> (try sent_by_list)

theorem regExec_sentBy (s : Sys) (sender : Addr) (m : RegMsg) (r' : RegSt) (ms : List Msg)
    (hx : s.regExec sender m = .ok (r', ms)) : SentBy regA ms := by
  cases m with
  | remove v =>
    simp only [Sys.regExec] at hx; exc_norm at hx; exc_split at hx
    rename_i hq; exc_split at hq <;> sent_by_list
  | redelegations v =>
    simp only [Sys.regExec] at hx; exc_norm at hx; exc_split at hx
    rename_i hq; exc_split at hq <;> sent_by_list
  | _ => simp only [Sys.regExec] at hx <;> exc_norm at hx <;> (try cases hx) <;> exc_split at hx <;> (try sent_by_list)

end Krp
