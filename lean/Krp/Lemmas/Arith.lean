/-
  Arith.lean — nonlinear floor-arithmetic lemmas (the only lemma file that imports a Mathlib module:
  `nlinarith`). Model files never import this.
-/
import Mathlib.Tactic.Linarith
import Krp.Prim
namespace Krp

theorem lt_div_add_one_mul (a b : Nat) (hb : 0 < b) : a < (a / b + 1) * b := by
  have := Nat.div_add_mod a b
  have := Nat.mod_lt a hb
  nlinarith

/-- slashing split, bSei side: never above the exact pro-rata share … -/
theorem split_lower (Δ Bb T : Nat) : mulDec Δ (fromRatio Bb T) * T ≤ Δ * Bb := by
  unfold mulDec fromRatio
  have hD : 0 < D := D_pos
  have h1 : Bb * D / T * T ≤ Bb * D := Nat.div_mul_le_self _ _
  have h2 : Δ * (Bb * D / T) / D * D ≤ Δ * (Bb * D / T) := Nat.div_mul_le_self _ _
  have h3 : (Δ * (Bb * D / T) / D * T) * D ≤ (Δ * Bb) * D := by nlinarith
  exact Nat.le_of_mul_le_mul_right h3 hD

/-- … and less than two base units below it (inside the envelope Δ ≤ 10^18) -/
theorem split_upper (Δ Bb T : Nat) (hT : 0 < T) (hΔ : Δ ≤ D) :
    Δ * Bb < (mulDec Δ (fromRatio Bb T) + 2) * T := by
  unfold mulDec fromRatio
  have hD : 0 < D := D_pos
  have h1 := lt_div_add_one_mul (Bb * D) T hT
  have h2 := lt_div_add_one_mul (Δ * (Bb * D / T)) D hD
  have h3 : (Δ * Bb) * D < ((Δ * (Bb * D / T) / D + 2) * T) * D := by nlinarith
  exact Nat.lt_of_mul_lt_mul_right h3

/-- the bSei share never exceeds what survived (so the checked_sub of the stSei share cannot fail) -/
theorem split_le (Δ Bb T : Nat) (hle : Bb ≤ T) : mulDec Δ (fromRatio Bb T) ≤ Δ := by
  by_cases hT : T = 0
  · subst hT; simp [mulDec, fromRatio]
  · have hT' : 0 < T := Nat.pos_of_ne_zero hT
    have h := split_lower Δ Bb T
    have : mulDec Δ (fromRatio Bb T) * T ≤ Δ * T := Nat.le_trans h (Nat.mul_le_mul_left _ hle)
    exact Nat.le_of_mul_le_mul_right this hT'

end Krp

namespace Krp

/-- after undelegating `R` requests at the floored rate of a pool with `B ≤ Sa + R`, the backing left
    exceeds the remaining claims `Sa` by less than two base units -/
theorem undeleg_peg (B Sa R : Nat) (hB : B ≤ Sa + R) (hR : R ≤ D) (hC : 0 < Sa + R) :
    B - mulDec R (B * D / (Sa + R)) ≤ Sa + 2 := by
  unfold mulDec
  have hD : 0 < D := D_pos
  have h1 := lt_div_add_one_mul (B * D) (Sa + R) hC
  have h2 := lt_div_add_one_mul (R * (B * D / (Sa + R))) D hD
  have h3 : B * D / (Sa + R) * (Sa + R) ≤ B * D := Nat.div_mul_le_self _ _
  generalize B * D / (Sa + R) = r at *
  generalize R * r / D = m at *
  -- B·D·C ≤ (Sa + 2 + m)·D·C
  suffices hh : B * (D * (Sa + R)) ≤ (Sa + 2 + m) * (D * (Sa + R)) by
    have := Nat.le_of_mul_le_mul_right hh (Nat.mul_pos hD hC)
    omega
  nlinarith [Nat.mul_le_mul hB (Nat.le_refl D), Nat.mul_le_mul hR (Nat.le_refl (Sa + R))]

/-- convert bSei→stSei with a fee `a − w` that respects the cap `fee·B ≤ (C−B)(C−a)`: the pool ends
    at most two base units above its claims -/
theorem convert_peg (B C a w : Nat) (hw : w ≤ a) (ha : a ≤ C) (hBC : B ≤ C) (hwD : w ≤ D) (hC : 0 < C)
    (hcap : (a - w) * B ≤ (C - B) * (C - a)) :
    B - mulDec w (B * D / C) ≤ C - a + 2 := by
  unfold mulDec
  have hD : 0 < D := D_pos
  have h1 := lt_div_add_one_mul (B * D) C hC
  have h2 := lt_div_add_one_mul (w * (B * D / C)) D hD
  generalize B * D / C = r at *
  generalize w * r / D = m at *
  obtain ⟨f, hf⟩ : ∃ f, a = w + f := ⟨a - w, by omega⟩
  obtain ⟨g, hg⟩ : ∃ g, C = a + g := ⟨C - a, by omega⟩
  obtain ⟨k, hk⟩ : ∃ k, C = B + k := ⟨C - B, by omega⟩
  have hcap' : f * B ≤ k * g := by
    have e1 : a - w = f := by omega
    have e2 : C - B = k := by omega
    have e3 : C - a = g := by omega
    rw [e1, e2, e3] at hcap; exact hcap
  suffices hh : B * (D * C) ≤ (g + 2 + m) * (D * C) by
    have := Nat.le_of_mul_le_mul_right hh (Nat.mul_pos hD hC)
    omega
  subst hf
  have A : w * r * C < (m + 1) * D * C := Nat.mul_lt_mul_of_pos_right h2 hC
  have Bq : w * (B * D) ≤ w * ((r + 1) * C) := Nat.mul_le_mul_left w (Nat.le_of_lt h1)
  have Cq : w * C ≤ D * C := Nat.mul_le_mul_right C hwD
  have Dq : f * B * D ≤ k * g * D := Nat.mul_le_mul_right D hcap'
  have E1 : B * C * D = B * (w + f + g) * D := by rw [← hg]
  have E2 : g * C * D = g * (B + k) * D := by rw [← hk]
  nlinarith [A, Bq, Cq, Dq, E1, E2]

end Krp

namespace Krp

/-- `inv r · r ≤ 1` in atomics -/
theorem decInv_mul_le (r : Nat) : D * D / r * r ≤ D * D := Nat.div_mul_le_self _ _

/-- converting `x ≤ ⌊b·inv/D⌋` units back at price `r` never needs more than `b` -/
theorem buy_le_available (b x r : Nat) (hx : x ≤ mulDec b (D * D / r)) : mulDec x r ≤ b := by
  unfold mulDec at *
  have hD : 0 < D := D_pos
  have h1 := decInv_mul_le r
  have h2 : b * (D * D / r) / D * D ≤ b * (D * D / r) := Nat.div_mul_le_self _ _
  generalize D * D / r = i at *
  have h3 : x * r / D * D ≤ x * r := Nat.div_mul_le_self _ _
  -- x·r·D ≤ (b·i/D)·D·r ≤ b·i·r ≤ b·D·D
  have h4 : x * D ≤ b * i := Nat.le_trans (Nat.mul_le_mul_right D hx) h2
  have h5 : (x * r / D) * (D * D) ≤ b * (D * D) := by nlinarith
  exact Nat.le_of_mul_le_mul_right h5 (Nat.mul_pos hD hD)

/-- paying back `⌊amt·inv/D⌋` for `amt = ⌊x·r/D⌋` never exceeds `x` -/
theorem buy_back_le (x r : Nat) : mulDec (mulDec x r) (D * D / r) ≤ x := by
  unfold mulDec
  have hD : 0 < D := D_pos
  have h1 := decInv_mul_le r
  generalize D * D / r = i at *
  have h2 : x * r / D * D ≤ x * r := Nat.div_mul_le_self _ _
  have h3 : x * r / D * i / D * D ≤ x * r / D * i := Nat.div_mul_le_self _ _
  have h5 : (x * r / D * i / D) * (D * D) ≤ x * (D * D) := by nlinarith
  exact Nat.le_of_mul_le_mul_right h5 (Nat.mul_pos hD hD)

theorem mulRatio_le (t a b : Nat) : mulRatio t a (a + b) ≤ t := by
  unfold mulRatio
  by_cases h : a + b = 0
  · rw [h]; simp
  · exact Nat.div_le_of_le_mul (by nlinarith)

end Krp
