/-
  Release.lean — arithmetic of `process_withdraw_rate` / `calculate_new_withdraw_rate` for a group
  of batches released together (C01, C06): what one token side of the group is allocated never
  exceeds what arrived for that side, (a) whenever the side was not slashed, and (b) under a slash
  `sl` of the side's unbonding stake whenever `n · sl ≤ 10^18` (`n` = batches in the group).
  Outside (b) the bound is false (D5, `C01_release_group_counterexample`).
-/
import Mathlib.Tactic.Ring
import Krp.Lemmas.Arith
import Krp.Hub
namespace Krp
open HubSt

/-- the coin amount `calculate_new_withdraw_rate` re-prices a batch side to (before it is turned
    back into a rate): `u` = undelegated for the side, `T` = the group's total for the token -/
def relActual (u T : Nat) (sl : Nat × Bool) : Nat :=
  if sl.2 then u + (if mulDec sl.1 (if T ≠ 0 then fromRatio u T else 0) > 1
                    then mulDec sl.1 (if T ≠ 0 then fromRatio u T else 0) - 1 else 0)
  else u - (if sl.1 ≠ 0 then mulDec sl.1 (if T ≠ 0 then fromRatio u T else 0) + 1
            else mulDec sl.1 (if T ≠ 0 then fromRatio u T else 0))

theorem alloc_le (a act : Nat) : mulDec a (fromRatio act a) ≤ act := by
  unfold mulDec fromRatio
  have h1 : act * D / a * a ≤ act * D := Nat.div_mul_le_self _ _
  have : a * (act * D / a) ≤ act * D := by rw [Nat.mul_comm]; exact h1
  exact Nat.div_le_of_le_mul (by rw [Nat.mul_comm D]; exact this)

/-- what a batch side is allocated (its amount at the new withdraw rate) is at most the re-priced
    coin amount -/
theorem nwr_alloc_le (a r T : Nat) (sl : Nat × Bool) :
    mulDec a (newWithdrawRate a r T sl) ≤ relActual (mulDec a r) T sl := by
  by_cases ha : a = 0
  · subst ha; unfold mulDec; rw [Nat.zero_mul, Nat.zero_div]; exact Nat.zero_le _
  · unfold newWithdrawRate relActual
    simp only [ha, ne_eq, not_false_eq_true, if_true]
    exact alloc_le _ _

theorem sum_map_div_le (f : Nat → Nat) (xs : List Nat) (T : Nat) :
    (xs.map (fun x => f x / T)).sum ≤ (xs.map f).sum / T := by
  by_cases hT : T = 0
  · subst hT
    induction xs with
    | nil => simp
    | cons x xs ih => simpa using ih
  · have hT' : 0 < T := Nat.pos_of_ne_zero hT
    induction xs with
    | nil => simp
    | cons x xs ih =>
      simp only [List.map_cons, List.sum_cons]
      have : f x / T + (xs.map f).sum / T ≤ (f x + (xs.map f).sum) / T := by
        apply (Nat.le_div_iff_mul_le hT').mpr
        have h1 : f x / T * T ≤ f x := Nat.div_mul_le_self _ _
        have h2 : (xs.map f).sum / T * T ≤ (xs.map f).sum := Nat.div_mul_le_self _ _
        rw [Nat.add_mul]; omega
      omega

theorem sum_map_mul_right (f : Nat → Nat) (xs : List Nat) (c : Nat) :
    (xs.map (fun x => f x * c)).sum = (xs.map f).sum * c := by
  induction xs with
  | nil => simp
  | cons x xs ih => simp only [List.map_cons, List.sum_cons, ih, Nat.add_mul]

theorem sum_map_mul_left (f : Nat → Nat) (xs : List Nat) (c : Nat) :
    (xs.map (fun x => c * f x)).sum = c * (xs.map f).sum := by
  induction xs with
  | nil => simp
  | cons x xs ih => simp only [List.map_cons, List.sum_cons, ih, Nat.mul_add]

/-- the weights of a group sum to at most one (any scale `d`) -/
theorem weights_le_gen (us : List Nat) (T d : Nat) (hT : us.sum = T) (hpos : T ≠ 0) :
    (us.map (fun u => u * d / T)).sum ≤ d := by
  have h := sum_map_div_le (fun u => u * d) us T
  have e : (us.map (fun u => u * d)).sum = T * d := by
    have := sum_map_mul_right (fun u => u) us d
    simp only [List.map_id'] at this
    rw [this, hT]
  rw [e, Nat.mul_div_cancel_left d (Nat.pos_of_ne_zero hpos)] at h
  exact h

/-- shares of a surplus `s` distributed by the weights sum to at most the surplus -/
theorem shares_le_gen (us : List Nat) (T d s : Nat) (hT : us.sum = T) (hpos : T ≠ 0) :
    (us.map (fun u => s * (u * d / T) / d)).sum ≤ s := by
  have h := sum_map_div_le (fun u => s * (u * d / T)) us d
  have e := sum_map_mul_left (fun u => u * d / T) us s
  rw [e] at h
  have hw := weights_le_gen us T d hT hpos
  refine Nat.le_trans h ?_
  apply Nat.div_le_of_le_mul
  rw [Nat.mul_comm d s]
  exact Nat.mul_le_mul_left s hw

theorem shares_le (us : List Nat) (T s : Nat) (hT : us.sum = T) (hpos : T ≠ 0) :
    (us.map (fun u => mulDec s (fromRatio u T))).sum ≤ s :=
  shares_le_gen us T D s hT hpos

/-- (a) unsolicited surplus `s` (or none): the group's side is re-priced to at most `T + s` -/
theorem relActual_sum_neg (us : List Nat) (s : Nat) :
    (us.map (fun u => relActual u us.sum (s, true))).sum ≤ us.sum + s := by
  by_cases hT : us.sum = 0
  · -- every weight is zero
    have hz : mulDec s 0 = 0 := by unfold mulDec; rw [Nat.mul_zero, Nat.zero_div]
    have : ∀ u, relActual u us.sum (s, true) = u := by
      intro u; unfold relActual
      simp only [hT, ne_eq, not_true_eq_false, if_false, if_true, hz]
      split <;> omega
    simp only [this, List.map_id']
    omega
  · have hs := shares_le us us.sum s rfl hT
    -- termwise: relActual u ≤ u + share u
    have term : ∀ (T : Nat), T ≠ 0 → ∀ (l : List Nat), (l.map (fun u => relActual u T (s, true))).sum ≤
        l.sum + (l.map (fun u => mulDec s (fromRatio u T))).sum := by
      intro T hT' l
      induction l with
      | nil => simp
      | cons u l ih =>
        simp only [List.map_cons, List.sum_cons]
        have : relActual u T (s, true) ≤ u + mulDec s (fromRatio u T) := by
          unfold relActual; simp only [hT', ne_eq, not_false_eq_true, if_true]
          split <;> omega
        omega
    have := term us.sum hT us
    omega

/-- one batch side under a slash `sl > 0` of a group total `T ≥ sl`: the amount taken from it,
    capped at the side itself, is more than its exact share less `sl/10^18` -/
theorem deduction_lower (u T sl : Nat) (hsl : 0 < sl) (hle : sl ≤ T) :
    sl * D * u < min u (mulDec sl (fromRatio u T) + 1) * D * T + sl * T := by
  have hD : 0 < D := D_pos
  have hT : 0 < T := Nat.lt_of_lt_of_le hsl hle
  unfold mulDec fromRatio
  have hw := lt_div_add_one_mul (u * D) T hT
  have hf := lt_div_add_one_mul (sl * (u * D / T)) D hD
  generalize u * D / T = w at *
  generalize sl * w / D = f at *
  by_cases hc : f + 1 ≤ u
  · rw [Nat.min_eq_right hc]
    have h1 : sl * w * T < (f + 1) * D * T := Nat.mul_lt_mul_of_pos_right hf hT
    have h2 : sl * (u * D) < sl * ((w + 1) * T) := Nat.mul_lt_mul_of_pos_left hw hsl
    have e1 : sl * (u * D) = sl * D * u := by ring
    have e2 : sl * ((w + 1) * T) = sl * w * T + sl * T := by ring
    linarith
  · have hc' : u ≤ f + 1 := by omega
    rw [Nat.min_eq_left hc']
    have h1 : sl * D * u ≤ T * D * u := Nat.mul_le_mul_right u (Nat.mul_le_mul_right D hle)
    have h2 : 0 < sl * T := Nat.mul_pos hsl hT
    have e1 : T * D * u = u * D * T := by ring
    linarith

theorem deduction_sum_lower (T sl : Nat) (hsl : 0 < sl) (hle : sl ≤ T) (us : List Nat) :
    sl * D * us.sum + us.length ≤
      (us.map (fun u => min u (mulDec sl (fromRatio u T) + 1))).sum * D * T + us.length * (sl * T) := by
  induction us with
  | nil => simp
  | cons u us ih =>
    simp only [List.map_cons, List.sum_cons, List.length_cons]
    have h := deduction_lower u T sl hsl hle
    have e1 : sl * D * (u + us.sum) = sl * D * u + sl * D * us.sum := by ring
    have e2 : (min u (mulDec sl (fromRatio u T) + 1) + (us.map (fun u => min u (mulDec sl (fromRatio u T) + 1))).sum) * D * T
        = min u (mulDec sl (fromRatio u T) + 1) * D * T + (us.map (fun u => min u (mulDec sl (fromRatio u T) + 1))).sum * D * T := by ring
    have e3 : (us.length + 1) * (sl * T) = us.length * (sl * T) + sl * T := by ring
    rw [e1, e2, e3]
    omega

/-- (b) a slash `sl` of the side with `n · sl ≤ 10^18`: the deductions (each capped at its batch
    side) add up to at least the slash -/
theorem deductions_cover_slash (us : List Nat) (sl : Nat) (hsl : 0 < sl) (hle : sl ≤ us.sum)
    (hn : us.length * sl ≤ D) :
    sl ≤ (us.map (fun u => min u (mulDec sl (fromRatio u us.sum) + 1))).sum := by
  have hD : 0 < D := D_pos
  have hT : 0 < us.sum := Nat.lt_of_lt_of_le hsl hle
  have h := deduction_sum_lower us.sum sl hsl hle us
  have hlen : 0 < us.length := by
    cases us with
    | nil => simp at hT
    | cons _ _ => simp
  generalize (us.map (fun u => min u (mulDec sl (fromRatio u us.sum) + 1))).sum = m at *
  generalize us.sum = T at *
  generalize us.length = n at *
  -- T·(sl·D) < T·(m·D + n·sl)
  have h1 : T * (sl * D) < T * (m * D + n * sl) := by
    have e1 : T * (sl * D) = sl * D * T := by ring
    have e2 : T * (m * D + n * sl) = m * D * T + n * (sl * T) := by ring
    rw [e1, e2]; omega
  have h2 : sl * D < m * D + n * sl := Nat.lt_of_mul_lt_mul_left h1
  have h3 : sl * D < (m + 1) * D := by
    have e1 : (m + 1) * D = m * D + D := by ring
    rw [e1]; omega
  have := Nat.lt_of_mul_lt_mul_right h3
  omega

theorem relActual_sum_pos (us : List Nat) (sl : Nat) (hsl : 0 < sl) (hle : sl ≤ us.sum)
    (hn : us.length * sl ≤ D) :
    (us.map (fun u => relActual u us.sum (sl, false))).sum + sl ≤ us.sum := by
  have hT : us.sum ≠ 0 := by omega
  have hcov := deductions_cover_slash us sl hsl hle hn
  have term : ∀ (l : List Nat), (l.map (fun u => relActual u us.sum (sl, false))).sum +
      (l.map (fun u => min u (mulDec sl (fromRatio u us.sum) + 1))).sum = l.sum := by
    intro l
    induction l with
    | nil => simp
    | cons u l ih =>
      simp only [List.map_cons, List.sum_cons]
      have : relActual u us.sum (sl, false) + min u (mulDec sl (fromRatio u us.sum) + 1) = u := by
        unfold relActual
        have : sl ≠ 0 := by omega
        simp only [hT, this, ne_eq, not_false_eq_true, if_true, Bool.false_eq_true, if_false]
        omega
      omega
  have := term us
  omega

/-- total undelegated for one token side of a group; each element is (amount, rate) -/
def sideTotal (xs : List (Nat × Nat)) : Nat := (xs.map (fun x => mulDec x.1 x.2)).sum

/-- what one token side of a release group is allocated at the new withdraw rates -/
def sideAlloc (xs : List (Nat × Nat)) (T : Nat) (sl : Nat × Bool) : Nat :=
  (xs.map (fun x => mulDec x.1 (newWithdrawRate x.1 x.2 T sl))).sum

/-- when is a side of a release group covered by the bound: not slashed, or slashed by an amount
    `sl` with `n · sl ≤ 10^18` -/
def SideSafe (n T A : Nat) : Prop := T ≤ A ∨ n * (T - A) ≤ D

theorem sideAlloc_le_relActual (xs : List (Nat × Nat)) (T : Nat) (sl : Nat × Bool) :
    sideAlloc xs T sl ≤ ((xs.map (fun x => mulDec x.1 x.2)).map (fun u => relActual u T sl)).sum := by
  unfold sideAlloc
  have e : (xs.map (fun x => mulDec x.1 x.2)).map (fun u => relActual u T sl) =
      xs.map (fun x => relActual (mulDec x.1 x.2) T sl) := by
    rw [List.map_map]; rfl
  rw [e]
  clear e
  induction xs with
  | nil => simp
  | cons x xs ih =>
    simp only [List.map_cons, List.sum_cons]
    have := nwr_alloc_le x.1 x.2 T sl
    omega

/-- **One token side of a release group is never allocated more than arrived for it.** `A` is what
    arrived for the side; the side's total `T` and the signed difference are exactly what
    `process_withdraw_rate` passes to `calculate_new_withdraw_rate`. -/
theorem side_alloc_le (xs : List (Nat × Nat)) (A : Nat) (hs : SideSafe xs.length (sideTotal xs) A) :
    sideAlloc xs (sideTotal xs) (signedSub (sideTotal xs) A) ≤ A := by
  have bound := fun sl => sideAlloc_le_relActual xs (sideTotal xs) sl
  refine Nat.le_trans (bound _) ?_
  have hlen : (xs.map (fun x => mulDec x.1 x.2)).length = xs.length := by simp
  unfold sideTotal at *
  generalize (xs.map (fun x => mulDec x.1 x.2)) = us at *
  unfold signedSub
  by_cases hlt : us.sum < A
  · rw [if_pos hlt]
    have := relActual_sum_neg us (A - us.sum)
    omega
  · rw [if_neg hlt]
    by_cases heq : us.sum = A
    · have hz : us.sum - A = 0 := by omega
      rw [hz]
      have hz0 : ∀ w, mulDec 0 w = 0 := by intro w; unfold mulDec; rw [Nat.zero_mul, Nat.zero_div]
      have : ∀ u, relActual u us.sum (0, false) = u := by
        intro u; unfold relActual
        simp only [hz0, ne_eq, not_true_eq_false, if_false, Bool.false_eq_true]
        omega
      simp only [this, List.map_id']
      omega
    · have hsl : 0 < us.sum - A := by omega
      have hn : us.length * (us.sum - A) ≤ D := by
        rcases hs with h | h
        · omega
        · rw [hlen]; exact h
      have := relActual_sum_pos us (us.sum - A) hsl (by omega) hn
      omega


/-! ### the other direction: absent slashing and unsolicited transfers only rounding dust is lost -/

/-- re-pricing an amount `a ≤ 10^18` to the rate `u/a` loses less than one base unit -/
theorem alloc_ge (a u : Nat) (ha : a ≠ 0) (haD : a ≤ D) : u ≤ mulDec a (fromRatio u a) + 1 := by
  unfold mulDec fromRatio
  have hD : 0 < D := D_pos
  have h := lt_div_add_one_mul (u * D) a (Nat.pos_of_ne_zero ha)
  generalize u * D / a = q at *
  -- u·D < (q+1)·a  ⇒  (u−1)·D ≤ a·q
  by_cases hu : u = 0
  · rw [hu]; exact Nat.zero_le _
  · have h2 : (u - 1) * D ≤ a * q := by
      have e1 : (q + 1) * a = a * q + a := by ring
      have e2 : (u - 1) * D + D = u * D := by
        have : u - 1 + 1 = u := by omega
        calc (u - 1) * D + D = (u - 1 + 1) * D := by ring
          _ = u * D := by rw [this]
      omega
    have : u - 1 ≤ a * q / D := (Nat.le_div_iff_mul_le hD).mpr h2
    omega

/-- a side that arrived exactly (`A = T`): every batch keeps its undelegated amount up to one unit,
    so the side's allocation falls short of what arrived by at most one unit per batch -/
theorem side_alloc_ge_gen (xs : List (Nat × Nat)) (T : Nat) (hD : ∀ x ∈ xs, x.1 ≤ D) :
    (xs.map (fun x => mulDec x.1 x.2)).sum ≤ sideAlloc xs T (0, false) + xs.length := by
  unfold sideAlloc
  induction xs with
  | nil => simp
  | cons x xs ih =>
    simp only [List.map_cons, List.sum_cons, List.length_cons]
    have ih' := ih (fun y hy => hD y (List.mem_cons_of_mem _ hy))
    have hx := hD x (List.mem_cons_self ..)
    have one : mulDec x.1 x.2 ≤ mulDec x.1 (newWithdrawRate x.1 x.2 T (0, false)) + 1 := by
      by_cases ha : x.1 = 0
      · rw [ha]; unfold mulDec; rw [Nat.zero_mul, Nat.zero_div]; exact Nat.zero_le _
      · unfold newWithdrawRate
        have hz : ∀ w, mulDec 0 w = 0 := by intro w; unfold mulDec; rw [Nat.zero_mul, Nat.zero_div]
        simp only [ha, ne_eq, not_false_eq_true, if_true, hz, not_true_eq_false, if_false,
          Bool.false_eq_true, Nat.sub_zero]
        exact alloc_ge x.1 _ ha hx
    omega

theorem side_alloc_ge (xs : List (Nat × Nat)) (hD : ∀ x ∈ xs, x.1 ≤ D) :
    sideTotal xs ≤ sideAlloc xs (sideTotal xs) (signedSub (sideTotal xs) (sideTotal xs)) + xs.length := by
  have hs : signedSub (sideTotal xs) (sideTotal xs) = (0, false) := by
    unfold signedSub; simp
  rw [hs]
  exact side_alloc_ge_gen xs (sideTotal xs) hD

/-- the split of the arrived coins between the two token sides is exact when exactly the expected
    total arrived (inside the envelope `tot ≤ 10^18`) -/
theorem split_exact (sT bT : Nat) (hpos : 0 < sT + bT) (hle : sT + bT ≤ D) :
    mulDec (sT + bT) (D - fromRatio sT (sT + bT)) = bT := by
  unfold mulDec fromRatio
  have hD : 0 < D := D_pos
  have h1 : sT * D / (sT + bT) * (sT + bT) ≤ sT * D := Nat.div_mul_le_self _ _
  have h2 := lt_div_add_one_mul (sT * D) (sT + bT) hpos
  have hq : sT * D / (sT + bT) ≤ D := by
    apply Nat.div_le_of_le_mul
    have : sT * D ≤ (sT + bT) * D := Nat.mul_le_mul_right D (by omega)
    exact this
  generalize sT * D / (sT + bT) = q at *
  obtain ⟨r, hr⟩ : ∃ r, D = q + r := ⟨D - q, by omega⟩
  have e : D - q = r := by omega
  rw [e]
  -- bT·D ≤ tot·r < bT·D + D
  have lo : bT * D ≤ (sT + bT) * r := by
    have e1 : (sT + bT) * D = (sT + bT) * q + (sT + bT) * r := by rw [hr]; ring
    have e2 : (sT + bT) * D = sT * D + bT * D := by ring
    have e3 : q * (sT + bT) = (sT + bT) * q := by ring
    omega
  have hi : (sT + bT) * r < bT * D + D := by
    have e1 : (sT + bT) * D = (sT + bT) * q + (sT + bT) * r := by rw [hr]; ring
    have e2 : (sT + bT) * D = sT * D + bT * D := by ring
    have e3 : (q + 1) * (sT + bT) = (sT + bT) * q + (sT + bT) := by ring
    omega
  have a : bT ≤ (sT + bT) * r / D := (Nat.le_div_iff_mul_le hD).mpr lo
  have b : (sT + bT) * r / D < bT + 1 := by
    apply (Nat.div_lt_iff_lt_mul hD).mpr
    have : (bT + 1) * D = bT * D + D := by ring
    omega
  omega


/-- the split of arrived coins `act ≥ tot` (unsolicited transfers on top of the expected total, all
    within the envelope): neither token side receives less than was undelegated for it -/
theorem split_surplus (sT bT act : Nat) (hpos : 0 < sT + bT) (hge : sT + bT ≤ act) (hle : act ≤ D) :
    bT ≤ mulDec act (D - fromRatio sT (sT + bT)) ∧
    sT ≤ act - mulDec act (D - fromRatio sT (sT + bT)) := by
  unfold mulDec fromRatio
  have hD : 0 < D := D_pos
  have h1 : sT * D / (sT + bT) * (sT + bT) ≤ sT * D := Nat.div_mul_le_self _ _
  have h2 := lt_div_add_one_mul (sT * D) (sT + bT) hpos
  have hq : sT * D / (sT + bT) ≤ D := by
    apply Nat.div_le_of_le_mul
    exact Nat.mul_le_mul_right D (by omega)
  generalize sT * D / (sT + bT) = q at *
  obtain ⟨r, hr⟩ : ∃ r, D = q + r := ⟨D - q, by omega⟩
  have e : D - q = r := by omega
  rw [e]
  obtain ⟨x, hx⟩ : ∃ x, act = sT + bT + x := ⟨act - (sT + bT), by omega⟩
  -- tot·r bounds, as in split_exact
  have lo : bT * D ≤ (sT + bT) * r := by
    have e1 : (sT + bT) * D = (sT + bT) * q + (sT + bT) * r := by rw [hr]; ring
    have e2 : (sT + bT) * D = sT * D + bT * D := by ring
    have e3 : q * (sT + bT) = (sT + bT) * q := by ring
    omega
  have hi : (sT + bT) * r < bT * D + (sT + bT) := by
    have e1 : (sT + bT) * D = (sT + bT) * q + (sT + bT) * r := by rw [hr]; ring
    have e2 : (sT + bT) * D = sT * D + bT * D := by ring
    have e3 : (q + 1) * (sT + bT) = (sT + bT) * q + (sT + bT) := by ring
    omega
  constructor
  · apply (Nat.le_div_iff_mul_le hD).mpr
    have : (sT + bT) * r ≤ act * r := Nat.mul_le_mul_right r hge
    omega
  · -- m := act·r/D ;  tot·m·D ≤ tot·act·r < act·(bT·D + tot) ≤ tot·D·(act − sT + 1)
    have hm : act * r / D * D ≤ act * r := Nat.div_mul_le_self _ _
    generalize act * r / D = m at *
    have key : (sT + bT) * (m * D) < (sT + bT) * D * (act - sT + 1) := by
      have a1 : (sT + bT) * (m * D) ≤ (sT + bT) * (act * r) := Nat.mul_le_mul_left _ hm
      have a2 : act * ((sT + bT) * r) < act * (bT * D + (sT + bT)) :=
        Nat.mul_lt_mul_of_pos_left hi (by omega)
      have a3 : (sT + bT) * (act * r) = act * ((sT + bT) * r) := by ring
      have hsub : act - sT + 1 = bT + x + 1 := by omega
      rw [hsub]
      rw [hx] at a1 a2 a3
      have hDle : sT + bT + x ≤ D := by omega
      have k1 : (sT + bT) * (sT + bT + x) ≤ (sT + bT) * D := Nat.mul_le_mul_left _ hDle
      -- expand everything to monomials
      nlinarith [k1, a1, a2, a3, Nat.zero_le (sT * D * x)]
    have : m * D < D * (act - sT + 1) := by
      have := Nat.lt_of_mul_lt_mul_left (a := sT + bT) (by
        have e1 : (sT + bT) * D * (act - sT + 1) = (sT + bT) * (D * (act - sT + 1)) := by ring
        rw [e1] at key; exact key)
      exact this
    have : m < act - sT + 1 := by
      have e1 : D * (act - sT + 1) = (act - sT + 1) * D := by ring
      rw [e1] at this
      exact Nat.lt_of_mul_lt_mul_right this
    omega

end Krp
