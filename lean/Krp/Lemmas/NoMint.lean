/-
  NoMint.lean — only the hub emits token Mint messages.  Generated from NoWd.lean by replacing the
  predicate (the hub's own lemma dropped).
-/
import Krp.System
import Krp.Lemmas.Tactics
import Krp.Lemmas.HubSpec
import Krp.Lemmas.Wait
import Krp.Lemmas.Emit
import Krp.Lemmas.Reach
namespace Krp

/-- a token Mint, from anyone to anyone -/
def isMint : Msg → Bool
  | .wasm _ _ (.tok (.mint _ _)) _ => true
  | _ => false

def NoMint (ms : List Msg) : Prop := ∀ m ∈ ms, isMint m = false

theorem NoMint.nil : NoMint [] := fun _ h => by cases h
theorem NoMint.cons {m : Msg} {ms : List Msg} (h1 : isMint m = false) (h2 : NoMint ms) :
    NoMint (m :: ms) := by
  intro x hx
  rcases List.mem_cons.mp hx with rfl | h
  · exact h1
  · exact h2 x h
theorem NoMint.append {x y : List Msg} (h1 : NoMint x) (h2 : NoMint y) : NoMint (x ++ y) := by
  intro m hm
  rcases List.mem_append.mp hm with h | h
  · exact h1 m h
  · exact h2 m h

theorem receiveMsg_noMintMsg (self cw c hubc : Addr) (amt : Nat) (hook : Hook) :
    isMint (receiveMsg self cw c hubc amt hook) = false := by
  unfold receiveMsg; split <;> rfl

/-- close a goal `NoMint [m₁, …]` whose elements are literal messages or `receiveMsg` -/
macro "no_mint_list" : tactic =>
  `(tactic| repeat' (first
      | exact NoMint.nil
      | refine NoMint.append ?_ ?_
      | refine NoMint.cons (by first | rfl | exact receiveMsg_noMintMsg ..) ?_))

theorem bseiExec_noMint (t t' : Token) (b : Block) (self : Addr) (rw : Res Addr) (hubc sender : Addr)
    (m : TokMsg) (ms : List Msg) (hx : bseiExec t b self rw hubc sender m = .ok (t', ms)) :
    NoMint ms := by
  cases m <;> simp only [bseiExec] at hx <;> exc_norm at hx <;> (try cases hx) <;> exc_split at hx <;> (try no_mint_list)

theorem stseiExec_noMint (t t' : Token) (b : Block) (self hubc sender : Addr)
    (m : TokMsg) (ms : List Msg) (hx : stseiExec t b self hubc sender m = .ok (t', ms)) :
    NoMint ms := by
  cases m <;> simp only [stseiExec] at hx <;> exc_norm at hx <;> (try cases hx) <;> exc_split at hx <;> (try no_mint_list)

theorem rewardExec_noMint (r r' : RewardSt) (self : Addr) (tok dsp : Res Addr) (bal : Denom → Nat)
    (sender : Addr) (m : RewMsg) (ms : List Msg)
    (hx : rewardExec r self tok dsp bal sender m = .ok (r', ms)) : NoMint ms := by
  cases m with
  | swapToRewardDenom =>
    simp only [rewardExec] at hx; exc_norm at hx; exc_split at hx
    intro x hx'
    simp only [List.mem_filterMap] at hx'
    obtain ⟨dn, _, h2⟩ := hx'
    split at h2
    · injection h2 with h2; subst h2; rfl
    · cases h2
  | _ => simp only [rewardExec] at hx <;> exc_norm at hx <;> (try cases hx) <;> exc_split at hx <;> (try no_mint_list)

theorem coinMsgs_noMint (c : DispSt) (self : Addr) (x : Nat) :
    (∀ ms, coinMsgsB c self x = .ok ms → NoMint ms) ∧
    (∀ ms, coinMsgsSt c self x = .ok ms → NoMint ms) := by
  constructor
  · intro ms hx; unfold coinMsgsB at hx; exc_split at hx <;> (try no_mint_list)
  · intro ms hx; unfold coinMsgsSt at hx; exc_split at hx <;> (try no_mint_list)

theorem dispatchMsgs_noMint (c : DispSt) (self : Addr) (a b : Nat) (ms : List Msg)
    (hx : dispatchMsgs c self a b = .ok ms) : NoMint ms := by
  unfold dispatchMsgs at hx
  split at hx
  · cases hx
  · rename_i m1 h1
    split at hx
    · cases hx
    · rename_i m2 h2
      injection hx with hx; subst hx
      exact NoMint.append (NoMint.append ((coinMsgs_noMint c self b).1 m1 h1) ((coinMsgs_noMint c self a).2 m2 h2))
        (NoMint.cons rfl (NoMint.nil))

theorem foldl_noMint (f : Res (Nat × Nat × List Msg) → Denom → Res (Nat × Nat × List Msg))
    (hstep : ∀ acc dn v, f acc dn = .ok v → ∃ v0, acc = .ok v0 ∧ (NoMint v0.2.2 → NoMint v.2.2)) :
    ∀ (l : List Denom) (acc : Res (Nat × Nat × List Msg)) (v : Nat × Nat × List Msg),
      l.foldl f acc = .ok v → ∃ v0, acc = .ok v0 ∧ (NoMint v0.2.2 → NoMint v.2.2) := by
  intro l
  induction l with
  | nil => intro acc v hx; exact ⟨v, hx, id⟩
  | cons d ds ih =>
    intro acc v hx
    simp only [List.foldl_cons] at hx
    obtain ⟨v1, h1, k1⟩ := ih (f acc d) v hx
    obtain ⟨v0, h0, k0⟩ := hstep acc d v1 h1
    exact ⟨v0, h0, fun h => k1 (k0 h)⟩

theorem dispExec_noMint (c c' : DispSt) (self : Addr) (env : DispEnv) (sender : Addr) (m : DispMsg)
    (ms : List Msg) (hx : dispExec c self env sender m = .ok (c', ms)) : NoMint ms := by
  cases m with
  | swap a b =>
    simp only [dispExec] at hx
    exc_norm at hx
    split at hx
    · cases hx
    · split at hx
      · cases hx
      · rename_i v hv
        have hs : NoMint v.2.2 := by
          obtain ⟨v0, h0, k⟩ := foldl_noMint _ (by
            intro acc dn v' hf
            cases acc with
            | error e => simp only [] at hf; cases hf
            | ok v0 =>
              refine ⟨v0, rfl, fun h0 => ?_⟩
              simp only [] at hf
              repeat' (split at hf <;> try (first | cases hf | contradiction))
              all_goals (first | exact h0 | exact NoMint.append h0 (NoMint.cons rfl (NoMint.nil)))) _ _ v hv
          injection h0 with h0; subst h0
          exact k (NoMint.nil)
        repeat' (split at hx <;> try (first | cases hx | contradiction))
        all_goals (first | exact hs | exact NoMint.append hs (NoMint.cons rfl (NoMint.nil)))
  | dispatch =>
    simp only [dispExec] at hx; exc_norm at hx
    split at hx
    · cases hx
    · split at hx
      · cases hx
      · rename_i ms' hd
        injection hx with hx; injection hx with _ h2; subst h2
        exact dispatchMsgs_noMint _ _ _ _ _ hd
  | _ => simp only [dispExec] at hx <;> exc_norm at hx <;> (try cases hx) <;> exc_split at hx <;> (try no_mint_list)

theorem regExec_noMint (s : Sys) (sender : Addr) (m : RegMsg) (r' : RegSt) (ms : List Msg)
    (hx : s.regExec sender m = .ok (r', ms)) : NoMint ms := by
  cases m with
  | remove v =>
    simp only [Sys.regExec] at hx; exc_norm at hx; exc_split at hx
    rename_i hq; exc_split at hq <;> no_mint_list
  | redelegations v =>
    simp only [Sys.regExec] at hx; exc_norm at hx; exc_split at hx
    rename_i hq; exc_split at hq <;> no_mint_list
  | _ => simp only [Sys.regExec] at hx <;> exc_norm at hx <;> (try cases hx) <;> exc_split at hx <;> (try no_mint_list)

/-- only the hub emits token Mint messages: handling a message addressed to any other contract (or a
    bank / staking message) emits none -/
theorem handle_noMint (s s' : Sys) (m : Msg) (ms : List Msg)
    (hm : ∀ a x f, m ≠ .wasm a hubA (.hub x) f)
    (hx : s.handle m = .ok (s', ms)) : NoMint ms := by
  cases handle_touch s s' m ms hx with
  | none _ _ _ hb =>
    intro x hx'
    obtain ⟨t, d, a, he⟩ := hb x hx'
    subst he; rfl
  | hub s1 sender funds hm' heq _ _ _ hx' _ _ _ _ _ => exact absurd heq (hm _ _ _)
  | bsei s1 sender funds tm _ _ hx' _ _ _ _ _ => exact bseiExec_noMint _ _ _ _ _ _ _ _ _ hx'
  | stsei blk sender funds tm _ hx' _ _ _ _ _ => exact stseiExec_noMint _ _ _ _ _ _ _ _ hx'
  | reward s1 sender funds rm _ _ _ _ hx' _ _ _ _ _ => exact rewardExec_noMint _ _ _ _ _ _ _ _ _ hx'
  | disp env sender funds dm _ _ _ hx' _ _ _ _ _ => exact dispExec_noMint _ _ _ _ _ _ _ hx'
  | reg s1 sender funds rm _ _ _ _ hx' _ _ _ _ _ => exact regExec_noMint _ _ _ _ _ hx'

end Krp
