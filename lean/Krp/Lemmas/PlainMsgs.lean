/-
  PlainMsgs.lean — the tokens, the reward contract and the dispatcher emit only `Plain` messages
  (no Delegate, Redelegate, RedelegateProxy or AddValidator).  Generated from Emit.lean's proofs by
  replacing the predicate.
-/
import Krp.System
import Krp.Lemmas.Tactics
import Krp.Lemmas.HubSpec
import Krp.Lemmas.Wait
import Krp.Lemmas.Steer
namespace Krp

namespace HubSt

theorem zipMsgs_plain (mk : Addr → Nat → Msg) (hmk : ∀ v p, Plain (mk v p) = true) :
    ∀ (vs : List (Addr × Nat)) (ps : List Nat), AllPlain (zipMsgs mk vs ps) := by
  intro vs
  induction vs with
  | nil => intro ps; simp only [zipMsgs]; exact AllPlain.nil
  | cons v vs ih =>
    intro ps
    cases ps with
    | nil => simp only [zipMsgs]; exact AllPlain.nil
    | cons p ps =>
      obtain ⟨v1, v2⟩ := v
      simp only [zipMsgs]
      apply AllPlain.append
      · split
        · exact AllPlain.nil
        · exact AllPlain.cons (hmk v1 p) (AllPlain.nil)
      · exact ih ps

theorem pickValidator_plain (e : HubEnv) (claim : Nat) (ms : List Msg)
    (hx : pickValidator e claim = .ok ms) : AllPlain ms := by
  unfold pickValidator at hx
  simp only [] at hx
  split at hx
  · cases hx
  · injection hx with hx; subst hx
    exact zipMsgs_plain (fun v p => Msg.undelegate e.self v p) (fun _ _ => rfl) _ _

theorem processUndelegations_plain (h h' : HubSt) (e : HubEnv) (ms : List Msg)
    (hx : h.processUndelegations e = .ok (h', ms)) : AllPlain ms :=
  pickValidator_plain e _ ms (processUndelegations_spec h h' e ms hx).1

end HubSt

theorem receiveMsg_plainMsg (self cw c hubc : Addr) (amt : Nat) (hook : Hook) :
    Plain (receiveMsg self cw c hubc amt hook) = true := by
  unfold receiveMsg; split <;> rfl

/-- close a goal `AllPlain [m₁, …]` whose elements are literal messages or `receiveMsg` -/
macro "plain_list" : tactic =>
  `(tactic| repeat' (first
      | exact AllPlain.nil
      | refine AllPlain.append ?_ ?_
      | refine AllPlain.cons (by first | rfl | exact receiveMsg_plainMsg ..) ?_))

theorem bseiExec_plain (t t' : Token) (b : Block) (self : Addr) (rw : Res Addr) (hubc sender : Addr)
    (m : TokMsg) (ms : List Msg) (hx : bseiExec t b self rw hubc sender m = .ok (t', ms)) :
    AllPlain ms := by
  cases m <;> simp only [bseiExec] at hx <;> exc_norm at hx <;> (try cases hx) <;> exc_split at hx <;> (try plain_list)

theorem stseiExec_plain (t t' : Token) (b : Block) (self hubc sender : Addr)
    (m : TokMsg) (ms : List Msg) (hx : stseiExec t b self hubc sender m = .ok (t', ms)) :
    AllPlain ms := by
  cases m <;> simp only [stseiExec] at hx <;> exc_norm at hx <;> (try cases hx) <;> exc_split at hx <;> (try plain_list)

theorem rewardExec_plain (r r' : RewardSt) (self : Addr) (tok dsp : Res Addr) (bal : Denom → Nat)
    (sender : Addr) (m : RewMsg) (ms : List Msg)
    (hx : rewardExec r self tok dsp bal sender m = .ok (r', ms)) : AllPlain ms := by
  cases m with
  | swapToRewardDenom =>
    simp only [rewardExec] at hx; exc_norm at hx; exc_split at hx
    intro x hx'
    simp only [List.mem_filterMap] at hx'
    obtain ⟨dn, _, h2⟩ := hx'
    split at h2
    · injection h2 with h2; subst h2; rfl
    · cases h2
  | _ => simp only [rewardExec] at hx <;> exc_norm at hx <;> (try cases hx) <;> exc_split at hx <;> (try plain_list)

theorem coinMsgs_plain (c : DispSt) (self : Addr) (x : Nat) :
    (∀ ms, coinMsgsB c self x = .ok ms → AllPlain ms) ∧
    (∀ ms, coinMsgsSt c self x = .ok ms → AllPlain ms) := by
  constructor
  · intro ms hx; unfold coinMsgsB at hx; exc_split at hx <;> (try plain_list)
  · intro ms hx; unfold coinMsgsSt at hx; exc_split at hx <;> (try plain_list)

theorem dispatchMsgs_plain (c : DispSt) (self : Addr) (a b : Nat) (ms : List Msg)
    (hx : dispatchMsgs c self a b = .ok ms) : AllPlain ms := by
  unfold dispatchMsgs at hx
  split at hx
  · cases hx
  · rename_i m1 h1
    split at hx
    · cases hx
    · rename_i m2 h2
      injection hx with hx; subst hx
      exact AllPlain.append (AllPlain.append ((coinMsgs_plain c self b).1 m1 h1) ((coinMsgs_plain c self a).2 m2 h2))
        (AllPlain.cons rfl (AllPlain.nil))

theorem foldl_plain (f : Res (Nat × Nat × List Msg) → Denom → Res (Nat × Nat × List Msg))
    (hstep : ∀ acc dn v, f acc dn = .ok v → ∃ v0, acc = .ok v0 ∧ (AllPlain v0.2.2 → AllPlain v.2.2)) :
    ∀ (l : List Denom) (acc : Res (Nat × Nat × List Msg)) (v : Nat × Nat × List Msg),
      l.foldl f acc = .ok v → ∃ v0, acc = .ok v0 ∧ (AllPlain v0.2.2 → AllPlain v.2.2) := by
  intro l
  induction l with
  | nil => intro acc v hx; exact ⟨v, hx, id⟩
  | cons d ds ih =>
    intro acc v hx
    simp only [List.foldl_cons] at hx
    obtain ⟨v1, h1, k1⟩ := ih (f acc d) v hx
    obtain ⟨v0, h0, k0⟩ := hstep acc d v1 h1
    exact ⟨v0, h0, fun h => k1 (k0 h)⟩

theorem dispExec_plain (c c' : DispSt) (self : Addr) (env : DispEnv) (sender : Addr) (m : DispMsg)
    (ms : List Msg) (hx : dispExec c self env sender m = .ok (c', ms)) : AllPlain ms := by
  cases m with
  | swap a b =>
    simp only [dispExec] at hx
    exc_norm at hx
    split at hx
    · cases hx
    · split at hx
      · cases hx
      · rename_i v hv
        have hs : AllPlain v.2.2 := by
          obtain ⟨v0, h0, k⟩ := foldl_plain _ (by
            intro acc dn v' hf
            cases acc with
            | error e => simp only [] at hf; cases hf
            | ok v0 =>
              refine ⟨v0, rfl, fun h0 => ?_⟩
              simp only [] at hf
              repeat' (split at hf <;> try (first | cases hf | contradiction))
              all_goals (first | exact h0 | exact AllPlain.append h0 (AllPlain.cons rfl (AllPlain.nil)))) _ _ v hv
          injection h0 with h0; subst h0
          exact k (AllPlain.nil)
        repeat' (split at hx <;> try (first | cases hx | contradiction))
        all_goals (first | exact hs | exact AllPlain.append hs (AllPlain.cons rfl (AllPlain.nil)))
  | dispatch =>
    simp only [dispExec] at hx; exc_norm at hx
    split at hx
    · cases hx
    · split at hx
      · cases hx
      · rename_i ms' hd
        injection hx with hx; injection hx with _ h2; subst h2
        exact dispatchMsgs_plain _ _ _ _ _ hd
  | _ => simp only [dispExec] at hx <;> exc_norm at hx <;> (try cases hx) <;> exc_split at hx <;> (try plain_list)

/-! ### the hub and the registry: the two contracts that do emit steering messages -/

theorem delegs_ok (v : Addr) (h : HubSt) (e : HubEnv) (p : Nat) (ms : List Msg)
    (hreg : ∀ reg vs, h.registry = some reg → e.validatorsOf reg = .ok vs → v ∉ vs.map (·.1))
    (hx : h.delegMsgs e p = .ok ms) : AllOk v ms ∧ leavingAll v ms = 0 := by
  obtain ⟨_, reg, vs, hr, hvs, hall⟩ := C02_bond_delegated_in_full h e p ms hx
  have hv := hreg reg vs hr hvs
  have key : ∀ (l : List Msg), (∀ m ∈ l, ∃ v' a, m = Msg.delegate e.self v' a ∧ v' ∈ vs.map (·.1) ∧ 0 < a) →
      AllOk v l ∧ leavingAll v l = 0 := by
    intro l
    induction l with
    | nil => intro _; exact ⟨AllOk.nil v, rfl⟩
    | cons m ms ih =>
      intro hl
      obtain ⟨v', a, hm, hin, _⟩ := hl m (List.mem_cons_self ..)
      have r := ih (fun x hx => hl x (List.mem_cons_of_mem _ hx))
      subst hm
      refine ⟨AllOk.cons (by intro hb; exact hv (by have : v' = v := hb; rw [← this]; exact hin)) r.1, ?_⟩
      rw [leavingAll_cons, r.2]; rfl
  exact key ms hall

open HubSt in
/-- what the hub emits, as far as validator `v` is concerned: nothing that could put stake on `v`
    (given the registry does not list `v` and a forwarded plan does not name it), and the stake it
    schedules to leave `v` is exactly what the forwarded plan says -/
theorem hubExec_steer (v : Addr) (h h' : HubSt) (e : HubEnv) (sender : Addr) (funds : List (Denom × Nat))
    (m : HubMsg) (ms : List Msg) (hx : hubExec h e sender funds m = .ok (h', ms))
    (hreg : ∀ reg vs, h.registry = some reg → e.validatorsOf reg = .ok vs → v ∉ vs.map (·.1))
    (hm : ∀ src plan, m = .redelegateProxy src plan → ∀ p ∈ plan, p.1 ≠ v) :
    AllOk v ms ∧ leavingAll v ms = (match m with
      | .redelegateProxy src plan => if src = v then (plan.map (·.2)).sum else 0
      | _ => 0) := by
  have plain : ∀ {l : List Msg}, AllPlain l → AllOk v l ∧ leavingAll v l = 0 := fun hp => hp.ok
  cases m with
  | migrateWaitList limit =>
    simp only [hubExec] at hx; exc_norm at hx; exc_split at hx; exact plain AllPlain.nil
  | updateParams a b c d p r =>
    simp only [hubExec] at hx; exc_norm at hx; exc_split at hx; exact plain AllPlain.nil
  | receive user amt hook =>
    simp only [hubExec] at hx
    split at hx
    · cases hx
    · exc_norm at hx
      split at hx
      · cases hx
      · split at hx
        · cases hx
        · cases hook with
          | other => simp only [] at hx; cases hx
          | convert =>
            simp only [] at hx
            split at hx
            · obtain ⟨_, _, _, _, _, _, _, _, _, _, _, _, _, _, _, _, hms⟩ := convertBS_spec _ _ _ _ _ _ hx
              subst hms; exact plain (AllPlain.cons rfl (AllPlain.cons rfl AllPlain.nil))
            · split at hx
              · obtain ⟨_, _, _, _, _, _, _, _, _, _, _, _, _, _, _, _, hms⟩ := convertSB_spec _ _ _ _ _ _ hx
                subst hms; exact plain (AllPlain.cons rfl (AllPlain.cons rfl AllPlain.nil))
              · cases hx
          | unbond =>
            simp only [] at hx
            split at hx
            · obtain ⟨st, supply, wf, tok, _, _, _, _, _, _, hcase⟩ := unbondB_spec _ _ _ _ _ _ hx
              rcases hcase with ⟨_, um, hp, hms⟩ | ⟨_, _, hms⟩
              · subst hms
                exact plain (AllPlain.append (processUndelegations_plain _ _ _ _ hp) (AllPlain.cons rfl AllPlain.nil))
              · subst hms; exact plain (AllPlain.cons rfl AllPlain.nil)
            · split at hx
              · obtain ⟨st, tok, _, _, _, hcase⟩ := unbondS_spec _ _ _ _ _ _ hx
                rcases hcase with ⟨_, um, hp, hms⟩ | ⟨_, _, hms⟩
                · subst hms
                  exact plain (AllPlain.append (processUndelegations_plain _ _ _ _ hp) (AllPlain.cons rfl AllPlain.nil))
                · subst hms; exact plain (AllPlain.cons rfl AllPlain.nil)
              · cases hx
  | bond =>
    simp only [hubExec] at hx; split at hx
    · cases hx
    · obtain ⟨p, st, mint, dl, tok, _, _, _, _, hd, _, _, hms⟩ := bondB_spec _ _ _ _ _ _ hx
      subst hms
      have d := delegs_ok v h e p dl hreg hd
      have t := plain (AllPlain.cons (m := tokMsg e.self tok (.mint sender mint)) rfl AllPlain.nil)
      exact ⟨AllOk.append d.1 t.1, by rw [leavingAll_append, d.2, t.2]⟩
  | bondForStSei =>
    simp only [hubExec] at hx; split at hx
    · cases hx
    · obtain ⟨p, st, dl, tok, _, _, _, hd, _, _, hms⟩ := bondS_spec _ _ _ _ _ _ hx
      subst hms
      have d := delegs_ok v h e p dl hreg hd
      have t := plain (AllPlain.cons (m := tokMsg e.self tok (.mint sender (decDiv p st.sRate))) rfl AllPlain.nil)
      exact ⟨AllOk.append d.1 t.1, by rw [leavingAll_append, d.2, t.2]⟩
  | bondRewards =>
    simp only [hubExec] at hx; split at hx
    · cases hx
    · obtain ⟨p, st, _, _, _, hd, _⟩ := bondR_spec _ _ _ _ _ _ hx
      exact delegs_ok v h e p ms hreg hd
  | updateGlobalIndex =>
    simp only [hubExec] at hx; split at hx
    · cases hx
    · unfold updateGlobal at hx
      exc_norm at hx
      exc_split at hx
      all_goals
        apply plain
        intro x hx'
        simp only [List.mem_append, List.mem_map, List.mem_cons, List.mem_nil_iff, or_false] at hx'
        rcases hx' with ⟨d, _, rfl⟩ | rfl | rfl <;> rfl
  | withdrawUnbonded =>
    simp only [hubExec] at hx; split at hx
    · cases hx
    · obtain ⟨_, h1, _, _, _, _, hms⟩ := withdraw_spec _ _ _ _ _ hx
      subst hms; exact plain (AllPlain.cons rfl AllPlain.nil)
  | checkSlashing =>
    simp only [hubExec] at hx; exc_norm at hx; exc_split at hx; exact plain AllPlain.nil
  | updateConfig a b c d f g u =>
    simp only [hubExec] at hx; split at hx
    · cases hx
    · unfold updateConfig at hx
      exc_norm at hx
      exc_split at hx
      cases a with
      | none => exact plain AllPlain.nil
      | some dd => exact plain (AllPlain.cons rfl AllPlain.nil)
  | setOwner a => simp only [hubExec] at hx; exc_norm at hx; exc_split at hx; exact plain AllPlain.nil
  | acceptOwnership => simp only [hubExec] at hx; exc_norm at hx; exc_split at hx; exact plain AllPlain.nil
  | swapHook =>
    simp only [hubExec] at hx; exc_norm at hx; exc_split at hx
    exact plain (AllPlain.cons rfl AllPlain.nil)
  | claimAirdrop =>
    simp only [hubExec] at hx; exc_norm at hx; exc_split at hx
    exact plain (AllPlain.cons rfl (AllPlain.cons rfl AllPlain.nil))
  | redelegateProxy src plan =>
    simp only [hubExec] at hx; exc_norm at hx; exc_split at hx
    have hp := hm src plan rfl
    simp only []
    clear hm
    induction plan with
    | nil => exact ⟨AllOk.nil v, by simp [leavingAll]⟩
    | cons p ps ih =>
      have r := ih (fun q hq => hp q (List.mem_cons_of_mem _ hq))
      simp only [List.map_cons]
      refine ⟨AllOk.cons (fun hb => hp p (List.mem_cons_self ..) hb) r.1, ?_⟩
      rw [leavingAll_cons, r.2]
      simp only [leaving, List.sum_cons]
      split <;> simp

theorem mem_insAsc (x y : Nat) (l : List Nat) : y ∈ insAsc x l → y = x ∨ y ∈ l := by
  induction l with
  | nil => simp [insAsc]
  | cons z zs ih =>
    simp only [insAsc]
    split
    · simp
    · split
      · intro h; exact Or.inr h
      · intro h
        rcases List.mem_cons.mp h with h | h
        · exact Or.inr (by rw [h]; exact List.mem_cons_self ..)
        · rcases ih h with h | h
          · exact Or.inl h
          · exact Or.inr (List.mem_cons_of_mem _ h)

theorem mem_insAscAmt' (a y : Addr × Nat) (l : List (Addr × Nat)) : y ∈ Sys.insAscAmt a l → y = a ∨ y ∈ l := by
  induction l with
  | nil => intro hy; simpa [Sys.insAscAmt] using hy
  | cons b bs ihb =>
    intro hy
    simp only [Sys.insAscAmt] at hy
    split at hy
    · rcases List.mem_cons.mp hy with h | h
      · exact Or.inl h
      · exact Or.inr h
    · rcases List.mem_cons.mp hy with h | h
      · exact Or.inr (by rw [h]; exact List.mem_cons_self ..)
      · rcases ihb h with h | h
        · exact Or.inl h
        · exact Or.inr (List.mem_cons_of_mem _ h)

theorem mem_sortAscAmt' (l : List (Addr × Nat)) (y : Addr × Nat) : y ∈ Sys.sortAscAmt l → y ∈ l := by
  induction l with
  | nil => intro hy; simpa [Sys.sortAscAmt] using hy
  | cons z zs ih =>
    intro hy
    simp only [Sys.sortAscAmt, List.foldr_cons] at hy ih
    rcases mem_insAscAmt' z y _ hy with h | h
    · rw [h]; exact List.mem_cons_self ..
    · exact List.mem_cons_of_mem _ (ih h)

/-- a redelegation plan computed over the registry's validators names only registered validators -/
theorem plan_avoids (v : Addr) (s : Sys) (p : List Nat) (hv : v ∉ s.reg.vals) :
    ∀ t ∈ ((Sys.sortAscAmt s.regValidatorsRaw).zip p).filterMap (fun x => if x.2 = 0 then none else some (x.1.1, x.2)),
      t.1 ≠ v := by
  intro t ht htv
  simp only [List.mem_filterMap] at ht
  obtain ⟨x, hxz, he⟩ := ht
  split at he
  · cases he
  · injection he with he; subst he
    have hin := mem_sortAscAmt' _ _ (List.of_mem_zip hxz).1
    simp only [Sys.regValidatorsRaw, List.mem_map] at hin
    obtain ⟨w', hw', hwe⟩ := hin
    apply hv
    have : x.1.1 = w' := by rw [← hwe]
    rw [← htv]; simp only []; rw [this]; exact hw'

/-- what the registry emits, as far as `v` is concerned: while `v` is not registered (and nobody
    adds it back) its redelegation plans never name `v`, and `v` stays unregistered -/
theorem regExec_steer (v : Addr) (s : Sys) (sender : Addr) (m : RegMsg) (r' : RegSt) (ms : List Msg)
    (hx : s.regExec sender m = .ok (r', ms)) (hv : v ∉ s.reg.vals) (hm : ∀ v', m = .add v' → v' ≠ v) :
    AllOk v ms ∧ v ∉ r'.vals := by
  cases m with
  | add v' =>
    simp only [Sys.regExec] at hx; exc_norm at hx; exc_split at hx
    refine ⟨AllOk.nil v, fun hin => ?_⟩
    rcases mem_insAsc v' v _ hin with h | h
    · exact hm v' rfl h.symm
    · exact hv h
  | remove w =>
    have hvf : v ∉ s.reg.vals.filter (fun x => decide (x ≠ w)) := fun h => hv (List.mem_filter.mp h).1
    simp only [Sys.regExec] at hx; exc_norm at hx; exc_split at hx
    rename_i hq
    exc_split at hq
    all_goals first
      | exact ⟨AllOk.nil v, hvf⟩
      | (refine ⟨AllOk.cons ?_ (AllOk.cons (by simp [Bad]) (AllOk.nil v)), hvf⟩
         simp only [Bad]
         rintro ⟨t, ht, htv⟩
         exact plan_avoids v ({ s with reg := { s.reg with vals := s.reg.vals.filter (fun x => decide (x ≠ w)) } } : Sys) _ hvf t ht htv)
  | redelegations w =>
    simp only [Sys.regExec] at hx; exc_norm at hx; exc_split at hx
    rename_i hq
    exc_split at hq
    all_goals first
      | exact ⟨AllOk.nil v, hv⟩
      | (refine ⟨AllOk.cons ?_ (AllOk.cons (by simp [Bad]) (AllOk.nil v)), hv⟩
         simp only [Bad]
         rintro ⟨t, ht, htv⟩
         exact plan_avoids v ({ s with reg := { s.reg with vals := s.reg.vals } } : Sys) _ hv t ht htv)
  | updateConfig hub =>
    simp only [Sys.regExec] at hx; exc_norm at hx; exc_split at hx; exact ⟨AllOk.nil v, hv⟩
  | setOwner a =>
    simp only [Sys.regExec] at hx; exc_norm at hx; exc_split at hx; exact ⟨AllOk.nil v, hv⟩
  | acceptOwnership =>
    simp only [Sys.regExec] at hx; exc_norm at hx; exc_split at hx; exact ⟨AllOk.nil v, hv⟩

end Krp
