import Krp.Lemmas.Pricing
namespace Krp
namespace HubSt

/-- everything `query_actual_state` leaves alone -/
structure SameBooks (h st : HubSt) : Prop where
  reqB : st.reqB = h.reqB
  reqS : st.reqS = h.reqS
  fee : st.fee = h.fee
  thr : st.thr = h.thr
  bsei : st.bsei = h.bsei
  stsei : st.stsei = h.stsei
  batchId : st.batchId = h.batchId
  epoch : st.epoch = h.epoch
  lastUnb : st.lastUnbondedTime = h.lastUnbondedTime
  prev : st.prevHubBalance = h.prevHubBalance
  hist : st.hist = h.hist
  waitB : st.waitB = h.waitB
  waitS : st.waitS = h.waitS
  waitSet : st.waitSet = h.waitSet
  paused : st.paused = h.paused
  lastProc : st.lastProcessedBatch = h.lastProcessedBatch

theorem SameBooks.refl (h : HubSt) : SameBooks h h :=
  ⟨rfl, rfl, rfl, rfl, rfl, rfl, rfl, rfl, rfl, rfl, rfl, rfl, rfl, rfl, rfl, rfl⟩

/-- `query_actual_state`: either the stored state is returned untouched (no delegations, or nothing
    booked), or the pools are re-synchronised and both rates recomputed from the current supplies -/
theorem actualState_spec (h st : HubSt) (e : HubEnv) (hx : h.actualState e = .ok st) :
    SameBooks h st ∧
    ((e.delegations = [] ∨ h.bBond + h.sBond = 0) ∧ st = h ∨
     ∃ bs ss, e.delegations ≠ [] ∧ h.bBond + h.sBond ≠ 0 ∧ h.bSupplyQ e = .ok bs ∧ h.sSupplyQ e = .ok ss ∧
       st.bRate = rateOf st.bBond bs h.reqB ∧ st.sRate = rateOf st.sBond ss h.reqS ∧
       ((h.bBond + h.sBond ≤ (e.delegations.map (·.2)).sum ∧ st.bBond = h.bBond ∧ st.sBond = h.sBond) ∨
        ((e.delegations.map (·.2)).sum < h.bBond + h.sBond ∧
          st.bBond = mulDec (e.delegations.map (·.2)).sum (fromRatio h.bBond (h.bBond + h.sBond)) ∧
          st.bBond + st.sBond = (e.delegations.map (·.2)).sum))) := by
  unfold actualState at hx
  split at hx
  · injection hx with hx; subst hx; rename_i hd
    exact ⟨SameBooks.refl _, Or.inl ⟨Or.inl hd, rfl⟩⟩
  · split at hx
    · injection hx with hx; subst hx; rename_i hd hz
      exact ⟨SameBooks.refl _, Or.inl ⟨Or.inr hz, rfl⟩⟩
    · rename_i hd hz
      exc_norm at hx
      split at hx
      · cases hx
      · split at hx
        · cases hx
        · rename_i bs hbs _ ss hss
          split at hx
          · rename_i hgt
            split at hx
            · cases hx
            · rename_i hle
              injection hx with hx; subst hx
              refine ⟨⟨rfl, rfl, rfl, rfl, rfl, rfl, rfl, rfl, rfl, rfl, rfl, rfl, rfl, rfl, rfl, rfl⟩,
                Or.inr ⟨bs, ss, hd, hz, hbs, hss, rfl, rfl, Or.inr ⟨hgt, rfl, ?_⟩⟩⟩
              show mulDec _ _ + ((e.delegations.map (·.2)).sum - mulDec _ _) = _
              omega
          · rename_i hle
            injection hx with hx; subst hx
            exact ⟨⟨rfl, rfl, rfl, rfl, rfl, rfl, rfl, rfl, rfl, rfl, rfl, rfl, rfl, rfl, rfl, rfl⟩,
              Or.inr ⟨bs, ss, hd, hz, hbs, hss, rfl, rfl, Or.inl ⟨by omega, rfl, rfl⟩⟩⟩

/-- fee on a mint of `m` bSei for `v` coins -/
theorem pegFeeOnMint_spec (st : HubSt) (S m v out : Nat) (hx : st.pegFeeOnMint S m v = .ok out) :
    out ≤ m ∧ m - out ≤ mulDec m st.fee ∧ (st.thr ≤ st.bRate → out = m) ∧
    (st.bRate < st.thr → st.bBond + v ≤ S + out + st.reqB) := by
  unfold pegFeeOnMint at hx
  split at hx
  · rename_i hlt
    exc_split at hx
    refine ⟨by omega, by omega, fun hge => by omega, fun _ => by omega⟩
  · rename_i hge
    injection hx with hx; subst hx
    exact ⟨Nat.le_refl _, by omega, fun _ => rfl, fun hlt => absurd hlt hge⟩

/-- fee on a burn of `amount` bSei (unbond, convert bSei→stSei) -/
theorem pegFeeOnBurn_spec (st : HubSt) (S amount out : Nat) (hx : st.pegFeeOnBurn S amount = .ok out) :
    out ≤ amount ∧ amount - out ≤ mulDec amount st.fee ∧ (st.thr ≤ st.bRate → out = amount) ∧
    (st.bRate < st.thr → st.bBond + (amount - out) ≤ S + st.reqB) := by
  unfold pegFeeOnBurn at hx
  split at hx
  · exc_split at hx
    refine ⟨by omega, by omega, fun hge => by omega, fun _ => by omega⟩
  · rename_i hge
    injection hx with hx; subst hx
    exact ⟨Nat.le_refl _, by omega, fun _ => rfl, fun hlt => absurd hlt hge⟩

theorem paymentOf_pos (funds : List (Denom × Nat)) (p : Nat) (hx : paymentOf funds = .ok p) : 0 < p := by
  unfold paymentOf at hx
  exc_split at hx
  rename_i c hf
  have := List.find?_some hf
  simp at this
  omega

/-- characterisation of a successful bSei bond -/
theorem bondB_spec (h h' : HubSt) (e : HubEnv) (sender : Addr) (funds : List (Denom × Nat))
    (ms : List Msg) (hx : h.bondB e sender funds = .ok (h', ms)) :
    ∃ p st mint delegs tok, paymentOf funds = .ok p ∧ h.actualState e = .ok st ∧ st.bRate ≠ 0 ∧
      st.pegFeeOnMint ((st.bSupplyQ e).toOption.getD 0) (decDiv p st.bRate) p = .ok mint ∧
      h.delegMsgs e p = .ok delegs ∧ h.bsei = some tok ∧
      h' = { st with bBond := st.bBond + p,
                     bRate := rateOf (st.bBond + p) ((st.bSupplyQ e).toOption.getD 0 + mint) h.reqB } ∧
      ms = delegs ++ [tokMsg e.self tok (.mint sender mint)] := by
  unfold bondB at hx
  exc_split at hx
  exact ⟨_, _, _, _, _, by assumption, by assumption, by assumption, by assumption, by assumption,
    by assumption, rfl, rfl⟩

theorem bondS_spec (h h' : HubSt) (e : HubEnv) (sender : Addr) (funds : List (Denom × Nat))
    (ms : List Msg) (hx : h.bondS e sender funds = .ok (h', ms)) :
    ∃ p st delegs tok, paymentOf funds = .ok p ∧ h.actualState e = .ok st ∧ st.sRate ≠ 0 ∧
      h.delegMsgs e p = .ok delegs ∧ h.stsei = some tok ∧
      h' = { st with sBond := st.sBond + p } ∧
      ms = delegs ++ [tokMsg e.self tok (.mint sender (decDiv p st.sRate))] := by
  unfold bondS at hx
  exc_split at hx
  exact ⟨_, _, _, _, by assumption, by assumption, by assumption, by assumption, by assumption, rfl, rfl⟩

theorem bondR_spec (h h' : HubSt) (e : HubEnv) (sender : Addr) (funds : List (Denom × Nat))
    (ms : List Msg) (hx : h.bondR e sender funds = .ok (h', ms)) :
    ∃ p st, h.dispatcher = some sender ∧ paymentOf funds = .ok p ∧ h.actualState e = .ok st ∧
      h.delegMsgs e p = .ok ms ∧
      h' = { st with sBond := st.sBond + p,
                     sRate := rateOf (st.sBond + p) ((st.sSupplyQ e).toOption.getD 0) h.reqS } := by
  unfold bondR at hx
  split at hx
  · cases hx
  · rename_i d hd
    split at hx
    · cases hx
    · rename_i hs
      have hsd : sender = d := Classical.not_not.mp hs
      subst hsd
      exc_split at hx
      exact ⟨_, _, hd, by assumption, by assumption, by assumption, rfl⟩

end HubSt
end Krp

namespace Krp
namespace HubSt

/-- characterisation of `process_undelegations` -/
theorem processUndelegations_spec (h h' : HubSt) (e : HubEnv) (ms : List Msg)
    (hx : h.processUndelegations e = .ok (h', ms)) :
    pickValidator e (mulDec h.reqB h.bRate + mulDec h.reqS h.sRate) = .ok ms ∧
    mulDec h.reqS h.sRate ≤ h.sBond ∧ mulDec h.reqB h.bRate ≤ h.bBond ∧
    h'.sBond = h.sBond - mulDec h.reqS h.sRate ∧ h'.bBond = h.bBond - mulDec h.reqB h.bRate ∧
    h'.bRate = h.bRate ∧ h'.sRate = h.sRate ∧ h'.reqB = 0 ∧ h'.reqS = 0 ∧
    h'.batchId = h.batchId + 1 ∧ h'.lastUnbondedTime = e.now ∧
    h'.hist = upd h.hist h.batchId (some
      { time := e.now, bAmt := h.reqB, bApplied := h.bRate, bWithdraw := h.bRate,
        sAmt := h.reqS, sApplied := h.sRate, sWithdraw := h.sRate, released := false }) ∧
    h'.waitB = h.waitB ∧ h'.waitS = h.waitS ∧ h'.waitSet = h.waitSet ∧
    h'.prevHubBalance = h.prevHubBalance ∧ h'.lastProcessedBatch = h.lastProcessedBatch := by
  unfold processUndelegations at hx
  exc_split at hx
  refine ⟨by assumption, by omega, by omega, rfl, rfl, rfl, rfl, rfl, rfl, rfl, rfl, rfl, rfl, rfl, rfl, rfl, rfl⟩

/-- characterisation of a successful bSei unbond -/
theorem unbondB_spec (h h' : HubSt) (e : HubEnv) (amount : Nat) (user : Addr) (ms : List Msg)
    (hx : h.unbondB e amount user = .ok (h', ms)) :
    ∃ st supply withFee tok, h.actualState e = .ok st ∧ st.bSupplyQ e = .ok supply ∧
      st.pegFeeOnBurn supply amount = .ok withFee ∧ amount ≤ supply ∧ st.lastUnbondedTime ≤ e.now ∧
      h.bsei = some tok ∧
      ((e.now - st.lastUnbondedTime > st.epoch ∧ ∃ um,
          (st.afterUnbondB user supply amount withFee).processUndelegations e = .ok (h', um) ∧
          ms = um ++ [tokMsg e.self tok (.burn amount)]) ∨
       (¬ e.now - st.lastUnbondedTime > st.epoch ∧ h' = st.afterUnbondB user supply amount withFee ∧
          ms = [tokMsg e.self tok (.burn amount)])) := by
  unfold unbondB at hx
  split at hx
  · cases hx
  · rename_i st hst
    split at hx
    · cases hx
    · rename_i supply hsup
      split at hx
      · cases hx
      · rename_i withFee hfee
        split at hx
        · cases hx
        · rename_i hle
          split at hx
          · cases hx
          · rename_i htime
            split at hx
            · cases hx
            · rename_i tok htok
              refine ⟨st, supply, withFee, tok, hst, hsup, hfee, by omega, by omega, htok, ?_⟩
              split at hx
              · rename_i hep
                split at hx
                · cases hx
                · rename_i r hr
                  injection hx with hx; injection hx with h1 h2
                  subst h1; subst h2
                  exact Or.inl ⟨hep, r.2, by cases r; exact hr, rfl⟩
              · rename_i hep
                injection hx with hx; injection hx with h1 h2
                subst h1; subst h2
                exact Or.inr ⟨hep, rfl, rfl⟩

theorem unbondS_spec (h h' : HubSt) (e : HubEnv) (amount : Nat) (user : Addr) (ms : List Msg)
    (hx : h.unbondS e amount user = .ok (h', ms)) :
    ∃ st tok, h.actualState e = .ok st ∧ st.lastUnbondedTime ≤ e.now ∧ h.stsei = some tok ∧
      ((e.now - st.lastUnbondedTime > st.epoch ∧ ∃ um,
          (st.afterUnbondS user amount).processUndelegations e = .ok (h', um) ∧
          ms = um ++ [tokMsg e.self tok (.burn amount)]) ∨
       (¬ e.now - st.lastUnbondedTime > st.epoch ∧ h' = st.afterUnbondS user amount ∧
          ms = [tokMsg e.self tok (.burn amount)])) := by
  unfold unbondS at hx
  split at hx
  · cases hx
  · rename_i st hst
    split at hx
    · cases hx
    · rename_i htime
      split at hx
      · cases hx
      · rename_i tok htok
        refine ⟨st, tok, hst, by omega, htok, ?_⟩
        split at hx
        · rename_i hep
          split at hx
          · cases hx
          · rename_i r hr
            injection hx with hx; injection hx with h1 h2
            subst h1; subst h2
            exact Or.inl ⟨hep, r.2, by cases r; exact hr, rfl⟩
        · rename_i hep
          injection hx with hx; injection hx with h1 h2
          subst h1; subst h2
          exact Or.inr ⟨hep, rfl, rfl⟩

theorem convertSB_spec (h h' : HubSt) (e : HubEnv) (amount : Nat) (user : Addr) (ms : List Msg)
    (hx : h.convertSB e amount user = .ok (h', ms)) :
    ∃ st sTok bTok bs ss mint, h.actualState e = .ok st ∧ h.stsei = some sTok ∧ h.bsei = some bTok ∧
      st.bRate ≠ 0 ∧ st.bSupplyQ e = .ok bs ∧ st.sSupplyQ e = .ok ss ∧
      st.pegFeeOnMint bs (decDiv (mulDec amount st.sRate) st.bRate) (mulDec amount st.sRate) = .ok mint ∧
      mulDec amount st.sRate ≤ st.sBond ∧ amount ≤ ss ∧
      h' = { st with bBond := st.bBond + mulDec amount st.sRate,
                     sBond := st.sBond - mulDec amount st.sRate,
                     bRate := rateOf (st.bBond + mulDec amount st.sRate) (bs + mint) st.reqB,
                     sRate := rateOf (st.sBond - mulDec amount st.sRate) (ss - amount) st.reqS } ∧
      ms = [tokMsg e.self bTok (.mint user mint), tokMsg e.self sTok (.burn amount)] := by
  unfold convertSB at hx
  exc_split at hx
  exact ⟨_, _, _, _, _, _, by assumption, by assumption, by assumption, by assumption, by assumption,
    by assumption, by assumption, by omega, by omega, rfl, rfl⟩

theorem convertBS_spec (h h' : HubSt) (e : HubEnv) (amount : Nat) (user : Addr) (ms : List Msg)
    (hx : h.convertBS e amount user = .ok (h', ms)) :
    ∃ st sTok bTok bs ss withFee, h.actualState e = .ok st ∧ h.stsei = some sTok ∧ h.bsei = some bTok ∧
      st.bSupplyQ e = .ok bs ∧ st.sSupplyQ e = .ok ss ∧ st.pegFeeOnBurn bs amount = .ok withFee ∧
      st.sRate ≠ 0 ∧ mulDec withFee st.bRate ≤ st.bBond ∧ amount ≤ bs ∧
      h' = { st with bBond := st.bBond - mulDec withFee st.bRate,
                     sBond := st.sBond + mulDec withFee st.bRate,
                     bRate := rateOf (st.bBond - mulDec withFee st.bRate) (bs - amount) st.reqB,
                     sRate := rateOf (st.sBond + mulDec withFee st.bRate)
                       (ss + decDiv (mulDec withFee st.bRate) st.sRate) st.reqS } ∧
      ms = [tokMsg e.self sTok (.mint user (decDiv (mulDec withFee st.bRate) st.sRate)),
            tokMsg e.self bTok (.burn amount)] := by
  unfold convertBS at hx
  exc_split at hx
  exact ⟨_, _, _, _, _, _, by assumption, by assumption, by assumption, by assumption, by assumption,
    by assumption, by assumption, by omega, by omega, rfl, rfl⟩

end HubSt
end Krp
