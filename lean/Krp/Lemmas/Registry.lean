import Krp.Registry
namespace Krp

theorem sum_replicate_zero (n : Nat) : (List.replicate n 0).sum = 0 := by
  induction n with
  | zero => rfl
  | succ n ih => simp [List.replicate_succ, ih]

theorem nth_replicate_zero (n j : Nat) : nth (List.replicate n 0) j = 0 := by
  induction n generalizing j with
  | zero => simp [nth]
  | succ n ih => cases j <;> simp [List.replicate_succ, nth, ih]

/-- room below the target at each position, summed over the list -/
def capSum (cpv rem : Nat) : Nat → List Nat → Nat
  | _, [] => 0
  | idx, d :: ds => (cpv + extraCoin idx rem - d) + capSum cpv rem (idx + 1) ds

def targetSum (cpv rem : Nat) : Nat → List Nat → Nat
  | _, [] => 0
  | idx, _ :: ds => (cpv + extraCoin idx rem) + targetSum cpv rem (idx + 1) ds

/-- excess above the target at each position, summed over the list -/
def takeSum (cpv rem : Nat) : Nat → List Nat → Nat
  | _, [] => 0
  | idx, d :: ds => (d - min (cpv + extraCoin idx rem) d) + takeSum cpv rem (idx + 1) ds

theorem targetSum_eq (cpv rem idx : Nat) (ds : List Nat) :
    targetSum cpv rem idx ds = ds.length * cpv + min (rem - idx) ds.length := by
  induction ds generalizing idx with
  | nil => simp [targetSum]
  | cons d ds ih =>
    simp only [targetSum, ih, List.length_cons, extraCoin]
    rw [Nat.succ_mul]
    split <;> omega

theorem targetSum_le_cap (cpv rem idx : Nat) (ds : List Nat) :
    targetSum cpv rem idx ds ≤ capSum cpv rem idx ds + ds.sum := by
  induction ds generalizing idx with
  | nil => simp [targetSum, capSum]
  | cons d ds ih =>
    have := ih (idx + 1)
    simp only [targetSum, capSum, List.sum_cons]
    omega

theorem sum_le_take (cpv rem idx : Nat) (ds : List Nat) :
    ds.sum ≤ takeSum cpv rem idx ds + targetSum cpv rem idx ds := by
  induction ds generalizing idx with
  | nil => simp [targetSum, takeSum]
  | cons d ds ih =>
    have := ih (idx + 1)
    simp only [targetSum, takeSum, List.sum_cons]
    omega

/-- full specification of the delegation pass -/
theorem delegPass_spec (cpv rem : Nat) (ds : List Nat) (idx amt : Nat) :
    (delegPass cpv rem idx amt ds).1 = amt - capSum cpv rem idx ds ∧
    (delegPass cpv rem idx amt ds).2.sum + (delegPass cpv rem idx amt ds).1 = amt ∧
    (delegPass cpv rem idx amt ds).2.length = ds.length := by
  induction ds generalizing idx amt with
  | nil => simp [delegPass, capSum]
  | cons d ds ih =>
    simp only [delegPass, capSum]
    split
    · have h := ih (idx + 1) amt
      simp only [List.sum_cons, List.length_cons]
      omega
    · split
      · simp only [List.sum_cons, List.length_cons, sum_replicate_zero, List.length_replicate, and_true]
        omega
      · have h := ih (idx + 1) (amt - min (cpv + extraCoin idx rem - d) amt)
        simp only [List.sum_cons, List.length_cons]
        omega

theorem delegPass_le_cap (cpv rem : Nat) (ds : List Nat) (idx amt j : Nat) :
    nth (delegPass cpv rem idx amt ds).2 j ≤ cpv + extraCoin (idx + j) rem - nth ds j := by
  induction ds generalizing idx amt j with
  | nil => simp [delegPass, nth]
  | cons d ds ih =>
    simp only [delegPass]
    split
    · cases j with
      | zero => simp [nth]
      | succ j =>
        have := ih (idx + 1) amt j
        simp only [nth]
        rw [show idx + (j + 1) = idx + 1 + j by omega]; exact this
    · split
      · cases j with
        | zero => simp [nth]; omega
        | succ j => simp [nth, nth_replicate_zero]
      · cases j with
        | zero => simp [nth]; omega
        | succ j =>
          have := ih (idx + 1) (amt - min (cpv + extraCoin idx rem - d) amt) j
          simp only [nth]
          rw [show idx + (j + 1) = idx + 1 + j by omega]; exact this

/-- full specification of one undelegation pass -/
theorem undelegPass_spec (cpv rem : Nat) (ds : List Nat) (idx amt : Nat) :
    (undelegPass cpv rem idx amt ds).1 = amt - takeSum cpv rem idx ds ∧
    (undelegPass cpv rem idx amt ds).2.sum + (undelegPass cpv rem idx amt ds).1 = amt ∧
    (undelegPass cpv rem idx amt ds).2.length = ds.length := by
  induction ds generalizing idx amt with
  | nil => simp [undelegPass, takeSum]
  | cons d ds ih =>
    simp only [undelegPass, takeSum]
    split
    · simp only [List.sum_cons, List.length_cons, sum_replicate_zero, List.length_replicate, and_true]
      omega
    · have h := ih (idx + 1) (amt - min (d - min (cpv + extraCoin idx rem) d) amt)
      simp only [List.sum_cons, List.length_cons]
      omega

theorem undelegPass_le (cpv rem : Nat) (ds : List Nat) (idx amt j : Nat) :
    nth (undelegPass cpv rem idx amt ds).2 j ≤
      nth ds j - min (cpv + extraCoin (idx + j) rem) (nth ds j) := by
  induction ds generalizing idx amt j with
  | nil => simp [undelegPass, nth]
  | cons d ds ih =>
    simp only [undelegPass]
    split
    · cases j with
      | zero => simp [nth]; omega
      | succ j => simp [nth, nth_replicate_zero]
    · cases j with
      | zero => simp [nth]; omega
      | succ j =>
        have := ih (idx + 1) (amt - min (d - min (cpv + extraCoin idx rem) d) amt) j
        simp only [nth]
        rw [show idx + (j + 1) = idx + 1 + j by omega]; exact this

theorem zipAdd_zero (n : Nat) (p : List Nat) (h : p.length = n) :
    zipAdd (List.replicate n 0) p = p := by
  induction n generalizing p with
  | zero => cases p <;> simp_all [zipAdd]
  | succ n ih =>
    cases p with
    | nil => simp at h
    | cons a p => simp [List.replicate_succ, zipAdd, ih p (by simpa using h)]

end Krp
