/-
  RateFlow.lean — the bookkeeping behind the composed C04 theorem: what is still in flight.

  While a transaction runs, the hub has already booked what its handler did, but the token Mint /
  Burn messages it emitted are still in the queue. `mintsTo t q` and `burnsBy t q` are the amounts
  those pending messages will add to / remove from the supply of token `t`; the *effective* claims
  on a pool are `supply + mintsTo − burnsBy + requests`. `TR r B S R q` says that `r` is a true
  ratio of the effective pool: `r·(S + mints + R) ≤ B·10^18 + r·burns` (written without subtraction).
-/
import Krp.Lemmas.Tame
import Krp.Lemmas.NoMint
import Krp.Lemmas.Still
import Krp.Lemmas.Pricing
namespace Krp
open HubSt

/-- amount the Mint messages waiting in the queue will add to the supply of token `t` -/
def mintsTo (t : Addr) : List Msg → Nat
  | [] => 0
  | m :: q =>
    (match m with
     | .wasm _ t' (.tok (.mint _ a)) _ => if t' = t then a else 0
     | _ => 0) + mintsTo t q

/-- amount the hub's own Burn messages waiting in the queue will remove from the supply of token `t` -/
def burnsBy (t : Addr) : List Msg → Nat
  | [] => 0
  | m :: q =>
    (match m with
     | .wasm snd t' (.tok (.burn a)) _ => if snd = hubA ∧ t' = t then a else 0
     | _ => 0) + burnsBy t q

theorem mintsTo_append (t : Addr) (x y : List Msg) : mintsTo t (x ++ y) = mintsTo t x + mintsTo t y := by
  induction x with
  | nil => simp [mintsTo]
  | cons m ms ih => simp only [List.cons_append, mintsTo, ih]; omega

theorem burnsBy_append (t : Addr) (x y : List Msg) : burnsBy t (x ++ y) = burnsBy t x + burnsBy t y := by
  induction x with
  | nil => simp [burnsBy]
  | cons m ms ih => simp only [List.cons_append, burnsBy, ih]; omega

theorem mintsTo_of_noMint (t : Addr) (q : List Msg) (h : NoMint q) : mintsTo t q = 0 := by
  induction q with
  | nil => rfl
  | cons m ms ih =>
    have h1 := h m (List.mem_cons_self ..)
    have h2 : NoMint ms := fun x hx => h x (List.mem_cons_of_mem _ hx)
    simp only [mintsTo, ih h2, Nat.add_zero]
    cases m with
    | wasm a b c d =>
      cases c with
      | tok tm => cases tm <;> first | rfl | (simp [isMint] at h1)
      | _ => rfl
    | _ => rfl

/-- messages not sent by the hub contain none of the hub's burns -/
theorem burnsBy_of_sentBy (t a : Addr) (q : List Msg) (h : SentBy a q) (ha : a ≠ hubA) : burnsBy t q = 0 := by
  induction q with
  | nil => rfl
  | cons m ms ih =>
    have h1 := h m (List.mem_cons_self ..)
    have h2 : SentBy a ms := fun x hx => h x (List.mem_cons_of_mem _ hx)
    simp only [burnsBy, ih h2, Nat.add_zero]
    cases m with
    | wasm snd b c d =>
      have : snd = a := h1
      cases c with
      | tok tm =>
        cases tm with
        | burn n => simp only []; rw [if_neg]; intro hh; exact ha (this ▸ hh.1)
        | _ => rfl
      | _ => rfl
    | _ => rfl

theorem flows_of_still (t : Addr) (q : List Msg) (h : AllStill q) : mintsTo t q = 0 ∧ burnsBy t q = 0 := by
  induction q with
  | nil => exact ⟨rfl, rfl⟩
  | cons m ms ih =>
    have h1 := h m (List.mem_cons_self ..)
    have h2 : AllStill ms := fun x hx => h x (List.mem_cons_of_mem _ hx)
    obtain ⟨i1, i2⟩ := ih h2
    simp only [mintsTo, burnsBy, i1, i2, Nat.add_zero]
    cases m with
    | wasm snd b c d =>
      cases c with
      | tok tm => cases tm <;> first | exact ⟨rfl, rfl⟩ | (simp [Still] at h1)
      | _ => exact ⟨rfl, rfl⟩
    | _ => exact ⟨rfl, rfl⟩

/-- staking and bank messages carry no token flows -/
theorem flows_of_plain (t : Addr) (q : List Msg)
    (h : ∀ m ∈ q, ∀ a b c d, m ≠ .wasm a b c d) : mintsTo t q = 0 ∧ burnsBy t q = 0 := by
  induction q with
  | nil => exact ⟨rfl, rfl⟩
  | cons m ms ih =>
    have h1 := h m (List.mem_cons_self ..)
    obtain ⟨i1, i2⟩ := ih (fun x hx => h x (List.mem_cons_of_mem _ hx))
    simp only [mintsTo, burnsBy, i1, i2, Nat.add_zero]
    cases m with
    | wasm a b c d => exact absurd rfl (h1 a b c d)
    | _ => exact ⟨rfl, rfl⟩

/-- `r` is a true ratio of the effective pool -/
def TR (r B S R : Nat) (mints burns : Nat) : Prop := r * (S + mints + R) ≤ B * D + r * burns

end Krp
