/-
  RateHubG.lean — the flow lemmas of RateHub / RateHub2 without the no-slash premise: stated about the
  pools `st0` that the handler's own slashing check produces (whatever it recognises), instead of the
  stored pools. With nothing to recognise `st0`'s pools are the stored ones and these are the
  lemmas of RateHub; with a slash pending they are what the State query already reported.
  Generated from RateHub.lean / RateHub2.lean by replacing the stored pools with `st0`'s.
-/
import Krp.Lemmas.RateHub2
namespace Krp
open HubSt

/-- the slashing check at the head of a handler, slash or not (non-degenerate state): requests as
    stored, rates re-derived from its own pools and the supplies -/
theorem checked_state (h st : HubSt) (e : HubEnv) (hst : h.actualState e = .ok st)
    (st0 : HubSt) (hst0 : h.actualState e = .ok st0)
    (hb : h.bsei = some bseiA) (hs : h.stsei = some stseiA)
    (bs ss : Nat) (hbs : e.supplyOf bseiA = .ok bs) (hss : e.supplyOf stseiA = .ok ss)
    (hd : e.delegations ≠ []) (hz : h.bBond + h.sBond ≠ 0) :
    st.bBond = st0.bBond ∧ st.sBond = st0.sBond ∧ st.reqB = h.reqB ∧ st.reqS = h.reqS ∧
    st.bRate = rateOf st0.bBond bs h.reqB ∧ st.sRate = rateOf st0.sBond ss h.reqS ∧
    st.bSupplyQ e = .ok bs ∧ st.sSupplyQ e = .ok ss ∧ st.bsei = some bseiA ∧ st.stsei = some stseiA := by
  have est : st = st0 := by rw [hst] at hst0; injection hst0
  subst est
  have sp := actualState_spec h st e hst
  have sb := sp.1
  have q1 : st.bSupplyQ e = .ok bs := by simp only [bSupplyQ, sb.bsei, hb]; exact hbs
  have q2 : st.sSupplyQ e = .ok ss := by simp only [sSupplyQ, sb.stsei, hs]; exact hss
  rcases sp.2 with ⟨hc, _⟩ | ⟨bs', ss', _, _, hbs', hss', hrb, hrs, _⟩
  · rcases hc with hc | hc
    · exact absurd hc hd
    · exact absurd hc hz
  · have e1 : bs' = bs := by
      simp only [bSupplyQ, hb] at hbs'; rw [hbs] at hbs'; injection hbs' with h1; exact h1.symm
    have e2 : ss' = ss := by
      simp only [sSupplyQ, hs] at hss'; rw [hss] at hss'; injection hss' with h1; exact h1.symm
    subst e1; subst e2
    exact ⟨rfl, rfl, sb.reqB, sb.reqS, hrb, hrs, q1, q2, by rw [sb.bsei]; exact hb, by rw [sb.stsei]; exact hs⟩

theorem calmG (h st : HubSt) (e : HubEnv) (hst : h.actualState e = .ok st)
    (st0 : HubSt) (hst0 : h.actualState e = .ok st0) :
    st.bBond = st0.bBond ∧ st.sBond = st0.sBond ∧ st.reqB = h.reqB ∧ st.reqS = h.reqS := by
  have est : st = st0 := by rw [hst] at hst0; injection hst0
  subst est
  have sb := (actualState_spec h st e hst).1
  exact ⟨rfl, rfl, sb.reqB, sb.reqS⟩

/-- Bond (bSei), on fresh pools -/
theorem flowG_bondB (h h' : HubSt) (e : HubEnv) (sender : Addr) (funds : List (Denom × Nat)) (ms : List Msg)
    (hx : h.bondB e sender funds = .ok (h', ms))
    (hself : e.self = hubA) (hb : h.bsei = some bseiA) (hs : h.stsei = some stseiA)
    (bs ss : Nat) (hbs : e.supplyOf bseiA = .ok bs) (hss : e.supplyOf stseiA = .ok ss)
    (st0 : HubSt) (hst0 : h.actualState e = .ok st0)
    (hd : e.delegations ≠ []) (hz : h.bBond + h.sBond ≠ 0) (rs : Nat)
    (trb : TR (rateOf st0.bBond bs h.reqB) st0.bBond bs h.reqB 0 0) (trs : TR rs st0.sBond ss h.reqS 0 0) :
    TR (rateOf st0.bBond bs h.reqB) h'.bBond bs h'.reqB (mintsTo bseiA ms) (burnsBy bseiA ms) ∧
    TR rs h'.sBond ss h'.reqS (mintsTo stseiA ms) (burnsBy stseiA ms) := by
  obtain ⟨p, st, mint, delegs, tok, hp, hst, _, hfee, hdel, htok, hh, hms⟩ := bondB_spec h h' e sender funds ms hx
  have f := checked_state h st e hst st0 hst0 hb hs bs ss hbs hss hd hz
  have htk : tok = bseiA := by rw [hb] at htok; injection htok with h1; exact h1.symm
  have hf := pegFeeOnMint_spec st _ _ _ _ hfee
  have hm : mint * rateOf st0.bBond bs h.reqB ≤ p * D := by
    rw [← f.2.2.2.2.1]
    exact Nat.le_trans (Nat.mul_le_mul_right _ hf.1) (decDiv_mul_le p st.bRate)
  have dl := flows_of_stake bseiA delegs (delegs_stake h e p delegs hself hdel).1
  have dl2 := flows_of_stake stseiA delegs (delegs_stake h e p delegs hself hdel).1
  subst hms; subst hh; subst htk
  rw [hself]
  simp only [mintsTo_append, burnsBy_append, dl.1, dl.2, dl2.1, dl2.2, (flows_mint bseiA bseiA sender mint).1,
    (flows_mint bseiA bseiA sender mint).2, (flows_mint stseiA bseiA sender mint).1,
    (flows_mint stseiA bseiA sender mint).2, if_true, if_neg bsei_ne_stsei, Nat.zero_add, f.1, f.2.1, f.2.2.1, f.2.2.2.1]
  constructor
  · unfold TR at *
    have k := rate_mono_add (rateOf st0.bBond bs h.reqB) st0.bBond (bs + 0 + h.reqB) p mint (by simpa using trb) hm
    simp only [Nat.mul_zero, Nat.add_zero] at k ⊢
    rw [show bs + mint + h.reqB = bs + h.reqB + mint by omega]
    exact k
  · exact trs


/-- BondForStSei, on fresh pools -/
theorem flowG_bondS (h h' : HubSt) (e : HubEnv) (sender : Addr) (funds : List (Denom × Nat)) (ms : List Msg)
    (hx : h.bondS e sender funds = .ok (h', ms))
    (hself : e.self = hubA) (hb : h.bsei = some bseiA) (hs : h.stsei = some stseiA)
    (bs ss : Nat) (hbs : e.supplyOf bseiA = .ok bs) (hss : e.supplyOf stseiA = .ok ss)
    (st0 : HubSt) (hst0 : h.actualState e = .ok st0)
    (hd : e.delegations ≠ []) (hz : h.bBond + h.sBond ≠ 0) (rb : Nat)
    (trb : TR rb st0.bBond bs h.reqB 0 0) (trs : TR (rateOf st0.sBond ss h.reqS) st0.sBond ss h.reqS 0 0) :
    TR rb h'.bBond bs h'.reqB (mintsTo bseiA ms) (burnsBy bseiA ms) ∧
    TR (rateOf st0.sBond ss h.reqS) h'.sBond ss h'.reqS (mintsTo stseiA ms) (burnsBy stseiA ms) := by
  obtain ⟨p, st, delegs, tok, hp, hst, _, hdel, htok, hh, hms⟩ := bondS_spec h h' e sender funds ms hx
  have f := checked_state h st e hst st0 hst0 hb hs bs ss hbs hss hd hz
  have htk : tok = stseiA := by rw [hs] at htok; injection htok with h1; exact h1.symm
  have hm : decDiv p st.sRate * rateOf st0.sBond ss h.reqS ≤ p * D := by
    rw [← f.2.2.2.2.2.1]; exact decDiv_mul_le p st.sRate
  have dl := flows_of_stake bseiA delegs (delegs_stake h e p delegs hself hdel).1
  have dl2 := flows_of_stake stseiA delegs (delegs_stake h e p delegs hself hdel).1
  subst hms; subst hh; subst htk
  rw [hself]
  simp only [mintsTo_append, burnsBy_append, dl.1, dl.2, dl2.1, dl2.2,
    (flows_mint bseiA stseiA sender (decDiv p st.sRate)).1, (flows_mint bseiA stseiA sender (decDiv p st.sRate)).2,
    (flows_mint stseiA stseiA sender (decDiv p st.sRate)).1, (flows_mint stseiA stseiA sender (decDiv p st.sRate)).2,
    if_true, if_neg bsei_ne_stsei.symm, Nat.zero_add, f.1, f.2.1, f.2.2.1, f.2.2.2.1]
  constructor
  · exact trb
  · unfold TR at *
    have k := rate_mono_add (rateOf st0.sBond ss h.reqS) st0.sBond (ss + 0 + h.reqS) p (decDiv p st.sRate) (by simpa using trs) hm
    simp only [Nat.mul_zero, Nat.add_zero] at k ⊢
    rw [show ss + decDiv p st.sRate + h.reqS = ss + h.reqS + decDiv p st.sRate by omega]
    exact k

/-- BondRewards, with anything in flight: the stSei pool grows, nothing else moves, nothing is minted -/
theorem flowG_bondR (h h' : HubSt) (e : HubEnv) (sender : Addr) (funds : List (Denom × Nat)) (ms : List Msg)
    (hx : h.bondR e sender funds = .ok (h', ms)) (hself : e.self = hubA)
    (st0 : HubSt) (hst0 : h.actualState e = .ok st0)
    (rb rs bs ss mb ub m2 u2 : Nat)
    (trb : TR rb st0.bBond bs h.reqB mb ub) (trs : TR rs st0.sBond ss h.reqS m2 u2) :
    TR rb h'.bBond bs h'.reqB (mintsTo bseiA ms + mb) (burnsBy bseiA ms + ub) ∧
    TR rs h'.sBond ss h'.reqS (mintsTo stseiA ms + m2) (burnsBy stseiA ms + u2) := by
  obtain ⟨p, st, _, hp, hst, hdel, hh⟩ := bondR_spec h h' e sender funds ms hx
  have c := calmG h st e hst st0 hst0
  have dl := flows_of_stake bseiA ms (delegs_stake h e p ms hself hdel).1
  have dl2 := flows_of_stake stseiA ms (delegs_stake h e p ms hself hdel).1
  subst hh
  simp only [dl.1, dl.2, dl2.1, dl2.2, Nat.zero_add, c.1, c.2.1, c.2.2.1, c.2.2.2]
  exact ⟨trb, trs.mono (Nat.le_add_right _ _)⟩


/-- Convert stSei→bSei, on fresh pools -/
theorem flowG_convertSB (h h' : HubSt) (e : HubEnv) (amount : Nat) (user : Addr) (ms : List Msg)
    (hx : h.convertSB e amount user = .ok (h', ms))
    (hself : e.self = hubA) (hb : h.bsei = some bseiA) (hs : h.stsei = some stseiA)
    (bs ss : Nat) (hbs : e.supplyOf bseiA = .ok bs) (hss : e.supplyOf stseiA = .ok ss)
    (st0 : HubSt) (hst0 : h.actualState e = .ok st0)
    (hd : e.delegations ≠ []) (hz : h.bBond + h.sBond ≠ 0)
    (trb : TR (rateOf st0.bBond bs h.reqB) st0.bBond bs h.reqB 0 0)
    (trs : TR (rateOf st0.sBond ss h.reqS) st0.sBond ss h.reqS 0 0) :
    TR (rateOf st0.bBond bs h.reqB) h'.bBond bs h'.reqB (mintsTo bseiA ms) (burnsBy bseiA ms) ∧
    TR (rateOf st0.sBond ss h.reqS) h'.sBond ss h'.reqS (mintsTo stseiA ms) (burnsBy stseiA ms) := by
  obtain ⟨st, sTok, bTok, bs', ss', mint, hst, hsT, hbT, _, hbs', hss', hfee, hle, _, hh, hms⟩ :=
    convertSB_spec h h' e amount user ms hx
  have f := checked_state h st e hst st0 hst0 hb hs bs ss hbs hss hd hz
  have hbt : bTok = bseiA := by rw [hb] at hbT; injection hbT with h1; exact h1.symm
  have hstk : sTok = stseiA := by rw [hs] at hsT; injection hsT with h1; exact h1.symm
  have e1 : bs' = bs := by rw [f.2.2.2.2.2.2.1] at hbs'; injection hbs' with h1; exact h1.symm
  have hf := pegFeeOnMint_spec st _ _ _ _ hfee
  have hv : mulDec amount st.sRate * D ≤ amount * rateOf st0.sBond ss h.reqS := by
    rw [← f.2.2.2.2.2.1]; exact mulDec_mul_le _ _
  have hm : mint * rateOf st0.bBond bs h.reqB ≤ mulDec amount st.sRate * D := by
    rw [← f.2.2.2.2.1]
    exact Nat.le_trans (Nat.mul_le_mul_right _ hf.1) (decDiv_mul_le _ _)
  have hle' : mulDec amount st.sRate ≤ st0.sBond := by rw [← f.2.1]; exact hle
  subst hms; subst hh; subst hbt; subst hstk
  rw [hself]
  simp only [mintsTo, burnsBy, tokMsg, if_true, if_neg bsei_ne_stsei, if_neg bsei_ne_stsei.symm, true_and, and_true,
    Nat.add_zero, Nat.zero_add, f.1, f.2.1, f.2.2.1, f.2.2.2.1]
  constructor
  · unfold TR at *
    have k := rate_mono_add (rateOf st0.bBond bs h.reqB) st0.bBond (bs + 0 + h.reqB) _ mint (by simpa using trb) hm
    simp only [Nat.mul_zero, Nat.add_zero] at k ⊢
    rw [show bs + mint + h.reqB = bs + h.reqB + mint by omega]
    exact k
  · unfold TR at *
    simp only [Nat.mul_zero, Nat.add_zero] at trs ⊢
    rw [Nat.sub_mul, Nat.mul_comm (rateOf st0.sBond ss h.reqS) amount]
    have : mulDec amount st.sRate * D ≤ st0.sBond * D := Nat.mul_le_mul_right _ hle'
    omega

/-- Convert bSei→stSei, on fresh pools -/
theorem flowG_convertBS (h h' : HubSt) (e : HubEnv) (amount : Nat) (user : Addr) (ms : List Msg)
    (hx : h.convertBS e amount user = .ok (h', ms))
    (hself : e.self = hubA) (hb : h.bsei = some bseiA) (hs : h.stsei = some stseiA)
    (bs ss : Nat) (hbs : e.supplyOf bseiA = .ok bs) (hss : e.supplyOf stseiA = .ok ss)
    (st0 : HubSt) (hst0 : h.actualState e = .ok st0)
    (hd : e.delegations ≠ []) (hz : h.bBond + h.sBond ≠ 0)
    (trb : TR (rateOf st0.bBond bs h.reqB) st0.bBond bs h.reqB 0 0)
    (trs : TR (rateOf st0.sBond ss h.reqS) st0.sBond ss h.reqS 0 0) :
    TR (rateOf st0.bBond bs h.reqB) h'.bBond bs h'.reqB (mintsTo bseiA ms) (burnsBy bseiA ms) ∧
    TR (rateOf st0.sBond ss h.reqS) h'.sBond ss h'.reqS (mintsTo stseiA ms) (burnsBy stseiA ms) := by
  obtain ⟨st, sTok, bTok, bs', ss', withFee, hst, hsT, hbT, hbs', hss', hfee, _, hle, _, hh, hms⟩ :=
    convertBS_spec h h' e amount user ms hx
  have f := checked_state h st e hst st0 hst0 hb hs bs ss hbs hss hd hz
  have hbt : bTok = bseiA := by rw [hb] at hbT; injection hbT with h1; exact h1.symm
  have hstk : sTok = stseiA := by rw [hs] at hsT; injection hsT with h1; exact h1.symm
  have hf := pegFeeOnBurn_spec st _ _ _ hfee
  have hv : mulDec withFee st.bRate * D ≤ amount * rateOf st0.bBond bs h.reqB := by
    rw [← f.2.2.2.2.1]
    exact Nat.le_trans (mulDec_mul_le _ _) (Nat.mul_le_mul_right _ hf.1)
  have hm : decDiv (mulDec withFee st.bRate) st.sRate * rateOf st0.sBond ss h.reqS ≤ mulDec withFee st.bRate * D := by
    rw [← f.2.2.2.2.2.1]; exact decDiv_mul_le _ _
  have hle' : mulDec withFee st.bRate ≤ st0.bBond := by rw [← f.1]; exact hle
  subst hms; subst hh; subst hbt; subst hstk
  rw [hself]
  simp only [mintsTo, burnsBy, tokMsg, if_true, if_neg bsei_ne_stsei, if_neg bsei_ne_stsei.symm, true_and, and_true,
    Nat.add_zero, Nat.zero_add, f.1, f.2.1, f.2.2.1, f.2.2.2.1]
  constructor
  · unfold TR at *
    simp only [Nat.mul_zero, Nat.add_zero] at trb ⊢
    rw [Nat.sub_mul, Nat.mul_comm (rateOf st0.bBond bs h.reqB) amount]
    have : mulDec withFee st.bRate * D ≤ st0.bBond * D := Nat.mul_le_mul_right _ hle'
    omega
  · unfold TR at *
    have k := rate_mono_add (rateOf st0.sBond ss h.reqS) st0.sBond (ss + 0 + h.reqS) _ _ (by simpa using trs) hm
    simp only [Nat.mul_zero, Nat.add_zero] at k ⊢
    rw [show ss + decDiv (mulDec withFee st.bRate) st.sRate + h.reqS = ss + h.reqS + decDiv (mulDec withFee st.bRate) st.sRate by omega]
    exact k


/-- Unbond (stSei), on fresh pools: the request joins the open batch (and the tokens are burnt
    later), or the whole batch is undelegated at the stored rates -/
theorem flowG_unbondS (h h' : HubSt) (e : HubEnv) (amount : Nat) (user : Addr) (ms : List Msg)
    (hx : h.unbondS e amount user = .ok (h', ms))
    (hself : e.self = hubA) (hb : h.bsei = some bseiA) (hs : h.stsei = some stseiA)
    (bs ss : Nat) (hbs : e.supplyOf bseiA = .ok bs) (hss : e.supplyOf stseiA = .ok ss)
    (st0 : HubSt) (hst0 : h.actualState e = .ok st0)
    (hd : e.delegations ≠ []) (hz : h.bBond + h.sBond ≠ 0)
    (trb : TR (rateOf st0.bBond bs h.reqB) st0.bBond bs h.reqB 0 0)
    (trs : TR (rateOf st0.sBond ss h.reqS) st0.sBond ss h.reqS 0 0) :
    TR (rateOf st0.bBond bs h.reqB) h'.bBond bs h'.reqB (mintsTo bseiA ms) (burnsBy bseiA ms) ∧
    TR (rateOf st0.sBond ss h.reqS) h'.sBond ss h'.reqS (mintsTo stseiA ms) (burnsBy stseiA ms) := by
  obtain ⟨st, tok, hst, _, htok, hcase⟩ := unbondS_spec h h' e amount user ms hx
  have f := checked_state h st e hst st0 hst0 hb hs bs ss hbs hss hd hz
  obtain ⟨f1, f2, f3, f4, f5, f6, _⟩ := f
  have htk : tok = stseiA := by rw [hs] at htok; injection htok with h1; exact h1.symm
  subst htk
  have trb' : rateOf st0.bBond bs h.reqB * (bs + h.reqB) ≤ st0.bBond * D := by
    unfold TR at trb; simpa using trb
  have trs' : rateOf st0.sBond ss h.reqS * (ss + h.reqS) ≤ st0.sBond * D := by
    unfold TR at trs; simpa using trs
  rcases hcase with ⟨_, um, hp, hms⟩ | ⟨_, hh, hms⟩
  · -- the batch is closed
    obtain ⟨hpick, hls, hlb, es, eb, _, _, rb0', rs0', _⟩ := processUndelegations_spec _ _ _ _ hp
    have st1 := flows_of_stake bseiA um (undelegs_stake e _ um hself hpick).1
    have st2 := flows_of_stake stseiA um (undelegs_stake e _ um hself hpick).1
    have e1 : (st.afterUnbondS user amount).reqB = h.reqB := f3
    have e2 : (st.afterUnbondS user amount).reqS = h.reqS + amount := by show st.reqS + amount = _; rw [f4]
    have e3 : (st.afterUnbondS user amount).bRate = rateOf st0.bBond bs h.reqB := f5
    have e4 : (st.afterUnbondS user amount).sRate = rateOf st0.sBond ss h.reqS := f6
    have e5 : (st.afterUnbondS user amount).bBond = st0.bBond := f1
    have e6 : (st.afterUnbondS user amount).sBond = st0.sBond := f2
    rw [e1, e3, e5] at hlb eb
    rw [e2, e4, e6] at hls es
    subst hms
    rw [hself]
    have fb := flows_burn bseiA stseiA amount
    have fs := flows_burn stseiA stseiA amount
    rw [if_neg bsei_ne_stsei.symm] at fb
    rw [if_pos rfl] at fs
    rw [mintsTo_append, burnsBy_append, mintsTo_append, burnsBy_append, st1.1, st1.2, st2.1, st2.2, fb.1, fb.2, fs.1, fs.2,
      rb0', rs0', es, eb]
    unfold TR
    constructor
    · have := tr_close_same D _ st0.bBond bs h.reqB _ trb' (mulDec_mul_le _ _) hlb
      simpa using this
    · have := tr_close_burn D _ st0.sBond ss h.reqS amount _ trs' (mulDec_mul_le _ _) hls
      simpa using this
  · subst hms; subst hh
    rw [hself]
    have fb := flows_burn bseiA stseiA amount
    have fs := flows_burn stseiA stseiA amount
    rw [if_neg bsei_ne_stsei.symm] at fb
    rw [if_pos rfl] at fs
    rw [fb.1, fb.2, fs.1, fs.2]
    show TR _ st.bBond bs st.reqB 0 0 ∧ TR _ st.sBond ss (st.reqS + amount) 0 amount
    rw [f1, f2, f3, f4]
    unfold TR
    constructor
    · simpa using trb'
    · have := tr_request D _ st0.sBond ss h.reqS amount trs'
      simpa using this


/-- Unbond (bSei), on fresh pools -/
theorem flowG_unbondB (h h' : HubSt) (e : HubEnv) (amount : Nat) (user : Addr) (ms : List Msg)
    (hx : h.unbondB e amount user = .ok (h', ms))
    (hself : e.self = hubA) (hb : h.bsei = some bseiA) (hs : h.stsei = some stseiA)
    (bs ss : Nat) (hbs : e.supplyOf bseiA = .ok bs) (hss : e.supplyOf stseiA = .ok ss)
    (st0 : HubSt) (hst0 : h.actualState e = .ok st0)
    (hd : e.delegations ≠ []) (hz : h.bBond + h.sBond ≠ 0)
    (trb : TR (rateOf st0.bBond bs h.reqB) st0.bBond bs h.reqB 0 0)
    (trs : TR (rateOf st0.sBond ss h.reqS) st0.sBond ss h.reqS 0 0) :
    TR (rateOf st0.bBond bs h.reqB) h'.bBond bs h'.reqB (mintsTo bseiA ms) (burnsBy bseiA ms) ∧
    TR (rateOf st0.sBond ss h.reqS) h'.sBond ss h'.reqS (mintsTo stseiA ms) (burnsBy stseiA ms) := by
  obtain ⟨st, supply, withFee, tok, hst, hsup, hfee, hle, _, htok, hcase⟩ := unbondB_spec h h' e amount user ms hx
  have f := checked_state h st e hst st0 hst0 hb hs bs ss hbs hss hd hz
  obtain ⟨f1, f2, f3, f4, f5, f6, f7, _⟩ := f
  have htk : tok = bseiA := by rw [hb] at htok; injection htok with h1; exact h1.symm
  subst htk
  have esup : supply = bs := by rw [f7] at hsup; injection hsup with h1; exact h1.symm
  subst esup
  have hw : withFee ≤ amount := (pegFeeOnBurn_spec st _ _ _ hfee).1
  have trb' : rateOf st0.bBond supply h.reqB * (supply + h.reqB) ≤ st0.bBond * D := by
    unfold TR at trb; simpa using trb
  have trs' : rateOf st0.sBond ss h.reqS * (ss + h.reqS) ≤ st0.sBond * D := by
    unfold TR at trs; simpa using trs
  have fb := flows_burn bseiA bseiA amount
  have fs := flows_burn stseiA bseiA amount
  rw [if_pos rfl] at fb
  rw [if_neg bsei_ne_stsei] at fs
  rcases hcase with ⟨_, um, hp, hms⟩ | ⟨_, hh, hms⟩
  · obtain ⟨hpick, hls, hlb, es, eb, _, _, rb0', rs0', _⟩ := processUndelegations_spec _ _ _ _ hp
    have st1 := flows_of_stake bseiA um (undelegs_stake e _ um hself hpick).1
    have st2 := flows_of_stake stseiA um (undelegs_stake e _ um hself hpick).1
    have e1 : (st.afterUnbondB user supply amount withFee).reqB = h.reqB + withFee := by
      show st.reqB + withFee = _; rw [f3]
    have e2 : (st.afterUnbondB user supply amount withFee).reqS = h.reqS := f4
    have e3 : (st.afterUnbondB user supply amount withFee).bRate = rateOf st0.bBond (supply - amount) (h.reqB + withFee) := by
      show rateOf st.bBond (supply - amount) (st.reqB + withFee) = _; rw [f1, f3]
    have e4 : (st.afterUnbondB user supply amount withFee).sRate = rateOf st0.sBond ss h.reqS := f6
    have e5 : (st.afterUnbondB user supply amount withFee).bBond = st0.bBond := f1
    have e6 : (st.afterUnbondB user supply amount withFee).sBond = st0.sBond := f2
    rw [e1, e3, e5] at hlb eb
    rw [e2, e4, e6] at hls es
    subst hms
    rw [hself]
    rw [mintsTo_append, burnsBy_append, mintsTo_append, burnsBy_append, st1.1, st1.2, st2.1, st2.2, fb.1, fb.2, fs.1, fs.2,
      rb0', rs0', es, eb]
    unfold TR
    constructor
    · have hρ : st0.bBond = 0 ∨ (supply - amount) + (h.reqB + withFee) = 0 ∨
          (rateOf st0.bBond supply h.reqB ≤ rateOf st0.bBond (supply - amount) (h.reqB + withFee) ∧
           rateOf st0.bBond (supply - amount) (h.reqB + withFee) * ((supply - amount) + (h.reqB + withFee)) ≤ st0.bBond * D) := by
        by_cases hB : st0.bBond = 0
        · exact Or.inl hB
        · by_cases hC : (supply - amount) + (h.reqB + withFee) = 0
          · exact Or.inr (Or.inl hC)
          · refine Or.inr (Or.inr ⟨?_, rateOf_mul_le _ _ _ (Or.inl (Nat.pos_of_ne_zero hB))⟩)
            apply le_rateOf _ _ _ _ (Nat.pos_of_ne_zero hB) (Nat.pos_of_ne_zero hC)
            refine Nat.le_trans (Nat.mul_le_mul_left _ ?_) trb'
            omega
      have := tr_close_repriced D _ _ st0.bBond supply amount withFee h.reqB _ trb' (by omega) hρ (mulDec_mul_le _ _) hlb
      simpa using this
    · have := tr_close_same D _ st0.sBond ss h.reqS _ trs' (mulDec_mul_le _ _) hls
      simpa using this
  · subst hms; subst hh
    rw [hself, fb.1, fb.2, fs.1, fs.2]
    show TR _ st.bBond supply (st.reqB + withFee) 0 amount ∧ TR _ st.sBond ss st.reqS 0 0
    rw [f1, f2, f3, f4]
    unfold TR
    constructor
    · have := tr_request_fee D _ st0.bBond supply h.reqB amount withFee trb' hw
      simpa using this
    · simpa using trs'



/-- **every minting / redeeming hub entry point (the triggers), slash pending or not**: the true ratios
    of the pools the handler's own slashing check produces are carried to the pools it leaves, with
    what it emits in flight -/
theorem hub_flowG (h h' : HubSt) (e : HubEnv) (sender : Addr) (funds : List (Denom × Nat)) (m : HubMsg)
    (ms : List Msg) (hx : hubExec h e sender funds m = .ok (h', ms))
    (htr : Trg (.wasm sender hubA (.hub m) funds) = true)
    (hself : e.self = hubA) (hb : h.bsei = some bseiA) (hs : h.stsei = some stseiA)
    (bs ss : Nat) (hbs : e.supplyOf bseiA = .ok bs) (hss : e.supplyOf stseiA = .ok ss)
    (st0 : HubSt) (hst0 : h.actualState e = .ok st0)
    (hd : e.delegations ≠ []) (hz : h.bBond + h.sBond ≠ 0)
    (trb : TR (rateOf st0.bBond bs h.reqB) st0.bBond bs h.reqB 0 0)
    (trs : TR (rateOf st0.sBond ss h.reqS) st0.sBond ss h.reqS 0 0) :
    TR (rateOf st0.bBond bs h.reqB) h'.bBond bs h'.reqB (mintsTo bseiA ms) (burnsBy bseiA ms) ∧
    TR (rateOf st0.sBond ss h.reqS) h'.sBond ss h'.reqS (mintsTo stseiA ms) (burnsBy stseiA ms) := by
  cases m with
  | bond =>
    simp only [hubExec] at hx; split at hx
    · cases hx
    · exact flowG_bondB h h' e sender funds ms hx hself hb hs bs ss hbs hss st0 hst0 hd hz _ trb trs
  | bondForStSei =>
    simp only [hubExec] at hx; split at hx
    · cases hx
    · exact flowG_bondS h h' e sender funds ms hx hself hb hs bs ss hbs hss st0 hst0 hd hz _ trb trs
  | receive user amt hook =>
    simp only [hubExec] at hx
    split at hx
    · cases hx
    · exc_norm at hx
      split at hx
      · cases hx
      · split at hx
        · cases hx
        · cases hook with
          | other => simp only [] at hx; cases hx
          | convert =>
            simp only [] at hx
            split at hx
            · exact flowG_convertBS h h' e amt user ms hx hself hb hs bs ss hbs hss st0 hst0 hd hz trb trs
            · split at hx
              · exact flowG_convertSB h h' e amt user ms hx hself hb hs bs ss hbs hss st0 hst0 hd hz trb trs
              · cases hx
          | unbond =>
            simp only [] at hx
            split at hx
            · exact flowG_unbondB h h' e amt user ms hx hself hb hs bs ss hbs hss st0 hst0 hd hz trb trs
            · split at hx
              · exact flowG_unbondS h h' e amt user ms hx hself hb hs bs ss hbs hss st0 hst0 hd hz trb trs
              · cases hx
  | _ => simp [Trg] at htr

end Krp
