/-
  Steer.lean — which messages can put stake on a given validator `v`, and who emits them.

  `Bad v m`: message `m`, if handled, could add to the hub's delegation on `v` or bring `v` back
  into the registry: a Delegate to `v`, a Redelegate to `v`, a RedelegateProxy whose plan names `v`,
  a registry AddValidator for `v`.  No contract emits such a message while `v` is not registered:
  the hub delegates only to validators the registry returns, forwards a proxy plan as is, and the
  registry plans redelegations over its current validators only.
-/
import Krp.Lemmas.Reach
import Krp.Props.C02
namespace Krp
open HubSt

def Bad (v : Addr) : Msg → Prop
  | .delegate _ v' _ => v' = v
  | .redelegate _ _ dst _ => dst = v
  | .wasm _ _ (.hub (.redelegateProxy _ plan)) _ => ∃ p ∈ plan, p.1 = v
  | .wasm _ _ (.reg (.add v')) _ => v' = v
  | _ => False

def AllOk (v : Addr) (ms : List Msg) : Prop := ∀ m ∈ ms, ¬ Bad v m

theorem AllOk.nil (v : Addr) : AllOk v [] := fun _ h => by cases h
theorem AllOk.cons {v : Addr} {m : Msg} {ms : List Msg} (h1 : ¬ Bad v m) (h2 : AllOk v ms) : AllOk v (m :: ms) := by
  intro x hx
  rcases List.mem_cons.mp hx with rfl | h
  · exact h1
  · exact h2 x h
theorem AllOk.append {v : Addr} {x y : List Msg} (h1 : AllOk v x) (h2 : AllOk v y) : AllOk v (x ++ y) := by
  intro m hm
  rcases List.mem_append.mp hm with h | h
  · exact h1 m h
  · exact h2 m h

/-- stake scheduled to leave `v`: pending Redelegate messages from `v` and pending proxy plans for `v`
    addressed to the hub -/
def leaving (v : Addr) : Msg → Nat
  | .redelegate _ src _ amt => if src = v then amt else 0
  | .wasm _ t (.hub (.redelegateProxy src plan)) _ => if t = hubA ∧ src = v then (plan.map (·.2)).sum else 0
  | _ => 0

def leavingAll (v : Addr) (q : List Msg) : Nat := (q.map (leaving v)).sum

theorem leavingAll_append (v : Addr) (x y : List Msg) : leavingAll v (x ++ y) = leavingAll v x + leavingAll v y := by
  simp [leavingAll]

theorem leavingAll_cons (v : Addr) (m : Msg) (q : List Msg) : leavingAll v (m :: q) = leaving v m + leavingAll v q := by
  simp [leavingAll]

/-- messages that neither steer stake nor schedule it to leave: everything except Delegate,
    Redelegate, RedelegateProxy and AddValidator -/
def Plain : Msg → Bool
  | .delegate _ _ _ => false
  | .redelegate _ _ _ _ => false
  | .wasm _ _ (.hub (.redelegateProxy _ _)) _ => false
  | .wasm _ _ (.reg (.add _)) _ => false
  | _ => true

theorem plain_ok (v : Addr) (m : Msg) (h : Plain m = true) : ¬ Bad v m ∧ leaving v m = 0 := by
  cases m with
  | wasm s t c f =>
    cases c with
    | hub hm => cases hm <;> simp_all [Plain, Bad, leaving]
    | reg rm => cases rm <;> simp_all [Plain, Bad, leaving]
    | _ => simp [Bad, leaving]
  | _ => simp_all [Plain, Bad, leaving]

def AllPlain (ms : List Msg) : Prop := ∀ m ∈ ms, Plain m = true

theorem AllPlain.nil : AllPlain [] := fun _ h => by cases h
theorem AllPlain.cons {m : Msg} {ms : List Msg} (h1 : Plain m = true) (h2 : AllPlain ms) : AllPlain (m :: ms) := by
  intro x hx
  rcases List.mem_cons.mp hx with rfl | h
  · exact h1
  · exact h2 x h
theorem AllPlain.append {x y : List Msg} (h1 : AllPlain x) (h2 : AllPlain y) : AllPlain (x ++ y) := by
  intro m hm
  rcases List.mem_append.mp hm with h | h
  · exact h1 m h
  · exact h2 m h

theorem AllPlain.ok {v : Addr} {ms : List Msg} (h : AllPlain ms) : AllOk v ms ∧ leavingAll v ms = 0 := by
  induction ms with
  | nil => exact ⟨AllOk.nil v, rfl⟩
  | cons m ms ih =>
    have hm := plain_ok v m (h m (List.mem_cons_self ..))
    have r := ih (fun x hx => h x (List.mem_cons_of_mem _ hx))
    exact ⟨AllOk.cons hm.1 r.1, by rw [leavingAll_cons, hm.2, r.2]⟩

end Krp
