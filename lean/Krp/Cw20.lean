/-
  Cw20.lean — token ledger: packages/cw20-legacy (bSei) and cw20-base 0.16 (stSei), and the
  bSei / stSei wrapper handlers (contracts/basset_sei_token_{bsei,stsei}/src/handler.rs).
-/
import Krp.Types
namespace Krp

structure Block where
  height : Nat
  time : Nat
  deriving Repr, Inhabited

def Expiry.isExpired (e : Expiry) (b : Block) : Bool :=
  match e with
  | .atHeight h => h ≤ b.height
  | .atTime t => t ≤ b.time
  | .never => false

structure Token where
  bal : Addr → Nat
  holders : List Addr                 -- keys ever written (ghost: used by the sum theorems)
  supply : Nat
  minter : Option Addr
  allowSet : Addr → Addr → Bool       -- ALLOWANCES entry exists
  allowAmt : Addr → Addr → Nat
  allowExp : Addr → Addr → Expiry
  hub : Addr                          -- HUB_CONTRACT item of the wrapper
  legacy : Bool                       -- true: cw20-legacy (bSei); false: cw20-base 0.16 (stSei)
  deriving Inhabited

namespace Token

def setBal (t : Token) (a : Addr) (v : Nat) : Token :=
  { t with bal := upd t.bal a v, holders := addKey t.holders a }

def setAllow (t : Token) (o s : Addr) (amt : Nat) (e : Expiry) : Token :=
  { t with allowSet := upd t.allowSet o (upd (t.allowSet o) s true),
           allowAmt := upd t.allowAmt o (upd (t.allowAmt o) s amt),
           allowExp := upd t.allowExp o (upd (t.allowExp o) s e) }

def delAllow (t : Token) (o s : Addr) : Token :=
  { t with allowSet := upd t.allowSet o (upd (t.allowSet o) s false),
           allowAmt := upd t.allowAmt o (upd (t.allowAmt o) s 0),
           allowExp := upd t.allowExp o (upd (t.allowExp o) s .never) }

/-- move `amt` from `src` to `dst` (two `BALANCES.update`s, in the Rust order) -/
def move (t : Token) (src dst : Addr) (amt : Nat) : Res Token :=
  if t.bal src < amt then .error "insufficient balance"
  else
    let t1 := t.setBal src (t.bal src - amt)
    .ok (t1.setBal dst (t1.bal dst + amt))

def transfer (t : Token) (sender to : Addr) (amt : Nat) : Res Token :=
  if amt = 0 then .error "invalid zero amount" else t.move sender to amt

def burn (t : Token) (sender : Addr) (amt : Nat) : Res Token :=
  if amt = 0 then .error "invalid zero amount"
  else if t.bal sender < amt then .error "insufficient balance"
  else if t.supply < amt then .error "supply underflow"
  else .ok { (t.setBal sender (t.bal sender - amt)) with supply := t.supply - amt }

def mint (t : Token) (sender to : Addr) (amt : Nat) : Res Token :=
  if amt = 0 then .error "invalid zero amount"
  else if t.minter ≠ some sender then .error "unauthorized"
  else .ok { (t.setBal to (t.bal to + amt)) with supply := t.supply + amt }

def incAllow (t : Token) (b : Block) (owner spender : Addr) (amt : Nat) (exp : Option Expiry) :
    Res Token :=
  if spender = owner then .error "cannot set own account"
  else
    match exp with
    | some e =>
      if !t.legacy && e.isExpired b then .error "invalid expiration"
      else .ok (t.setAllow owner spender (t.allowAmt owner spender + amt) e)
    | none =>
      .ok (t.setAllow owner spender (t.allowAmt owner spender + amt) (t.allowExp owner spender))

def decAllow (t : Token) (b : Block) (owner spender : Addr) (amt : Nat) (exp : Option Expiry) :
    Res Token :=
  if spender = owner then .error "cannot set own account"
  else if !t.allowSet owner spender then .error "no allowance"
  else if amt < t.allowAmt owner spender then
    match exp with
    | some e =>
      if !t.legacy && e.isExpired b then .error "invalid expiration"
      else .ok (t.setAllow owner spender (t.allowAmt owner spender - amt) e)
    | none =>
      .ok (t.setAllow owner spender (t.allowAmt owner spender - amt) (t.allowExp owner spender))
  else .ok (t.delAllow owner spender)

def deduct (t : Token) (b : Block) (owner spender : Addr) (amt : Nat) : Res Token :=
  if !t.allowSet owner spender then .error "no allowance"
  else if (t.allowExp owner spender).isExpired b then .error "expired"
  else if t.allowAmt owner spender < amt then .error "allowance underflow"
  else .ok (t.setAllow owner spender (t.allowAmt owner spender - amt) (t.allowExp owner spender))

def transferFrom (t : Token) (b : Block) (spender owner to : Addr) (amt : Nat) : Res Token :=
  match t.deduct b owner spender amt with
  | .error e => .error e
  | .ok t1 => t1.move owner to amt

def burnFrom (t : Token) (b : Block) (spender owner : Addr) (amt : Nat) : Res Token :=
  match t.deduct b owner spender amt with
  | .error e => .error e
  | .ok t1 =>
    if t1.bal owner < amt then .error "insufficient balance"
    else if t1.supply < amt then .error "supply underflow"
    else .ok { (t1.setBal owner (t1.bal owner - amt)) with supply := t1.supply - amt }

def updateMinter (t : Token) (sender : Addr) (n : Option Addr) : Res Token :=
  if t.minter ≠ some sender then .error "unauthorized" else .ok { t with minter := n }

end Token

/-- the `Cw20ReceiveMsg` a `Send`/`SendFrom` emits -/
def receiveMsg (self cw20Sender contract : Addr) (hubAddr : Addr) (amt : Nat) (hook : Hook) : Msg :=
  if contract = hubAddr then
    .wasm self contract (.hub (.receive cw20Sender amt hook)) []
  else
    .wasm self contract (.receiveHook cw20Sender amt hook) []

/-- bSei wrapper handlers. `rewardAddr` is the result of `query_reward_contract` (hub config →
    dispatcher config); `hubOfChain` is the address the receive hook is typed for. -/
def bseiExec (t : Token) (b : Block) (self : Addr) (rewardAddr : Res Addr) (hubOfChain : Addr)
    (sender : Addr) (m : TokMsg) : Res (Token × List Msg) :=
  let dec (r a : Addr) (amt : Nat) : Msg := .wasm self r (.reward (.decrease a amt)) []
  let inc (r a : Addr) (amt : Nat) : Msg := .wasm self r (.reward (.increase a amt)) []
  match m with
  | .transfer to amt => do
    let r ← rewardAddr
    let t' ← t.transfer sender to amt
    pure (t', [dec r sender amt, inc r to amt])
  | .burn amt => do
    let r ← rewardAddr
    if sender ≠ t.hub then throw "unauthorized"
    let t' ← t.burn sender amt
    pure (t', [dec r sender amt])
  | .mint to amt => do
    let r ← rewardAddr
    let t' ← t.mint sender to amt
    pure (t', [inc r to amt])
  | .send c amt hook => do
    let r ← rewardAddr
    let t' ← t.transfer sender c amt
    pure (t', [dec r sender amt, inc r c amt, receiveMsg self sender c hubOfChain amt hook])
  | .incAllow s amt e => do
    let t' ← t.incAllow b sender s amt e
    pure (t', [])
  | .decAllow s amt e => do
    let t' ← t.decAllow b sender s amt e
    pure (t', [])
  | .transferFrom o to amt => do
    let r ← rewardAddr
    let t' ← t.transferFrom b sender o to amt
    pure (t', [dec r o amt, inc r to amt])
  | .burnFrom o amt => do
    let r ← rewardAddr
    let t' ← t.burnFrom b sender o amt
    pure (t', [dec r o amt, .wasm self t.hub (.hub .checkSlashing) []])
  | .sendFrom o c amt hook => do
    let r ← rewardAddr
    let t' ← t.transferFrom b sender o c amt
    pure (t', [dec r o amt, inc r c amt, receiveMsg self sender c hubOfChain amt hook])
  | .updateMinter _ => throw "unknown variant"
  | .updateMarketing => throw "unknown variant"

/-- stSei wrapper handlers (cw20-base 0.16 underneath). -/
def stseiExec (t : Token) (b : Block) (self : Addr) (hubOfChain : Addr)
    (sender : Addr) (m : TokMsg) : Res (Token × List Msg) :=
  match m with
  | .transfer to amt => do
    let t' ← t.transfer sender to amt
    pure (t', [])
  | .burn amt => do
    if sender ≠ t.hub then throw "unauthorized"
    let t' ← t.burn sender amt
    pure (t', [.wasm self t.hub (.hub .checkSlashing) []])
  | .mint to amt => do
    let t' ← t.mint sender to amt
    pure (t', [])
  | .send c amt hook => do
    let t' ← t.transfer sender c amt
    pure (t', [receiveMsg self sender c hubOfChain amt hook])
  | .incAllow s amt e => do
    let t' ← t.incAllow b sender s amt e
    pure (t', [])
  | .decAllow s amt e => do
    let t' ← t.decAllow b sender s amt e
    pure (t', [])
  | .transferFrom o to amt => do
    let t' ← t.transferFrom b sender o to amt
    pure (t', [])
  | .burnFrom o amt => do
    let t' ← t.burnFrom b sender o amt
    pure (t', [.wasm self t.hub (.hub .checkSlashing) []])
  | .sendFrom o c amt hook => do
    let t' ← t.transferFrom b sender o c amt
    pure (t', [receiveMsg self sender c hubOfChain amt hook])
  | .updateMinter n => do
    let t' ← t.updateMinter sender n
    pure (t', [])
  | .updateMarketing => throw "unauthorized"     -- marketing address is never a cast member

end Krp
